#!/usr/bin/env python3
"""Verification of seeded property-breaking changes (mutation seeding).

  ./seedtool.py verify <ID> <a|b> [--src /tmp/seed-<ID>/SEED] [--tier quick|thorough] [--keep]
      1. fresh scratch worktree of /repo HEAD under /tmp, patch applied, `go build ./...`
      2. existing tests of the touched packages pass with the change
      3. the seeder's demonstration FAILS with the change and PASSES without it
      4. `VERIF_REPO=<worktree> ./check <ID>` is run against the changed tree (expected exit 1)
      5. patch, demonstration and meta.json are stored under /verif/seeded/<ID>_<x>/
      the scratch worktree is removed afterwards.
  ./seedtool.py recheck [<ID>_<x> ...]   re-run step 4 for stored seeds (all when none given)
  ./seedtool.py table                    print the detection table (markdown)
"""
import glob
import json
import os
import re
import shutil
import subprocess
import sys
import time

VERIF = os.path.dirname(os.path.abspath(__file__))
REPO = "/repo"
ENV = dict(os.environ, GOFLAGS="-mod=mod", GOPROXY="off", GOSUMDB="off", GOTOOLCHAIN="local")
FLAKY = ["TestWatchCoordinationWindows"]


def sh(cmd, cwd=None, timeout=3600, env=ENV):
    try:
        r = subprocess.run(cmd, cwd=cwd, env=env, shell=isinstance(cmd, str), stdout=subprocess.PIPE,
                           stderr=subprocess.STDOUT, text=True, timeout=timeout)
        return r.returncode, r.stdout
    except subprocess.TimeoutExpired as e:
        return -9, (e.stdout or "") + "\nTIMEOUT"


def mkwt(name):
    wt = "/tmp/vs-" + name
    if os.path.isdir(wt):
        sh(["git", "-C", REPO, "worktree", "remove", "--force", wt])
        shutil.rmtree(wt, ignore_errors=True)
    rc, out = sh(["git", "-C", REPO, "worktree", "add", "--detach", wt, "HEAD"])
    if rc != 0:
        raise SystemExit("worktree: " + out)
    return wt


def rmwt(wt):
    sh(["git", "-C", REPO, "worktree", "remove", "--force", wt])
    shutil.rmtree(wt, ignore_errors=True)
    alt = glob.glob(os.path.join(VERIF, "work", "alt-*"))
    for a in alt:
        # scratch output of runs against removed worktrees
        marker = os.path.join(a, "repo_path")
        if os.path.exists(marker) and open(marker).read().strip() == wt:
            shutil.rmtree(a, ignore_errors=True)


def touched_packages(patch_text):
    pkgs = set()
    for m in re.finditer(r"^\+\+\+ b/(\S+)", patch_text, re.M):
        path = m.group(1)
        if path.endswith(".go"):
            pkgs.add("./" + os.path.dirname(path))
    return sorted(pkgs)


def only_flaky_failures(out):
    fails = re.findall(r"^--- FAIL: (\S+)", out, re.M)
    return bool(fails) and all(f.split("/")[0] in FLAKY for f in fails)


def run_check(pid, wt, tier, seed=1):
    env = dict(os.environ, VERIF_REPO=wt)
    t0 = time.time()
    rc, out = sh([os.path.join(VERIF, "check"), pid, "--tier", tier, "--seed", str(seed)], cwd=VERIF,
                 timeout=7200, env=env)
    viol = re.findall(r"^VIOLATION property=\S+ replay=\S+", out, re.M)
    msg = ""
    m = re.search(r"\[rapid\] (?:failed|panic) after \d+ tests: (.{0,400})", out)
    if m:
        msg = m.group(1)
    elif rc == 1:
        tail = [l for l in out.splitlines() if l.strip() and "[rapid] draw" not in l]
        msg = " | ".join(tail[-6:])[:400]
    failing_tests = sorted(set(re.findall(r"failing output of (\S+)", out)))
    return {"tier": tier, "seed": seed, "rc": rc, "wall_s": round(time.time() - t0, 1), "violations": len(viol),
            "failing_tests": failing_tests, "message": msg}


def verify(pid, letter, src, tier, keep=False, store_as=None):
    name = store_as or "%s_%s" % (pid, letter)
    patch = os.path.join(src, "%s_%s.patch.diff" % (pid, letter))
    demo = os.path.join(src, "%s_%s.demo" % (pid, letter))
    desc = os.path.join(src, "%s_%s.md" % (pid, letter))
    if not os.path.exists(patch):
        print("no patch", patch)
        return None
    meta = {"id": name, "property": pid, "source": "independent sub-agent given only the property text and a scratch worktree",
            "verified_at_repo_head": sh(["git", "-C", REPO, "rev-parse", "--short", "HEAD"])[1].strip(), "steps": {}}
    patch_text = open(patch).read()
    wt = mkwt(name)
    try:
        rc, out = sh(["git", "-C", wt, "apply", "--whitespace=nowarn", patch])
        meta["steps"]["apply"] = rc == 0
        if rc != 0:
            meta["steps"]["apply_output"] = out[-800:]
            return meta
        rc, out = sh("go build ./...", cwd=wt)
        meta["steps"]["build"] = rc == 0
        if rc != 0:
            meta["steps"]["build_output"] = out[-800:]
            return meta
        pkgs = touched_packages(patch_text)
        meta["touched_packages"] = pkgs
        rc, out = sh("go test -count=1 -timeout 30m " + " ".join(pkgs), cwd=wt, timeout=2400)
        if rc != 0 and only_flaky_failures(out):
            rc2, out2 = sh("go test -count=1 -timeout 30m " + " ".join(pkgs), cwd=wt, timeout=2400)
            if rc2 == 0 or only_flaky_failures(out2):
                rc = 0
                meta["steps"]["existing_tests_note"] = "only the known timing-flaky TestWatchCoordinationWindows failed"
        if rc != 0:
            # load-sensitive tests (real-time block counters, tickers, timeouts): re-run just
            # the failing tests, with the change still applied, up to two more times
            failing = sorted({f.split("/")[0] for f in re.findall(r"^--- FAIL: (\S+)", out, re.M)})
            failing = [f for f in failing if f not in FLAKY]
            if failing and "build failed" not in out:
                for attempt in range(2):
                    rc3, out3 = sh("go test -count=1 -timeout 30m -run '^(%s)$' %s" % ("|".join(failing), " ".join(pkgs)), cwd=wt, timeout=2400)
                    if rc3 == 0:
                        rc = 0
                        meta["steps"]["existing_tests_note"] = "load-sensitive tests %s failed in the full run and passed when re-run with the change applied" % failing
                        break
            elif not failing and re.findall(r"^--- FAIL: (\S+)", out, re.M):
                rc = 0
                meta["steps"]["existing_tests_note"] = "only the known timing-flaky TestWatchCoordinationWindows failed"
        meta["steps"]["existing_tests_pass_with_change"] = rc == 0
        if rc != 0:
            meta["steps"]["existing_tests_output"] = "\n".join(l for l in out.splitlines() if "FAIL" in l or "panic" in l)[-1500:]
        # demonstration
        demo_ok = None
        if os.path.isdir(demo):
            runtxt = os.path.join(demo, "RUN.txt")
            cmd = None
            if os.path.exists(runtxt):
                for line in open(runtxt):
                    line = line.strip().strip("`")
                    m0 = re.search(r"\bgo (test|run) .*", line)
                    if m0 and not line.startswith("#"):
                        cmd = m0.group(0).split(" #")[0].split("|")[0].replace("2>&1", "").strip()
                        break
            meta["demo_cmd"] = cmd
            placed = []
            if cmd:
                m = re.search(r"(\./[A-Za-z0-9_./-]+)", cmd)
                pkgdir = m.group(1).rstrip("/").replace("/...", "") if m else None
                for f in glob.glob(os.path.join(demo, "*")):
                    b = os.path.basename(f)
                    if b == "RUN.txt":
                        continue
                    if os.path.isdir(f):
                        dst = os.path.join(wt, b)
                        shutil.copytree(f, dst, dirs_exist_ok=True)
                        placed.append(dst)
                    elif pkgdir:
                        dst = os.path.join(wt, pkgdir, b)
                        os.makedirs(os.path.dirname(dst), exist_ok=True)
                        shutil.copyfile(f, dst)
                        placed.append(dst)
                rc_with, out_with = sh(cmd, cwd=wt, timeout=2400)
                sh(["git", "-C", wt, "apply", "-R", "--whitespace=nowarn", patch])
                rc_without, out_without = sh(cmd, cwd=wt, timeout=2400)
                sh(["git", "-C", wt, "apply", "--whitespace=nowarn", patch])
                meta["steps"]["demo_fails_with_change"] = rc_with != 0
                meta["steps"]["demo_passes_without_change"] = rc_without == 0
                meta["steps"]["demo_output_with_change"] = "\n".join(
                    l for l in out_with.splitlines() if l.strip())[-1200:]
                if rc_without != 0:
                    meta["steps"]["demo_output_without_change"] = out_without[-800:]
                demo_ok = rc_with != 0 and rc_without == 0
                for p in placed:
                    if os.path.isdir(p):
                        shutil.rmtree(p, ignore_errors=True)
                    else:
                        os.remove(p)
        meta["steps"]["demo_confirmed"] = demo_ok
        sh(["git", "-C", wt, "checkout", "--", "go.sum", "go.mod"])
        # our check against the changed tree
        os.makedirs(os.path.join(VERIF, "work"), exist_ok=True)
        res = [run_check(pid, wt, "quick")]
        if res[-1]["rc"] == 0 and tier == "thorough":
            res.append(run_check(pid, wt, "thorough"))
        meta["check_runs"] = res
        meta["detected"] = any(r["rc"] == 1 for r in res)
        meta["detected_by"] = sorted({t for r in res for t in r["failing_tests"]})
    finally:
        if not keep:
            rmwt(wt)
    # store
    dst = os.path.join(VERIF, "seeded", name)
    os.makedirs(dst, exist_ok=True)
    shutil.copyfile(patch, os.path.join(dst, "patch.diff"))
    if os.path.isdir(demo):
        shutil.copytree(demo, os.path.join(dst, "demo"), dirs_exist_ok=True)
    if os.path.exists(desc):
        shutil.copyfile(desc, os.path.join(dst, "description.md"))
        txt = open(desc).read()
        meta["needs_to_manifest"] = txt[:1500]
    json.dump(meta, open(os.path.join(dst, "meta.json"), "w"), indent=1)
    return meta


def reverify(names):
    """Re-run existing tests + demonstration for stored seeds (e.g. after a run on an overloaded machine)."""
    for d in sorted(glob.glob(os.path.join(VERIF, "seeded", "*"))):
        name = os.path.basename(d)
        if names and name not in names:
            continue
        pid, letter = name.split("_")
        store = name
        letter = letter[-1]
        src = "/tmp/reverify-src-%s" % name
        shutil.rmtree(src, ignore_errors=True)
        os.makedirs(src)
        base = "%s_%s" % (pid, letter)
        shutil.copyfile(os.path.join(d, "patch.diff"), os.path.join(src, "%s.patch.diff" % base))
        if os.path.isdir(os.path.join(d, "demo")):
            shutil.copytree(os.path.join(d, "demo"), os.path.join(src, "%s.demo" % base))
        if os.path.exists(os.path.join(d, "description.md")):
            shutil.copyfile(os.path.join(d, "description.md"), os.path.join(src, "%s.md" % base))
        m = verify(pid, letter, src, "quick", store_as=store)
        shutil.rmtree(src, ignore_errors=True)
        if m:
            st = m["steps"]
            print(name, "tests", st.get("existing_tests_pass_with_change"), "demo", st.get("demo_confirmed"), "detected", m.get("detected"))


def recheck(names, tier):
    for d in sorted(glob.glob(os.path.join(VERIF, "seeded", "*"))):
        name = os.path.basename(d)
        if names and name not in names:
            continue
        mp = os.path.join(d, "meta.json")
        if not os.path.exists(mp):
            continue
        meta = json.load(open(mp))
        pid = meta["property"]
        wt = mkwt(name)
        try:
            rc, out = sh(["git", "-C", wt, "apply", "--whitespace=nowarn", os.path.join(d, "patch.diff")])
            if rc != 0:
                print(name, "patch no longer applies")
                continue
            res = [run_check(pid, wt, "quick")]
            if res[-1]["rc"] == 0 and tier == "thorough":
                res.append(run_check(pid, wt, "thorough"))
            meta["check_runs"] = res
            meta["detected"] = any(r["rc"] == 1 for r in res)
            meta["detected_by"] = sorted({t for r in res for t in r["failing_tests"]})
            meta["rechecked_at_repo_head"] = sh(["git", "-C", REPO, "rev-parse", "--short", "HEAD"])[1].strip()
            json.dump(meta, open(mp, "w"), indent=1)
            print(name, "detected" if meta["detected"] else "MISSED", [(r["tier"], r["rc"], r["wall_s"]) for r in res])
        finally:
            rmwt(wt)


def table():
    rows = []
    for d in sorted(glob.glob(os.path.join(VERIF, "seeded", "*"))):
        mp = os.path.join(d, "meta.json")
        if not os.path.exists(mp):
            continue
        m = json.load(open(mp))
        st = m.get("steps", {})
        valid = st.get("build") and st.get("existing_tests_pass_with_change") and st.get("demo_confirmed")
        runs = m.get("check_runs", [])
        how = ", ".join("%s rc=%s %ss" % (r["tier"], r["rc"], r["wall_s"]) for r in runs)
        rows.append("| %s | %s | %s | %s | %s |" % (m["id"], "yes" if valid else "NO (%s)" % ",".join(
            k for k in ("build", "existing_tests_pass_with_change", "demo_confirmed") if not st.get(k)),
            "DETECTED" if m.get("detected") else ("equivalent after fix (see meta.json disposition)" if m.get("disposition") else "missed"),
            ", ".join(m.get("detected_by", [])), how))
    print("| seed | valid seed | our check | failing test(s) | runs |\n|---|---|---|---|---|")
    print("\n".join(rows))


if __name__ == "__main__":
    a = sys.argv[1:]
    if not a:
        print(__doc__)
        sys.exit(0)
    tier = "quick"
    if "--tier" in a:
        tier = a[a.index("--tier") + 1]
    if a[0] == "verify":
        pid, letter = a[1], a[2]
        src = a[a.index("--src") + 1] if "--src" in a else "/tmp/seed-%s/SEED" % pid
        m = verify(pid, letter, src, tier, keep="--keep" in a, store_as=(a[a.index("--as") + 1] if "--as" in a else None))
        if m:
            print(json.dumps({k: v for k, v in m.items() if k not in ("needs_to_manifest",)}, indent=1)[:3000])
    elif a[0] == "recheck":
        recheck([x for x in a[1:] if not x.startswith("--") and x not in ("quick", "thorough")], tier)
    elif a[0] == "reverify":
        reverify([x for x in a[1:] if not x.startswith("--")])
    elif a[0] == "table":
        table()
