#!/bin/bash
# usage: ./run_all.sh [tier] [seed] [parallel]  - runs every ready check, prints a summary table
tier=${1:-quick}; seed=${2:-1}; par=${3:-3}
cd "$(dirname "$0")"
mkdir -p work/runall
ids=$(python3 -c "
import json,glob
for p in sorted(glob.glob('props/C*.json')):
    d=json.load(open(p))
    if d.get('ready'): print(d['id'])")
run_one(){ id=$1; s=$(date +%s); ./check $id --tier $tier --seed $seed > work/runall/$id.$tier.$seed.log 2>&1; rc=$?; e=$(date +%s); echo "$id rc=$rc wall=$((e-s))s"; }
export -f run_one; export tier seed
echo $ids | tr ' ' '\n' | xargs -P $par -I{} bash -c 'run_one {}' | sort
