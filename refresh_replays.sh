#!/bin/bash
# For every fixed finding with a replay file: revert the fix in a scratch worktree and confirm
# that the stored replay still fails there (exit 1) and passes on /repo (exit 0). A replay that
# no longer reproduces (rapid fail files follow the generator's draw sequence, which changes
# when a generator is widened) is replaced by a fresh failing case found on the reverted tree.
cd /verif
python3 - <<'PY' > work/replaylist.txt
import json
for f in json.load(open('/verif/known_findings.json'))['findings']:
    if f['status']=='fixed' and f.get('replay'): print(f['property'], f['commit'], f['key'], f['replay'])
PY
while read prop commit key replay; do
  wt=/tmp/vs-replay-$commit
  git -C /repo worktree remove --force $wt 2>/dev/null; rm -rf $wt
  git -C /repo worktree add --detach $wt HEAD -q
  if ! git -C $wt revert -n $commit >/dev/null 2>&1; then
     git -C $wt revert --abort 2>/dev/null; git -C $wt checkout -- . 2>/dev/null
     if ! (git -C /repo show $commit | git -C $wt apply -R --3way >/dev/null 2>&1); then echo "$prop $key REVERT-CONFLICT"; git -C /repo worktree remove --force $wt; continue; fi
  fi
  VERIF_REPO=$wt ./check $prop --replay $replay > work/fixrevert/replay-$key.log 2>&1; rc=$?
  status="replay-on-reverted rc=$rc"
  if [ $rc -ne 1 ] && [[ $replay == *.fail ]]; then
    tname=$(basename $replay | sed 's/__.*//')
    for seed in 1 2 3 4; do
      VERIF_REPO=$wt ./check $prop --tier quick --seed $seed > work/fixrevert/refresh-$key.log 2>&1
      alt=$(for d in /verif/work/alt-*; do [ -f $d/repo_path ] && grep -q "^$wt\$" $d/repo_path && echo $d; done | head -1)
      new=$(ls $alt/replays/$prop/${tname}__s${seed}_*.fail 2>/dev/null | head -1)
      if [ -n "$new" ]; then cp $new $replay; break; fi
    done
    VERIF_REPO=$wt ./check $prop --replay $replay > work/fixrevert/replay-$key.log 2>&1; rc=$?
    status="$status REFRESHED(seed $seed) replay-on-reverted rc=$rc"
  fi
  ./check $prop --replay $replay > work/fixrevert/replay-repo-$key.log 2>&1; rc2=$?
  echo "$prop $key $commit $status replay-on-repo rc=$rc2"
  for d in /verif/work/alt-*; do [ -f $d/repo_path ] && grep -q "^$wt\$" $d/repo_path && rm -rf $d; done
  git -C /repo worktree remove --force $wt
done < work/replaylist.txt
