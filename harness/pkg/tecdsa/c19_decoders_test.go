//go:build go1.23

package tecdsa

import (
	"fmt"
	"testing"

	"github.com/keep-network/keep-core/internal/c19gen"
	"github.com/keep-network/keep-core/internal/c19wire"
	"pgregory.net/rapid"
)

// C19 - pkg/tecdsa: the persisted private key share and the signature.

func c19Codecs() []c19wire.Codec {
	return []c19wire.Codec{
		{
			Name: "tecdsa.PrivateKeyShare", Storage: true,
			New: func() c19wire.Msg { return &PrivateKeyShare{} },
			Gen: func(t *rapid.T) c19wire.Msg { return NewPrivateKeyShare(c19gen.GenSaveData(t)) },
			Touch: func(m c19wire.Msg) {
				pks := m.(*PrivateKeyShare)
				_ = pks.PublicKey()
				_ = pks.Data()
			},
			Valid: func(m c19wire.Msg) error {
				data := m.(*PrivateKeyShare).Data()
				if data.ECDSAPub == nil || !data.ECDSAPub.IsOnCurve() {
					return fmt.Errorf("group public key is not a point of the curve")
				}
				for i, p := range data.BigXj {
					if p == nil || !p.IsOnCurve() {
						return fmt.Errorf("public share %d is not a point of the curve", i)
					}
				}
				return nil
			},
		},
		{
			Name: "tecdsa.Signature",
			New:  func() c19wire.Msg { return &Signature{} },
			Gen: func(t *rapid.T) c19wire.Msg {
				return &Signature{
					R:          c19wire.GenBig(t, "r"),
					S:          c19wire.GenBig(t, "s"),
					RecoveryID: int8(rapid.IntRange(-128, 127).Draw(t, "recoveryID")),
				}
			},
			Rules: []c19wire.Rule{{Name: "recoveryID", Kind: c19wire.Int32Range, Path: c19wire.P(3), Min: -128, Maxi: 127}},
			Touch: func(m c19wire.Msg) { _ = m.(*Signature).String() },
		},
	}
}

func TestVerif_C19_TecdsaRoundTrip(t *testing.T) {
	c19wire.RunRoundTrip(t, "TestVerif_C19_TecdsaRoundTrip", c19Codecs())
}

func TestVerif_C19_TecdsaHostile(t *testing.T) {
	c19wire.RunHostile(t, "TestVerif_C19_TecdsaHostile", c19Codecs())
}

func FuzzVerif_C19_Tecdsa(f *testing.F) { c19wire.RunFuzz(f, c19Codecs()) }
