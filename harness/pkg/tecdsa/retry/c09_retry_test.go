//go:build go1.23

package retry

import (
	"fmt"
	"sort"
	"strings"
	"testing"

	"github.com/keep-network/keep-core/internal/verifkit"
	"github.com/keep-network/keep-core/pkg/chain"
	"pgregory.net/rapid"
)

// seat layout generator: 2..9 operators holding 1..5 seats each, seats laid
// out in a drawn order (operators' seats are interleaved like sortition does).
func c09GenSeats(t *rapid.T) ([]chain.Address, map[chain.Address]int) {
	nOps := rapid.IntRange(2, 9).Draw(t, "operators")
	uneven := rapid.Bool().Draw(t, "uneven")
	counts := map[chain.Address]int{}
	var seats []chain.Address
	base := rapid.IntRange(1, 4).Draw(t, "baseSeats")
	for i := 0; i < nOps; i++ {
		// names are drawn so that sorted order is not creation order
		name := chain.Address(fmt.Sprintf("0x%s%02d", rapid.StringMatching("[a-f0-9]{2}").Draw(t, "prefix"), i))
		c := base
		if uneven {
			c = rapid.IntRange(1, 5).Draw(t, "seatCount")
		}
		counts[name] = c
		for k := 0; k < c; k++ {
			seats = append(seats, name)
		}
	}
	perm := rapid.Permutation(seats).Draw(t, "layout")
	return perm, counts
}

func c09IsSubsequence(sub, full []chain.Address) bool {
	i := 0
	for _, s := range full {
		if i < len(sub) && sub[i] == s {
			i++
		}
	}
	return i == len(sub)
}

func c09Count(list []chain.Address) map[chain.Address]int {
	m := map[chain.Address]int{}
	for _, a := range list {
		m[a]++
	}
	return m
}

func c09Uneven(counts map[chain.Address]int) bool {
	first := -1
	for _, c := range counts {
		if first == -1 {
			first = c
		} else if c != first {
			return true
		}
	}
	return false
}

// checks shared by both functions: sub-sequence, all-or-nothing per operator,
// at least the requested seats. Returns the excluded operator set (sorted).
func c09CheckSelection(t *rapid.T, what string, seats, got []chain.Address, counts map[chain.Address]int, requested int) []string {
	if !c09IsSubsequence(got, seats) {
		t.Fatalf("%s: result %v is not a sub-sequence of the seats %v", what, got, seats)
	}
	gc := c09Count(got)
	var excluded []string
	for op, c := range counts {
		switch gc[op] {
		case c:
		case 0:
			excluded = append(excluded, string(op))
		default:
			t.Fatalf("%s: operator %s holds %d seats but %d were kept (seats must be kept or dropped together)", what, op, c, gc[op])
		}
	}
	for op := range gc {
		if _, ok := counts[op]; !ok {
			t.Fatalf("%s: result invents operator %s", what, op)
		}
	}
	if len(got) < requested {
		t.Fatalf("%s: kept %d seats, fewer than the %d requested; seats=%v result=%v", what, len(got), requested, seats, got)
	}
	sort.Strings(excluded)
	return excluded
}

func TestVerif_C09_SigningSelection(t *testing.T) {
	st := verifkit.New("C09", "TestVerif_C09_SigningSelection")
	defer st.Flush()
	rapid.Check(t, func(t *rapid.T) {
		seats, counts := c09GenSeats(t)
		seed := rapid.Int64().Draw(t, "seed")
		retry := uint(rapid.IntRange(0, 40).Draw(t, "retry"))
		requested := rapid.IntRange(0, len(seats)+1).Draw(t, "requested")

		in := append([]chain.Address{}, seats...)
		got, err := EvaluateRetryParticipantsForSigning(in, seed, retry, uint(requested))
		again, err2 := EvaluateRetryParticipantsForSigning(append([]chain.Address{}, seats...), seed, retry, uint(requested))
		if (err == nil) != (err2 == nil) || fmt.Sprint(got) != fmt.Sprint(again) {
			t.Fatalf("not deterministic: %v/%v vs %v/%v", got, err, again, err2)
		}
		uneven := c09Uneven(counts)
		if requested > len(seats) {
			if err == nil {
				t.Fatalf("requested %d of %d seats but no error", requested, len(seats))
			}
			st.Case(false, fmt.Sprintf("too-many seats=%d req=%d", len(seats), requested), "error:too-many")
			return
		}
		if err != nil {
			t.Fatalf("unexpected error for %d of %d seats: %v", requested, len(seats), err)
		}
		excluded := c09CheckSelection(t, "signing", seats, got, counts, requested)
		// minimality stated by the doc ("as small as possible"): dropping the
		// last accepted operator is not asserted - only the stated bounds are.
		nt := uneven && len(excluded) > 0
		st.Case(nt, fmt.Sprintf("seats=%v seed=%d retry=%d req=%d -> excl=%v", seats, seed, retry, requested, excluded),
			fmt.Sprintf("uneven:%v", uneven), fmt.Sprintf("excluded:%d", min(len(excluded), 4)))
	})
}

// brute-force model of the documented keygen enumeration.
func c09EligibleSets(counts map[chain.Address]int, total, requested int) (singles, pairs, triplets map[string]bool) {
	var ops []string
	for op := range counts {
		ops = append(ops, string(op))
	}
	sort.Strings(ops)
	singles, pairs, triplets = map[string]bool{}, map[string]bool{}, map[string]bool{}
	c := func(s string) int { return counts[chain.Address(s)] }
	for i := range ops {
		if total-c(ops[i]) >= requested {
			singles[ops[i]] = true
		}
		for j := i + 1; j < len(ops); j++ {
			if total-c(ops[i])-c(ops[j]) >= requested {
				pairs[ops[i]+","+ops[j]] = true
			}
			for k := j + 1; k < len(ops); k++ {
				if total-c(ops[i])-c(ops[j])-c(ops[k]) >= requested {
					triplets[ops[i]+","+ops[j]+","+ops[k]] = true
				}
			}
		}
	}
	return
}

func TestVerif_C09_KeygenEnumeration(t *testing.T) {
	st := verifkit.New("C09", "TestVerif_C09_KeygenEnumeration")
	defer st.Flush()
	rapid.Check(t, func(t *rapid.T) {
		seats, counts := c09GenSeats(t)
		seed := rapid.Int64().Draw(t, "seed")
		// requested biased to the region where only some pairs/triplets are eligible
		lo := len(seats) / 3
		requested := rapid.IntRange(lo, len(seats)).Draw(t, "requested")
		singles, pairs, triplets := c09EligibleSets(counts, len(seats), requested)
		expected := len(singles) + len(pairs) + len(triplets)
		uneven := c09Uneven(counts)

		seen := map[string]int{}
		lastSize := 0
		reachedTriplets := false
		retry := 0
		for ; retry <= expected+3; retry++ {
			got, err := EvaluateRetryParticipantsForKeyGeneration(append([]chain.Address{}, seats...), seed, uint(retry), uint(requested))
			again, err2 := EvaluateRetryParticipantsForKeyGeneration(append([]chain.Address{}, seats...), seed, uint(retry), uint(requested))
			if (err == nil) != (err2 == nil) || fmt.Sprint(got) != fmt.Sprint(again) {
				t.Fatalf("retry %d not deterministic", retry)
			}
			if err != nil {
				break
			}
			excluded := c09CheckSelection(t, fmt.Sprintf("keygen retry %d", retry), seats, got, counts, requested)
			key := strings.Join(excluded, ",")
			if len(excluded) < 1 || len(excluded) > 3 {
				t.Fatalf("retry %d excludes %d operators (%v); expected a single, a pair or a triplet", retry, len(excluded), excluded)
			}
			if prev, dup := seen[key]; dup {
				t.Fatalf("retry %d excludes %v again (already excluded at retry %d)", retry, excluded, prev)
			}
			seen[key] = retry
			if len(excluded) < lastSize {
				t.Fatalf("retry %d excludes %d operators after a retry that excluded %d (singles, then pairs, then triplets)", retry, len(excluded), lastSize)
			}
			lastSize = len(excluded)
			var eligible bool
			switch len(excluded) {
			case 1:
				eligible = singles[key]
			case 2:
				eligible = pairs[key]
			case 3:
				eligible = triplets[key]
				reachedTriplets = true
			}
			if !eligible {
				t.Fatalf("retry %d excludes %v which leaves fewer than %d seats", retry, excluded, requested)
			}
		}
		if retry != expected {
			t.Fatalf("enumeration has %d retries before the error, the seats admit %d singles + %d pairs + %d triplets = %d; seats=%v requested=%d",
				retry, len(singles), len(pairs), len(triplets), expected, seats, requested)
		}
		// beyond the enumeration every retry count is an error
		if _, err := EvaluateRetryParticipantsForKeyGeneration(append([]chain.Address{}, seats...), seed, uint(expected+7), uint(requested)); err == nil {
			t.Fatalf("retry %d beyond the enumeration (%d) returned no error", expected+7, expected)
		}
		nt := uneven && reachedTriplets
		st.Case(nt, fmt.Sprintf("seats=%v seed=%d req=%d singles=%d pairs=%d triplets=%d", seats, seed, requested, len(singles), len(pairs), len(triplets)),
			fmt.Sprintf("uneven:%v", uneven), fmt.Sprintf("triplets-reached:%v", reachedTriplets), fmt.Sprintf("ops:%d", len(counts)))
	})
}

func TestVerif_C09_KeygenTooManySeats(t *testing.T) {
	st := verifkit.New("C09", "TestVerif_C09_KeygenTooManySeats")
	defer st.Flush()
	rapid.Check(t, func(t *rapid.T) {
		seats, _ := c09GenSeats(t)
		over := rapid.IntRange(1, 5).Draw(t, "over")
		retry := uint(rapid.IntRange(0, 50).Draw(t, "retry"))
		seed := rapid.Int64().Draw(t, "seed")
		if got, err := EvaluateRetryParticipantsForKeyGeneration(seats, seed, retry, uint(len(seats)+over)); err == nil {
			t.Fatalf("requested %d of %d seats: no error, got %v", len(seats)+over, len(seats), got)
		}
		st.Case(true, fmt.Sprintf("seats=%d over=%d retry=%d seed=%d", len(seats), over, retry, seed))
	})
}
