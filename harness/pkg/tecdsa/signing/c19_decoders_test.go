//go:build go1.23

package signing

import (
	"testing"

	"github.com/keep-network/keep-core/internal/c19gen"
	"github.com/keep-network/keep-core/internal/c19wire"
	"pgregory.net/rapid"
)

// C19 - pkg/tecdsa/signing: the ten tECDSA signing network messages.

func c19Codecs() []c19wire.Codec {
	return []c19wire.Codec{
		c19wire.Codec{
			Name: "tecdsa/signing.ephemeralPublicKeyMessage",
			New:  func() c19wire.Msg { return &ephemeralPublicKeyMessage{} },
			Gen: func(t *rapid.T) c19wire.Msg {
				return &ephemeralPublicKeyMessage{
					senderID:            c19wire.GenIndex(t, "sender"),
					ephemeralPublicKeys: c19gen.GenEphemeralPublicKeys(t),
					sessionID:           c19wire.GenText(t, "session"),
				}
			},
			Touch: func(m c19wire.Msg) {
				_, _ = m.(*ephemeralPublicKeyMessage).Type(), m.(*ephemeralPublicKeyMessage).SessionID()
			},
		}.WithSender(func(m c19wire.Msg) uint64 { return uint64(m.(*ephemeralPublicKeyMessage).SenderID()) }).
			WithIndexMap("ephemeralPublicKeys", 2),
		c19wire.Codec{
			Name: "tecdsa/signing.tssRoundOneMessage",
			New:  func() c19wire.Msg { return &tssRoundOneMessage{} },
			Gen: func(t *rapid.T) c19wire.Msg {
				return &tssRoundOneMessage{
					senderID:         c19wire.GenIndex(t, "sender"),
					broadcastPayload: c19wire.GenPayload(t, "broadcast"),
					peersPayload:     c19gen.GenPayloadMap(t),
					sessionID:        c19wire.GenText(t, "session"),
				}
			},
			Touch: func(m c19wire.Msg) { _, _ = m.(*tssRoundOneMessage).Type(), m.(*tssRoundOneMessage).SessionID() },
		}.WithSender(func(m c19wire.Msg) uint64 { return uint64(m.(*tssRoundOneMessage).SenderID()) }).
			WithIndexMap("peersPayload", 3),
		c19wire.Codec{
			Name: "tecdsa/signing.tssRoundTwoMessage",
			New:  func() c19wire.Msg { return &tssRoundTwoMessage{} },
			Gen: func(t *rapid.T) c19wire.Msg {
				return &tssRoundTwoMessage{
					senderID:     c19wire.GenIndex(t, "sender"),
					peersPayload: c19gen.GenPayloadMap(t),
					sessionID:    c19wire.GenText(t, "session"),
				}
			},
			Touch: func(m c19wire.Msg) { _, _ = m.(*tssRoundTwoMessage).Type(), m.(*tssRoundTwoMessage).SessionID() },
		}.WithSender(func(m c19wire.Msg) uint64 { return uint64(m.(*tssRoundTwoMessage).SenderID()) }).
			WithIndexMap("peersPayload", 2),
		c19wire.Codec{
			Name: "tecdsa/signing.tssRoundThreeMessage",
			New:  func() c19wire.Msg { return &tssRoundThreeMessage{} },
			Gen: func(t *rapid.T) c19wire.Msg {
				return &tssRoundThreeMessage{
					senderID:         c19wire.GenIndex(t, "sender"),
					broadcastPayload: c19wire.GenPayload(t, "broadcast"),
					sessionID:        c19wire.GenText(t, "session"),
				}
			},
			Touch: func(m c19wire.Msg) { _, _ = m.(*tssRoundThreeMessage).Type(), m.(*tssRoundThreeMessage).SessionID() },
		}.WithSender(func(m c19wire.Msg) uint64 { return uint64(m.(*tssRoundThreeMessage).SenderID()) }),
		c19wire.Codec{
			Name: "tecdsa/signing.tssRoundFourMessage",
			New:  func() c19wire.Msg { return &tssRoundFourMessage{} },
			Gen: func(t *rapid.T) c19wire.Msg {
				return &tssRoundFourMessage{
					senderID:         c19wire.GenIndex(t, "sender"),
					broadcastPayload: c19wire.GenPayload(t, "broadcast"),
					sessionID:        c19wire.GenText(t, "session"),
				}
			},
			Touch: func(m c19wire.Msg) { _, _ = m.(*tssRoundFourMessage).Type(), m.(*tssRoundFourMessage).SessionID() },
		}.WithSender(func(m c19wire.Msg) uint64 { return uint64(m.(*tssRoundFourMessage).SenderID()) }),
		c19wire.Codec{
			Name: "tecdsa/signing.tssRoundFiveMessage",
			New:  func() c19wire.Msg { return &tssRoundFiveMessage{} },
			Gen: func(t *rapid.T) c19wire.Msg {
				return &tssRoundFiveMessage{
					senderID:         c19wire.GenIndex(t, "sender"),
					broadcastPayload: c19wire.GenPayload(t, "broadcast"),
					sessionID:        c19wire.GenText(t, "session"),
				}
			},
			Touch: func(m c19wire.Msg) { _, _ = m.(*tssRoundFiveMessage).Type(), m.(*tssRoundFiveMessage).SessionID() },
		}.WithSender(func(m c19wire.Msg) uint64 { return uint64(m.(*tssRoundFiveMessage).SenderID()) }),
		c19wire.Codec{
			Name: "tecdsa/signing.tssRoundSixMessage",
			New:  func() c19wire.Msg { return &tssRoundSixMessage{} },
			Gen: func(t *rapid.T) c19wire.Msg {
				return &tssRoundSixMessage{
					senderID:         c19wire.GenIndex(t, "sender"),
					broadcastPayload: c19wire.GenPayload(t, "broadcast"),
					sessionID:        c19wire.GenText(t, "session"),
				}
			},
			Touch: func(m c19wire.Msg) { _, _ = m.(*tssRoundSixMessage).Type(), m.(*tssRoundSixMessage).SessionID() },
		}.WithSender(func(m c19wire.Msg) uint64 { return uint64(m.(*tssRoundSixMessage).SenderID()) }),
		c19wire.Codec{
			Name: "tecdsa/signing.tssRoundSevenMessage",
			New:  func() c19wire.Msg { return &tssRoundSevenMessage{} },
			Gen: func(t *rapid.T) c19wire.Msg {
				return &tssRoundSevenMessage{
					senderID:         c19wire.GenIndex(t, "sender"),
					broadcastPayload: c19wire.GenPayload(t, "broadcast"),
					sessionID:        c19wire.GenText(t, "session"),
				}
			},
			Touch: func(m c19wire.Msg) { _, _ = m.(*tssRoundSevenMessage).Type(), m.(*tssRoundSevenMessage).SessionID() },
		}.WithSender(func(m c19wire.Msg) uint64 { return uint64(m.(*tssRoundSevenMessage).SenderID()) }),
		c19wire.Codec{
			Name: "tecdsa/signing.tssRoundEightMessage",
			New:  func() c19wire.Msg { return &tssRoundEightMessage{} },
			Gen: func(t *rapid.T) c19wire.Msg {
				return &tssRoundEightMessage{
					senderID:         c19wire.GenIndex(t, "sender"),
					broadcastPayload: c19wire.GenPayload(t, "broadcast"),
					sessionID:        c19wire.GenText(t, "session"),
				}
			},
			Touch: func(m c19wire.Msg) { _, _ = m.(*tssRoundEightMessage).Type(), m.(*tssRoundEightMessage).SessionID() },
		}.WithSender(func(m c19wire.Msg) uint64 { return uint64(m.(*tssRoundEightMessage).SenderID()) }),
		c19wire.Codec{
			Name: "tecdsa/signing.tssRoundNineMessage",
			New:  func() c19wire.Msg { return &tssRoundNineMessage{} },
			Gen: func(t *rapid.T) c19wire.Msg {
				return &tssRoundNineMessage{
					senderID:         c19wire.GenIndex(t, "sender"),
					broadcastPayload: c19wire.GenPayload(t, "broadcast"),
					sessionID:        c19wire.GenText(t, "session"),
				}
			},
			Touch: func(m c19wire.Msg) { _, _ = m.(*tssRoundNineMessage).Type(), m.(*tssRoundNineMessage).SessionID() },
		}.WithSender(func(m c19wire.Msg) uint64 { return uint64(m.(*tssRoundNineMessage).SenderID()) }),
	}
}

func TestVerif_C19_TecdsaSigningRoundTrip(t *testing.T) {
	c19wire.RunRoundTrip(t, "TestVerif_C19_TecdsaSigningRoundTrip", c19Codecs())
}

func TestVerif_C19_TecdsaSigningHostile(t *testing.T) {
	c19wire.RunHostile(t, "TestVerif_C19_TecdsaSigningHostile", c19Codecs())
}

func FuzzVerif_C19_TecdsaSigning(f *testing.F) { c19wire.RunFuzz(f, c19Codecs()) }
