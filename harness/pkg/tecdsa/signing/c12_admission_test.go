//go:build go1.23

package signing

// C12, tECDSA signing: the eleven receiving states of the signing protocol
// (ephemeral key generation, symmetric key generation, TSS rounds one to nine)
// and the finalization state (takes nothing) are fed generated (claimed index,
// sender network key, session, member status, message type) combinations
// through their real Receive; the message history the protocol later reads
// from is compared with the admission model.

import (
	"fmt"
	"math/big"
	"testing"

	"github.com/keep-network/keep-core/internal/testutils"
	"github.com/keep-network/keep-core/internal/verifkit"
	"github.com/keep-network/keep-core/pkg/internal/tecdsatest"
	"github.com/keep-network/keep-core/pkg/net"
	"github.com/keep-network/keep-core/pkg/protocol/group"
	"github.com/keep-network/keep-core/pkg/protocol/state"
	"github.com/keep-network/keep-core/pkg/tecdsa"
	"pgregory.net/rapid"
)

// a payload of another protocol sharing the channel (signing done checks,
// announcements)
type c12Foreign struct{ senderID group.MemberIndex }

func (f *c12Foreign) SenderID() group.MemberIndex { return f.senderID }
func (f *c12Foreign) Type() string                { return "c12/foreign" }

var c12SigningKinds = []string{"ephemeralPublicKey", "tssRoundOne", "tssRoundTwo", "tssRoundThree",
	"tssRoundFour", "tssRoundFive", "tssRoundSix", "tssRoundSeven", "tssRoundEight", "tssRoundNine", "foreign"}

func c12SigningPayload(kind int, idx group.MemberIndex, session string) interface{ Type() string } {
	switch kind {
	case 0:
		return &ephemeralPublicKeyMessage{senderID: idx, sessionID: session}
	case 1:
		return &tssRoundOneMessage{senderID: idx, sessionID: session}
	case 2:
		return &tssRoundTwoMessage{senderID: idx, sessionID: session}
	case 3:
		return &tssRoundThreeMessage{senderID: idx, sessionID: session}
	case 4:
		return &tssRoundFourMessage{senderID: idx, sessionID: session}
	case 5:
		return &tssRoundFiveMessage{senderID: idx, sessionID: session}
	case 6:
		return &tssRoundSixMessage{senderID: idx, sessionID: session}
	case 7:
		return &tssRoundSevenMessage{senderID: idx, sessionID: session}
	case 8:
		return &tssRoundEightMessage{senderID: idx, sessionID: session}
	case 9:
		return &tssRoundNineMessage{senderID: idx, sessionID: session}
	default:
		return &c12Foreign{senderID: idx}
	}
}

var c12SigningTypes = func() []string {
	var out []string
	for k := range c12SigningKinds {
		out = append(out, c12SigningPayload(k, 1, "").Type())
	}
	return out
}()

var c12SigningStates = []string{"ephemeralKeyPairGeneration", "symmetricKeyGeneration", "tssRoundOne",
	"tssRoundTwo", "tssRoundThree", "tssRoundFour", "tssRoundFive", "tssRoundSix", "tssRoundSeven",
	"tssRoundEight", "tssRoundNine", "finalization"}

func TestVerif_C12_TecdsaSigningStates(t *testing.T) {
	st := verifkit.New("C12", "TestVerif_C12_TecdsaSigningStates")
	defer st.Flush()
	pool, signing := c12Pool(t)
	logger := &testutils.MockLogger{}
	channel := &c12Channel{}
	fixtures, err := tecdsatest.LoadPrivateKeyShareTestFixtures(1)
	if err != nil {
		t.Fatalf("fixtures: %v", err)
	}
	share := tecdsa.NewPrivateKeyShare(fixtures[0])

	rapid.Check(t, func(t *rapid.T) {
		sc := c12GenScenario(t)
		threshold := rapid.IntRange(0, (sc.n-1)/2).Draw(t, "dishonestThreshold")
		validator := group.NewMembershipValidator(logger, sc.addresses(pool), signing)
		m := newMember(logger, sc.receiver, sc.n, threshold, validator, c12Session, big.NewInt(12), share)
		// members left out of the signing attempt are marked before the
		// protocol starts (Execute disqualifies the excluded members); the
		// group supports both marks
		allowed := map[group.MemberIndex]bool{}
		for i := 1; i <= sc.n; i++ {
			idx := group.MemberIndex(i)
			switch {
			case sc.ia[idx]:
				m.group.MarkMemberAsInactive(idx)
			case sc.dq[idx]:
				m.group.MarkMemberAsDisqualified(idx)
			default:
				allowed[idx] = true
			}
		}

		base := state.NewBaseAsyncState()
		m1 := m.initializeEphemeralKeysGeneration()
		m2 := m1.initializeSymmetricKeyGeneration()
		// the TSS party itself is not needed to receive
		r1 := &tssRoundOneMember{symmetricKeyGeneratingMember: m2}
		r2 := r1.initializeTssRoundTwo()
		r3 := r2.initializeTssRoundThree()
		r4 := r3.initializeTssRoundFour()
		r5 := r4.initializeTssRoundFive()
		r6 := r5.initializeTssRoundSix()
		r7 := r6.initializeTssRoundSeven()
		r8 := r7.initializeTssRoundEight()
		r9 := r8.initializeTssRoundNine()
		fin := r9.initializeFinalization()

		si := rapid.IntRange(0, len(c12SigningStates)-1).Draw(t, "state")
		all := []int{0, 1, 2, 3, 4, 5, 6, 7, 8, 9}
		ownKinds := all // every protocol message is kept for the state it belongs to
		var receive func(net.Message) error
		switch si {
		case 0:
			receive = (&ephemeralKeyPairGenerationState{BaseAsyncState: base, channel: channel, member: m1}).Receive
		case 1:
			receive = (&symmetricKeyGenerationState{BaseAsyncState: base, channel: channel, member: m2}).Receive
		case 2:
			receive = (&tssRoundOneState{BaseAsyncState: base, channel: channel, member: r1}).Receive
		case 3:
			receive = (&tssRoundTwoState{BaseAsyncState: base, channel: channel, member: r2}).Receive
		case 4:
			receive = (&tssRoundThreeState{BaseAsyncState: base, channel: channel, member: r3}).Receive
		case 5:
			receive = (&tssRoundFourState{BaseAsyncState: base, channel: channel, member: r4}).Receive
		case 6:
			receive = (&tssRoundFiveState{BaseAsyncState: base, channel: channel, member: r5}).Receive
		case 7:
			receive = (&tssRoundSixState{BaseAsyncState: base, channel: channel, member: r6}).Receive
		case 8:
			receive = (&tssRoundSevenState{BaseAsyncState: base, channel: channel, member: r7}).Receive
		case 9:
			receive = (&tssRoundEightState{BaseAsyncState: base, channel: channel, member: r8}).Receive
		case 10:
			receive = (&tssRoundNineState{BaseAsyncState: base, channel: channel, member: r9}).Receive
		case 11:
			// documented: the last state takes no messages
			receive = (&finalizationState{BaseAsyncState: base, channel: channel, member: fin}).Receive
			ownKinds = []int{}
		}

		c12Feed(t, st, sc, pool, &c12Receiver{
			name: c12SigningStates[si], kindNames: c12SigningKinds, ownKinds: ownKinds, genKinds: all,
			allowed: allowed, note: fmt.Sprintf(" t=%d", threshold),
			build: func(_ *rapid.T, gm c12Msg, _ []byte) (interface{}, string, bool, string) {
				p := c12SigningPayload(gm.kind, gm.idx, gm.session)
				return p, p.Type(), true, ""
			},
			receive:  receive,
			register: RegisterUnmarshallers,
			ident: func(m interface{}) string {
				if v, ok := m.(message); ok {
					return fmt.Sprintf("%s/%d/%q", v.Type(), v.SenderID(), v.SessionID())
				}
				return fmt.Sprintf("%T", m)
			},
			stored: func() map[int][]interface{} {
				out := map[int][]interface{}{}
				for k, typ := range c12SigningTypes {
					for _, nm := range base.GetAllReceivedMessages(typ) {
						out[k] = append(out[k], nm.Payload())
					}
				}
				return out
			},
		}, map[string]bool{})
	})
}
