//go:build go1.23

package signing

// C12 shared part (identical copy in every package that has a C12 harness):
// operators with deterministic network keys, the generated group scenario,
// the message generator, the independent admission model, transport fakes and
// the loop that feeds messages to a receiver and compares what it keeps.

import (
	"context"
	"fmt"
	"math/big"
	"sort"
	"strings"
	"sync"

	"github.com/keep-network/keep-core/internal/verifkit"
	"github.com/keep-network/keep-core/pkg/chain"
	"github.com/keep-network/keep-core/pkg/chain/local_v1"
	"github.com/keep-network/keep-core/pkg/net"
	"github.com/keep-network/keep-core/pkg/operator"
	"github.com/keep-network/keep-core/pkg/protocol/group"
	"pgregory.net/rapid"
)

// ---------------------------------------------------------------------------
// operators: deterministic network keys; the chain address is derived the way
// the node derives it (Signing().PublicKeyToAddress of the operator key).

type c12Operator struct {
	name string
	key  []byte // what the network layer reports as the sender's public key
	addr chain.Address
}

const c12PoolSize = 8

func c12Pool(t interface{ Fatalf(string, ...any) }) ([]*c12Operator, chain.Signing) {
	var signing chain.Signing
	var pool []*c12Operator
	for i := 0; i < c12PoolSize; i++ {
		d := big.NewInt(int64(1201 + 17*i))
		x, y := local_v1.DefaultCurve.ScalarBaseMult(d.Bytes())
		pub := operator.PublicKey{Curve: operator.Secp256k1, X: x, Y: y}
		if signing == nil {
			signing = local_v1.NewSigner(&operator.PrivateKey{PublicKey: pub, D: d})
		}
		addr, err := signing.PublicKeyToAddress(&pub)
		if err != nil {
			t.Fatalf("address: %v", err)
		}
		pool = append(pool, &c12Operator{
			name: string(rune('A' + i)),
			key:  operator.MarshalUncompressed(&pub),
			addr: addr,
		})
	}
	return pool, signing
}

// ---------------------------------------------------------------------------
// scenario: a group of n seats distributed over operators (several seats per
// operator are the norm), the receiving member and the status of every seat.

type c12Scenario struct {
	n        int
	seats    []int // seat position (0-based) -> pool index of the operator
	receiver group.MemberIndex
	ia, dq   map[group.MemberIndex]bool
	inGroup  []int // pool indices holding at least one seat
	outGroup []int // pool indices holding no seat
	// favoured: seats the well-formed messages claim half of the time (the
	// leader's seats for the coordination follower); optional
	favoured []group.MemberIndex
}

func c12GenScenario(t *rapid.T) *c12Scenario {
	sc := &c12Scenario{ia: map[group.MemberIndex]bool{}, dq: map[group.MemberIndex]bool{}}
	sc.n = rapid.IntRange(3, 12).Draw(t, "groupSize")
	maxOps := sc.n
	if maxOps > c12PoolSize-2 {
		maxOps = c12PoolSize - 2
	}
	k := rapid.IntRange(1, maxOps).Draw(t, "operators")
	first := rapid.IntRange(0, c12PoolSize-1).Draw(t, "firstOperator")
	held := map[int]bool{}
	for i := 0; i < sc.n; i++ {
		op := (first + rapid.IntRange(0, k-1).Draw(t, "seatOperator")) % c12PoolSize
		sc.seats = append(sc.seats, op)
		held[op] = true
	}
	for i := 0; i < c12PoolSize; i++ {
		if held[i] {
			sc.inGroup = append(sc.inGroup, i)
		} else {
			sc.outGroup = append(sc.outGroup, i)
		}
	}
	sc.receiver = group.MemberIndex(rapid.IntRange(1, sc.n).Draw(t, "receiver"))
	for i := 1; i <= sc.n; i++ {
		m := group.MemberIndex(i)
		if m == sc.receiver {
			continue
		}
		switch rapid.IntRange(0, 7).Draw(t, "status") {
		case 0:
			sc.ia[m] = true
		case 1:
			sc.dq[m] = true
		}
	}
	return sc
}

// holds is the membership model: the operator holds exactly the seats listed
// for it, seat numbering starts at 1.
func (sc *c12Scenario) holds(op int, idx group.MemberIndex) bool {
	return int(idx) >= 1 && int(idx) <= sc.n && sc.seats[int(idx)-1] == op
}

func (sc *c12Scenario) operating(idx group.MemberIndex) bool {
	return int(idx) >= 1 && int(idx) <= sc.n && !sc.ia[idx] && !sc.dq[idx]
}

func (sc *c12Scenario) render(pool []*c12Operator) string {
	var b strings.Builder
	for i, op := range sc.seats {
		m := group.MemberIndex(i + 1)
		b.WriteString(pool[op].name)
		switch {
		case m == sc.receiver:
			b.WriteString("*")
		case sc.ia[m]:
			b.WriteString("i")
		case sc.dq[m]:
			b.WriteString("d")
		}
	}
	return b.String()
}

func (sc *c12Scenario) addresses(pool []*c12Operator) []chain.Address {
	var out []chain.Address
	for _, op := range sc.seats {
		out = append(out, pool[op].addr)
	}
	return out
}

// one generated message: a well-formed base (another operating seat, sent by
// its holder, right session, a type the state takes) with every dimension
// independently replaced by a hostile value with probability 1/5.
type c12Msg struct {
	idx     group.MemberIndex
	op      int
	session string
	kind    int
}

const c12Session = "c12-session"

func c12GenMsg(t *rapid.T, sc *c12Scenario, ownKinds []int, kinds int) c12Msg {
	var m c12Msg
	mutated := func(label string) bool { return rapid.IntRange(0, 4).Draw(t, label) == 0 }

	var good, bad []group.MemberIndex
	for i := 1; i <= sc.n; i++ {
		idx := group.MemberIndex(i)
		if idx == sc.receiver {
			continue
		}
		if sc.operating(idx) {
			good = append(good, idx)
		} else {
			bad = append(bad, idx)
		}
	}
	if !mutated("mutIndex") && len(good) > 0 {
		if len(sc.favoured) > 0 && rapid.Bool().Draw(t, "favouredIndex") {
			m.idx = rapid.SampledFrom(sc.favoured).Draw(t, "index")
		} else {
			m.idx = rapid.SampledFrom(good).Draw(t, "index")
		}
	} else {
		choice := rapid.IntRange(0, 6).Draw(t, "indexClass")
		switch {
		case choice == 0:
			m.idx = sc.receiver
		case choice == 1:
			m.idx = 0
		case choice == 2:
			m.idx = group.MemberIndex(sc.n + 1)
		case choice == 3:
			m.idx = 255
		case choice == 4:
			m.idx = group.MemberIndex(rapid.IntRange(sc.n+1, 255).Draw(t, "farIndex"))
		case len(bad) > 0:
			m.idx = rapid.SampledFrom(bad).Draw(t, "excludedIndex")
		default:
			m.idx = group.MemberIndex(rapid.IntRange(1, sc.n).Draw(t, "anyIndex"))
		}
	}

	holder := -1
	if int(m.idx) >= 1 && int(m.idx) <= sc.n {
		holder = sc.seats[int(m.idx)-1]
	}
	if !mutated("mutKey") && holder >= 0 {
		m.op = holder
	} else {
		var others []int
		for _, op := range sc.inGroup {
			if op != holder {
				others = append(others, op)
			}
		}
		switch c := rapid.IntRange(0, 3).Draw(t, "keyClass"); {
		case c == 0:
			m.op = rapid.SampledFrom(sc.outGroup).Draw(t, "outsider")
		case c == 1:
			m.op = sc.seats[int(sc.receiver)-1]
		case len(others) > 0:
			m.op = rapid.SampledFrom(others).Draw(t, "otherMember")
		default:
			m.op = rapid.SampledFrom(sc.outGroup).Draw(t, "outsider")
		}
	}

	m.session = c12Session
	if mutated("mutSession") {
		m.session = rapid.SampledFrom([]string{"", "c12-session2", "c12-sessio", "C12-SESSION", " c12-session"}).Draw(t, "session")
	}

	m.kind = rapid.SampledFrom(ownKinds).Draw(t, "kind")
	if mutated("mutKind") {
		m.kind = rapid.IntRange(0, kinds-1).Draw(t, "otherKind")
	}
	return m
}

// classify gives the labels of a message relative to the scenario. It is only
// used for statistics.
func (sc *c12Scenario) classify(m c12Msg, ownKind bool) (tags []string, spoof bool) {
	inRange := int(m.idx) >= 1 && int(m.idx) <= sc.n
	switch {
	case m.idx == sc.receiver:
		tags = append(tags, "idx:own")
	case m.idx == 0:
		tags = append(tags, "idx:0")
	case m.idx == 255:
		tags = append(tags, "idx:255")
	case !inRange:
		tags = append(tags, "idx:above-size")
	case sc.ia[m.idx]:
		tags = append(tags, "idx:inactive")
	case sc.dq[m.idx]:
		tags = append(tags, "idx:disqualified")
	default:
		tags = append(tags, "idx:operating")
	}
	seatsOfOp := 0
	for _, op := range sc.seats {
		if op == m.op {
			seatsOfOp++
		}
	}
	switch {
	case sc.holds(m.op, m.idx):
		if seatsOfOp > 1 {
			tags = append(tags, "key:holder-multi-seat")
		} else {
			tags = append(tags, "key:holder")
		}
	case seatsOfOp > 0:
		tags = append(tags, "key:other-member")
		if inRange {
			spoof = true
			tags = append(tags, "spoof:seat-of-another-operator")
		}
		if m.op == sc.seats[int(sc.receiver)-1] {
			tags = append(tags, "key:receivers-operator")
		}
	default:
		tags = append(tags, "key:non-member")
		if inRange {
			spoof = true
			tags = append(tags, "spoof:outsider-claims-seat")
		}
	}
	if m.session != c12Session {
		tags = append(tags, "session:wrong")
	}
	if !ownKind {
		tags = append(tags, "type:not-of-this-state")
	}
	return tags, spoof
}

// ---------------------------------------------------------------------------
// transport fakes

type c12TransportID string

func (id c12TransportID) String() string { return string(id) }

// c12NetMessage is what the network layer hands to a receiver. onPayload lets
// the harness see that a consumer took the message from its buffer (Payload()
// is the first thing every consumer calls).
type c12NetMessage struct {
	key       []byte
	payload   interface{}
	typ       string
	onPayload func()
}

func (m *c12NetMessage) TransportSenderID() net.TransportIdentifier { return c12TransportID("c12") }
func (m *c12NetMessage) SenderPublicKey() []byte                    { return m.key }
func (m *c12NetMessage) Payload() interface{} {
	if m.onPayload != nil {
		m.onPayload()
	}
	return m.payload
}
func (m *c12NetMessage) Type() string  { return m.typ }
func (m *c12NetMessage) Seqno() uint64 { return 0 }

// c12Channel delivers synchronously to the registered handlers (and, like the
// real channels, not to handlers whose context is done). Sent messages are
// dropped.
type c12Channel struct {
	mu           sync.Mutex
	handlers     []c12Handler
	unmarshalers map[string]func() net.TaggedUnmarshaler
}

type c12Handler struct {
	ctx context.Context
	fn  func(net.Message)
}

func (c *c12Channel) Name() string { return "c12" }
func (c *c12Channel) Send(context.Context, net.TaggedMarshaler, ...net.RetransmissionStrategy) error {
	return nil
}
func (c *c12Channel) Recv(ctx context.Context, fn func(net.Message)) {
	c.mu.Lock()
	c.handlers = append(c.handlers, c12Handler{ctx, fn})
	c.mu.Unlock()
}
func (c *c12Channel) SetUnmarshaler(factory func() net.TaggedUnmarshaler) {
	c.mu.Lock()
	defer c.mu.Unlock()
	if c.unmarshalers == nil {
		c.unmarshalers = map[string]func() net.TaggedUnmarshaler{}
	}
	c.unmarshalers[factory().Type()] = factory
}
func (c *c12Channel) SetFilter(net.BroadcastChannelFilter) error { return nil }

func (c *c12Channel) registered() int {
	c.mu.Lock()
	defer c.mu.Unlock()
	return len(c.handlers)
}

func (c *c12Channel) deliver(m net.Message) {
	c.mu.Lock()
	hs := append([]c12Handler{}, c.handlers...)
	c.mu.Unlock()
	for _, h := range hs {
		if h.ctx.Err() == nil {
			h.fn(m)
		}
	}
}

// ---------------------------------------------------------------------------
// the loop shared by the state-machine receivers: generate messages, feed
// them through the real Receive, compare what is kept with the model.

type c12Receiver struct {
	name      string   // state under test
	kindNames []string // all message kinds of the protocol
	ownKinds  []int    // kinds this state takes (may be empty: takes nothing)
	genKinds  []int    // kinds the well-formed messages are drawn from (default ownKinds)
	// allowed is the status rule: seats whose messages the step takes as
	// far as their operating status is concerned
	allowed map[group.MemberIndex]bool
	// lateExcluded: allowed seats that the receiver itself disqualified
	// after the phase started (statistics only)
	lateExcluded map[group.MemberIndex]bool
	// selfAllowed: the step is documented to take the receiver's own
	// messages like anybody else's (signing done checks)
	selfAllowed bool
	// ownSeats: all seats run by the receiving node when the step filters
	// on all of them (coordination follower); default: the receiver's seat
	ownSeats map[group.MemberIndex]bool
	// register, when set, is the protocol's own registration of unmarshaler
	// factories on a channel (RegisterUnmarshallers); ident renders the
	// content of a kept message (wire delivery creates new objects, so kept
	// messages are compared by content)
	register func(net.BroadcastChannel)
	ident    func(interface{}) string
	// build makes the protocol message; extraOK=false when the message is
	// built to violate a further documented condition of the step (tag says
	// which)
	build func(t *rapid.T, m c12Msg, key []byte) (payload interface{}, typ string, extraOK bool, tag string)
	// receive hands the message to the real code
	receive func(msg net.Message) error
	// stored reads what the real code keeps, per kind, in arrival order
	stored func() map[int][]interface{}
	note   string
}

// c12Planned is one generated message together with the model's verdict.
type c12Planned struct {
	msg      c12Msg
	payload  interface{}
	typ      string
	ownKind  bool
	extraOK  bool
	extraTag string
	own      bool
	want     bool
	text     string
}

func (p *c12Planned) netMessage(pool []*c12Operator) *c12NetMessage {
	return &c12NetMessage{key: pool[p.msg.op].key, payload: p.payload, typ: p.typ}
}

// c12Plan draws one message and evaluates the admission model on it.
func c12Plan(t *rapid.T, sc *c12Scenario, pool []*c12Operator, r *c12Receiver) *c12Planned {
	genKinds := r.genKinds
	if genKinds == nil {
		genKinds = r.ownKinds
	}
	return c12PlanMsg(t, sc, pool, r, c12GenMsg(t, sc, genKinds, len(r.kindNames)))
}

// c12PlanMsg builds the given message and evaluates the admission model on it.
func c12PlanMsg(t *rapid.T, sc *c12Scenario, pool []*c12Operator, r *c12Receiver, gm c12Msg) *c12Planned {
	p := &c12Planned{msg: gm}
	p.payload, p.typ, p.extraOK, p.extraTag = r.build(t, p.msg, pool[p.msg.op].key)
	for _, k := range r.ownKinds {
		if k == p.msg.kind {
			p.ownKind = true
		}
	}
	// the model
	p.own = !r.selfAllowed && (p.msg.idx == sc.receiver || r.ownSeats[p.msg.idx])
	p.want = sc.holds(p.msg.op, p.msg.idx) && !p.own && r.allowed[p.msg.idx] &&
		p.msg.session == c12Session && p.ownKind && p.extraOK
	verdict := "ignored"
	if p.want {
		verdict = "TAKEN"
	}
	extra := ""
	if p.extraTag != "" {
		extra = " " + p.extraTag
	}
	p.text = fmt.Sprintf("%s(idx=%d key=%s sess=%q%s)->%s",
		r.kindNames[p.msg.kind], p.msg.idx, pool[p.msg.op].name, p.msg.session, extra, verdict)
	return p
}

// c12Record books the statistics of a finished case.
func c12Record(st *verifkit.Stats, sc *c12Scenario, pool []*c12Operator, r *c12Receiver, plan []*c12Planned, caseTags map[string]bool) {
	c12RecordAs(st, sc, pool, r, plan, caseTags, false)
}

// c12RecordAs: alsoNontrivial marks a case non-trivial for a further reason
// of the test (next to a spoofed seat).
func c12RecordAs(st *verifkit.Stats, sc *c12Scenario, pool []*c12Operator, r *c12Receiver, plan []*c12Planned, caseTags map[string]bool, alsoNontrivial bool) {
	anySpoof, accepted := alsoNontrivial, 0
	var rendered []string
	caseTags["state:"+r.name] = true
	for _, p := range plan {
		rendered = append(rendered, p.text)
		tags, spoof := sc.classify(p.msg, p.ownKind)
		if p.extraTag != "" {
			tags = append(tags, p.extraTag)
		}
		if spoof {
			anySpoof = true
		}
		for _, tag := range tags {
			caseTags[tag] = true
		}
		if p.want {
			accepted++
			st.Label("msg:taken")
			if r.lateExcluded[p.msg.idx] {
				caseTags["taken-from-member-disqualified-by-own-verification"] = true
			}
			continue
		}
		st.Label("msg:ignored")
		var why []string
		if !sc.holds(p.msg.op, p.msg.idx) {
			why = append(why, "key-does-not-hold-index")
		}
		if p.own {
			why = append(why, "own-index")
		}
		if !r.allowed[p.msg.idx] {
			why = append(why, "not-operating")
		}
		if p.msg.session != c12Session {
			why = append(why, "session")
		}
		if !p.ownKind {
			why = append(why, "type")
		}
		if !p.extraOK {
			why = append(why, p.extraTag)
		}
		st.Label("ignored-because:" + strings.Join(why, "+"))
	}
	if accepted > 0 {
		caseTags["case:some-taken"] = true
	}
	var labels []string
	for l := range caseTags {
		labels = append(labels, l)
	}
	sort.Strings(labels)
	st.Case(anySpoof, fmt.Sprintf("%s %s%s: %s", r.name, sc.render(pool), r.note, strings.Join(rendered, "; ")), labels...)
}

func c12Texts(plan []*c12Planned) string {
	var out []string
	for _, p := range plan {
		out = append(out, p.text)
	}
	return strings.Join(out, "; ")
}

// c12Feed drives a receiver that can be observed after every message (the
// state machine states).
func c12Feed(t *rapid.T, st *verifkit.Stats, sc *c12Scenario, pool []*c12Operator, r *c12Receiver, caseTags map[string]bool) {
	nMsgs := rapid.IntRange(1, 8).Draw(t, "messages")
	// Half of the cases hand the receiver ready-made message objects. The
	// other half delivers what the senders put on the wire: the marshaled
	// bytes go through the unmarshaler factories the protocol registers on
	// its channel, in bursts of back-to-back envelopes from different network
	// keys - all envelopes of a burst are unmarshaled (and paired with their
	// sender's key) before the first of them reaches the receiver, as it
	// happens with the buffered handler queues of the network channels.
	wire := r.register != nil && rapid.Bool().Draw(t, "viaWire")
	channel := &c12Channel{}
	if wire {
		r.register(channel)
		caseTags["delivery:wire-bytes-through-registered-unmarshalers"] = true
	} else {
		caseTags["delivery:message-objects"] = true
	}
	expected := map[int][]interface{}{}
	var plan, burst []*c12Planned
	var bursts []int
	compare := func() {
		got := r.stored()
		for kind := range r.kindNames {
			if len(got[kind]) != len(expected[kind]) {
				t.Fatalf("%s, group %s (receiver *, i inactive, d disqualified)%s wire=%v bursts=%v: after %s the receiver keeps %d %s messages, the admission rule gives %d",
					r.name, sc.render(pool), r.note, wire, bursts, c12Texts(plan),
					len(got[kind]), r.kindNames[kind], len(expected[kind]))
			}
			for j := range got[kind] {
				same := got[kind][j] == expected[kind][j]
				if wire {
					same = r.ident(got[kind][j]) == r.ident(expected[kind][j])
				}
				if !same {
					t.Fatalf("%s, group %s%s wire=%v bursts=%v: after %s kept %s message #%d is not the admitted one (kept %s)",
						r.name, sc.render(pool), r.note, wire, bursts, c12Texts(plan), r.kindNames[kind], j,
						r.identOrPointer(got[kind][j]))
				}
			}
		}
	}
	for i := 0; i < nMsgs; i++ {
		p := c12Plan(t, sc, pool, r)
		plan = append(plan, p)
		if !wire {
			if p.want {
				expected[p.msg.kind] = append(expected[p.msg.kind], p.payload)
			}
			if err := r.receive(p.netMessage(pool)); err != nil {
				t.Fatalf("%s: Receive returned an error: %v", r.name, err)
			}
			compare()
			continue
		}
		burst = append(burst, p)
		if i < nMsgs-1 && rapid.IntRange(0, 2).Draw(t, "burstEnds") != 0 {
			continue
		}
		bursts = append(bursts, len(burst))
		if len(burst) > 1 {
			caseTags["wire:burst-of-several-messages"] = true
		}
		// the channel takes the burst from the wire ...
		var queued []net.Message
		for _, q := range burst {
			marshaler, ok := q.payload.(net.TaggedMarshaler)
			if !ok {
				continue // not a message of a protocol on this channel
			}
			bytes, err := marshaler.Marshal()
			if err != nil {
				t.Fatalf("%s: cannot marshal %s: %v", r.name, q.text, err)
			}
			factory := channel.unmarshalers[q.typ]
			if factory == nil {
				continue // no unmarshaler registered: dropped by the channel
			}
			unmarshaled := factory()
			if err := unmarshaled.Unmarshal(bytes); err != nil {
				if q.want {
					t.Fatalf("%s: harness message %s does not survive the wire: %v", r.name, q.text, err)
				}
				continue // malformed: dropped by the channel
			}
			queued = append(queued, &c12NetMessage{key: pool[q.msg.op].key, payload: unmarshaled, typ: q.typ})
			if q.want {
				expected[q.msg.kind] = append(expected[q.msg.kind], q.payload)
			}
		}
		// ... and hands it to the receiver afterwards
		for _, m := range queued {
			if err := r.receive(m); err != nil {
				t.Fatalf("%s: Receive returned an error: %v", r.name, err)
			}
		}
		compare()
		burst = nil
	}
	if wire {
		r.note += fmt.Sprintf(" wire-bursts=%v", bursts)
	}
	c12Record(st, sc, pool, r, plan, caseTags)
}

func (r *c12Receiver) identOrPointer(m interface{}) string {
	if r.ident != nil {
		return r.ident(m)
	}
	return fmt.Sprintf("%p", m)
}
