//go:build go1.23

package dkg

// C12, tECDSA key generation: the six receiving states of the DKG protocol
// (ephemeral key generation, symmetric key generation, TSS rounds one to
// three, finalization) and the result signing state of the result publication
// are fed generated (claimed index, sender network key, session, member
// status, message type) combinations through their real Receive; the message
// history the protocol later reads from is compared with the admission model.

import (
	"fmt"
	"math/big"
	"testing"

	"github.com/keep-network/keep-core/internal/testutils"
	"github.com/keep-network/keep-core/internal/verifkit"
	"github.com/keep-network/keep-core/pkg/net"
	"github.com/keep-network/keep-core/pkg/protocol/group"
	"github.com/keep-network/keep-core/pkg/protocol/state"
	"pgregory.net/rapid"
)

// a payload of another protocol sharing the channel (does not have the
// message traits of this protocol)
type c12Foreign struct{ senderID group.MemberIndex }

func (f *c12Foreign) SenderID() group.MemberIndex { return f.senderID }
func (f *c12Foreign) Type() string                { return "c12/foreign" }

var c12DkgKinds = []string{"ephemeralPublicKey", "tssRoundOne", "tssRoundTwo", "tssRoundThree",
	"tssFinalization", "resultSignature", "foreign"}

func c12DkgPayload(kind int, idx group.MemberIndex, session string, key []byte) interface {
	Type() string
} {
	switch kind {
	case 0:
		return &ephemeralPublicKeyMessage{senderID: idx, sessionID: session}
	case 1:
		return &tssRoundOneMessage{senderID: idx, sessionID: session}
	case 2:
		return &tssRoundTwoMessage{senderID: idx, sessionID: session}
	case 3:
		return &tssRoundThreeMessage{senderID: idx, sessionID: session}
	case 4:
		return &tssFinalizationMessage{senderID: idx, sessionID: session}
	case 5:
		return &resultSignatureMessage{senderID: idx, sessionID: session, signature: []byte{1}, publicKey: key}
	default:
		return &c12Foreign{senderID: idx}
	}
}

var c12DkgTypes = func() []string {
	var out []string
	for k := range c12DkgKinds {
		out = append(out, c12DkgPayload(k, 1, "", nil).Type())
	}
	return out
}()

var c12DkgStates = []string{"ephemeralKeyPairGeneration", "symmetricKeyGeneration", "tssRoundOne",
	"tssRoundTwo", "tssRoundThree", "finalization", "resultSigning"}

func TestVerif_C12_TecdsaDkgStates(t *testing.T) {
	st := verifkit.New("C12", "TestVerif_C12_TecdsaDkgStates")
	defer st.Flush()
	pool, signing := c12Pool(t)
	logger := &testutils.MockLogger{}
	channel := &c12Channel{}

	rapid.Check(t, func(t *rapid.T) {
		sc := c12GenScenario(t)
		threshold := rapid.IntRange(0, (sc.n-1)/2).Draw(t, "dishonestThreshold")
		validator := group.NewMembershipValidator(logger, sc.addresses(pool), signing)
		m := newMember(logger, big.NewInt(12), sc.receiver, sc.n, threshold, validator, c12Session, nil, 1)
		// members left out of the attempt are marked before the protocol
		// starts (Execute disqualifies the excluded members); the group
		// supports both marks
		allowed := map[group.MemberIndex]bool{}
		for i := 1; i <= sc.n; i++ {
			idx := group.MemberIndex(i)
			switch {
			case sc.ia[idx]:
				m.group.MarkMemberAsInactive(idx)
			case sc.dq[idx]:
				m.group.MarkMemberAsDisqualified(idx)
			default:
				allowed[idx] = true
			}
		}

		base := state.NewBaseAsyncState()
		m1 := m.initializeEphemeralKeysGeneration()
		m2 := m1.initializeSymmetricKeyGeneration()
		// the TSS party itself is not needed to receive
		m3 := &tssRoundOneMember{symmetricKeyGeneratingMember: m2}
		m4 := m3.initializeTssRoundTwo()
		m5 := m4.initializeTssRoundThree()
		m6 := m5.initializeFinalization()

		si := rapid.IntRange(0, len(c12DkgStates)-1).Draw(t, "state")
		var receive func(net.Message) error
		ownKinds := []int{0, 1, 2, 3, 4, 5} // every protocol message is kept for the state it belongs to
		checkKeyField := false
		switch si {
		case 0:
			receive = (&ephemeralKeyPairGenerationState{BaseAsyncState: base, channel: channel, member: m1}).Receive
		case 1:
			receive = (&symmetricKeyGenerationState{BaseAsyncState: base, channel: channel, member: m2}).Receive
		case 2:
			receive = (&tssRoundOneState{BaseAsyncState: base, channel: channel, member: m3}).Receive
		case 3:
			receive = (&tssRoundTwoState{BaseAsyncState: base, channel: channel, member: m4}).Receive
		case 4:
			receive = (&tssRoundThreeState{BaseAsyncState: base, channel: channel, member: m5}).Receive
		case 5:
			receive = (&finalizationState{BaseAsyncState: base, channel: channel, member: m6}).Receive
		case 6:
			// result publication runs on the group the DKG ended with
			sm := newSigningMember(logger, sc.receiver, m.group, validator, c12Session)
			receive = (&resultSigningState{BaseAsyncState: base, channel: channel, member: sm}).Receive
			ownKinds = []int{5}
			checkKeyField = true
		}

		c12Feed(t, st, sc, pool, &c12Receiver{
			name: c12DkgStates[si], kindNames: c12DkgKinds, ownKinds: ownKinds,
			allowed: allowed, note: fmt.Sprintf(" t=%d", threshold),
			build: func(t *rapid.T, gm c12Msg, key []byte) (interface{}, string, bool, string) {
				p := c12DkgPayload(gm.kind, gm.idx, gm.session, key)
				ok, tag := true, ""
				if rsm, is := p.(*resultSignatureMessage); is && rapid.IntRange(0, 5).Draw(t, "mutPublicKeyField") == 0 {
					other := rapid.IntRange(0, c12PoolSize-1).Draw(t, "publicKeyField")
					rsm.publicKey = pool[other].key
					if string(rsm.publicKey) != string(key) {
						tag = "pubkey-field:not-the-network-key"
						// only the result signing state looks at the field
						ok = !checkKeyField
					}
				}
				return p, p.Type(), ok, tag
			},
			receive:  receive,
			register: RegisterUnmarshallers,
			ident: func(m interface{}) string {
				if v, ok := m.(*resultSignatureMessage); ok {
					return fmt.Sprintf("%s/%d/%q/%x", v.Type(), v.senderID, v.sessionID, v.publicKey[:8])
				}
				if v, ok := m.(message); ok {
					return fmt.Sprintf("%s/%d/%q", v.Type(), v.SenderID(), v.SessionID())
				}
				return fmt.Sprintf("%T", m)
			},
			stored: func() map[int][]interface{} {
				out := map[int][]interface{}{}
				for k, typ := range c12DkgTypes {
					for _, nm := range base.GetAllReceivedMessages(typ) {
						out[k] = append(out[k], nm.Payload())
					}
				}
				return out
			},
		}, map[string]bool{})
	})
}
