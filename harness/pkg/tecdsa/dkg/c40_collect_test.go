//go:build go1.23

package dkg

import (
	"context"
	"crypto/ecdsa"
	"fmt"
	"sort"
	"strings"
	"sync"
	"testing"

	"github.com/ethereum/go-ethereum/crypto"
	"pgregory.net/rapid"

	"github.com/keep-network/keep-common/pkg/chain/ethereum/ethutil"
	"github.com/keep-network/keep-core/internal/testutils"
	"github.com/keep-network/keep-core/internal/verifkit"
	"github.com/keep-network/keep-core/pkg/chain"
	"github.com/keep-network/keep-core/pkg/net"
	"github.com/keep-network/keep-core/pkg/operator"
	"github.com/keep-network/keep-core/pkg/protocol/group"
	"github.com/keep-network/keep-core/pkg/protocol/state"
)

// Third part of C40 ("whenever the client would submit ... every signature
// recovers to its signer under the contract's message hash"): the signatures
// the submitter receives are collected by the result publication states of
// this package from network messages. Here the real states (wired like
// Publish) receive generated signature messages from honest and misbehaving
// group members; whatever reaches ResultSubmitter.SubmitResult must, for every
// member index, be a signature that recovers - the way the contract recovers
// it - to the operator sitting at that seat.

// --- Ethereum-style signing identity (keep-common's signer, the one the
// Ethereum chain handle wraps)

type c40cSigning struct {
	*ethutil.EthereumSigner
	address chain.Address
}

func c40cAddressOf(publicKey []byte) chain.Address {
	return chain.Address(fmt.Sprintf("0x%x", crypto.Keccak256(publicKey[1:])[12:]))
}

func (s *c40cSigning) Address() chain.Address { return s.address }
func (s *c40cSigning) PublicKeyToAddress(*operator.PublicKey) (chain.Address, error) {
	return "", fmt.Errorf("c40: not used by the publication states")
}
func (s *c40cSigning) PublicKeyBytesToAddress(publicKey []byte) chain.Address {
	if len(publicKey) != 65 {
		return ""
	}
	return c40cAddressOf(publicKey)
}

type c40cOperator struct {
	key     *ecdsa.PrivateKey
	pub     []byte // uncompressed, as carried by the network layer
	address chain.Address
	signing *c40cSigning
}

var (
	c40cOnce      sync.Once
	c40cOperators []*c40cOperator // [0..11] group operators, [12..15] outsiders
)

func c40cSetup() {
	c40cOnce.Do(func() {
		for i := 0; i < 16; i++ {
			k, err := crypto.ToECDSA(crypto.Keccak256([]byte(fmt.Sprintf("c40 collect operator %d", i))))
			if err != nil {
				panic(err)
			}
			op := &c40cOperator{key: k, pub: crypto.FromECDSAPub(&k.PublicKey)}
			op.address = c40cAddressOf(op.pub)
			op.signing = &c40cSigning{EthereumSigner: ethutil.NewSigner(k), address: op.address}
			c40cOperators = append(c40cOperators, op)
		}
	})
}

// contract side: OpenZeppelin ECDSA.recover(toEthSignedMessageHash(hash), sig)
func c40cRecover(hash [32]byte, sig []byte) (chain.Address, error) {
	if len(sig) != 65 {
		return "", fmt.Errorf("signature has %d bytes", len(sig))
	}
	if sig[64] != 27 && sig[64] != 28 {
		return "", fmt.Errorf("v = %d", sig[64])
	}
	prefixed := crypto.Keccak256([]byte("\x19Ethereum Signed Message:\n32"), hash[:])
	pub, err := crypto.Ecrecover(prefixed, append(append([]byte{}, sig[:64]...), sig[64]-27))
	if err != nil {
		return "", err
	}
	return c40cAddressOf(pub), nil
}

// ResultSigner built like tbtc's dkgResultSigner: hash from the chain, the
// chain signer signs, verification against the key carried in the message.
type c40cResultSigner struct {
	signing chain.Signing
	hash    ResultSignatureHash
}

func (s *c40cResultSigner) SignResult(*Result) (*SignedResult, error) {
	sig, err := s.signing.Sign(s.hash[:])
	if err != nil {
		return nil, err
	}
	return &SignedResult{PublicKey: s.signing.PublicKey(), Signature: sig, ResultHash: s.hash}, nil
}

func (s *c40cResultSigner) VerifySignature(sr *SignedResult) (bool, error) {
	return s.signing.VerifyWithPublicKey(sr.ResultHash[:], sr.Signature, sr.PublicKey)
}

type c40cSubmission struct {
	member     group.MemberIndex
	result     *Result
	signatures map[group.MemberIndex][]byte
}

type c40cSubmitter struct{ calls []c40cSubmission }

func (s *c40cSubmitter) SubmitResult(_ context.Context, m group.MemberIndex, r *Result, sigs map[group.MemberIndex][]byte) error {
	cp := map[group.MemberIndex][]byte{}
	for k, v := range sigs {
		cp[k] = append([]byte{}, v...)
	}
	s.calls = append(s.calls, c40cSubmission{m, r, cp})
	return nil
}

type c40cChannel struct{ sent []net.TaggedMarshaler }

func (c *c40cChannel) Name() string { return "c40" }
func (c *c40cChannel) Send(_ context.Context, m net.TaggedMarshaler, _ ...net.RetransmissionStrategy) error {
	c.sent = append(c.sent, m)
	return nil
}
func (c *c40cChannel) Recv(context.Context, func(net.Message))     {}
func (c *c40cChannel) SetUnmarshaler(func() net.TaggedUnmarshaler) {}
func (c *c40cChannel) SetFilter(net.BroadcastChannelFilter) error  { return nil }

type c40cNetMessage struct {
	payload   *resultSignatureMessage
	senderKey []byte
}

func (m *c40cNetMessage) TransportSenderID() net.TransportIdentifier { return nil }
func (m *c40cNetMessage) SenderPublicKey() []byte                    { return m.senderKey }
func (m *c40cNetMessage) Payload() interface{}                       { return m.payload }
func (m *c40cNetMessage) Type() string                               { return m.payload.Type() }
func (m *c40cNetMessage) Seqno() uint64                              { return 0 }

// one generated network message
type c40cEvent struct {
	kind   string
	sender group.MemberIndex // claimed member index
	msg    *c40cNetMessage
}

const c40cSession = "c40-session"

func TestVerif_C40_CollectedSignaturesRecoverToSeatOperators(t *testing.T) {
	c40cSetup()
	st := verifkit.New("C40", "TestVerif_C40_CollectedSignaturesRecoverToSeatOperators")
	defer st.Flush()
	logger := &testutils.MockLogger{}
	rapid.Check(t, func(t *rapid.T) {
		n := rapid.IntRange(3, 12).Draw(t, "groupSize")
		nOps := rapid.IntRange(2, min(n, 12)).Draw(t, "operators")
		seatOp := make([]*c40cOperator, n+1) // 1-based
		var addresses []chain.Address
		for i := 1; i <= n; i++ {
			// every operator holds at least one seat while seats last
			idx := i - 1
			if idx >= nOps {
				idx = rapid.IntRange(0, nOps-1).Draw(t, "seatOperator")
			}
			seatOp[i] = c40cOperators[idx]
			addresses = append(addresses, seatOp[i].address)
		}
		self := group.MemberIndex(rapid.IntRange(1, n).Draw(t, "self"))

		dkgGroup := group.NewGroup(n/2, n)
		excluded := map[group.MemberIndex]bool{}
		nExcluded := rapid.IntRange(0, (n-1)/3).Draw(t, "excluded")
		for len(excluded) < nExcluded {
			m := group.MemberIndex(rapid.IntRange(1, n).Draw(t, "excludedMember"))
			if m == self || excluded[m] {
				continue
			}
			excluded[m] = true
			if rapid.Bool().Draw(t, "inactive") {
				dkgGroup.MarkMemberAsInactive(m)
			} else {
				dkgGroup.MarkMemberAsDisqualified(m)
			}
		}
		result := &Result{Group: dkgGroup}

		var hash, otherHash ResultSignatureHash
		copy(hash[:], crypto.Keccak256(rapid.SliceOfN(rapid.Byte(), 8, 8).Draw(t, "resultSeed")))
		copy(otherHash[:], crypto.Keccak256(hash[:]))

		// messages of the other members
		sign := func(op *c40cOperator, h ResultSignatureHash) []byte {
			sig, err := op.signing.Sign(h[:])
			if err != nil {
				t.Fatalf("harness: %v", err)
			}
			return sig
		}
		foreignFor := func(seat group.MemberIndex, label string) *c40cOperator {
			// a key that does not belong to the operator of the seat: an
			// outsider's or another group operator's
			for {
				op := c40cOperators[rapid.IntRange(0, 15).Draw(t, label)]
				if op != seatOp[seat] {
					return op
				}
			}
		}
		mk := func(kind string, claimed group.MemberIndex, netKey, announcedKey, sig []byte, h ResultSignatureHash, session string) c40cEvent {
			return c40cEvent{kind: kind, sender: claimed, msg: &c40cNetMessage{
				payload:   &resultSignatureMessage{senderID: claimed, resultHash: h, signature: sig, publicKey: announcedKey, sessionID: session},
				senderKey: netKey,
			}}
		}
		var events []c40cEvent
		honestOnly := map[group.MemberIndex]bool{}
		rogueKinds := map[string]bool{}
		for m := group.MemberIndex(1); int(m) <= n; m++ {
			if m == self {
				continue
			}
			op := seatOp[m]
			honest := mk("honest", m, op.pub, op.pub, sign(op, hash), hash, c40cSession)
			if excluded[m] {
				// excluded members may still talk
				if rapid.Bool().Draw(t, "excludedTalks") {
					e := honest
					e.kind = "from-excluded"
					events = append(events, e)
					rogueKinds[e.kind] = true
				}
				continue
			}
			var mine []c40cEvent
			behaviour := rapid.SampledFrom([]string{"honest", "honest", "honest", "honest", "honest", "honest", "rogue-then-honest", "honest-then-rogue", "rogue-only", "silent"}).Draw(t, "behaviour")
			rogue := func() c40cEvent {
				kind := rapid.SampledFrom([]string{"foreign-key", "foreign-key", "wrong-session", "wrong-seat", "as-self", "other-hash", "bad-signature", "key-mismatch-only"}).Draw(t, "rogueKind")
				rogueKinds[kind] = true
				switch kind {
				case "foreign-key": // signs with another key and announces that key
					f := foreignFor(m, "foreignKey")
					return mk(kind, m, op.pub, f.pub, sign(f, hash), hash, c40cSession)
				case "wrong-session":
					return mk(kind, m, op.pub, op.pub, sign(op, hash), hash, c40cSession+"-old")
				case "wrong-seat": // another operator claims this seat with its own, consistent key
					f := foreignFor(m, "seatThief")
					return mk(kind, m, f.pub, f.pub, sign(f, hash), hash, c40cSession)
				case "as-self": // claims to be the receiving member
					return mk(kind, self, op.pub, op.pub, sign(op, hash), hash, c40cSession)
				case "other-hash":
					return mk(kind, m, op.pub, op.pub, sign(op, otherHash), otherHash, c40cSession)
				case "bad-signature":
					sig := sign(op, hash)
					sig[rapid.IntRange(0, 63).Draw(t, "flipAt")] ^= 0x40
					return mk(kind, m, op.pub, op.pub, sig, hash, c40cSession)
				default: // announces its own key but the signature is somebody else's
					f := foreignFor(m, "signatureBy")
					return mk("key-mismatch-only", m, op.pub, op.pub, sign(f, hash), hash, c40cSession)
				}
			}
			switch behaviour {
			case "honest":
				mine = []c40cEvent{honest}
				honestOnly[m] = true
			case "rogue-then-honest":
				mine = []c40cEvent{rogue(), honest}
			case "honest-then-rogue":
				mine = []c40cEvent{honest, rogue()}
			case "rogue-only":
				mine = []c40cEvent{rogue()}
			}
			events = append(events, mine...)
		}
		// delivery order: senders interleaved at random, the messages of one
		// sender keep their order
		senderOf := func(e c40cEvent) string { return fmt.Sprintf("%d/%x", e.sender, e.msg.senderKey[:8]) }
		order := rapid.Permutation(events).Draw(t, "delivery")
		queues := map[string][]c40cEvent{}
		for _, e := range events {
			queues[senderOf(e)] = append(queues[senderOf(e)], e)
		}
		for i, e := range order {
			k := senderOf(e)
			order[i] = queues[k][0]
			queues[k] = queues[k][1:]
		}

		selfOp := seatOp[self]
		submitter := &c40cSubmitter{}
		channel := &c40cChannel{}
		signing := &resultSigningState{
			BaseAsyncState:  state.NewBaseAsyncState(),
			channel:         channel,
			resultSigner:    &c40cResultSigner{signing: selfOp.signing, hash: hash},
			resultSubmitter: submitter,
			member:          newSigningMember(logger, self, dkgGroup, group.NewMembershipValidator(logger, addresses, selfOp.signing), c40cSession),
			result:          result,
		}
		ctx, cancel := context.WithCancel(context.Background())
		defer cancel()
		if err := signing.Initiate(ctx); err != nil {
			t.Fatalf("signing state Initiate: %v", err)
		}
		delivered := 0
		for _, e := range order {
			if err := signing.Receive(e.msg); err != nil {
				t.Fatalf("Receive: %v", err)
			}
			delivered++
			if signing.CanTransition() && rapid.IntRange(0, 2).Draw(t, "leaveNow") != 0 {
				break // the machine leaves the state at some poll after it may
			}
		}
		var kinds []string
		for k := range rogueKinds {
			kinds = append(kinds, k)
		}
		sort.Strings(kinds)
		var seats []string
		for i := 1; i <= n; i++ {
			seats = append(seats, fmt.Sprintf("%d:op%d", i, c40cIndexOf(seatOp[i])))
		}
		var deliveredDesc []string
		for _, e := range order[:delivered] {
			deliveredDesc = append(deliveredDesc, fmt.Sprintf("%d:%s", e.sender, e.kind))
		}
		desc := fmt.Sprintf("n=%d self=%d seats=[%s] excluded=%d delivered=[%s]", n, self, strings.Join(seats, " "), len(excluded), strings.Join(deliveredDesc, " "))

		if !signing.CanTransition() {
			// the client does not get to submit with what it has received
			st.Case(len(kinds) > 0, desc+" -> waits", append(c40cLabels(kinds), "outcome:waits-for-signatures")...)
			return
		}
		next, err := signing.Next()
		if err != nil {
			t.Fatalf("Next: %v", err)
		}
		verification := next.(*signaturesVerificationState)
		if err := verification.Initiate(ctx); err != nil {
			t.Fatalf("verification Initiate: %v", err)
		}
		next, err = verification.Next()
		if err != nil {
			t.Fatalf("Next: %v", err)
		}
		if err := next.(*resultSubmissionState).Initiate(ctx); err != nil {
			t.Fatalf("submission Initiate: %v", err)
		}
		if len(submitter.calls) != 1 || submitter.calls[0].member != self || submitter.calls[0].result != result {
			t.Fatalf("%s: submitter called %d times", desc, len(submitter.calls))
		}
		sigs := submitter.calls[0].signatures
		for m, sig := range sigs {
			if int(m) < 1 || int(m) > n || !dkgGroup.IsOperating(m) {
				t.Fatalf("%s: a signature is submitted for member %d which is not an operating group member", desc, m)
			}
			rec, err := c40cRecover(hash, sig)
			if err != nil {
				t.Fatalf("%s: the signature submitted for member %d cannot be recovered by the contract: %v", desc, m, err)
			}
			if rec != seatOp[m].address {
				t.Fatalf("%s: the signature submitted for member %d recovers to %s under the result hash; the operator at that seat is %s (op%d)",
					desc, m, rec, seatOp[m].address, c40cIndexOf(seatOp[m]))
			}
		}
		if _, ok := sigs[self]; !ok {
			t.Fatalf("%s: own signature missing", desc)
		}
		// members that only ever sent their honest message and whose message
		// was delivered support the result
		for _, e := range order[:delivered] {
			if e.kind == "honest" && honestOnly[e.sender] {
				if _, ok := sigs[e.sender]; !ok {
					t.Fatalf("%s: the delivered honest signature of member %d is not among the submitted ones %v", desc, e.sender, c40cKeys(sigs))
				}
			}
		}
		st.Case(len(kinds) > 0, desc+fmt.Sprintf(" -> submits %v", c40cKeys(sigs)), append(c40cLabels(kinds), "outcome:submits")...)
	})
}

func c40cIndexOf(op *c40cOperator) int {
	for i, o := range c40cOperators {
		if o == op {
			return i
		}
	}
	return -1
}

func c40cKeys(m map[group.MemberIndex][]byte) []int {
	var out []int
	for k := range m {
		out = append(out, int(k))
	}
	sort.Ints(out)
	return out
}

func c40cLabels(kinds []string) []string {
	if len(kinds) == 0 {
		return []string{"rogue:none"}
	}
	var out []string
	for _, k := range kinds {
		out = append(out, "rogue:"+k)
	}
	return out
}
