//go:build go1.23

package dkg

import (
	"fmt"
	"math/big"
	"testing"

	"github.com/keep-network/keep-core/internal/testutils"
	"github.com/keep-network/keep-core/internal/verifkit"
	"github.com/keep-network/keep-core/pkg/chain"
	"github.com/keep-network/keep-core/pkg/chain/local_v1"
	"github.com/keep-network/keep-core/pkg/crypto/ephemeral"
	"github.com/keep-network/keep-core/pkg/net"
	"github.com/keep-network/keep-core/pkg/operator"
	"github.com/keep-network/keep-core/pkg/protocol/group"
	"github.com/keep-network/keep-core/pkg/protocol/state"
	"pgregory.net/rapid"
)

// c15NetMsg is a broadcast channel message as the network layer presents it.
type c15NetMsg struct {
	payload   message
	senderKey []byte
	seq       uint64
}

func (m *c15NetMsg) TransportSenderID() net.TransportIdentifier { return nil }
func (m *c15NetMsg) SenderPublicKey() []byte                    { return m.senderKey }
func (m *c15NetMsg) Payload() interface{}                       { return m.payload }
func (m *c15NetMsg) Type() string                               { return m.payload.Type() }
func (m *c15NetMsg) Seqno() uint64                              { return m.seq }

type c15Group struct {
	size      int
	keys      [][]byte // network public key of member i+1
	validator *group.MembershipValidator
}

func c15NewGroup(size int) (*c15Group, error) {
	g := &c15Group{size: size}
	priv, _, err := operator.GenerateKeyPair(local_v1.DefaultCurve)
	if err != nil {
		return nil, err
	}
	signing := local_v1.NewSigner(priv)
	addresses := make([]chain.Address, size)
	for i := 0; i < size; i++ {
		_, pub, err := operator.GenerateKeyPair(local_v1.DefaultCurve)
		if err != nil {
			return nil, err
		}
		addr, err := signing.PublicKeyToAddress(pub)
		if err != nil {
			return nil, err
		}
		addresses[i] = addr
		g.keys = append(g.keys, operator.MarshalUncompressed(pub))
	}
	g.validator = group.NewMembershipValidator(&testutils.MockLogger{}, addresses, signing)
	return g, nil
}

// the message kinds of the two tECDSA DKG machines, with the position of the
// last state of the chain that still waits for them while it is current (the
// state after it reads them at the instant it is entered)
type c15Kind struct {
	name     string
	neededUp int
	make     func(sender group.MemberIndex, session string, senderKey []byte) message
}

var c15KeyGenKinds = []c15Kind{
	{"ephemeral-public-key", 0, func(s group.MemberIndex, sess string, _ []byte) message {
		return &ephemeralPublicKeyMessage{senderID: s, ephemeralPublicKeys: map[group.MemberIndex]*ephemeral.PublicKey{}, sessionID: sess}
	}},
	{"tss-round-one", 2, func(s group.MemberIndex, sess string, _ []byte) message {
		return &tssRoundOneMessage{senderID: s, broadcastPayload: []byte{1}, sessionID: sess}
	}},
	{"tss-round-two", 3, func(s group.MemberIndex, sess string, _ []byte) message {
		return &tssRoundTwoMessage{senderID: s, broadcastPayload: []byte{2}, peersPayload: map[group.MemberIndex][]byte{}, sessionID: sess}
	}},
	{"tss-round-three", 4, func(s group.MemberIndex, sess string, _ []byte) message {
		return &tssRoundThreeMessage{senderID: s, broadcastPayload: []byte{3}, sessionID: sess}
	}},
	{"tss-finalization", 5, func(s group.MemberIndex, sess string, _ []byte) message {
		return &tssFinalizationMessage{senderID: s, sessionID: sess}
	}},
}

var c15PublicationKinds = []c15Kind{
	{"result-signature", 0, func(s group.MemberIndex, sess string, key []byte) message {
		return &resultSignatureMessage{senderID: s, resultHash: ResultSignatureHash{1}, signature: []byte{9}, publicKey: key, sessionID: sess}
	}},
}

// c15Chain builds the real states of one of the two machines, sharing one
// BaseAsyncState exactly as dkg.go / the states' Next() wire them.
func c15Chain(machine string, g *c15Group, self group.MemberIndex, session string) ([]state.AsyncState, *state.BaseAsyncState, []string) {
	base := state.NewBaseAsyncState()
	dkgGroup := group.NewGroup((g.size-1)/2, g.size)
	if machine == "publication" {
		sm := newSigningMember(&testutils.MockLogger{}, self, dkgGroup, g.validator, session)
		return []state.AsyncState{
				&resultSigningState{BaseAsyncState: base, member: sm},
				&signaturesVerificationState{BaseAsyncState: base, member: sm},
				&resultSubmissionState{BaseAsyncState: base, member: sm.initializeSubmittingMember()},
			}, base,
			[]string{"resultSigning", "signaturesVerification", "resultSubmission"}
	}
	m := newMember(&testutils.MockLogger{}, big.NewInt(7), self, g.size, (g.size-1)/2, g.validator, session, nil, 1)
	ek := m.initializeEphemeralKeysGeneration()
	sk := ek.initializeSymmetricKeyGeneration()
	r1 := &tssRoundOneMember{symmetricKeyGeneratingMember: sk}
	r2 := r1.initializeTssRoundTwo()
	r3 := r2.initializeTssRoundThree()
	fin := r3.initializeFinalization()
	return []state.AsyncState{
			&ephemeralKeyPairGenerationState{BaseAsyncState: base, member: ek},
			&symmetricKeyGenerationState{BaseAsyncState: base, member: sk},
			&tssRoundOneState{BaseAsyncState: base, member: r1},
			&tssRoundTwoState{BaseAsyncState: base, member: r2},
			&tssRoundThreeState{BaseAsyncState: base, member: r3},
			&finalizationState{BaseAsyncState: base, member: fin},
		}, base,
		[]string{"ephemeralKeyPairGeneration", "symmetricKeyGeneration", "tssRoundOne", "tssRoundTwo", "tssRoundThree", "finalization"}
}

// TestVerif_C15_DKGStatesKeepFutureMessages: whichever state of the real
// tECDSA DKG machines is current, a valid message that this state or a later
// one of the same machine still needs is kept in the shared history
// (a member that lags behind gets the messages of the faster ones only once:
// the network layer filters retransmissions of what it has delivered).
func TestVerif_C15_DKGStatesKeepFutureMessages(t *testing.T) {
	st := verifkit.New("C15", "TestVerif_C15_DKGStatesKeepFutureMessages")
	defer st.Flush()
	groups := map[int]*c15Group{}
	for n := 2; n <= 5; n++ {
		g, err := c15NewGroup(n)
		if err != nil {
			t.Fatalf("VERIF-INCONCLUSIVE: cannot set up group: %v", err)
		}
		groups[n] = g
	}
	rapid.Check(t, func(t *rapid.T) {
		n := rapid.IntRange(2, 5).Draw(t, "groupSize")
		g := groups[n]
		self := group.MemberIndex(rapid.IntRange(1, n).Draw(t, "member"))
		session := fmt.Sprintf("session-%d", rapid.IntRange(1, 1000).Draw(t, "session"))
		machine := rapid.SampledFrom([]string{"key-generation", "key-generation", "key-generation", "publication"}).Draw(t, "machine")
		states, base, names := c15Chain(machine, g, self, session)
		kinds := c15KeyGenKinds
		if machine == "publication" {
			kinds = c15PublicationKinds
		}
		// a history of deliveries: while a drawn state is current, messages
		// of kinds that state or a later one still needs arrive from peers
		steps := rapid.IntRange(1, 12).Draw(t, "deliveries")
		cur := 0
		want := map[string][]uint64{}
		var trace []string
		lag := false
		for i := 0; i < steps; i++ {
			cur = rapid.IntRange(cur, len(states)-1).Draw(t, "currentState") // the member only moves forward
			var eligible []c15Kind
			for _, k := range kinds {
				if k.neededUp >= cur {
					eligible = append(eligible, k)
				}
			}
			if len(eligible) == 0 {
				continue
			}
			k := eligible[rapid.IntRange(0, len(eligible)-1).Draw(t, "kind")]
			sender := group.MemberIndex(rapid.IntRange(1, n-1).Draw(t, "sender"))
			if sender >= self {
				sender++
			}
			msg := &c15NetMsg{payload: k.make(sender, session, g.keys[sender-1]), senderKey: g.keys[sender-1], seq: uint64(i + 1)}
			if err := states[cur].Receive(msg); err != nil {
				t.Fatalf("state %s: Receive failed: %v", names[cur], err)
			}
			want[msg.Type()] = append(want[msg.Type()], msg.seq)
			trace = append(trace, fmt.Sprintf("%s<-%s(from %d)", names[cur], k.name, sender))
			// a message for a LATER state than the current one
			first := map[string]int{"ephemeral-public-key": 0, "tss-round-one": 2, "tss-round-two": 3, "tss-round-three": 4, "tss-finalization": 5, "result-signature": 0}[k.name]
			if first > cur {
				lag = true
			}
			var got []uint64
			for _, m := range base.GetAllReceivedMessages(msg.Type()) {
				got = append(got, m.Seqno())
			}
			if fmt.Sprint(got) != fmt.Sprint(want[msg.Type()]) {
				t.Fatalf("member %d of %d: a valid %s message from member %d arrived while state %s was current and is not kept for the state(s) that need it: history of that type has messages %v, admitted %v; deliveries: %v",
					self, n, k.name, sender, names[cur], got, want[msg.Type()], trace)
			}
		}
		st.Case(lag, fmt.Sprintf("N=%d member=%d %s: %v", n, self, machine, trace), "machine:"+machine, fmt.Sprintf("message-for-later-state:%v", lag))
	})
}
