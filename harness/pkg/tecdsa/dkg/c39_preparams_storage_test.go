//go:build go1.23

package dkg

import (
	"context"
	"fmt"
	"math/big"
	"os"
	"path/filepath"
	"sort"
	"strings"
	"sync"
	"sync/atomic"
	"testing"
	"time"

	"github.com/bnb-chain/tss-lib/ecdsa/keygen"
	"google.golang.org/protobuf/proto"

	"github.com/keep-network/keep-common/pkg/persistence"
	"github.com/keep-network/keep-core/internal/verifkit"
	"github.com/keep-network/keep-core/pkg/generator"
	"github.com/keep-network/keep-core/pkg/internal/tecdsatest"
	"github.com/keep-network/keep-core/pkg/protocol/group"
	"github.com/keep-network/keep-core/pkg/tecdsa/dkg/gen/pb"
	"pgregory.net/rapid"
)

// C39, storage layer: preParamsStorage over the real keep-common disk
// persistence. The eight complete pre-parameter sets that exist offline (three
// predefined in protocol_test.go, five in the tecdsatest fixtures) are the
// parameter data; identity of a parameter is (fixture, creation timestamp).

const (
	c39KeyD9  = "D9-nil-after-save-failure"
	c39KeyD9b = "D9b-incomplete-preparams-record"
)

type c39NopLogger struct{}

func (c39NopLogger) Debug(args ...interface{})                   {}
func (c39NopLogger) Debugf(format string, args ...interface{})   {}
func (c39NopLogger) Error(args ...interface{})                   {}
func (c39NopLogger) Errorf(format string, args ...interface{})   {}
func (c39NopLogger) Fatal(args ...interface{})                   {}
func (c39NopLogger) Fatalf(format string, args ...interface{})   {}
func (c39NopLogger) Info(args ...interface{})                    {}
func (c39NopLogger) Infof(format string, args ...interface{})    {}
func (c39NopLogger) Panic(args ...interface{})                   {}
func (c39NopLogger) Panicf(format string, args ...interface{})   {}
func (c39NopLogger) Warn(args ...interface{})                    {}
func (c39NopLogger) Warnf(format string, args ...interface{})    {}
func (c39NopLogger) Warning(args ...interface{})                 {}
func (c39NopLogger) Warningf(format string, args ...interface{}) {}

var c39FixtureOnce sync.Once
var c39FixtureList []*keygen.LocalPreParams
var c39FixtureErr error

func c39Fixtures(t interface{ Fatalf(string, ...any) }) []*keygen.LocalPreParams {
	c39FixtureOnce.Do(func() {
		predefined, err := generateMembersTssPreParams(3)
		if err != nil {
			c39FixtureErr = err
			return
		}
		for i := 1; i <= 3; i++ {
			c39FixtureList = append(c39FixtureList, predefined[group.MemberIndex(i)])
		}
		shares, err := tecdsatest.LoadPrivateKeyShareTestFixtures(5)
		if err != nil {
			c39FixtureErr = err
			return
		}
		for i := range shares {
			lp := shares[i].LocalPreParams
			// the key-share fixtures partly reuse the predefined sets
			if c39WhichFixture(c39FixtureList, &lp) < 0 {
				c39FixtureList = append(c39FixtureList, &lp)
			}
		}
		for i, f := range c39FixtureList {
			for j, n := range c39Numbers(f) {
				if n == nil || n.Sign() <= 0 {
					c39FixtureErr = fmt.Errorf("fixture %d: number %d missing", i, j)
				}
			}
		}
	})
	if c39FixtureErr != nil {
		t.Fatalf("VERIF-INCONCLUSIVE: cannot load pre-parameter fixtures: %v", c39FixtureErr)
	}
	return c39FixtureList
}

// c39Numbers lists the ten numbers a complete pre-parameter set consists of.
func c39Numbers(d *keygen.LocalPreParams) []*big.Int {
	if d == nil {
		return make([]*big.Int, 10)
	}
	out := make([]*big.Int, 0, 10)
	if d.PaillierSK == nil {
		out = append(out, nil, nil, nil)
	} else {
		out = append(out, d.PaillierSK.N, d.PaillierSK.LambdaN, d.PaillierSK.PhiN)
	}
	return append(out, d.NTildei, d.H1i, d.H2i, d.Alpha, d.Beta, d.P, d.Q)
}

// c39Shape renders which of the ten numbers are present (bit lengths).
func c39Shape(d *keygen.LocalPreParams) string {
	names := []string{"N", "lambdaN", "phiN", "NTilde", "h1", "h2", "alpha", "beta", "p", "q"}
	var sb strings.Builder
	for i, n := range c39Numbers(d) {
		if n == nil {
			fmt.Fprintf(&sb, "%s=nil ", names[i])
		} else {
			fmt.Fprintf(&sb, "%s=%dbit ", names[i], n.BitLen())
		}
	}
	return sb.String()
}

// c39WhichFixture: which fixture (index) does the data equal completely? -1 if none.
func c39WhichFixture(fx []*keygen.LocalPreParams, d *keygen.LocalPreParams) int {
	got := c39Numbers(d)
	for i, f := range fx {
		want := c39Numbers(f)
		same := true
		for j := range want {
			if got[j] == nil || got[j].Cmp(want[j]) != 0 {
				same = false
				break
			}
		}
		if same {
			return i
		}
	}
	return -1
}

type c39Record struct {
	fixture int
	ts      time.Time
	id      string
}

func (r c39Record) String() string {
	return fmt.Sprintf("f%d@%dus", r.fixture, r.ts.Sub(c39Epoch).Microseconds())
}

var c39Epoch = time.Unix(1_700_000_000, 0).UTC()

func c39TempDir(t *rapid.T) string {
	dir, err := os.MkdirTemp(".", "c39-")
	if err != nil {
		t.Fatalf("VERIF-INCONCLUSIVE: cannot create a scratch directory: %v", err)
	}
	return dir
}

// old-format record: a pre-parameter set persisted without the proof numbers
// (alpha, beta, p, q were added to tss-lib's LocalPreParams later).
func c39MarshalWithout(pp *PreParams, drop string) []byte {
	full, _ := pp.Marshal()
	msg := &pb.PreParams{}
	_ = proto.Unmarshal(full, msg)
	switch drop {
	case "proof":
		msg.Data.Alpha, msg.Data.Beta, msg.Data.P, msg.Data.Q = nil, nil, nil, nil
	case "q":
		msg.Data.Q = nil
	case "ntilde":
		msg.Data.NTilde = nil
	case "paillier":
		msg.Data.PaillierSK = nil
	case "data":
		msg.Data = nil
	case "timestamp":
		msg.CreationTimestamp = nil
	}
	out, _ := proto.Marshal(msg)
	return out
}

func TestVerif_C39_StorageRoundTrip(t *testing.T) {
	st := verifkit.New("C39", "TestVerif_C39_StorageRoundTrip")
	defer st.Flush()
	fx := c39Fixtures(t)
	rapid.Check(t, func(t *rapid.T) {
		dir := c39TempDir(t)
		defer os.RemoveAll(dir)
		handle, err := persistence.NewBasicDiskHandle(dir)
		if err != nil {
			t.Fatalf("VERIF-INCONCLUSIVE: %v", err)
		}
		storage := newPreParamsStorage(handle, c39NopLogger{})

		var model []c39Record             // saved and not deleted
		var deleted []*PersistedPreParams // handles of deleted records
		handles := map[string]*PersistedPreParams{}
		used := map[string]bool{}
		var tr []string
		foreign := 0 // records written behind the storage's back
		foreignKinds := map[string]bool{}
		benign := map[string]int{} // foreign file name -> fixture whose complete data it carries
		reads, ties := 0, 0

		check := func() {
			all, err := storage.ReadAll()
			if err != nil {
				t.Fatalf("ReadAll failed: %v", err)
			}
			reads++
			seen := map[string]bool{}
			for i, p := range all {
				if p == nil {
					t.Fatalf("ReadAll returned a nil entry")
				}
				if i > 0 && p.Data.creationTimestamp.Before(all[i-1].Data.creationTimestamp) {
					t.Fatalf("ReadAll is not first-in first-out: entry %d (%v) is older than entry %d (%v)", i, p.Data.creationTimestamp, i-1, all[i-1].Data.creationTimestamp)
				}
				if seen[p.ID] {
					t.Fatalf("ReadAll returned record %s twice", p.ID)
				}
				seen[p.ID] = true
				which := c39WhichFixture(fx, p.Data.data)
				if which < 0 {
					t.Logf("history: %s", strings.Join(tr, " "))
					t.Logf("record %s: %s", p.ID, c39Shape(p.Data.data))
					t.Fatalf("ReadAll returned an incomplete or altered pre-parameter set (a parameter that was never generated) [finding-key=D9b-incomplete-preparams-record]")
				}
				var rec *c39Record
				for k := range model {
					if model[k].id == p.ID {
						rec = &model[k]
					}
				}
				if rec == nil {
					if f, ok := benign[p.ID]; ok && f == which {
						continue // complete data written behind the storage's back: harmless
					}
					t.Fatalf("ReadAll returned record %s which was deleted or never saved", p.ID)
				}
				if rec.fixture != which || !p.Data.creationTimestamp.Equal(rec.ts) {
					t.Fatalf("record %s came back as fixture %d @%v, saved as %v", p.ID, which, p.Data.creationTimestamp, *rec)
				}
				if !p.Data.data.ValidateWithProof() {
					t.Fatalf("record %s came back failing tss-lib validation", p.ID)
				}
			}
			for _, rec := range model {
				if !seen[rec.id] {
					t.Fatalf("saved record %v (%s) is missing from ReadAll", rec, rec.id)
				}
			}
		}

		steps := rapid.IntRange(2, 24).Draw(t, "steps")
		for i := 0; i < steps; i++ {
			op := rapid.SampledFrom([]string{"save", "save", "save", "save", "delete", "delete", "delete-again", "read", "read", "reopen", "foreign", "foreign"}).Draw(t, "op")
			k := rapid.IntRange(0, len(fx)-1).Draw(t, "fixture")
			// timestamps from a narrow window: same-millisecond neighbours and
			// out-of-order creation times are frequent
			off := time.Duration(rapid.IntRange(0, 4000).Draw(t, "offsetMicros")) * time.Microsecond
			pick := rapid.IntRange(0, 1<<20).Draw(t, "pick")
			kind := rapid.SampledFrom([]string{"garbage", "truncated", "empty", "old-format", "no-q", "no-ntilde", "no-paillier", "no-data", "no-timestamp", "other-dir", "boundary"}).Draw(t, "foreignKind")
			cut := rapid.IntRange(1, 1<<20).Draw(t, "cut")
			switch op {
			case "save":
				ts := c39Epoch.Add(off)
				key := fmt.Sprintf("%d/%d", k, off)
				if used[key] {
					continue // the very same parameter is never generated twice
				}
				used[key] = true
				for _, r := range model {
					if r.ts.Equal(ts) {
						ties++
					}
				}
				persisted, err := storage.Save(&PreParams{data: fx[k], creationTimestamp: ts})
				if err != nil || persisted == nil {
					t.Fatalf("Save failed on a working disk: %v", err)
				}
				if _, dup := handles[persisted.ID]; dup {
					t.Fatalf("Save reused record name %s for a different parameter", persisted.ID)
				}
				if persisted.Data.data != fx[k] || !persisted.Data.creationTimestamp.Equal(ts) {
					t.Fatalf("Save returned a different parameter than it was given")
				}
				handles[persisted.ID] = persisted
				rec := c39Record{fixture: k, ts: ts, id: persisted.ID}
				model = append(model, rec)
				tr = append(tr, "save("+rec.String()+")")
			case "delete":
				if len(model) == 0 {
					continue
				}
				j := pick % len(model)
				rec := model[j]
				if err := storage.Delete(handles[rec.id]); err != nil {
					t.Fatalf("Delete of stored record %v failed: %v", rec, err)
				}
				model = append(model[:j:j], model[j+1:]...)
				deleted = append(deleted, handles[rec.id])
				tr = append(tr, "delete("+rec.String()+")")
			case "delete-again":
				if len(deleted) == 0 {
					continue
				}
				h := deleted[pick%len(deleted)]
				if err := storage.Delete(h); err == nil {
					t.Fatalf("Delete of the already deleted record %s reported success", h.ID)
				}
				tr = append(tr, "delete-again")
			case "read":
				check()
				tr = append(tr, "read")
			case "reopen":
				handle, err = persistence.NewBasicDiskHandle(dir)
				if err != nil {
					t.Fatalf("VERIF-INCONCLUSIVE: %v", err)
				}
				storage = newPreParamsStorage(handle, c39NopLogger{})
				tr = append(tr, "reopen")
			case "foreign":
				if verifkit.Known(c39KeyD9b) {
					switch kind {
					case "empty", "old-format", "no-q", "no-ntilde", "no-paillier", "no-data":
						st.Excluded(c39KeyD9b) // open known finding: steer around it
						kind = "garbage"
					}
				}
				// what a crash in the middle of a write, a damaged disk or an
				// older client version may leave in the directory
				pp := &PreParams{data: fx[k], creationTimestamp: c39Epoch.Add(off)}
				full, _ := pp.Marshal()
				name := fmt.Sprintf("pp_foreign_%d", foreign)
				target := dirName
				var content []byte
				switch kind {
				case "garbage":
					content = []byte(fmt.Sprintf("\xff\xfe%d-not-a-record-%d", pick, cut))
				case "truncated":
					content = full[:1+cut%(len(full)-1)]
					// cutting exactly behind the data message leaves a complete set
					msg := &pb.PreParams{}
					if proto.Unmarshal(content, msg) == nil {
						probe := &PreParams{}
						if probe.Unmarshal(content) == nil && c39WhichFixture(fx, probe.data) == k {
							benign[name] = k
						}
					}
				case "boundary":
					content = c39MarshalWithout(pp, "timestamp") // = cut behind the data message
					benign[name] = k
				case "empty":
					content = []byte{}
				case "old-format":
					content = c39MarshalWithout(pp, "proof")
				case "no-q":
					content = c39MarshalWithout(pp, "q")
				case "no-ntilde":
					content = c39MarshalWithout(pp, "ntilde")
				case "no-paillier":
					content = c39MarshalWithout(pp, "paillier")
				case "no-data":
					content = c39MarshalWithout(pp, "data")
				case "no-timestamp":
					content = c39MarshalWithout(pp, "timestamp")
					benign[name] = k
				case "other-dir":
					content = full
					target = "not-" + dirName
				}
				if err := os.MkdirAll(filepath.Join(dir, target), 0o755); err != nil {
					t.Fatalf("VERIF-INCONCLUSIVE: %v", err)
				}
				if err := os.WriteFile(filepath.Join(dir, target, name), content, 0o644); err != nil {
					t.Fatalf("VERIF-INCONCLUSIVE: %v", err)
				}
				foreign++
				foreignKinds[kind] = true
				tr = append(tr, "foreign("+kind+")")
			}
		}
		check()
		tr = append(tr, "read")

		var kinds []string
		for kd := range foreignKinds {
			kinds = append(kinds, "foreign:"+kd)
		}
		sort.Strings(kinds)
		labels := append(kinds, fmt.Sprintf("records-at-end:%d", min(len(model), 5)), fmt.Sprintf("deleted:%v", len(deleted) > 0),
			fmt.Sprintf("timestamp-ties:%v", ties > 0), fmt.Sprintf("foreign-records:%d", min(foreign, 3)))
		st.Case(len(deleted) > 0 && len(model) >= 2 && foreign > 0, strings.Join(tr, " "), labels...)
	})
}

// ---------------------------------------------------------------------------
// The real pool over the real storage, with a disk handle that fails on demand.

type c39FaultyHandle struct {
	persistence.BasicHandle
	mu           sync.Mutex
	failNextSave bool
	failNextDel  bool
	saves        int
}

func (h *c39FaultyHandle) Save(data []byte, directory string, name string) error {
	h.mu.Lock()
	fail := h.failNextSave
	h.failNextSave = false
	h.mu.Unlock()
	defer func() {
		h.mu.Lock()
		h.saves++
		h.mu.Unlock()
	}()
	if fail {
		return fmt.Errorf("injected: no space left on device")
	}
	return h.BasicHandle.Save(data, directory, name)
}

func (h *c39FaultyHandle) Delete(directory string, name string) error {
	h.mu.Lock()
	fail := h.failNextDel
	h.failNextDel = false
	h.mu.Unlock()
	if fail {
		return fmt.Errorf("injected: input/output error")
	}
	return h.BasicHandle.Delete(directory, name)
}

func (h *c39FaultyHandle) saveCount() int {
	h.mu.Lock()
	defer h.mu.Unlock()
	return h.saves
}

// One scheduler for the whole test process: workers of abandoned pools stay
// parked in the harness' generateFn until the latch stops them at the end.
var c39Scheduler = generator.StartScheduler()
var c39Latch = generator.NewProtocolLatch()
var c39LatchOnce sync.Once

type c39Life struct {
	pool    *generator.ParameterPool[PreParams]
	handle  *c39FaultyHandle
	permit  chan *PreParams
	entries atomic.Int64
	content []string // model: keys of the parameters in the pool
}

const c39Wait = 30 * time.Second

func TestVerif_C39_PoolOverRealStorage(t *testing.T) {
	st := verifkit.New("C39", "TestVerif_C39_PoolOverRealStorage")
	defer st.Flush()
	fx := c39Fixtures(t)
	c39LatchOnce.Do(func() { c39Scheduler.RegisterProtocol(c39Latch) })
	var parked atomic.Int64
	defer func() {
		// stop every worker this test started (the scheduler ticks once a second)
		c39Latch.Lock()
		verifkit.Eventually(10*time.Second, func() bool { return parked.Load() == 0 })
		c39Latch.Unlock()
	}()
	rapid.Check(t, func(t *rapid.T) {
		dir := c39TempDir(t)
		defer os.RemoveAll(dir)
		size := rapid.IntRange(1, 3).Draw(t, "poolSize")
		var tr []string
		keyOf := func(p *PreParams) string {
			return fmt.Sprintf("f%d@%dms", c39WhichFixture(fx, p.data), p.creationTimestamp.Sub(c39Epoch).Milliseconds())
		}
		generated := map[string]bool{}
		handed := map[string]bool{}
		stored := func() []string { // record names on disk, oldest first
			entries, _ := os.ReadDir(filepath.Join(dir, dirName))
			var names []string
			for _, e := range entries {
				names = append(names, e.Name())
			}
			sort.Strings(names)
			return names
		}
		storedKeys := map[string]string{} // key -> record name
		var life *c39Life
		counter := 0
		saveFailures, deleteFailures, restarts := 0, 0, 0
		saveFailThenGet, saveFailed := false, false

		fail := func(format string, a ...any) {
			t.Logf("violation: "+format, a...)
			t.Logf("history: %s", strings.Join(tr, " "))
			t.Fatalf("%s", format)
		}
		start := func() {
			base, err := persistence.NewBasicDiskHandle(dir)
			if err != nil {
				t.Fatalf("VERIF-INCONCLUSIVE: %v", err)
			}
			l := &c39Life{handle: &c39FaultyHandle{BasicHandle: base}, permit: make(chan *PreParams)}
			storage := newPreParamsStorage(l.handle, c39NopLogger{})
			generateFn := func(ctx context.Context) *PreParams {
				l.entries.Add(1)
				parked.Add(1)
				defer parked.Add(-1)
				select {
				case p := <-l.permit:
					return p
				case <-ctx.Done():
					return nil
				}
			}
			// what the new pool must load: the oldest records, up to its size
			var expect []string
			for _, name := range stored() {
				for k, n := range storedKeys {
					if n == name && len(expect) < size {
						expect = append(expect, k)
					}
				}
			}
			l.content = expect
			l.pool = generator.NewParameterPool[PreParams](c39NopLogger{}, c39Scheduler, &storage, size, generateFn, 0)
			life = l
			if !verifkit.Eventually(c39Wait, func() bool { return l.entries.Load() >= 1 }) {
				t.Fatalf("VERIF-INCONCLUSIVE: generation worker did not start in time")
			}
			if got := l.pool.ParametersCount(); got != len(expect) {
				fail("a new pool reports a different number of parameters than the storage holds for it")
			}
		}
		start()

		steps := rapid.IntRange(2, 16).Draw(t, "steps")
		for i := 0; i < steps; i++ {
			op := rapid.SampledFrom([]string{"gen", "gen", "gen", "gen-savefail", "gen-savefail", "get", "get", "get", "get-delfail", "restart"}).Draw(t, "op")
			k := rapid.IntRange(0, len(fx)-1).Draw(t, "fixture")
			if op == "gen-savefail" && verifkit.Known(c39KeyD9) {
				st.Excluded(c39KeyD9) // open known finding: steer around it
				op = "gen"
			}
			switch op {
			case "gen", "gen-savefail":
				if len(life.content) >= size {
					continue // keep the worker out of the blocked-on-full-pool state here
				}
				counter++
				p := &PreParams{data: fx[k], creationTimestamp: c39Epoch.Add(time.Duration(counter) * time.Millisecond)}
				key := keyOf(p)
				generated[key] = true
				life.handle.mu.Lock()
				life.handle.failNextSave = op == "gen-savefail"
				life.handle.mu.Unlock()
				savesBefore, entriesBefore := life.handle.saveCount(), life.entries.Load()
				select {
				case life.permit <- p:
				case <-time.After(c39Wait):
					t.Fatalf("VERIF-INCONCLUSIVE: worker did not take the permit")
				}
				if !verifkit.Eventually(c39Wait, func() bool {
					return life.handle.saveCount() > savesBefore && life.entries.Load() > entriesBefore
				}) {
					t.Fatalf("VERIF-INCONCLUSIVE: worker did not save the parameter and come back in time")
				}
				tr = append(tr, fmt.Sprintf("%s(%s)", op, key))
				if op == "gen" {
					life.content = append(life.content, key)
					for _, name := range stored() {
						known := false
						for _, n := range storedKeys {
							known = known || n == name
						}
						if !known {
							storedKeys[key] = name
						}
					}
				} else {
					saveFailures++
					saveFailed = true
				}
				if got := life.pool.ParametersCount(); got != len(life.content) {
					// the pool holds something that was not saved: take
					// everything out, the verdict is what GetNow does with it
					tr = append(tr, "probe")
					for j := 0; j <= size && life.pool.ParametersCount() > 0; j++ {
						var panicked any
						func() {
							defer func() { panicked = recover() }()
							_, _ = life.pool.GetNow()
						}()
						if panicked != nil {
							t.Logf("panic: %v", panicked)
							fail("GetNow panicked [finding-key=D9-nil-after-save-failure]")
						}
					}
					t.Logf("pool reported %d, model %v", got, life.content)
					fail("the pool holds a different number of parameters than were saved and put into it")
				}
			case "get", "get-delfail":
				life.handle.mu.Lock()
				life.handle.failNextDel = op == "get-delfail" && len(life.content) > 0
				life.handle.mu.Unlock()
				var p *PreParams
				var err error
				var panicked any
				func() {
					defer func() { panicked = recover() }()
					p, err = life.pool.GetNow()
				}()
				if saveFailed {
					saveFailThenGet = true
				}
				tr = append(tr, op)
				if panicked != nil {
					t.Logf("panic: %v", panicked)
					fail("GetNow panicked [finding-key=D9-nil-after-save-failure]")
				}
				switch {
				case err == nil:
					if p == nil || p.data == nil {
						fail("GetNow returned no parameter and no error")
					}
					key := keyOf(p)
					if c39WhichFixture(fx, p.data) < 0 || !generated[key] {
						fail("GetNow returned a parameter that was never generated")
					}
					if handed[key] {
						fail("GetNow handed out the same parameter twice")
					}
					handed[key] = true
					if _, statErr := os.Stat(filepath.Join(dir, dirName, storedKeys[key])); statErr == nil {
						fail("GetNow returned a parameter whose record is still on disk")
					}
					found := false
					for j, c := range life.content {
						if c == key {
							life.content = append(life.content[:j:j], life.content[j+1:]...)
							found = true
							break
						}
					}
					if !found {
						fail("GetNow returned a parameter the pool should not hold")
					}
					delete(storedKeys, key)
				case err == generator.ErrEmptyPool:
					if len(life.content) != 0 {
						fail("GetNow reports an empty pool although saved parameters were put into it")
					}
				default:
					if op != "get-delfail" || len(life.content) == 0 {
						t.Logf("error: %v", err)
						fail("GetNow failed although the disk works")
					}
					deleteFailures++
					life.content = life.content[1:] // the oldest entry left the pool, its record stays on disk
				}
				if got := life.pool.ParametersCount(); got > size || got != len(life.content) {
					t.Logf("pool reports %d, model %v", got, life.content)
					fail("the pool holds a different number of parameters than were saved and put into it")
				}
			case "restart":
				restarts++
				tr = append(tr, "restart")
				start()
			}
		}
		st.Case(saveFailThenGet, fmt.Sprintf("size=%d %s", size, strings.Join(tr, " ")),
			fmt.Sprintf("save-failures:%d", min(saveFailures, 3)), fmt.Sprintf("delete-failures:%d", min(deleteFailures, 2)),
			fmt.Sprintf("restarts:%d", min(restarts, 3)), fmt.Sprintf("handed-out:%d", min(len(handed), 4)))
	})
}
