//go:build go1.23

package dkg

import (
	"fmt"

	"github.com/keep-network/keep-core/internal/testutils"
	"math/big"
	"testing"
	"time"

	"github.com/keep-network/keep-core/internal/c19gen"
	"github.com/keep-network/keep-core/internal/c19wire"
	"pgregory.net/rapid"
)

// C19 - pkg/tecdsa/dkg: the six tECDSA DKG network messages and the persisted
// pre-parameters.

func c19GenPreParams(t *rapid.T) c19wire.Msg {
	data := c19gen.GenLocalPreParams(t)
	// Values of the type: every number of a pre-parameter set is a positive
	// integer (Paillier modulus, safe primes, ...). A record with a zero
	// number is what an empty or partially written file decodes to and is
	// rejected by Unmarshal (fix fae5afe), so it is not in the round-trip
	// domain; it stays in the hostile-input domain.
	for _, n := range []**big.Int{&data.PaillierSK.N, &data.PaillierSK.LambdaN, &data.PaillierSK.PhiN,
		&data.NTildei, &data.H1i, &data.H2i, &data.Alpha, &data.Beta, &data.P, &data.Q} {
		if *n == nil || (*n).Sign() == 0 {
			*n = big.NewInt(1)
		}
	}
	var ts time.Time
	switch rapid.IntRange(0, 3).Draw(t, "timeKind") {
	case 0:
		ts = time.Time{}
	case 1:
		ts = time.Unix(0, 0)
	default:
		// the range protobuf timestamps are specified for: years 1..9999
		ts = time.Unix(rapid.Int64Range(-62135596800, 253402300799).Draw(t, "seconds"),
			int64(rapid.IntRange(0, 999_999_999).Draw(t, "nanos")))
	}
	return &PreParams{data: &data, creationTimestamp: ts}
}

func c19Codecs() []c19wire.Codec {
	return []c19wire.Codec{
		c19wire.Codec{
			Name: "tecdsa/dkg.ephemeralPublicKeyMessage",
			New:  func() c19wire.Msg { return &ephemeralPublicKeyMessage{} },
			Gen: func(t *rapid.T) c19wire.Msg {
				return &ephemeralPublicKeyMessage{
					senderID:            c19wire.GenIndex(t, "sender"),
					ephemeralPublicKeys: c19gen.GenEphemeralPublicKeys(t),
					sessionID:           c19wire.GenText(t, "session"),
				}
			},
			Touch: func(m c19wire.Msg) {
				_, _ = m.(*ephemeralPublicKeyMessage).Type(), m.(*ephemeralPublicKeyMessage).SessionID()
			},
		}.WithSender(func(m c19wire.Msg) uint64 { return uint64(m.(*ephemeralPublicKeyMessage).SenderID()) }).
			WithIndexMap("ephemeralPublicKeys", 2),
		c19wire.Codec{
			Name: "tecdsa/dkg.tssRoundOneMessage",
			New:  func() c19wire.Msg { return &tssRoundOneMessage{} },
			Gen: func(t *rapid.T) c19wire.Msg {
				return &tssRoundOneMessage{
					senderID:         c19wire.GenIndex(t, "sender"),
					broadcastPayload: c19wire.GenPayload(t, "broadcast"),
					sessionID:        c19wire.GenText(t, "session"),
				}
			},
			Touch: func(m c19wire.Msg) { _, _ = m.(*tssRoundOneMessage).Type(), m.(*tssRoundOneMessage).SessionID() },
		}.WithSender(func(m c19wire.Msg) uint64 { return uint64(m.(*tssRoundOneMessage).SenderID()) }),
		c19wire.Codec{
			Name: "tecdsa/dkg.tssRoundTwoMessage",
			New:  func() c19wire.Msg { return &tssRoundTwoMessage{} },
			Gen: func(t *rapid.T) c19wire.Msg {
				return &tssRoundTwoMessage{
					senderID:         c19wire.GenIndex(t, "sender"),
					broadcastPayload: c19wire.GenPayload(t, "broadcast"),
					peersPayload:     c19gen.GenPayloadMap(t),
					sessionID:        c19wire.GenText(t, "session"),
				}
			},
			Touch: func(m c19wire.Msg) { _, _ = m.(*tssRoundTwoMessage).Type(), m.(*tssRoundTwoMessage).SessionID() },
		}.WithSender(func(m c19wire.Msg) uint64 { return uint64(m.(*tssRoundTwoMessage).SenderID()) }).
			WithIndexMap("peersPayload", 3),
		c19wire.Codec{
			Name: "tecdsa/dkg.tssRoundThreeMessage",
			New:  func() c19wire.Msg { return &tssRoundThreeMessage{} },
			Gen: func(t *rapid.T) c19wire.Msg {
				return &tssRoundThreeMessage{
					senderID:         c19wire.GenIndex(t, "sender"),
					broadcastPayload: c19wire.GenPayload(t, "broadcast"),
					sessionID:        c19wire.GenText(t, "session"),
				}
			},
			Touch: func(m c19wire.Msg) { _, _ = m.(*tssRoundThreeMessage).Type(), m.(*tssRoundThreeMessage).SessionID() },
		}.WithSender(func(m c19wire.Msg) uint64 { return uint64(m.(*tssRoundThreeMessage).SenderID()) }),
		c19wire.Codec{
			Name: "tecdsa/dkg.tssFinalizationMessage",
			New:  func() c19wire.Msg { return &tssFinalizationMessage{} },
			Gen: func(t *rapid.T) c19wire.Msg {
				return &tssFinalizationMessage{
					senderID:  c19wire.GenIndex(t, "sender"),
					sessionID: c19wire.GenText(t, "session"),
				}
			},
			Touch: func(m c19wire.Msg) {
				_, _ = m.(*tssFinalizationMessage).Type(), m.(*tssFinalizationMessage).SessionID()
			},
		}.WithSender(func(m c19wire.Msg) uint64 { return uint64(m.(*tssFinalizationMessage).SenderID()) }),
		c19wire.Codec{
			Name: "tecdsa/dkg.resultSignatureMessage",
			New:  func() c19wire.Msg { return &resultSignatureMessage{} },
			Gen: func(t *rapid.T) c19wire.Msg {
				m := &resultSignatureMessage{
					senderID:  c19wire.GenIndex(t, "sender"),
					signature: c19wire.GenPayload(t, "signature"),
					publicKey: c19wire.GenPayload(t, "publicKey"),
					sessionID: c19wire.GenText(t, "session"),
				}
				copy(m.resultHash[:], c19wire.GenFixed(t, "resultHash", ResultSignatureHashByteSize))
				return m
			},
			Touch: func(m c19wire.Msg) {
				_, _ = m.(*resultSignatureMessage).Type(), m.(*resultSignatureMessage).SessionID()
			},
		}.WithSender(func(m c19wire.Msg) uint64 { return uint64(m.(*resultSignatureMessage).SenderID()) }).
			WithFixed("resultHash", ResultSignatureHashByteSize, c19wire.Step{Num: 2}),
		{
			Name: "tecdsa/dkg.PreParams", Storage: true,
			New: func() c19wire.Msg { return &PreParams{} },
			Gen: c19GenPreParams,
		},
	}
}

func TestVerif_C19_TecdsaDkgRoundTrip(t *testing.T) {
	c19wire.RunRoundTrip(t, "TestVerif_C19_TecdsaDkgRoundTrip", c19Codecs())
}

func TestVerif_C19_TecdsaDkgHostile(t *testing.T) {
	c19wire.RunHostile(t, "TestVerif_C19_TecdsaDkgHostile", c19Codecs())
}

// c19Loaders: the pre-parameters pool loader, the only production caller of
// PreParams.Unmarshal (runs when the node boots).
func c19Loaders() []c19wire.Loader {
	codecs := c19Codecs()
	record := len(codecs) - 1 // tecdsa/dkg.PreParams
	return []c19wire.Loader{{
		Name:   "tecdsa/dkg.preParamsStorage.ReadAll",
		Codecs: codecs, Record: record, Dir: dirName,
		Load: func(h *c19wire.MemHandle) ([]string, error) {
			storage := newPreParamsStorage(h, &testutils.MockLogger{})
			all, err := storage.ReadAll()
			if err != nil {
				return nil, err
			}
			var out []string
			for _, p := range all {
				if p == nil || p.Data.data == nil || !p.Data.data.ValidateWithProof() {
					return nil, fmt.Errorf("ReadAll returned an unusable record %v", p)
				}
				out = append(out, p.ID+":"+c19wire.Render(&p.Data))
			}
			return out, nil
		},
		Expect: func(f c19wire.File) (string, bool) {
			v, ok := c19wire.Decode(&codecs[record], f.Content)
			if !ok {
				return "", false
			}
			if pp := v.(*PreParams); pp.data == nil || !pp.data.ValidateWithProof() {
				return "", false
			}
			return f.Name + ":" + c19wire.Render(v), true
		},
	}}
}

func TestVerif_C19_TecdsaDkgLoaders(t *testing.T) {
	c19wire.RunLoaders(t, "TestVerif_C19_TecdsaDkgLoaders", c19Loaders())
}

func FuzzVerif_C19_TecdsaDkg(f *testing.F) { c19wire.RunFuzz(f, c19Codecs()) }
