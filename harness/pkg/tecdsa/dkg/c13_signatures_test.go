//go:build go1.23

package dkg

import (
	"context"
	"crypto/sha256"
	"fmt"
	"testing"

	"github.com/keep-network/keep-core/internal/c13sig"
	"github.com/keep-network/keep-core/internal/testutils"
	"github.com/keep-network/keep-core/internal/verifkit"
	"github.com/keep-network/keep-core/pkg/chain"
	"github.com/keep-network/keep-core/pkg/net"
	"github.com/keep-network/keep-core/pkg/protocol/group"
	"github.com/keep-network/keep-core/pkg/protocol/state"
	"pgregory.net/rapid"
)

// c13Signer is a ResultSigner built like tbtc's dkgResultSigner: the hash is
// a function of the result, signing and verification are the chain signer's.
type c13Signer struct {
	signing chain.Signing
	salt    string
}

func c13ResultHash(salt string, result *Result) ResultSignatureHash {
	return ResultSignatureHash(sha256.Sum256([]byte(fmt.Sprintf(
		"c13|%s|%v", salt, result.MisbehavedMembersIndexes(),
	))))
}

func (s *c13Signer) SignResult(result *Result) (*SignedResult, error) {
	h := c13ResultHash(s.salt, result)
	sig, err := s.signing.Sign(h[:])
	if err != nil {
		return nil, err
	}
	return &SignedResult{PublicKey: s.signing.PublicKey(), Signature: sig, ResultHash: h}, nil
}

func (s *c13Signer) VerifySignature(sr *SignedResult) (bool, error) {
	return s.signing.VerifyWithPublicKey(sr.ResultHash[:], sr.Signature, sr.PublicKey)
}

type c13Submitter struct {
	calls []map[group.MemberIndex][]byte
	by    []group.MemberIndex
}

func (s *c13Submitter) SubmitResult(_ context.Context, idx group.MemberIndex, _ *Result, signatures map[group.MemberIndex][]byte) error {
	cp := map[group.MemberIndex][]byte{}
	for m, sig := range signatures {
		cp[m] = append([]byte{}, sig...)
	}
	s.calls = append(s.calls, cp)
	s.by = append(s.by, idx)
	return nil
}

type c13Channel struct {
	sent []net.TaggedMarshaler
}

func (c *c13Channel) Name() string { return "c13" }
func (c *c13Channel) Send(_ context.Context, m net.TaggedMarshaler, _ ...net.RetransmissionStrategy) error {
	c.sent = append(c.sent, m)
	return nil
}
func (c *c13Channel) Recv(context.Context, func(net.Message))     {}
func (c *c13Channel) SetUnmarshaler(func() net.TaggedUnmarshaler) {}
func (c *c13Channel) SetFilter(net.BroadcastChannelFilter) error  { return nil }

type c13NetMessage struct {
	payload *resultSignatureMessage
	key     []byte
}

func (m *c13NetMessage) TransportSenderID() net.TransportIdentifier { return nil }
func (m *c13NetMessage) SenderPublicKey() []byte                    { return m.key }
func (m *c13NetMessage) Payload() interface{}                       { return m.payload }
func (m *c13NetMessage) Type() string                               { return m.payload.Type() }
func (m *c13NetMessage) Seqno() uint64                              { return 0 }

func TestVerif_C13_TecdsaSupport(t *testing.T) {
	st := verifkit.New("C13", "TestVerif_C13_TecdsaSupport")
	defer st.Flush()
	rapid.Check(t, func(t *rapid.T) {
		sc := c13sig.Gen(t, c13sig.Options{
			AllowExcluded: true,
			Participation: []int{100, 100, 100, 90, 75},
		})
		self := sc.SelfKey()
		logger := &testutils.MockLogger{}

		dkgGroup := group.NewGroup(sc.N/2, sc.N)
		for m := 1; m <= sc.N; m++ {
			switch sc.Excluded[group.MemberIndex(m)] {
			case "inactive":
				dkgGroup.MarkMemberAsInactive(group.MemberIndex(m))
			case "disqualified":
				dkgGroup.MarkMemberAsDisqualified(group.MemberIndex(m))
			}
		}
		result := &Result{Group: dkgGroup}
		// a conflicting result: peers that saw other misbehaved members
		var hashes [3][32]byte
		hashes[0] = c13ResultHash("a", result)
		hashes[1] = c13ResultHash("b", result)
		hashes[2] = c13ResultHash("c", result)
		if err := sc.Materialize(hashes); err != nil {
			fmt.Printf("VERIF-INCONCLUSIVE: %v\n", err)
			t.Fatalf("harness: %v", err)
		}

		signer := &c13Signer{signing: self.Signing, salt: "a"}
		submitter := &c13Submitter{}
		channel := &c13Channel{}
		validator := group.NewMembershipValidator(logger, sc.Addresses(), self.Signing)

		// the real states, wired like Publish does
		signing := &resultSigningState{
			BaseAsyncState:  state.NewBaseAsyncState(),
			channel:         channel,
			resultSigner:    signer,
			resultSubmitter: submitter,
			member:          newSigningMember(logger, sc.Self, result.Group, validator, sc.Session),
			result:          result,
		}
		ctx, cancel := context.WithCancel(context.Background())
		defer cancel()
		if err := signing.Initiate(ctx); err != nil {
			t.Fatalf("signing state Initiate: %v", err)
		}
		if len(channel.sent) != 1 {
			t.Fatalf("signing state broadcast %d messages", len(channel.sent))
		}
		own, ok := channel.sent[0].(*resultSignatureMessage)
		if !ok {
			t.Fatalf("unexpected broadcast %T", channel.sent[0])
		}
		if own.resultHash != hashes[0] {
			fmt.Println("VERIF-INCONCLUSIVE: harness hash differs from the member's preferred hash")
			t.Fatalf("harness: preferred hash mismatch")
		}
		if okSig, err := self.Signing.VerifyWithPublicKey(hashes[0][:], own.signature, self.Pub); err != nil || !okSig {
			t.Fatalf("own broadcast signature does not verify: %v", err)
		}
		if string(own.publicKey) != string(self.Pub) || own.senderID != sc.Self || own.sessionID != sc.Session {
			t.Fatalf("own broadcast carries key %x index %d session %q", own.publicKey, own.senderID, own.sessionID)
		}

		// The async machine polls CanTransition between messages; the signing
		// state is left at some poll after it first holds. lag = messages that
		// still arrive before that poll.
		lag := rapid.IntRange(0, 3).Draw(t, "pollLag")
		processed, ready := 0, false
		for _, e := range sc.Events {
			if ready {
				if lag == 0 {
					break
				}
				lag--
			}
			msg := &resultSignatureMessage{
				senderID:   e.Sender,
				resultHash: ResultSignatureHash(e.Hash),
				signature:  e.Signature,
				publicKey:  e.Msg.Pub,
				sessionID:  e.Session,
			}
			if err := signing.Receive(&c13NetMessage{payload: msg, key: e.Net.Pub}); err != nil {
				t.Fatalf("Receive: %v", err)
			}
			processed++
			ready = ready || signing.CanTransition()
		}
		ready = ready || signing.CanTransition()
		sc.Truncate(processed)

		next, err := signing.Next()
		if err != nil {
			t.Fatalf("Next: %v", err)
		}
		verification := next.(*signaturesVerificationState)
		if err := verification.Initiate(ctx); err != nil {
			t.Fatalf("verification Initiate: %v", err)
		}
		got := verification.validSignatures

		want := sc.Expect(c13sig.KeepFirst, own.signature)
		desc := sc.Describe()
		if err := sc.CheckSound(got, own.signature); err != nil {
			t.Fatalf("supporting signatures unsound: %v\ncase: %s", err, desc)
		}
		if d := c13sig.Diff(got, want); d != "" {
			t.Fatalf("supporting signatures differ from the model: %s\ncase: %s", d, desc)
		}

		flow := "flow:stalled-waiting-for-all-members"
		if ready {
			// only now the machine would go on to the submission state
			flow = "flow:submitted"
			next, err = verification.Next()
			if err != nil {
				t.Fatalf("Next: %v", err)
			}
			submission := next.(*resultSubmissionState)
			if err := submission.Initiate(ctx); err != nil {
				t.Fatalf("submission Initiate: %v", err)
			}
			if len(submitter.calls) != 1 || submitter.by[0] != sc.Self {
				t.Fatalf("submitter called %d times (by %v)\ncase: %s", len(submitter.calls), submitter.by, desc)
			}
			if d := c13sig.Diff(submitter.calls[0], want); d != "" {
				t.Fatalf("signatures passed to the submitter differ from the verified set: %s\ncase: %s", d, desc)
			}
		}
		st.Case(sc.NonTrivial(), desc, append(sc.Labels(want), flow)...)
	})
}
