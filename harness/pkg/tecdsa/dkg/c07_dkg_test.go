//go:build go1.23

package dkg

// C07: tECDSA DKG with exclusions, driven through the REAL Executor.Execute
// (real AsyncMachine, real TSS rounds) over a harness-owned broadcast hub that
// holds, duplicates and injects messages according to a rapid-drawn plan.

import (
	"bytes"
	"context"
	"fmt"
	"math/big"
	"os"
	"sort"
	"strings"
	"sync"
	"testing"
	"time"

	"github.com/bnb-chain/tss-lib/ecdsa/keygen"
	"github.com/keep-network/keep-core/internal/testutils"
	"github.com/keep-network/keep-core/internal/verifkit"
	"github.com/keep-network/keep-core/pkg/chain"
	"github.com/keep-network/keep-core/pkg/chain/local_v1"
	"github.com/keep-network/keep-core/pkg/crypto/ephemeral"
	"github.com/keep-network/keep-core/pkg/generator"
	"github.com/keep-network/keep-core/pkg/internal/tecdsatest"
	"github.com/keep-network/keep-core/pkg/net"
	"github.com/keep-network/keep-core/pkg/operator"
	"github.com/keep-network/keep-core/pkg/protocol/group"
	"pgregory.net/rapid"
)

// ------------------------------------------------------------ pre-parameters

var (
	c07PreParamsOnce sync.Once
	c07PreParams     []*keygen.LocalPreParams
	c07PreParamsErr  error
)

// 5 distinct TSS pre-parameter sets exist offline: those embedded in the
// tecdsatest key share fixtures (the 3 predefined in the package's own tests
// are the same values as fixtures 0..2). More sets are read from
// $VERIF_DIR/fixtures/preparams if present.
func c07LoadPreParams() ([]*keygen.LocalPreParams, error) {
	c07PreParamsOnce.Do(func() {
		fixtures, err := tecdsatest.LoadPrivateKeyShareTestFixtures(5)
		if err != nil {
			c07PreParamsErr = err
			return
		}
		for i := range fixtures {
			p := fixtures[i].LocalPreParams
			c07PreParams = append(c07PreParams, &p)
		}
	})
	return c07PreParams, c07PreParamsErr
}

type c07MemPersistence struct {
	mu    sync.Mutex
	items []*generator.Persisted[PreParams]
}

func (p *c07MemPersistence) Save(pp *PreParams) (*generator.Persisted[PreParams], error) {
	return &generator.Persisted[PreParams]{Data: *pp, ID: "gen"}, nil
}
func (p *c07MemPersistence) Delete(*generator.Persisted[PreParams]) error { return nil }
func (p *c07MemPersistence) ReadAll() ([]*generator.Persisted[PreParams], error) {
	p.mu.Lock()
	defer p.mu.Unlock()
	return p.items, nil
}

func c07NewExecutor(pre *keygen.LocalPreParams) *Executor {
	mem := &c07MemPersistence{items: []*generator.Persisted[PreParams]{{Data: *newPreParams(pre), ID: "fixture"}}}
	pool := generator.NewParameterPool[PreParams](
		&testutils.MockLogger{}, &generator.Scheduler{}, mem, 1,
		func(ctx context.Context) *PreParams { <-ctx.Done(); return nil }, 0,
	)
	return &Executor{
		tssPreParamsPool:         &tssPreParamsPool{pool, &testutils.MockLogger{}},
		keyGenerationConcurrency: 1,
	}
}

// ------------------------------------------------------------------ the hub

type c07TransportID string

func (t c07TransportID) String() string { return string(t) }

type c07NetMsg struct {
	sender  c07TransportID
	pubKey  []byte
	payload interface{}
	typ     string
	seq     uint64
}

func (m *c07NetMsg) TransportSenderID() net.TransportIdentifier { return m.sender }
func (m *c07NetMsg) SenderPublicKey() []byte                    { return m.pubKey }
func (m *c07NetMsg) Payload() interface{}                       { return m.payload }
func (m *c07NetMsg) Type() string                               { return m.typ }
func (m *c07NetMsg) Seqno() uint64                              { return m.seq }

var c07Types = []string{
	(&ephemeralPublicKeyMessage{}).Type(),
	(&tssRoundOneMessage{}).Type(),
	(&tssRoundTwoMessage{}).Type(),
	(&tssRoundThreeMessage{}).Type(),
	(&tssFinalizationMessage{}).Type(),
}

func c07TypeIndex(typ string) int {
	for i, t := range c07Types {
		if t == typ {
			return i
		}
	}
	return -1
}

func c07NewOf(typ string) net.TaggedUnmarshaler {
	switch c07TypeIndex(typ) {
	case 0:
		return &ephemeralPublicKeyMessage{}
	case 1:
		return &tssRoundOneMessage{}
	case 2:
		return &tssRoundTwoMessage{}
	case 3:
		return &tssRoundThreeMessage{}
	case 4:
		return &tssFinalizationMessage{}
	}
	return nil
}

const (
	c07Normal = iota
	c07Dup
	c07Hold
)

type c07Injection struct {
	triggerSender group.MemberIndex
	triggerType   int
	kind          string // other-session | wrong-index | from-excluded
	claimed       group.MemberIndex
	before        bool
}

type c07Handler struct {
	ctx context.Context
	fn  func(net.Message)
}

type c07Held struct {
	typeIdx int
	msg     *c07NetMsg
	key     string // "sender/type/receiver"
}

var c07Trace = os.Getenv("VERIF_C07_TRACE") != ""

type c07Hub struct {
	mu        sync.Mutex
	operating []group.MemberIndex
	pubKeys   map[group.MemberIndex][]byte
	handlers  map[group.MemberIndex][]*c07Handler
	plan      map[string]int // "sender/type/receiver" -> action
	injects   []c07Injection
	held      map[group.MemberIndex][]c07Held
	backlog   map[group.MemberIndex][]*c07NetMsg
	seq       uint64
	stats     map[string]int
	lastSend  time.Time
	// protocol progress as the hub sees it: the highest message type every
	// member has broadcast and which planned messages reached which member
	sentType map[group.MemberIndex]int
	got      map[string]bool // "sender/type/receiver" handed to the receiver
}

// canProgress tells whether some member holds everything it needs to send
// its next message (or has not started yet): then the run is computing, not
// stalled. Only when no member can progress are the held messages what
// everybody waits for. Independent of how slow the machine is.
func (h *c07Hub) canProgress() bool {
	h.mu.Lock()
	defer h.mu.Unlock()
	for _, m := range h.operating {
		k, started := h.sentType[m]
		if !started {
			return true
		}
		complete := true
		for _, s := range h.operating {
			if s != m && !h.got[fmt.Sprintf("%d/%d/%d", s, k, m)] {
				complete = false
				break
			}
		}
		if complete && k < len(c07Types)-1 {
			return true
		}
	}
	return false
}

// register installs a receiver. Messages that reached the hub before the
// member registered (members start concurrently; production relies on
// retransmissions for this) are handed over now, in arrival order.
func (h *c07Hub) register(seat group.MemberIndex, ctx context.Context, fn func(net.Message)) {
	h.mu.Lock()
	h.handlers[seat] = append(h.handlers[seat], &c07Handler{ctx, fn})
	backlog := h.backlog[seat]
	h.backlog[seat] = nil
	h.mu.Unlock()
	for _, m := range backlog {
		fn(m)
	}
}

// dispatch hands a message to the live handlers of a receiver or keeps it
// until the receiver registers.
func (h *c07Hub) dispatch(receiver group.MemberIndex, msg *c07NetMsg) {
	h.mu.Lock()
	hs := append([]*c07Handler{}, h.handlers[receiver]...)
	if len(hs) == 0 {
		h.backlog[receiver] = append(h.backlog[receiver], msg)
	}
	h.mu.Unlock()
	for _, hd := range hs {
		if hd.ctx.Err() == nil {
			hd.fn(msg)
		}
	}
}

// deliverLocked hands one message to the live handlers of a receiver.
func (h *c07Hub) deliver(receiver group.MemberIndex, typ string, raw []byte, pubKey []byte, from string) {
	payload := c07NewOf(typ)
	if payload == nil || payload.Unmarshal(raw) != nil {
		return
	}
	h.mu.Lock()
	h.seq++
	msg := &c07NetMsg{sender: c07TransportID(from), pubKey: pubKey, payload: payload, typ: typ, seq: h.seq}
	h.mu.Unlock()
	h.dispatch(receiver, msg)
}

func (h *c07Hub) releaseHeld(receiver group.MemberIndex, belowType int) {
	h.mu.Lock()
	var keep, rel []c07Held
	for _, e := range h.held[receiver] {
		if e.typeIdx < belowType {
			rel = append(rel, e)
			h.got[e.key] = true
		} else {
			keep = append(keep, e)
		}
	}
	h.held[receiver] = keep
	h.mu.Unlock()
	for _, e := range rel {
		h.dispatch(receiver, e.msg)
	}
}

func (h *c07Hub) flushAllHeld() {
	for _, r := range h.operating {
		h.releaseHeld(r, 1<<30)
	}
}

func (h *c07Hub) heldCount() int {
	h.mu.Lock()
	defer h.mu.Unlock()
	n := 0
	for _, l := range h.held {
		n += len(l)
	}
	return n
}

func (h *c07Hub) count(k string) {
	h.mu.Lock()
	h.stats[k]++
	h.mu.Unlock()
}

// c07OtherPayload returns the message with a different payload - what a
// message of the same sender in a really different session would carry: TSS
// payload bytes altered, ephemeral keys permuted among the receivers. If such a
// message were accepted (first message of a sender wins) the round would fail.
func c07OtherPayload(typ string, raw []byte) []byte {
	p := c07NewOf(typ)
	if p == nil || p.Unmarshal(raw) != nil {
		return raw
	}
	flip := func(b []byte) []byte {
		c := append([]byte{}, b...)
		if len(c) > 0 {
			c[len(c)/2] ^= 0x5a
			c[len(c)-1] ^= 0x01
		}
		return c
	}
	switch v := p.(type) {
	case *ephemeralPublicKeyMessage:
		var ids []group.MemberIndex
		for id := range v.ephemeralPublicKeys {
			ids = append(ids, id)
		}
		sort.Slice(ids, func(i, j int) bool { return ids[i] < ids[j] })
		rot := map[group.MemberIndex]*ephemeral.PublicKey{}
		for i, id := range ids {
			rot[id] = v.ephemeralPublicKeys[ids[(i+1)%len(ids)]]
		}
		v.ephemeralPublicKeys = rot
	case *tssRoundOneMessage:
		v.broadcastPayload = flip(v.broadcastPayload)
	case *tssRoundTwoMessage:
		v.broadcastPayload = flip(v.broadcastPayload)
	case *tssRoundThreeMessage:
		v.broadcastPayload = flip(v.broadcastPayload)
	}
	b, err := p.(net.TaggedMarshaler).Marshal()
	if err != nil {
		return raw
	}
	return b
}

func c07Craft(typ string, raw []byte, sender group.MemberIndex, session string) []byte {
	p := c07NewOf(typ)
	if p == nil || p.Unmarshal(raw) != nil {
		return nil
	}
	switch v := p.(type) {
	case *ephemeralPublicKeyMessage:
		v.senderID = sender
		if session != "" {
			v.sessionID = session
		}
	case *tssRoundOneMessage:
		v.senderID = sender
		if session != "" {
			v.sessionID = session
		}
	case *tssRoundTwoMessage:
		v.senderID = sender
		if session != "" {
			v.sessionID = session
		}
	case *tssRoundThreeMessage:
		v.senderID = sender
		if session != "" {
			v.sessionID = session
		}
	case *tssFinalizationMessage:
		v.senderID = sender
		if session != "" {
			v.sessionID = session
		}
	}
	b, err := p.(net.TaggedMarshaler).Marshal()
	if err != nil {
		return nil
	}
	return b
}

func (h *c07Hub) onSend(sender group.MemberIndex, typ string, raw []byte) {
	ti := c07TypeIndex(typ)
	h.mu.Lock()
	h.lastSend = time.Now()
	if cur, ok := h.sentType[sender]; !ok || ti > cur {
		h.sentType[sender] = ti
	}
	var injects []c07Injection
	for _, in := range h.injects {
		if in.triggerSender == sender && (in.triggerType < 0 || in.triggerType == ti) {
			injects = append(injects, in)
		}
	}
	h.mu.Unlock()

	doInject := func(in c07Injection) {
		var crafted, key []byte
		switch in.kind {
		case "other-session":
			crafted, key = c07Craft(typ, c07OtherPayload(typ, raw), sender, "another-session"), h.pubKeys[sender]
		case "wrong-index":
			crafted, key = c07Craft(typ, raw, in.claimed, ""), h.pubKeys[sender]
		case "from-excluded":
			crafted, key = c07Craft(typ, raw, in.claimed, ""), h.pubKeys[in.claimed]
		}
		if crafted == nil {
			return
		}
		for _, r := range h.operating {
			h.deliver(r, typ, crafted, key, "injected-"+in.kind)
			h.count("injected:" + in.kind)
		}
	}
	for _, in := range injects {
		if in.before {
			doInject(in)
		}
	}
	for _, r := range h.operating {
		action := h.plan[fmt.Sprintf("%d/%d/%d", sender, ti, r)]
		if r == sender {
			action = c07Normal
		}
		if c07Trace {
			fmt.Printf("C07TRACE %s send %d type%d -> %d action=%d held=%d\n", time.Now().Format("05.000"), sender, ti, r, action, len(h.held[r]))
		}
		switch action {
		case c07Hold:
			payload := c07NewOf(typ)
			if payload == nil || payload.Unmarshal(raw) != nil {
				continue
			}
			h.mu.Lock()
			h.seq++
			h.held[r] = append(h.held[r], c07Held{ti, &c07NetMsg{sender: c07TransportID(fmt.Sprintf("seat-%d", sender)), pubKey: h.pubKeys[sender], payload: payload, typ: typ, seq: h.seq}, fmt.Sprintf("%d/%d/%d", sender, ti, r)})
			h.stats["held"]++
			h.mu.Unlock()
		case c07Dup:
			h.mu.Lock()
			for _, e := range h.held[r] {
				if e.typeIdx < ti {
					// a duplicated message of a later phase reaches a member
					// that still waits for an earlier phase
					h.stats[fmt.Sprintf("early-duplicate:type%d", ti)]++
					break
				}
			}
			h.got[fmt.Sprintf("%d/%d/%d", sender, ti, r)] = true
			h.mu.Unlock()
			h.deliver(r, typ, raw, h.pubKeys[sender], fmt.Sprintf("seat-%d", sender))
			h.deliver(r, typ, raw, h.pubKeys[sender], fmt.Sprintf("seat-%d", sender))
			h.count("duplicated")
		default:
			h.mu.Lock()
			h.got[fmt.Sprintf("%d/%d/%d", sender, ti, r)] = true
			h.mu.Unlock()
			h.deliver(r, typ, raw, h.pubKeys[sender], fmt.Sprintf("seat-%d", sender))
		}
		// a message of a later phase reached r: release what was held for r
		// from earlier phases, so r sees the later-phase message FIRST
		h.releaseHeld(r, ti)
	}
	for _, in := range injects {
		if !in.before {
			doInject(in)
		}
	}
}

type c07Chan struct {
	hub  *c07Hub
	seat group.MemberIndex
}

func (c *c07Chan) Name() string { return "c07" }
func (c *c07Chan) Send(_ context.Context, m net.TaggedMarshaler, _ ...net.RetransmissionStrategy) error {
	b, err := m.Marshal()
	if err != nil {
		return err
	}
	c.hub.onSend(c.seat, m.Type(), b)
	return nil
}
func (c *c07Chan) Recv(ctx context.Context, fn func(net.Message)) { c.hub.register(c.seat, ctx, fn) }
func (c *c07Chan) SetUnmarshaler(func() net.TaggedUnmarshaler)    {}
func (c *c07Chan) SetFilter(net.BroadcastChannelFilter) error     { return nil }

// ------------------------------------------------------------------ the run

type c07Case struct {
	n, dishonest int
	excluded     []group.MemberIndex
	operating    []group.MemberIndex
	plan         map[string]int
	injects      []c07Injection
	nHold, nDup  int
	// periodic injection ("flood") of fabricated messages claiming a sender:
	// delivered to every receiver every few milliseconds for the whole run, so
	// the acceptance window of EVERY state is hit, also for message types of
	// later phases that arrive before the genuine ones
	floods []c07Flood
	// per operating member the order in which the excluded set is handed over
	excludedOrder map[group.MemberIndex][]group.MemberIndex
}

type c07Flood struct {
	kind    string // other-session | from-excluded | wrong-index
	claimed group.MemberIndex
	keyOf   group.MemberIndex // whose operator key authenticates the message
	typeIdx int
}

// c07Fabricate builds a well-formed message of the given type with fresh
// contents (random TSS payload bytes, fresh ephemeral keys).
func c07Fabricate(typeIdx int, sender group.MemberIndex, session string, members int) []byte {
	payload := make([]byte, 96)
	for i := range payload {
		payload[i] = byte(17*i + 3*typeIdx + int(sender))
	}
	var m net.TaggedMarshaler
	switch typeIdx {
	case 0:
		keys := map[group.MemberIndex]*ephemeral.PublicKey{}
		for i := 1; i <= members; i++ {
			if group.MemberIndex(i) == sender {
				continue
			}
			kp, err := ephemeral.GenerateKeyPair()
			if err != nil {
				return nil
			}
			keys[group.MemberIndex(i)] = kp.PublicKey
		}
		m = &ephemeralPublicKeyMessage{senderID: sender, ephemeralPublicKeys: keys, sessionID: session}
	case 1:
		m = &tssRoundOneMessage{senderID: sender, broadcastPayload: payload, sessionID: session}
	case 2:
		m = &tssRoundTwoMessage{senderID: sender, broadcastPayload: payload, peersPayload: map[group.MemberIndex][]byte{}, sessionID: session}
	case 3:
		m = &tssRoundThreeMessage{senderID: sender, broadcastPayload: payload, sessionID: session}
	default:
		m = &tssFinalizationMessage{senderID: sender, sessionID: session}
	}
	b, err := m.Marshal()
	if err != nil {
		return nil
	}
	return b
}

func (c *c07Case) describe() string {
	var inj []string
	for _, in := range c.injects {
		inj = append(inj, fmt.Sprintf("%s@m%d/t%d->claims%d(before=%v)", in.kind, in.triggerSender, in.triggerType, in.claimed, in.before))
	}
	var holds []string
	for k, v := range c.plan {
		if v == c07Hold {
			holds = append(holds, "hold:"+k)
		} else if v == c07Dup {
			holds = append(holds, "dup:"+k)
		}
	}
	sort.Strings(holds)
	var fl []string
	for _, f := range c.floods {
		fl = append(fl, fmt.Sprintf("%s:claims%d/t%d", f.kind, f.claimed, f.typeIdx))
	}
	return fmt.Sprintf("group=%d-of-%d excluded=%v inject=%v flood=%v schedule=%v", c.n-c.dishonest, c.n, c.excluded, inj, fl, holds)
}

type c07Outcome struct {
	results map[group.MemberIndex]*Result
	errs    map[group.MemberIndex]error
	stats   map[string]int
	timeout bool
}

func c07Run(c *c07Case, budget time.Duration) (*c07Outcome, error) {
	pre, err := c07LoadPreParams()
	if err != nil {
		return nil, err
	}
	localChain := local_v1.Connect(c.n, c.n-c.dishonest)
	signing := localChain.Signing()
	pubKeys := map[group.MemberIndex][]byte{}
	addresses := make([]chain.Address, c.n)
	for i := 0; i < c.n; i++ {
		_, pk, err := operator.GenerateKeyPair(local_v1.DefaultCurve)
		if err != nil {
			return nil, err
		}
		addr, err := signing.PublicKeyToAddress(pk)
		if err != nil {
			return nil, err
		}
		addresses[i] = addr
		pubKeys[group.MemberIndex(i+1)] = operator.MarshalUncompressed(pk)
	}
	hub := &c07Hub{
		operating: c.operating, pubKeys: pubKeys, handlers: map[group.MemberIndex][]*c07Handler{},
		plan: c.plan, injects: c.injects, held: map[group.MemberIndex][]c07Held{}, backlog: map[group.MemberIndex][]*c07NetMsg{}, stats: map[string]int{},
		lastSend: time.Now(),
		sentType: map[group.MemberIndex]int{}, got: map[string]bool{},
	}
	ctx, cancel := context.WithTimeout(context.Background(), budget)
	defer cancel()
	out := &c07Outcome{results: map[group.MemberIndex]*Result{}, errs: map[group.MemberIndex]error{}}
	var mu sync.Mutex
	var wg sync.WaitGroup
	for k, idx := range c.operating {
		wg.Add(1)
		go func(k int, idx group.MemberIndex) {
			defer wg.Done()
			exec := c07NewExecutor(pre[k])
			validator := group.NewMembershipValidator(&testutils.MockLogger{}, addresses, signing)
			// every member gets the excluded SET in its own order
			excluded := c.excluded
			if o, ok := c.excludedOrder[idx]; ok {
				excluded = o
			}
			res, err := exec.Execute(ctx, &testutils.MockLogger{}, big.NewInt(100), "session-verif", idx,
				c.n, c.dishonest, excluded, &c07Chan{hub, idx}, validator)
			mu.Lock()
			out.results[idx], out.errs[idx] = res, err
			mu.Unlock()
		}(k, idx)
	}
	// release held messages when the protocol stalls (nobody sent anything for a while)
	done := make(chan struct{})
	go func() { wg.Wait(); close(done) }()
	tick := time.NewTicker(50 * time.Millisecond)
	defer tick.Stop()
loop:
	for {
		select {
		case <-done:
			break loop
		case <-tick.C:
			for _, f := range c.floods {
				session := "session-verif"
				if f.kind == "other-session" {
					session = "another-session"
				}
				if raw := c07Fabricate(f.typeIdx, f.claimed, session, c.n); raw != nil {
					for _, r := range c.operating {
						hub.deliver(r, c07Types[f.typeIdx], raw, pubKeys[f.keyOf], "flood-"+f.kind)
					}
					hub.count("flood:" + f.kind)
				}
			}
			hub.mu.Lock()
			idle := time.Since(hub.lastSend)
			// a stall: no member holds what it needs for its next message
			// (decided from the protocol's progress, not from a pause, so a
			// busy machine does not release delayed messages early). The
			// long pause limit is only a backstop.
			hub.mu.Unlock()
			if idle > 90*time.Second && hub.heldCount() == 0 {
				// nothing is held back and nobody has sent anything for far
				// longer than any computation of the protocol takes: the run
				// is stuck; end it instead of waiting for the whole budget
				cancel()
			}
			if (!hub.canProgress() || idle > 60*time.Second) && hub.heldCount() > 0 {
				if c07Trace {
					fmt.Printf("C07TRACE %s stall-flush idle=%v\n", time.Now().Format("05.000"), idle)
				}
				hub.flushAllHeld()
				hub.count("stall-flush")
			}
		}
	}
	out.timeout = ctx.Err() != nil
	out.stats = hub.stats
	return out, nil
}

func c07Generate(t *rapid.T, n, dishonest int) *c07Case {
	c := &c07Case{n: n, dishonest: dishonest, plan: map[string]int{}}
	honest := n - dishonest
	// exclusion set: any subset leaving at least the honest threshold operating
	maxExcl := n - honest
	minExcl := 0
	if n > 5 {
		minExcl = n - 5 // only 5 distinct pre-parameter sets exist offline
	}
	k := rapid.IntRange(minExcl, maxExcl).Draw(t, "excludedCount")
	perm := rapid.Permutation(c07Range(n)).Draw(t, "excludedPerm")
	ex := map[group.MemberIndex]bool{}
	for _, p := range perm[:k] {
		ex[group.MemberIndex(p+1)] = true
	}
	for i := 1; i <= n; i++ {
		if ex[group.MemberIndex(i)] {
			c.excluded = append(c.excluded, group.MemberIndex(i))
		} else {
			c.operating = append(c.operating, group.MemberIndex(i))
		}
	}
	// schedule: one drawn "laggard" receiver gets one ephemeral-key message
	// late (so messages of later phases reach it early, while it is still in
	// an earlier state) and many duplicates
	laggard := rapid.SampledFrom(c.operating).Draw(t, "laggard")
	var laggardLate group.MemberIndex
	for _, o := range rapid.Permutation(c.operating).Draw(t, "laggardLateFrom") {
		if o != laggard {
			laggardLate = o
			break
		}
	}
	for _, s := range c.operating {
		for ti := range c07Types {
			for _, r := range c.operating {
				if r == s {
					continue
				}
				a := c07Normal
				// few holds: a member that waits for a held message blocks the
				// whole round; with many holds every round only proceeds by the
				// stall flush and nothing ever arrives EARLY at a lagging member
				switch rapid.IntRange(0, 29).Draw(t, fmt.Sprintf("act-%d/%d/%d", s, ti, r)) {
				case 0:
					a = c07Hold
					c.nHold++
				case 1, 2:
					a = c07Dup
					c.nDup++
				}
				if r == laggard {
					if s == laggardLate && ti == 0 {
						if a != c07Hold {
							c.nHold++
						}
						a = c07Hold
					} else if a == c07Normal && rapid.IntRange(0, 2).Draw(t, fmt.Sprintf("lagdup-%d/%d", s, ti)) == 0 {
						a = c07Dup
						c.nDup++
					}
				}
				c.plan[fmt.Sprintf("%d/%d/%d", s, ti, r)] = a
			}
		}
	}
	// injections
	nInj := rapid.IntRange(1, 4).Draw(t, "injections")
	for i := 0; i < nInj; i++ {
		in := c07Injection{
			triggerSender: rapid.SampledFrom(c.operating).Draw(t, "injSender"),
			triggerType:   -1, // every message type this sender broadcasts
			before:        rapid.Bool().Draw(t, "injBefore"),
		}
		kinds := []string{"other-session", "wrong-index"}
		if len(c.excluded) > 0 {
			kinds = append(kinds, "from-excluded", "from-excluded")
		}
		in.kind = rapid.SampledFrom(kinds).Draw(t, "injKind")
		switch in.kind {
		case "wrong-index":
			var others []group.MemberIndex
			for _, o := range c.operating {
				if o != in.triggerSender {
					others = append(others, o)
				}
			}
			in.claimed = rapid.SampledFrom(others).Draw(t, "injClaimed")
		case "from-excluded":
			in.claimed = rapid.SampledFrom(c.excluded).Draw(t, "injExcluded")
		default:
			in.claimed = in.triggerSender
		}
		c.injects = append(c.injects, in)
	}
	// the excluded members are a set: each member is handed its own ordering
	if len(c.excluded) > 1 {
		c.excludedOrder = map[group.MemberIndex][]group.MemberIndex{}
		for _, m := range c.operating {
			c.excludedOrder[m] = rapid.Permutation(c.excluded).Draw(t, fmt.Sprintf("excludedOrder-m%d", m))
		}
	}
	// floods: 0..2 periodic injections
	nFlood := rapid.IntRange(0, 2).Draw(t, "floods")
	for i := 0; i < nFlood; i++ {
		kinds := []string{"other-session", "other-session", "wrong-index"}
		if len(c.excluded) > 0 {
			kinds = append(kinds, "from-excluded", "from-excluded")
		}
		f := c07Flood{kind: rapid.SampledFrom(kinds).Draw(t, "floodKind"), typeIdx: rapid.IntRange(0, len(c07Types)-1).Draw(t, "floodType")}
		switch f.kind {
		case "other-session":
			f.claimed = rapid.SampledFrom(c.operating).Draw(t, "floodSender")
			f.keyOf = f.claimed
		case "wrong-index":
			f.keyOf = rapid.SampledFrom(c.operating).Draw(t, "floodKey")
			var others []group.MemberIndex
			for _, o := range c.operating {
				if o != f.keyOf {
					others = append(others, o)
				}
			}
			f.claimed = rapid.SampledFrom(others).Draw(t, "floodClaimed")
		case "from-excluded":
			f.claimed = rapid.SampledFrom(c.excluded).Draw(t, "floodExcluded")
			f.keyOf = f.claimed
		}
		c.floods = append(c.floods, f)
	}
	return c
}

func c07Range(n int) []int {
	r := make([]int, n)
	for i := range r {
		r[i] = i
	}
	return r
}

func c07CheckOutcome(t *rapid.T, c *c07Case, out *c07Outcome) (completed int) {
	var refKey []byte
	var refMis string
	var refIdx group.MemberIndex
	for _, idx := range c.operating {
		res := out.results[idx]
		if res == nil {
			continue
		}
		completed++
		key, err := res.GroupPublicKeyBytes()
		if err != nil {
			t.Fatalf("member %d completed without a group public key: %v; %s", idx, err, c.describe())
		}
		mis := res.MisbehavedMembersIndexes()
		misStr := fmt.Sprint(mis)
		if refKey == nil {
			refKey, refMis, refIdx = key, misStr, idx
		} else {
			if !bytes.Equal(key, refKey) {
				t.Fatalf("operating members %d and %d completed with DIFFERENT wallet public keys; %s", refIdx, idx, c.describe())
			}
			if misStr != refMis {
				t.Fatalf("operating members %d and %d report different misbehaved lists: %s vs %s; %s", refIdx, idx, refMis, misStr, c.describe())
			}
		}
		misSet := map[group.MemberIndex]bool{}
		for _, m := range mis {
			misSet[m] = true
		}
		for _, e := range c.excluded {
			if !misSet[e] {
				t.Fatalf("member %d does not list excluded member %d as misbehaving (list %v); %s", idx, e, mis, c.describe())
			}
		}
		for _, o := range c.operating {
			if misSet[o] {
				t.Fatalf("member %d lists OPERATING member %d as misbehaving (list %v) although only exclusions and ignorable injected messages happened; %s", idx, o, mis, c.describe())
			}
		}
	}
	return completed
}

func c07Property(st *verifkit.Stats, n, dishonest int) func(t *rapid.T) {
	return func(t *rapid.T) {
		c := c07Generate(t, n, dishonest)
		budget := 4 * time.Minute
		out, err := c07Run(c, budget)
		if err != nil {
			t.Fatalf("harness: %v", err)
		}
		completed := c07CheckOutcome(t, c, out)
		if completed < len(c.operating) {
			// Some operating member did not complete. With only exclusions
			// and messages that must be ignored this should not happen; but a
			// slow machine must not be mistaken for a defect: run the same
			// group without any injection or hold as a control.
			var errs []string
			for idx, e := range out.errs {
				if e != nil {
					errs = append(errs, fmt.Sprintf("m%d: %v", idx, e))
				}
			}
			sort.Strings(errs)
			control := &c07Case{n: c.n, dishonest: c.dishonest, excluded: c.excluded, operating: c.operating, plan: map[string]int{}, excludedOrder: c.excludedOrder}
			cout, cerr := c07Run(control, budget)
			if cerr == nil && c07CheckOutcome(t, control, cout) == len(c.operating) {
				t.Fatalf("only %d of %d operating members completed (errors: %s) while the same group WITHOUT injected/held/duplicated messages completes: injected or re-ordered messages influenced the outcome; %s",
					completed, len(c.operating), strings.Join(errs, "; "), c.describe())
			}
			fmt.Printf("VERIF-INCONCLUSIVE: C07 run and its control run did not complete within %v (errors: %s)\n", budget, strings.Join(errs, "; "))
			t.Fatalf("VERIF-INCONCLUSIVE: machine too slow")
		}
		labels := []string{fmt.Sprintf("excluded:%d", len(c.excluded)), fmt.Sprintf("injections:%d", len(c.injects))}
		for k, v := range out.stats {
			if v > 0 {
				labels = append(labels, "hub:"+k)
			}
		}
		for _, in := range c.injects {
			labels = append(labels, "inject:"+in.kind)
		}
		for _, f := range c.floods {
			labels = append(labels, fmt.Sprintf("flood:%s:type%d", f.kind, f.typeIdx))
		}
		nt := len(c.excluded) > 0 || len(c.injects) > 0 || out.stats["held"] > 0 || out.stats["duplicated"] > 0
		st.Case(nt, c.describe(), labels...)
	}
}

func TestVerif_C07_ThreeOfFive(t *testing.T) {
	st := verifkit.New("C07", "TestVerif_C07_ThreeOfFive")
	defer st.Flush()
	rapid.Check(t, c07Property(st, 5, 2))
}

func TestVerif_C07_FourOfSeven(t *testing.T) {
	st := verifkit.New("C07", "TestVerif_C07_FourOfSeven")
	defer st.Flush()
	rapid.Check(t, c07Property(st, 7, 3))
}

func TestDebug_C07_Control(t *testing.T) {
	if verifkit.EnvInt("VERIF_DEBUG", 0) == 0 {
		t.Skip("debug only")
	}
	c := &c07Case{n: 5, dishonest: 2, operating: []group.MemberIndex{1, 2, 3, 4, 5}, plan: map[string]int{}}
	start := time.Now()
	out, err := c07Run(c, 120*time.Second)
	fmt.Println("took", time.Since(start), err, out.errs, out.stats)
}
