//go:build go1.23

package dkg

import (
	"context"
	"fmt"
	"runtime"
	"strings"
	"sync"
	"sync/atomic"
	"syscall"
	"testing"
	"time"

	"github.com/keep-network/keep-common/pkg/persistence"
	"github.com/keep-network/keep-core/internal/verifkit"
	"github.com/keep-network/keep-core/pkg/generator"
	_ "pgregory.net/rapid" // registers the -rapid.* flags the driver passes to every test binary
)

// C45, the real background work: the tss-lib pre-parameter generation started
// by newTssPreParamsPool must wind down when the scheduler stops its worker
// (a registered protocol is executing at a scheduler check) and must start
// again after the protocol finished.
//
// Observation without hooks: a goroutine dump shows whether a call of
// keygen.GeneratePreParamsWithContext is still in flight. A second, harness
// owned pool submitted to the same scheduler AFTER the real one is the
// sentinel that tells when the scheduler's stop()/resume() happened (stop()
// cancels the workers in submission order, so when the sentinel sees its
// cancellation the real worker's context is cancelled already).
//
// The bound for "winds down" is CPU time consumed by this process after the
// cancellation, not wall-clock time: cancelled generation goroutines need a
// bounded amount of CPU to notice (they poll the context once per prime
// candidate), an idle process accumulates none, and generation that ignores
// the cancellation burns CPU continuously. A slow or loaded machine therefore
// cannot turn into a verdict; the wall-clock limit only yields INCONCLUSIVE.

type c45NopLogger struct{}

func (c45NopLogger) Debug(args ...interface{})                   {}
func (c45NopLogger) Debugf(format string, args ...interface{})   {}
func (c45NopLogger) Error(args ...interface{})                   {}
func (c45NopLogger) Errorf(format string, args ...interface{})   {}
func (c45NopLogger) Fatal(args ...interface{})                   {}
func (c45NopLogger) Fatalf(format string, args ...interface{})   {}
func (c45NopLogger) Info(args ...interface{})                    {}
func (c45NopLogger) Infof(format string, args ...interface{})    {}
func (c45NopLogger) Panic(args ...interface{})                   {}
func (c45NopLogger) Panicf(format string, args ...interface{})   {}
func (c45NopLogger) Warn(args ...interface{})                    {}
func (c45NopLogger) Warnf(format string, args ...interface{})    {}
func (c45NopLogger) Warning(args ...interface{})                 {}
func (c45NopLogger) Warningf(format string, args ...interface{}) {}

// c45MemHandle is an in-memory persistence.BasicHandle.
type c45MemHandle struct {
	mu    sync.Mutex
	saves int
}

func (h *c45MemHandle) Save(data []byte, directory string, name string) error {
	h.mu.Lock()
	h.saves++
	h.mu.Unlock()
	return nil
}
func (h *c45MemHandle) Delete(directory string, name string) error { return nil }
func (h *c45MemHandle) ReadAll() (<-chan persistence.DataDescriptor, <-chan error) {
	d, e := make(chan persistence.DataDescriptor), make(chan error)
	close(d)
	close(e)
	return d, e
}

type c45IntStore struct{}

func (c45IntStore) Save(v *int) (*generator.Persisted[int], error) {
	return &generator.Persisted[int]{Data: *v, ID: "x"}, nil
}
func (c45IntStore) Delete(*generator.Persisted[int]) error        { return nil }
func (c45IntStore) ReadAll() ([]*generator.Persisted[int], error) { return nil, nil }

const c45GenerationMarker = "tss-lib/ecdsa/keygen.GeneratePreParamsWithContext"

func c45GenerationInFlight() int {
	buf := make([]byte, 4<<20)
	n := runtime.Stack(buf, true)
	return strings.Count(string(buf[:n]), c45GenerationMarker+"(")
}

func c45CPUSeconds() float64 {
	var ru syscall.Rusage
	if err := syscall.Getrusage(syscall.RUSAGE_SELF, &ru); err != nil {
		return 0
	}
	tv := func(t syscall.Timeval) float64 { return float64(t.Sec) + float64(t.Usec)/1e6 }
	return tv(ru.Utime) + tv(ru.Stime)
}

func TestVerif_C45_RealGenerationStops(t *testing.T) {
	st := verifkit.New("C45", "TestVerif_C45_RealGenerationStops")
	defer st.Flush()
	rounds := verifkit.Checks(2)
	seed := verifkit.Seed()
	const wall = 120 * time.Second
	cpuBudget := 15.0 // CPU seconds the cancelled generation may still consume (it needs well under 2)

	inconclusive := func(format string, a ...any) {
		t.Fatalf("VERIF-INCONCLUSIVE: "+format, a...)
	}

	scheduler := generator.StartScheduler()
	latch := generator.NewProtocolLatch()
	scheduler.RegisterProtocol(latch)
	locked := false
	defer func() {
		// leave the generation stopped when the test ends
		if !locked {
			latch.Lock()
		}
		verifkit.Eventually(20*time.Second, func() bool { return c45GenerationInFlight() == 0 })
	}()

	concurrency := 1 + int(seed%2)
	handle := &c45MemHandle{}
	// pool size large enough never to fill up: an iteration is always in flight
	_ = newTssPreParamsPool(c45NopLogger{}, scheduler, handle, 1000, 30*time.Minute, 0, concurrency)

	var sentinelStarts, sentinelCancels atomic.Int64
	_ = generator.NewParameterPool[int](c45NopLogger{}, scheduler, c45IntStore{}, 1, func(ctx context.Context) *int {
		sentinelStarts.Add(1)
		<-ctx.Done()
		sentinelCancels.Add(1)
		return nil
	}, 0)

	for r := 0; r < rounds; r++ {
		// generation is running (no protocol executes)
		starts := sentinelStarts.Load()
		if !verifkit.Eventually(wall, func() bool {
			return sentinelStarts.Load() > sentinelCancels.Load() && c45GenerationInFlight() > 0
		}) {
			if sentinelStarts.Load() > sentinelCancels.Load() {
				t.Fatalf("round %d: no protocol is executing and the scheduler runs its workers, but no pre-parameter generation is in flight", r)
			}
			inconclusive("round %d: scheduler did not (re)start its workers in time", r)
		}
		_ = starts
		// a protocol starts executing; the next scheduler check stops the workers
		holds := 1 + (r+int(seed))%2
		for i := 0; i < holds; i++ {
			latch.Lock()
		}
		locked = true
		cancels := sentinelCancels.Load()
		if !verifkit.Eventually(wall, func() bool { return sentinelCancels.Load() > cancels }) {
			inconclusive("round %d: the scheduler check did not stop the workers in time", r)
		}
		// the real worker's context is cancelled now: generation must wind down
		cpu0, t0 := c45CPUSeconds(), time.Now()
		stopped := false
		var burnt float64
		for {
			if c45GenerationInFlight() == 0 {
				stopped = true
				break
			}
			burnt = c45CPUSeconds() - cpu0
			if burnt > cpuBudget || time.Since(t0) > wall {
				break
			}
			time.Sleep(20 * time.Millisecond)
		}
		if !stopped {
			if burnt > cpuBudget {
				t.Fatalf("round %d: a protocol is executing and the scheduler cancelled its workers, but the pre-parameter generation is still in flight after consuming %.1f s of CPU (%.1f s wall) since the cancellation", r, burnt, time.Since(t0).Seconds())
			}
			inconclusive("round %d: generation still in flight %.0f s after the cancellation but the process got only %.1f s of CPU", r, time.Since(t0).Seconds(), burnt)
		}
		// nested: one of two executions finishes - generation must stay stopped
		// over the next scheduler check(s); observed over two tick periods
		if holds == 2 {
			latch.Unlock()
			time.Sleep(2200 * time.Millisecond)
			if n := c45GenerationInFlight(); n > 0 || sentinelStarts.Load() > sentinelCancels.Load() {
				t.Fatalf("round %d: one of two nested protocol executions is still running but generation was resumed (%d generation calls in flight)", r, n)
			}
		}
		latch.Unlock()
		locked = false
		st.Case(true, fmt.Sprintf("round=%d concurrency=%d holds=%d", r, concurrency, holds), fmt.Sprintf("holds:%d", holds), fmt.Sprintf("concurrency:%d", concurrency))
	}
	// generation resumes after the last execution
	if !verifkit.Eventually(wall, func() bool {
		return sentinelStarts.Load() > sentinelCancels.Load() && c45GenerationInFlight() > 0
	}) {
		if sentinelStarts.Load() > sentinelCancels.Load() {
			t.Fatalf("no protocol is executing and the scheduler runs its workers, but no pre-parameter generation is in flight")
		}
		inconclusive("scheduler did not restart its workers in time")
	}
}
