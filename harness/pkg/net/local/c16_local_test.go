//go:build go1.23

package local

import (
	"context"
	"encoding/binary"
	"fmt"
	"runtime"
	"sort"
	"strings"
	"sync"
	"sync/atomic"
	"testing"
	"time"

	"pgregory.net/rapid"

	"github.com/keep-network/keep-core/internal/verifkit"
	"github.com/keep-network/keep-core/pkg/net"
	"github.com/keep-network/keep-core/pkg/net/internal"
	"github.com/keep-network/keep-core/pkg/net/retransmission"
	"github.com/keep-network/keep-core/pkg/operator"
)

const (
	c16Type     = "c16/msg"
	c16Sentinel = "c16/sentinel"
	c16Wait     = 30 * time.Second
)

var c16Cases uint64

// c16Payload carries the id the harness gave to a Send.
type c16Payload struct {
	tpe string
	id  uint64
}

func (p *c16Payload) Type() string { return p.tpe }
func (p *c16Payload) Marshal() ([]byte, error) {
	return binary.BigEndian.AppendUint64(nil, p.id), nil
}
func (p *c16Payload) Unmarshal(b []byte) error {
	if len(b) != 8 {
		return fmt.Errorf("c16: bad payload")
	}
	p.id = binary.BigEndian.Uint64(b)
	return nil
}

// c16DeadlineCtx is a context whose deadline passes when the harness says so
// (a deadline context on a harness-owned clock): Done closes and Err reports
// context.DeadlineExceeded, exactly like a context.WithDeadline that expired.
type c16DeadlineCtx struct {
	mu   sync.Mutex
	done chan struct{}
	err  error
	at   time.Time
}

func c16NewDeadlineCtx() *c16DeadlineCtx {
	return &c16DeadlineCtx{done: make(chan struct{}), at: time.Now().Add(time.Hour)}
}
func (c *c16DeadlineCtx) Deadline() (time.Time, bool) { return c.at, true }
func (c *c16DeadlineCtx) Done() <-chan struct{}       { return c.done }
func (c *c16DeadlineCtx) Value(any) any               { return nil }
func (c *c16DeadlineCtx) Err() error {
	c.mu.Lock()
	defer c.mu.Unlock()
	return c.err
}
func (c *c16DeadlineCtx) expire() {
	c.mu.Lock()
	if c.err == nil {
		c.err = context.DeadlineExceeded
		close(c.done)
	}
	c.mu.Unlock()
}

// c16Key is the model's identity of a message.
type c16Key struct {
	sender string
	seqno  uint64
}

type c16Receiver struct {
	id     int
	node   int
	cancel context.CancelFunc
	// guarded by world.mu
	cancelled bool
	boundary  map[c16Key]bool
	must      map[c16Key]bool
	started   map[c16Key]bool
	seen      map[c16Key]int
	sentinels uint64 // highest sentinel number handled
	bad       []string
	// how the receiver's context ends: "cancel" (context.WithCancel),
	// "deadline" (harness-clock deadline context), "timeout" (a real
	// context.WithTimeout the harness lets run out)
	kind   string
	ctx    context.Context
	end    func()
	inbox  chan net.Message // the channel's queue for this receiver
	gate   chan struct{}    // non-nil: the handler blocks after recording a message
	inGate bool
}

// c16World is the harness' bookkeeping, all guarded by mu.
type c16World struct {
	mu        sync.Mutex
	receivers []*c16Receiver
	// observer: first channel of the name, so every broadcast reaches its
	// inbox before it reaches anybody else's. The harness reads the inbox
	// itself; what it finds there are deliveries that have started.
	observer chan net.Message
	// tail: last channel of the name; a broadcast reaches its inbox after it
	// reached everybody else's. head count > tail count = under way.
	tail    chan net.Message
	heads   map[c16Key]int
	tails   map[c16Key]int
	objects map[c16Key]net.Message    // the message objects (for re-delivery)
	seqnos  map[uint64]map[c16Key]int // send id -> keys it was broadcast under
	order   []c16Key                  // first appearance order
}

// drain takes note of every delivery that has started; call with mu held.
func (w *c16World) drain() {
	for {
		select {
		case m := <-w.observer:
			if m.Type() == c16Sentinel {
				continue
			}
			k := c16Key{m.TransportSenderID().String(), m.Seqno()}
			w.heads[k]++
			if _, ok := w.objects[k]; !ok {
				w.objects[k] = m
				w.order = append(w.order, k)
			}
			if p, ok := m.Payload().(*c16Payload); ok {
				if w.seqnos[p.id] == nil {
					w.seqnos[p.id] = map[c16Key]int{}
				}
				w.seqnos[p.id][k]++
			}
			for _, r := range w.receivers {
				if !r.cancelled {
					r.started[k] = true
				}
			}
		default:
			// then the deliveries that have ended
			for {
				select {
				case m := <-w.tail:
					w.tails[c16Key{m.TransportSenderID().String(), m.Seqno()}]++
					continue
				default:
				}
				return
			}
		}
	}
}

func c16SortKeys(m map[c16Key]bool) []c16Key {
	var keys []c16Key
	for k := range m {
		keys = append(keys, k)
	}
	sort.Slice(keys, func(i, j int) bool {
		if keys[i].sender != keys[j].sender {
			return keys[i].sender < keys[j].sender
		}
		return keys[i].seqno < keys[j].seqno
	})
	return keys
}

func c16RetransmissionGoroutines() int {
	buf := make([]byte, 1<<20)
	for {
		n := runtime.Stack(buf, true)
		if n < len(buf) {
			buf = buf[:n]
			break
		}
		buf = make([]byte, 2*len(buf))
	}
	n := 0
	for _, g := range strings.Split(string(buf), "\n\n") {
		if strings.Contains(g, "retransmission.ScheduleRetransmissions") {
			n++
		}
	}
	return n
}

// c16NewChannel builds a local channel exactly as getBroadcastChannel does,
// except that its retransmission ticker is fed by the harness instead of a
// 50 ms wall-clock ticker.
func c16NewChannel(name string, key *operator.PublicKey, ticks <-chan uint64) *localChannel {
	identifier := randomLocalIdentifier()
	ch := &localChannel{
		name:                 name,
		identifier:           &identifier,
		operatorPublicKey:    key,
		messageHandlers:      make([]*messageHandler, 0),
		unmarshalersByType:   make(map[string]func() net.TaggedUnmarshaler),
		retransmissionTicker: retransmission.NewTicker(ticks),
	}
	ch.SetUnmarshaler(func() net.TaggedUnmarshaler { return &c16Payload{tpe: c16Type} })
	broadcastChannelsMutex.Lock()
	if broadcastChannels == nil {
		broadcastChannels = make(map[string][]*localChannel)
	}
	broadcastChannels[name] = append(broadcastChannels[name], ch)
	broadcastChannelsMutex.Unlock()
	return ch
}

// TestVerif_C16_LocalChannel: the same history-based check as for the libp2p
// channel, on the local provider's channels: 2..3 nodes share a channel name,
// each with its own sequence counter (so equal numbers from different senders
// are the rule), receivers on any node, concurrent sends, retransmissions by
// harness-fed ticks, concurrent re-deliveries, cancellations.
func TestVerif_C16_LocalChannel(t *testing.T) {
	st := verifkit.New("C16", "TestVerif_C16_LocalChannel")
	defer st.Flush()
	_, opKey, err := operator.GenerateKeyPair(DefaultCurve)
	if err != nil {
		t.Fatal(err)
	}
	rapid.Check(t, func(t *rapid.T) {
		name := fmt.Sprintf("c16-%d", atomic.AddUint64(&c16Cases, 1))
		w := &c16World{observer: make(chan net.Message, 1<<14), tail: make(chan net.Message, 1<<14),
			heads: map[c16Key]int{}, tails: map[c16Key]int{}, objects: map[c16Key]net.Message{}, seqnos: map[uint64]map[c16Key]int{}}
		// the observer comes first in the channel list of the name
		obsTicks := make(chan uint64)
		defer close(obsTicks)
		obs := c16NewChannel(name, opKey, obsTicks)
		obs.messageHandlers = append(obs.messageHandlers, &messageHandler{ctx: context.Background(), channel: w.observer})

		nNodes := rapid.IntRange(2, 3).Draw(t, "nodes")
		nodes := make([]*localChannel, nNodes)
		tickChans := make([]chan uint64, nNodes)
		for i := range nodes {
			tickChans[i] = make(chan uint64)
			nodes[i] = c16NewChannel(name, opKey, tickChans[i])
		}
		// and the tail observer last
		tailTicks := make(chan uint64)
		defer close(tailTicks)
		tl := c16NewChannel(name, opKey, tailTicks)
		tl.messageHandlers = append(tl.messageHandlers, &messageHandler{ctx: context.Background(), channel: w.tail})
		var hist []string
		msgCancels := make([][]context.CancelFunc, nNodes)
		liveMsgs := make([]int, nNodes)
		sendIDs, sentinelNo := uint64(0), uint64(0)
		harnessDups, cancels, concurrentSends := 0, 0, 0
		busySeq, busyEnds := 0, 0
		defer func() {
			for _, l := range msgCancels {
				for _, c := range l {
					c()
				}
			}
			for _, r := range w.receivers {
				r.cancel()
			}
			if verifkit.Eventually(5*time.Second, func() bool { return c16RetransmissionGoroutines() == 0 }) {
				for _, c := range tickChans {
					c <- 0 // orders the ticker's unlocked cleanup behind the last registration
					close(c)
				}
			}
			broadcastChannelsMutex.Lock()
			delete(broadcastChannels, name)
			broadcastChannelsMutex.Unlock()
		}()

		fail := func(format string, args ...any) {
			t.Fatalf("%s\nhistory: %s", fmt.Sprintf(format, args...), strings.Join(hist, " "))
		}
		completed := func(k c16Key) {
			w.mu.Lock()
			w.drain()
			for _, r := range w.receivers {
				if !r.cancelled {
					r.started[k] = true
					r.must[k] = true
				}
			}
			w.mu.Unlock()
		}
		check := func() {
			sentinelNo++
			sid := localIdentifier("c16-sentinel")
			if err := broadcastMessage(name, internal.BasicMessage(&sid, &c16Payload{tpe: c16Sentinel}, c16Sentinel, nil, sentinelNo)); err != nil {
				fail("sentinel: %v", err)
			}
			ok := verifkit.Eventually(c16Wait, func() bool {
				w.mu.Lock()
				defer w.mu.Unlock()
				for _, r := range w.receivers {
					if !r.cancelled && r.sentinels < sentinelNo {
						return false
					}
				}
				return true
			})
			if !ok {
				fail("VERIF-INCONCLUSIVE: sentinel %d not handled by every live receiver within %v", sentinelNo, c16Wait)
			}
			w.mu.Lock()
			defer w.mu.Unlock()
			w.drain()
			for _, r := range w.receivers {
				if len(r.bad) > 0 {
					fail("receiver %d (node %d): %s", r.id, r.node, r.bad[0])
				}
				if !r.cancelled {
					for _, k := range c16SortKeys(r.must) {
						if r.seen[k] == 0 {
							fail("receiver %d (node %d) never handled message (%s, %d) although a delivery of it completed while the receiver was live", r.id, r.node, k.sender, k.seqno)
						}
					}
				}
			}
		}
		addReceiver := func(node int, kind string) *c16Receiver {
			r := &c16Receiver{id: len(w.receivers), node: node, kind: kind, seen: map[c16Key]int{}, must: map[c16Key]bool{}, started: map[c16Key]bool{}}
			var ctx context.Context
			switch kind {
			case "deadline":
				dc := c16NewDeadlineCtx()
				ctx, r.cancel, r.end = dc, dc.expire, dc.expire
			case "timeout":
				// a real timer; the harness waits for it to run out
				c, cancel := context.WithTimeout(context.Background(), 5*time.Millisecond)
				ctx, r.cancel, r.end = c, cancel, func() { <-c.Done() }
			default:
				c, cancel := context.WithCancel(context.Background())
				ctx, r.cancel, r.end = c, cancel, cancel
			}
			r.ctx = ctx
			// Known to the bookkeeping before the channel knows it. Broadcasts
			// under way at this moment (seen by the head observer, not yet by
			// the tail observer) may still reach the new receiver.
			w.mu.Lock()
			w.drain()
			for k, n := range w.heads {
				if n > w.tails[k] {
					r.started[k] = true
				}
			}
			w.receivers = append(w.receivers, r)
			w.mu.Unlock()
			nodes[node].Recv(ctx, func(m net.Message) {
				w.mu.Lock()
				// whatever is handled now has been through the observer's inbox
				w.drain()
				k := c16Key{m.TransportSenderID().String(), m.Seqno()}
				if m.Type() == c16Sentinel {
					if r.cancelled {
						r.bad = append(r.bad, fmt.Sprintf("handled sentinel %d after its context had ended", m.Seqno()))
					}
					if m.Seqno() > r.sentinels {
						r.sentinels = m.Seqno()
					}
					w.mu.Unlock()
					return
				}
				r.seen[k]++
				switch {
				case r.seen[k] > 1:
					r.bad = append(r.bad, fmt.Sprintf("handled message (%s, %d) %d times", k.sender, k.seqno, r.seen[k]))
				case !r.started[k]:
					r.bad = append(r.bad, fmt.Sprintf("handled message (%s, %d), no delivery of which started during the receiver's lifetime", k.sender, k.seqno))
				case r.cancelled && !r.boundary[k]:
					r.bad = append(r.bad, fmt.Sprintf("handled message (%s, %d) after its context had ended (%s): the end had been observed and no delivery of that message could still be under way", k.sender, k.seqno, r.kind))
				}
				gate := r.gate
				if gate != nil {
					r.inGate = true
				}
				w.mu.Unlock()
				if gate != nil {
					<-gate // the harness keeps this receiver busy inside its handler
				}
			})
			// the receiver's queue inside the channel (it may be gone already
			// when a real timeout ran out; it is only used to wait, never to judge)
			nodes[node].messageHandlersMutex.Lock()
			for _, h := range nodes[node].messageHandlers {
				if h.ctx == ctx {
					r.inbox = h.channel
				}
			}
			nodes[node].messageHandlersMutex.Unlock()
			hist = append(hist, fmt.Sprintf("recv%d@n%d:%s", r.id, node, kind))
			return r
		}
		knownKeys := func() []c16Key {
			w.mu.Lock()
			defer w.mu.Unlock()
			w.drain()
			return append([]c16Key{}, w.order...)
		}
		redeliver := func(k c16Key, times int) {
			w.mu.Lock()
			m := w.objects[k]
			w.mu.Unlock()
			barrier := make(chan struct{})
			var wg sync.WaitGroup
			for i := 0; i < times; i++ {
				wg.Add(1)
				go func() {
					defer wg.Done()
					<-barrier
					_ = broadcastMessage(name, m)
				}()
			}
			close(barrier)
			wg.Wait()
			harnessDups += times
			completed(k)
		}
		inject := func(sender string, seq uint64) c16Key {
			sid := localIdentifier(sender)
			sendIDs++
			k := c16Key{sender, seq}
			w.mu.Lock()
			m, ok := w.objects[k]
			w.mu.Unlock()
			if !ok {
				m = internal.BasicMessage(&sid, &c16Payload{tpe: c16Type, id: sendIDs}, c16Type, nil, seq)
			} else {
				harnessDups++
			}
			if err := broadcastMessage(name, m); err != nil {
				fail("inject: %v", err)
			}
			completed(k)
			return k
		}

		for i, n := 0, rapid.IntRange(1, 3).Draw(t, "initialReceivers"); i < n; i++ {
			addReceiver(rapid.IntRange(0, nNodes-1).Draw(t, "onNode"), rapid.SampledFrom([]string{"cancel", "deadline"}).Draw(t, "endsBy"))
		}
		nOps := rapid.IntRange(2, 14).Draw(t, "ops")
		opening := rapid.IntRange(0, 2).Draw(t, "opening") > 0 // most histories open with send, tick
		for op := 0; op < nOps; op++ {
			opName := rapid.SampledFrom([]string{"redeliver", "cancel", "tick", "send", "recv", "endbusy", "inject", "tick", "redeliver", "send", "cancel", "inject", "recv", "endbusy", "tick", "redeliver", "cancelmsg"}).Draw(t, "op")
			if opening && op == 0 {
				opName = "send"
			}
			if opening && op == 1 {
				opName = "tick"
			}
			switch opName {
			case "recv":
				if len(w.receivers) < 5 {
					addReceiver(rapid.IntRange(0, nNodes-1).Draw(t, "onNode"), rapid.SampledFrom([]string{"cancel", "deadline"}).Draw(t, "endsBy"))
				}
			case "send":
				node := rapid.IntRange(0, nNodes-1).Draw(t, "node")
				k := rapid.IntRange(1, 4).Draw(t, "senders")
				// bound the retransmission traffic of a step well below the
				// capacity of a receiver's inbox (an overflowing inbox drops
				// messages by design; the property is not about that)
				if room := 6 - liveMsgs[node]; k > room {
					k = room
				}
				if k <= 0 {
					break
				}
				if k > 1 {
					concurrentSends++
				}
				var wg sync.WaitGroup
				errs := make([]error, k)
				ids := make([]uint64, k)
				barrier := make(chan struct{})
				for i := 0; i < k; i++ {
					sendIDs++
					ids[i] = sendIDs
					ctx, cancel := context.WithCancel(context.Background())
					msgCancels[node] = append(msgCancels[node], cancel)
					liveMsgs[node]++
					wg.Add(1)
					go func(i int) {
						defer wg.Done()
						<-barrier
						errs[i] = nodes[node].Send(ctx, &c16Payload{tpe: c16Type, id: ids[i]})
					}(i)
				}
				close(barrier)
				wg.Wait()
				for _, err := range errs {
					if err != nil {
						fail("Send failed: %v", err)
					}
				}
				for _, id := range ids {
					w.mu.Lock()
					w.drain()
					var keys []c16Key
					for k := range w.seqnos[id] {
						keys = append(keys, k)
					}
					w.mu.Unlock()
					if len(keys) != 1 {
						fail("send %d on node %d was broadcast as %v (expected exactly one sender/number pair)", id, node, keys)
					}
					if keys[0].sender != nodes[node].identifier.String() {
						fail("send %d on node %d was broadcast under sender %q", id, node, keys[0].sender)
					}
					completed(keys[0])
				}
				hist = append(hist, fmt.Sprintf("send×%d@n%d", k, node))
			case "tick":
				node := rapid.IntRange(0, nNodes-1).Draw(t, "node")
				n := rapid.IntRange(1, 3).Draw(t, "ticks")
				for i := 0; i < n; i++ {
					tickChans[node] <- uint64(i)
				}
				// brief, best-effort wait so retransmissions show up in this step
				time.Sleep(time.Duration(rapid.IntRange(0, 300).Draw(t, "settleMicros")) * time.Microsecond)
				hist = append(hist, fmt.Sprintf("tick×%d@n%d(%d live msgs)", n, node, liveMsgs[node]))
			case "redeliver":
				keys := knownKeys()
				if len(keys) == 0 {
					break
				}
				k := rapid.SampledFrom(keys).Draw(t, "which")
				m := rapid.IntRange(1, 6).Draw(t, "times")
				redeliver(k, m)
				hist = append(hist, fmt.Sprintf("redeliver(%.4s,%d)×%d", k.sender, k.seqno, m))
			case "inject":
				// a foreign sender whose numbers clash with everybody's
				k := inject(rapid.SampledFrom([]string{"peerX", "peerY"}).Draw(t, "from"), uint64(rapid.IntRange(1, 5).Draw(t, "seqno")))
				hist = append(hist, fmt.Sprintf("inject(%s,%d)", k.sender, k.seqno))
			case "cancel":
				var live []*c16Receiver
				for _, r := range w.receivers {
					if !r.cancelled {
						live = append(live, r)
					}
				}
				if len(live) == 0 {
					break
				}
				r := rapid.SampledFrom(live).Draw(t, "who")
				r.end() // cancel() or the deadline passes, as the receiver's kind says
				<-r.ctx.Done()
				w.mu.Lock()
				w.drain() // deliveries that started before this moment
				r.cancelled = true
				r.boundary = map[c16Key]bool{}
				for k := range r.started {
					if r.seen[k] == 0 {
						r.boundary[k] = true
					}
				}
				w.mu.Unlock()
				cancels++
				hist = append(hist, fmt.Sprintf("end%d:%s", r.id, r.kind))
				// deliveries that start after the cancel returned
				inject("peerZ", uint64(1000+cancels))
				if keys := knownKeys(); len(keys) > 0 {
					redeliver(rapid.SampledFrom(keys).Draw(t, "afterCancel"), 1)
				}
			case "endbusy":
				// The receiver is kept busy inside its handler while messages
				// queue up behind it and its context ends (cancel, deadline on
				// the harness clock, or a real timeout running out). The handler
				// goroutine is provably not between "took a message" and "calls
				// the handler", so afterwards NOTHING may be handled any more:
				// every queued message is looked at after the context ended.
				var r *c16Receiver
				if rapid.IntRange(0, 2).Draw(t, "realTimeout") == 0 && len(w.receivers) < 6 {
					r = addReceiver(rapid.IntRange(0, nNodes-1).Draw(t, "busyNode"), "timeout")
				} else {
					var live []*c16Receiver
					for _, c := range w.receivers {
						if !c.cancelled {
							live = append(live, c)
						}
					}
					if len(live) == 0 {
						break
					}
					r = rapid.SampledFrom(live).Draw(t, "busyWho")
				}
				gate := make(chan struct{})
				w.mu.Lock()
				r.gate = gate
				w.mu.Unlock()
				busySeq++
				inject("peerB", uint64(2000+busySeq))
				parkedOrDone := verifkit.Eventually(c16Wait, func() bool {
					w.mu.Lock()
					defer w.mu.Unlock()
					return r.inGate || r.ctx.Err() != nil
				})
				if !parkedOrDone {
					close(gate)
					fail("VERIF-INCONCLUSIVE: receiver %d did not pick up a message within %v", r.id, c16Wait)
				}
				w.mu.Lock()
				strict := r.inGate
				w.mu.Unlock()
				queued := rapid.IntRange(3, 8).Draw(t, "queued")
				for i := 0; i < queued; i++ {
					busySeq++
					inject("peerB", uint64(2000+busySeq))
				}
				r.end()
				<-r.ctx.Done()
				w.mu.Lock()
				w.drain()
				r.cancelled = true
				r.boundary = map[c16Key]bool{}
				if !strict {
					// (a real timeout may run out before the first message was
					// picked up: then only the usual boundary rule applies)
					for k := range r.started {
						if r.seen[k] == 0 {
							r.boundary[k] = true
						}
					}
				}
				r.gate = nil
				w.mu.Unlock()
				close(gate)
				cancels++
				if strict {
					busyEnds++
				}
				// give a faulty receive loop the moment it needs to hand the
				// queued messages over (sensitivity only, no verdict depends on it)
				verifkit.Eventually(3*time.Millisecond, func() bool {
					w.mu.Lock()
					defer w.mu.Unlock()
					return len(r.bad) > 0 || len(r.inbox) == 0
				})
				hist = append(hist, fmt.Sprintf("endbusy%d:%s(%d queued,strict=%v)", r.id, r.kind, queued, strict))
			case "cancelmsg":
				node := rapid.IntRange(0, nNodes-1).Draw(t, "node")
				if liveMsgs[node] > 0 {
					msgCancels[node][len(msgCancels[node])-liveMsgs[node]]()
					liveMsgs[node]--
					hist = append(hist, fmt.Sprintf("cancelmsg@n%d", node))
				}
			}
			check()
		}
		// sequence numbers: per sender every send has its own number
		w.mu.Lock()
		w.drain()
		owner := map[c16Key]uint64{}
		retransmissions := 0
		for id, keys := range w.seqnos {
			if len(keys) != 1 {
				w.mu.Unlock()
				fail("send %d was broadcast under several sender/number pairs: %v", id, keys)
			}
			for k, n := range keys {
				if other, ok := owner[k]; ok {
					w.mu.Unlock()
					fail("sends %d and %d share sender %s and sequence number %d", other, id, k.sender, k.seqno)
				}
				owner[k] = id
				retransmissions += n - 1
			}
		}
		w.mu.Unlock()
		dups := harnessDups + retransmissions
		st.Case(dups > 0 && cancels > 0, strings.Join(hist, " "),
			fmt.Sprintf("harness-duplicates:%v", harnessDups > 0), fmt.Sprintf("rebroadcasts-seen:%v", retransmissions-harnessDups > 0),
			fmt.Sprintf("cancellations:%v", cancels > 0), fmt.Sprintf("ended-while-busy:%v", busyEnds > 0), fmt.Sprintf("concurrent-sends:%v", concurrentSends > 0),
			fmt.Sprintf("receivers:%d", len(w.receivers)), fmt.Sprintf("nodes:%d", nNodes))
	})
}

// TestVerif_C16_LocalSeqnos hammers the channel's sequence counter the way
// concurrent senders do: g goroutines draw n numbers each, released together.
// All numbers drawn on one channel must be pairwise distinct.
func TestVerif_C16_LocalSeqnos(t *testing.T) {
	st := verifkit.New("C16", "TestVerif_C16_LocalSeqnos")
	defer st.Flush()
	rapid.Check(t, func(t *rapid.T) {
		ch := &localChannel{}
		g := rapid.IntRange(1, 16).Draw(t, "goroutines")
		n := rapid.IntRange(1, 400).Draw(t, "each")
		out := make([][]uint64, g)
		barrier := make(chan struct{})
		var wg sync.WaitGroup
		for i := 0; i < g; i++ {
			wg.Add(1)
			go func(i int) {
				defer wg.Done()
				mine := make([]uint64, 0, n)
				<-barrier
				for j := 0; j < n; j++ {
					mine = append(mine, ch.nextSeqno())
				}
				out[i] = mine
			}(i)
		}
		close(barrier)
		wg.Wait()
		seen := map[uint64]int{}
		for i, l := range out {
			for _, s := range l {
				if other, dup := seen[s]; dup {
					t.Fatalf("sequence number %d handed out twice (to senders %d and %d) with %d concurrent senders drawing %d numbers each", s, other, i, g, n)
				}
				seen[s] = i
			}
		}
		st.Case(g > 1, fmt.Sprintf("goroutines=%d each=%d", g, n), fmt.Sprintf("concurrent:%v", g > 1))
	})
}
