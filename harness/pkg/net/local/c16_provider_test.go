//go:build go1.23

package local

import (
	"context"
	"fmt"
	"sort"
	"strings"
	"sync"
	"sync/atomic"
	"testing"

	"pgregory.net/rapid"

	"github.com/keep-network/keep-core/internal/verifkit"
	"github.com/keep-network/keep-core/pkg/net"
	"github.com/keep-network/keep-core/pkg/net/internal"
	"github.com/keep-network/keep-core/pkg/operator"
)

var c16ProviderCases uint64

// TestVerif_C16_LocalProviderHandles goes through the local provider's public
// API: 1..3 providers (ConnectWithKey) ask for the same channel name once or
// several times (a provider re-using a channel across operations gets a new
// handle each time), receivers are registered on some handles, messages are
// sent through drawn handles, concurrently or one after the other. Oracles:
//   - fresh sequence numbers: two different messages sent on the channel never
//     carry the same (sender, seqno) - observed on the wire by a raw observer
//     of the channel name, whatever handle they went through;
//   - every receiver handles every message sent after its registration
//     exactly once (the real 50 ms retransmissions of the provider's channels
//     supply the duplicates).
func TestVerif_C16_LocalProviderHandles(t *testing.T) {
	st := verifkit.New("C16", "TestVerif_C16_LocalProviderHandles")
	defer st.Flush()
	_, opKey, err := operator.GenerateKeyPair(DefaultCurve)
	if err != nil {
		t.Fatal(err)
	}
	rapid.Check(t, func(t *rapid.T) {
		name := fmt.Sprintf("c16-handles-%d", atomic.AddUint64(&c16ProviderCases, 1))
		// raw observer of the name: sees every broadcast, duplicates included
		wire := make(chan net.Message, 1<<14)
		obsTicks := make(chan uint64)
		defer close(obsTicks)
		obs := c16NewChannel(name, opKey, obsTicks)
		obs.messageHandlers = append(obs.messageHandlers, &messageHandler{ctx: context.Background(), channel: wire})

		nProviders := rapid.IntRange(1, 3).Draw(t, "providers")
		providers := make([]Provider, nProviders)
		for i := range providers {
			providers[i] = ConnectWithKey(opKey)
		}
		type handle struct {
			provider int
			ch       net.BroadcastChannel
		}
		var handles []handle
		perProvider := make([]int, nProviders)
		type receiver struct {
			id        int
			since     int // messages sent before its registration
			seen      map[uint64]int
			sentinels uint64
		}
		var mu sync.Mutex
		var receivers []*receiver
		ctx, cancel := context.WithCancel(context.Background())
		defer func() {
			cancel() // ends receivers and retransmissions
			broadcastChannelsMutex.Lock()
			delete(broadcastChannels, name)
			broadcastChannelsMutex.Unlock()
		}()
		var hist []string
		sent := 0
		sentinelNo := uint64(0)
		concurrentSends := false
		fail := func(format string, args ...any) {
			t.Fatalf("%s\nhistory: %s", fmt.Sprintf(format, args...), strings.Join(hist, " "))
		}
		newHandle := func(p int) {
			ch, err := providers[p].BroadcastChannelFor(name)
			if err != nil {
				fail("BroadcastChannelFor: %v", err)
			}
			ch.SetUnmarshaler(func() net.TaggedUnmarshaler { return &c16Payload{tpe: c16Type} })
			handles = append(handles, handle{p, ch})
			perProvider[p]++
			hist = append(hist, fmt.Sprintf("handle%d@p%d", len(handles)-1, p))
		}
		newReceiver := func(h int) {
			r := &receiver{id: len(receivers), since: sent, seen: map[uint64]int{}}
			mu.Lock()
			receivers = append(receivers, r)
			mu.Unlock()
			handles[h].ch.Recv(ctx, func(m net.Message) {
				mu.Lock()
				defer mu.Unlock()
				if m.Type() == c16Sentinel {
					if m.Seqno() > r.sentinels {
						r.sentinels = m.Seqno()
					}
					return
				}
				if p, ok := m.Payload().(*c16Payload); ok {
					r.seen[p.id]++
				}
			})
			hist = append(hist, fmt.Sprintf("recv%d@h%d", r.id, h))
		}
		// the wire, over the whole case: (sender, seqno) -> message ids seen under it
		type key struct {
			sender string
			seqno  uint64
		}
		under := map[key]map[uint64]bool{}
		check := func() {
			sentinelNo++
			sid := localIdentifier("c16-sentinel")
			_ = broadcastMessage(name, internal.BasicMessage(&sid, &c16Payload{tpe: c16Sentinel}, c16Sentinel, nil, sentinelNo))
			ok := verifkit.Eventually(c16Wait, func() bool {
				mu.Lock()
				defer mu.Unlock()
				for _, r := range receivers {
					if r.sentinels < sentinelNo {
						return false
					}
				}
				return true
			})
			if !ok {
				fail("VERIF-INCONCLUSIVE: sentinel %d not handled by every receiver within %v", sentinelNo, c16Wait)
			}
			for drained := false; !drained; {
				select {
				case m := <-wire:
					p, ok := m.Payload().(*c16Payload)
					if !ok || m.Type() == c16Sentinel {
						continue
					}
					k := key{m.TransportSenderID().String(), m.Seqno()}
					if under[k] == nil {
						under[k] = map[uint64]bool{}
					}
					under[k][p.id] = true
				default:
					drained = true
				}
			}
			for k, ids := range under {
				if len(ids) > 1 {
					var l []uint64
					for id := range ids {
						l = append(l, id)
					}
					sort.Slice(l, func(i, j int) bool { return l[i] < l[j] })
					fail("different messages %v were sent on channel %q with the same sender %s and sequence number %d (handles per provider: %v)", l, name, k.sender, k.seqno, perProvider)
				}
			}
			mu.Lock()
			defer mu.Unlock()
			for _, r := range receivers {
				for id := uint64(r.since + 1); id <= uint64(sent); id++ {
					if r.seen[id] != 1 {
						fail("receiver %d handled message %d %d times (it was sent after the receiver registered; handles per provider: %v)", r.id, id, r.seen[id], perProvider)
					}
				}
				for id, n := range r.seen {
					if n > 1 {
						fail("receiver %d handled message %d %d times", r.id, id, n)
					}
				}
			}
		}

		newHandle(0)
		newReceiver(0)
		nOps := rapid.IntRange(2, 12).Draw(t, "ops")
		for op := 0; op < nOps && len(handles) <= 6; op++ {
			switch rapid.SampledFrom([]string{"send", "handle", "send", "again", "recv", "send"}).Draw(t, "op") {
			case "handle":
				newHandle(rapid.IntRange(0, nProviders-1).Draw(t, "provider"))
			case "again":
				// the provider of an existing handle asks for the channel again
				newHandle(handles[rapid.IntRange(0, len(handles)-1).Draw(t, "like")].provider)
			case "recv":
				if len(receivers) < 4 {
					newReceiver(rapid.IntRange(0, len(handles)-1).Draw(t, "on"))
				}
			case "send":
				k := rapid.IntRange(1, 4).Draw(t, "senders")
				if sent+k > 40 {
					break
				}
				via := make([]int, k)
				for i := range via {
					via[i] = rapid.IntRange(0, len(handles)-1).Draw(t, "via")
				}
				errs := make([]error, k)
				barrier := make(chan struct{})
				var wg sync.WaitGroup
				for i := 0; i < k; i++ {
					wg.Add(1)
					go func(i int, id uint64) {
						defer wg.Done()
						<-barrier
						errs[i] = handles[via[i]].ch.Send(ctx, &c16Payload{tpe: c16Type, id: id})
					}(i, uint64(sent+i+1))
				}
				close(barrier)
				wg.Wait()
				for _, err := range errs {
					if err != nil {
						fail("Send: %v", err)
					}
				}
				sent += k
				if k > 1 {
					concurrentSends = true
				}
				hist = append(hist, fmt.Sprintf("send×%d via %v", k, via))
			}
			check()
		}
		reused := false
		for _, n := range perProvider {
			if n > 1 {
				reused = true
			}
		}
		st.Case(reused && sent > 1, strings.Join(hist, " "),
			fmt.Sprintf("provider-with-several-handles:%v", reused), fmt.Sprintf("providers:%d", nProviders),
			fmt.Sprintf("concurrent-sends:%v", concurrentSends), fmt.Sprintf("receivers:%d", len(receivers)))
	})
}
