//go:build go1.23

package libp2p

import (
	"context"
	"encoding/binary"
	"fmt"
	"math/big"
	"runtime"
	"sort"
	"strings"
	"sync"
	"testing"
	"time"

	pubsub "github.com/libp2p/go-libp2p-pubsub"
	pubsubpb "github.com/libp2p/go-libp2p-pubsub/pb"
	libp2pcrypto "github.com/libp2p/go-libp2p/core/crypto"
	"github.com/libp2p/go-libp2p/core/peer"
	"google.golang.org/protobuf/encoding/protowire"
	"google.golang.org/protobuf/proto"
	"pgregory.net/rapid"

	"github.com/keep-network/keep-core/internal/verifkit"
	"github.com/keep-network/keep-core/pkg/net"
	"github.com/keep-network/keep-core/pkg/net/gen/pb"
	"github.com/keep-network/keep-core/pkg/net/retransmission"
)

const (
	c16Type     = "c16/msg"
	c16Sentinel = "c16/sentinel"
	c16Wait     = 30 * time.Second
)

// c16Payload carries the id the harness gave to a Send.
type c16Payload struct {
	tpe string
	id  uint64
}

func (p *c16Payload) Type() string { return p.tpe }
func (p *c16Payload) Marshal() ([]byte, error) {
	return binary.BigEndian.AppendUint64(nil, p.id), nil
}
func (p *c16Payload) Unmarshal(b []byte) error {
	if len(b) != 8 {
		return fmt.Errorf("c16: bad payload")
	}
	p.id = binary.BigEndian.Uint64(b)
	return nil
}

type c16Node struct {
	id    peer.ID
	inner []byte
	ident *identity
}

func c16MakeNode(k int64) *c16Node {
	raw := make([]byte, 32)
	big.NewInt(k).FillBytes(raw)
	priv, err := libp2pcrypto.UnmarshalSecp256k1PrivateKey(raw)
	if err != nil {
		panic(err)
	}
	ident, err := createIdentity(priv)
	if err != nil {
		panic(err)
	}
	inner, err := ident.Marshal()
	if err != nil {
		panic(err)
	}
	return &c16Node{id: ident.id, inner: inner, ident: ident}
}

// c16DeadlineCtx is a context whose deadline passes when the harness says so
// (a deadline context on a harness-owned clock): Done closes and Err reports
// context.DeadlineExceeded, exactly like a context.WithDeadline that expired.
type c16DeadlineCtx struct {
	mu   sync.Mutex
	done chan struct{}
	err  error
	at   time.Time
}

func c16NewDeadlineCtx() *c16DeadlineCtx {
	return &c16DeadlineCtx{done: make(chan struct{}), at: time.Now().Add(time.Hour)}
}
func (c *c16DeadlineCtx) Deadline() (time.Time, bool) { return c.at, true }
func (c *c16DeadlineCtx) Done() <-chan struct{}       { return c.done }
func (c *c16DeadlineCtx) Value(any) any               { return nil }
func (c *c16DeadlineCtx) Err() error {
	c.mu.Lock()
	defer c.mu.Unlock()
	return c.err
}
func (c *c16DeadlineCtx) expire() {
	c.mu.Lock()
	if c.err == nil {
		c.err = context.DeadlineExceeded
		close(c.done)
	}
	c.mu.Unlock()
}

// c16Key is the model's identity of a message.
type c16Key struct {
	sender string
	seqno  uint64
}

// c16World is the harness' bookkeeping, all guarded by mu.
type c16World struct {
	mu        sync.Mutex
	receivers []*c16Receiver
	// what the channel published: send id -> sequence numbers seen, and the
	// number of publications per send id
	seqnos       map[uint64]map[uint64]int
	publications int
	// deliveries under way inside Publish (entered, not returned)
	inflight map[c16Key]int
}

type c16Receiver struct {
	id     int
	cancel context.CancelFunc
	// guarded by world.mu
	cancelled bool            // set after cancel() returned, in a quiescent state
	boundary  map[c16Key]bool // at cancellation: started but not yet handled (may still arrive)
	must      map[c16Key]bool // a delivery completed (synchronously) while the receiver was live
	started   map[c16Key]bool // a delivery started while the receiver was live (superset of must)
	seen      map[c16Key]int
	sentinels uint64 // highest sentinel number handled
	bad       []string
	// how the receiver's context ends: "cancel" (context.WithCancel),
	// "deadline" (harness-clock deadline context), "timeout" (a real
	// context.WithTimeout the harness lets run out)
	kind   string
	ctx    context.Context
	end    func()
	inbox  chan net.Message // the channel's queue for this receiver
	gate   chan struct{}    // non-nil: the handler blocks after recording a message
	inGate bool
}

// started records that a delivery of k begins now.
func (w *c16World) startDelivery(k c16Key) {
	w.mu.Lock()
	for _, r := range w.receivers {
		if !r.cancelled {
			r.started[k] = true
		}
	}
	w.mu.Unlock()
}

// c16Publisher stands in for the pubsub topic: it records what the channel
// publishes and loops it back into the channel's receive path, as the network
// does for a node subscribed to its own topic.
type c16Publisher struct {
	w    *c16World
	ch   *channel
	self peer.ID
}

func (p *c16Publisher) Publish(_ context.Context, data []byte, _ ...pubsub.PubOpt) error {
	var m pb.BroadcastNetworkMessage
	if err := proto.Unmarshal(data, &m); err != nil || len(m.Payload) != 8 {
		return fmt.Errorf("c16: published bytes do not decode: %v", err)
	}
	id := binary.BigEndian.Uint64(m.Payload)
	p.w.mu.Lock()
	if p.w.seqnos[id] == nil {
		p.w.seqnos[id] = map[uint64]int{}
	}
	p.w.seqnos[id][m.SequenceNumber]++
	p.w.publications++
	key := c16Key{p.self.String(), m.SequenceNumber}
	p.w.inflight[key]++
	p.w.mu.Unlock()
	p.w.startDelivery(key)
	err := p.ch.processPubsubMessage(&pubsub.Message{Message: &pubsubpb.Message{From: []byte(p.self), Data: append([]byte{}, data...)}})
	p.w.mu.Lock()
	p.w.inflight[key]--
	p.w.mu.Unlock()
	return err
}

// c16RetransmissionGoroutines counts goroutines that are inside the
// retransmission scheduler (registering a tick handler or running a tick).
func c16RetransmissionGoroutines() int {
	buf := make([]byte, 1<<20)
	for {
		n := runtime.Stack(buf, true)
		if n < len(buf) {
			buf = buf[:n]
			break
		}
		buf = make([]byte, 2*len(buf))
	}
	n := 0
	for _, g := range strings.Split(string(buf), "\n\n") {
		if strings.Contains(g, "retransmission.ScheduleRetransmissions") {
			n++
		}
	}
	return n
}

func c16Envelope(sender []byte, tpe string, id uint64, seqno uint64) []byte {
	var b []byte
	b = protowire.AppendTag(b, 1, protowire.BytesType)
	b = protowire.AppendBytes(b, sender)
	b = protowire.AppendTag(b, 2, protowire.BytesType)
	b = protowire.AppendBytes(b, binary.BigEndian.AppendUint64(nil, id))
	b = protowire.AppendTag(b, 3, protowire.BytesType)
	b = protowire.AppendBytes(b, []byte(tpe))
	b = protowire.AppendTag(b, 4, protowire.VarintType)
	b = protowire.AppendVarint(b, seqno)
	return b
}

func c16SortKeys(m map[c16Key]bool) []c16Key {
	var keys []c16Key
	for k := range m {
		keys = append(keys, k)
	}
	sort.Slice(keys, func(i, j int) bool {
		if keys[i].sender != keys[j].sender {
			return keys[i].sender < keys[j].sender
		}
		return keys[i].seqno < keys[j].seqno
	})
	return keys
}

// TestVerif_C16_Libp2pChannel runs a generated history on one libp2p
// broadcast channel (real channel code; the pubsub topic is replaced by a
// loop-back publisher, the retransmission ticker is fed by the harness):
// receivers come and go, messages are sent by concurrent senders,
// retransmitted by ticks (asynchronously, as in production), re-delivered
// concurrently, injected from other peers with clashing sequence numbers.
// After every step, in a state where every delivery made by the harness
// itself has been dealt with (forced by a sentinel message):
//   - no receiver handled any (sender, seqno) twice;
//   - a receiver handled only messages whose delivery started in its lifetime;
//   - a live receiver handled every message whose delivery completed in its
//     lifetime (so "at most once" is not met by swallowing messages);
//   - a cancelled receiver handled nothing whose delivery started after its
//     cancel returned (a retransmission already under way at that moment is
//     the documented boundary and is allowed to arrive once);
//   - all sends got pairwise distinct sequence numbers, and every
//     retransmission repeats the number of its send.
func TestVerif_C16_Libp2pChannel(t *testing.T) {
	st := verifkit.New("C16", "TestVerif_C16_Libp2pChannel")
	defer st.Flush()
	self := c16MakeNode(1)
	peers := []*c16Node{c16MakeNode(2), c16MakeNode(3), c16MakeNode(4)}
	rapid.Check(t, func(t *rapid.T) {
		ticks := make(chan uint64)
		defer func() {
			// The Ticker's shutdown path is not synchronised with handler
			// registration (outside this property): close the tick source only
			// once nobody is inside the scheduler any more, else leave it.
			// (deferred functions run last-in first-out: all contexts are
			// cancelled by now.) One last tick makes the Ticker take its lock
			// after the last registration, which orders its unlocked cleanup
			// behind every registration.
			if verifkit.Eventually(5*time.Second, func() bool { return c16RetransmissionGoroutines() == 0 }) {
				ticks <- 0
				close(ticks)
			}
		}()
		ch := &channel{
			name:                 "c16",
			clientIdentity:       self.ident,
			unmarshalersByType:   map[string]func() net.TaggedUnmarshaler{},
			retransmissionTicker: retransmission.NewTicker(ticks),
		}
		w := &c16World{seqnos: map[uint64]map[uint64]int{}, inflight: map[c16Key]int{}}
		ch.publisher = &c16Publisher{w: w, ch: ch, self: self.id}
		ch.SetUnmarshaler(func() net.TaggedUnmarshaler { return &c16Payload{tpe: c16Type} })
		ch.SetUnmarshaler(func() net.TaggedUnmarshaler { return &c16Payload{tpe: c16Sentinel} })

		var hist []string
		var known []c16Key               // keys delivered so far (for re-delivery)
		envelopes := map[c16Key][]byte{} // their bytes
		authors := map[c16Key]peer.ID{}  // and authenticated publishers
		var msgCancels []context.CancelFunc
		liveMsgs := 0
		sendIDs := uint64(0)
		sentinelNo := uint64(0)
		harnessDups, cancels, concurrentSends, sends := 0, 0, 0, 0
		busySeq, busyEnds := 0, 0
		defer func() {
			for _, c := range msgCancels {
				c()
			}
			for _, r := range w.receivers {
				r.cancel()
			}
		}()

		fail := func(format string, args ...any) {
			t.Fatalf("%s\nhistory: %s", fmt.Sprintf(format, args...), strings.Join(hist, " "))
		}
		// completed: a delivery of k made by the harness (or by Send itself)
		// has returned: every receiver live now is owed k.
		completed := func(k c16Key) {
			w.mu.Lock()
			for _, r := range w.receivers {
				if !r.cancelled {
					r.started[k] = true
					r.must[k] = true
				}
			}
			w.mu.Unlock()
		}
		process := func(from peer.ID, data []byte) error {
			return ch.processPubsubMessage(&pubsub.Message{Message: &pubsubpb.Message{From: []byte(from), Data: data}})
		}
		// quiesce: push a sentinel through the channel and wait until every
		// live receiver handled it. Inboxes are FIFO and served by one
		// goroutine each, so everything delivered before has been dealt with.
		check := func() {
			sentinelNo++
			if err := process(peers[2].id, c16Envelope(peers[2].inner, c16Sentinel, 0, sentinelNo)); err != nil {
				fail("sentinel rejected: %v", err)
			}
			ok := verifkit.Eventually(c16Wait, func() bool {
				w.mu.Lock()
				defer w.mu.Unlock()
				for _, r := range w.receivers {
					if !r.cancelled && r.sentinels < sentinelNo {
						return false
					}
				}
				return true
			})
			if !ok {
				fail("VERIF-INCONCLUSIVE: sentinel %d not handled by every live receiver within %v", sentinelNo, c16Wait)
			}
			w.mu.Lock()
			defer w.mu.Unlock()
			for _, r := range w.receivers {
				if len(r.bad) > 0 {
					fail("receiver %d: %s", r.id, r.bad[0])
				}
				if !r.cancelled {
					for _, k := range c16SortKeys(r.must) {
						if r.seen[k] == 0 {
							fail("receiver %d never handled message (%s, %d) although a delivery of it completed while the receiver was live", r.id, k.sender, k.seqno)
						}
					}
				}
			}
		}
		addReceiver := func(kind string) *c16Receiver {
			r := &c16Receiver{id: len(w.receivers), kind: kind, seen: map[c16Key]int{}, must: map[c16Key]bool{}, started: map[c16Key]bool{}}
			var ctx context.Context
			switch kind {
			case "deadline":
				dc := c16NewDeadlineCtx()
				ctx, r.cancel, r.end = dc, dc.expire, dc.expire
			case "timeout":
				// a real timer; the harness waits for it to run out
				c, cancel := context.WithTimeout(context.Background(), 5*time.Millisecond)
				ctx, r.cancel, r.end = c, cancel, func() { <-c.Done() }
			default:
				c, cancel := context.WithCancel(context.Background())
				ctx, r.cancel, r.end = c, cancel, cancel
			}
			r.ctx = ctx
			// known to the bookkeeping before the channel knows it: "started"
			// may then contain deliveries the receiver never gets (harmless)
			w.mu.Lock()
			w.receivers = append(w.receivers, r)
			for k, n := range w.inflight {
				if n > 0 {
					r.started[k] = true // under way right now: may or may not reach r
				}
			}
			w.mu.Unlock()
			ch.Recv(ctx, func(m net.Message) {
				w.mu.Lock()
				k := c16Key{m.TransportSenderID().String(), m.Seqno()}
				if m.Type() == c16Sentinel {
					if r.cancelled {
						r.bad = append(r.bad, fmt.Sprintf("handled sentinel %d after its context had ended", m.Seqno()))
					}
					if m.Seqno() > r.sentinels {
						r.sentinels = m.Seqno()
					}
					w.mu.Unlock()
					return
				}
				r.seen[k]++
				switch {
				case r.seen[k] > 1:
					r.bad = append(r.bad, fmt.Sprintf("handled message (%s, %d) %d times", k.sender, k.seqno, r.seen[k]))
				case !r.started[k]:
					r.bad = append(r.bad, fmt.Sprintf("handled message (%s, %d), no delivery of which started during the receiver's lifetime", k.sender, k.seqno))
				case r.cancelled && !r.boundary[k]:
					r.bad = append(r.bad, fmt.Sprintf("handled message (%s, %d) after its context had ended (%s): the end had been observed and no delivery of that message could still be under way", k.sender, k.seqno, r.kind))
				}
				gate := r.gate
				if gate != nil {
					r.inGate = true
				}
				w.mu.Unlock()
				if gate != nil {
					<-gate // the harness keeps this receiver busy inside its handler
				}
			})
			// the receiver's queue inside the channel (it may be gone already
			// when a real timeout ran out; it is only used to wait, never to judge)
			ch.messageHandlersMutex.Lock()
			for _, h := range ch.messageHandlers {
				if h.ctx == ctx {
					r.inbox = h.channel
				}
			}
			ch.messageHandlersMutex.Unlock()
			hist = append(hist, fmt.Sprintf("recv%d:%s", r.id, kind))
			return r
		}

		// a message of peers[1] nobody has seen yet, delivered by the harness
		freshDelivery := func(seq uint64) {
			key := c16Key{peers[1].id.String(), seq}
			sendIDs++
			envelopes[key], authors[key] = c16Envelope(peers[1].inner, c16Type, sendIDs, seq), peers[1].id
			known = append(known, key)
			w.startDelivery(key)
			if err := process(peers[1].id, envelopes[key]); err != nil {
				fail("envelope rejected: %v", err)
			}
			completed(key)
		}
		for i, n := 0, rapid.IntRange(1, 3).Draw(t, "initialReceivers"); i < n; i++ {
			addReceiver(rapid.SampledFrom([]string{"cancel", "deadline"}).Draw(t, "endsBy"))
		}
		nOps := rapid.IntRange(2, 14).Draw(t, "ops")
		opening := rapid.IntRange(0, 2).Draw(t, "opening") > 0 // most histories open with send, tick
		for op := 0; op < nOps; op++ {
			opName := rapid.SampledFrom([]string{"redeliver", "cancel", "tick", "send", "recv", "endbusy", "inject", "tick", "redeliver", "send", "cancel", "inject", "recv", "endbusy", "tick", "redeliver", "cancelmsg"}).Draw(t, "op")
			if opening && op == 0 {
				opName = "send"
			}
			if opening && op == 1 {
				opName = "tick"
			}
			switch opName {
			case "recv":
				if len(w.receivers) < 4 {
					addReceiver(rapid.SampledFrom([]string{"cancel", "deadline"}).Draw(t, "endsBy"))
				}
			case "send":
				// k concurrent senders on the channel
				k := rapid.IntRange(1, 4).Draw(t, "senders")
				// bound the retransmission traffic of a step well below the
				// capacity of a receiver's inbox (an overflowing inbox drops
				// messages by design; the property is not about that)
				if room := 10 - liveMsgs; k > room {
					k = room
				}
				if k <= 0 {
					break
				}
				if k > 1 {
					concurrentSends++
				}
				sends += k
				var wg sync.WaitGroup
				errs := make([]error, k)
				ids := make([]uint64, k)
				barrier := make(chan struct{})
				for i := 0; i < k; i++ {
					sendIDs++
					ids[i] = sendIDs
					ctx, cancel := context.WithCancel(context.Background())
					msgCancels = append(msgCancels, cancel)
					liveMsgs++
					wg.Add(1)
					go func(i int) {
						defer wg.Done()
						<-barrier
						errs[i] = ch.Send(ctx, &c16Payload{tpe: c16Type, id: ids[i]})
					}(i)
				}
				close(barrier)
				wg.Wait()
				for _, err := range errs {
					if err != nil {
						fail("Send failed: %v", err)
					}
				}
				// the sequence numbers are read back from what was published
				for _, id := range ids {
					w.mu.Lock()
					var seqs []uint64
					for s := range w.seqnos[id] {
						seqs = append(seqs, s)
					}
					w.mu.Unlock()
					if len(seqs) != 1 {
						fail("send %d was published with sequence numbers %v", id, seqs)
					}
					key := c16Key{self.id.String(), seqs[0]}
					if _, dup := envelopes[key]; dup {
						fail("two sends on the channel got the same sequence number %d", seqs[0])
					}
					envelopes[key], authors[key] = c16Envelope(self.inner, c16Type, id, seqs[0]), self.id
					known = append(known, key)
					completed(key)
				}
				hist = append(hist, fmt.Sprintf("send×%d", k))
			case "tick":
				// retransmissions run on their own goroutines; the harness does
				// not wait for them (only, briefly, to see them in this step
				// rather than a later one - no verdict depends on it)
				n := rapid.IntRange(1, 3).Draw(t, "ticks")
				w.mu.Lock()
				before := w.publications
				w.mu.Unlock()
				for i := 0; i < n; i++ {
					ticks <- uint64(i)
				}
				verifkit.Eventually(20*time.Millisecond, func() bool {
					w.mu.Lock()
					defer w.mu.Unlock()
					return w.publications >= before+n*liveMsgs
				})
				hist = append(hist, fmt.Sprintf("tick×%d(%d live msgs)", n, liveMsgs))
			case "redeliver":
				if len(known) == 0 {
					break
				}
				key := rapid.SampledFrom(known).Draw(t, "which")
				m := rapid.IntRange(1, 6).Draw(t, "times")
				w.startDelivery(key)
				barrier := make(chan struct{})
				var wg sync.WaitGroup
				for i := 0; i < m; i++ {
					wg.Add(1)
					go func() {
						defer wg.Done()
						<-barrier
						_ = process(authors[key], envelopes[key])
					}()
				}
				close(barrier)
				wg.Wait()
				completed(key)
				harnessDups += m
				hist = append(hist, fmt.Sprintf("redeliver(%s,%d)×%d", key.sender[len(key.sender)-4:], key.seqno, m))
			case "inject":
				// a message of another peer; its numbers clash with ours and with
				// those of the other peers on purpose
				p := rapid.SampledFrom(peers[:2]).Draw(t, "from")
				seq := uint64(rapid.IntRange(1, 6).Draw(t, "seqno"))
				key := c16Key{p.id.String(), seq}
				if _, ok := envelopes[key]; !ok {
					sendIDs++
					envelopes[key], authors[key] = c16Envelope(p.inner, c16Type, sendIDs, seq), p.id
					known = append(known, key)
				} else {
					harnessDups++
				}
				w.startDelivery(key)
				if err := process(p.id, envelopes[key]); err != nil {
					fail("injected envelope rejected: %v", err)
				}
				completed(key)
				hist = append(hist, fmt.Sprintf("inject(%s,%d)", key.sender[len(key.sender)-4:], seq))
			case "cancel":
				var live []*c16Receiver
				for _, r := range w.receivers {
					if !r.cancelled {
						live = append(live, r)
					}
				}
				if len(live) == 0 {
					break
				}
				r := rapid.SampledFrom(live).Draw(t, "who")
				// forced ordering: every delivery the harness made has been dealt
				// with (the step before ended with the sentinel), cancel returns,
				// then the mark is set. Only retransmissions already under way
				// (started, not handled yet) may still arrive.
				r.end() // cancel() or the deadline passes, as the receiver's kind says
				<-r.ctx.Done()
				w.mu.Lock()
				r.cancelled = true
				r.boundary = map[c16Key]bool{}
				for k := range r.started {
					if r.seen[k] == 0 {
						r.boundary[k] = true
					}
				}
				w.mu.Unlock()
				cancels++
				hist = append(hist, fmt.Sprintf("end%d:%s", r.id, r.kind))
				// deliveries that start after the cancel returned: a message
				// nobody has seen yet and, if there is one, a known message
				fresh := c16Key{peers[1].id.String(), uint64(1000 + cancels)}
				sendIDs++
				envelopes[fresh], authors[fresh] = c16Envelope(peers[1].inner, c16Type, sendIDs, fresh.seqno), peers[1].id
				known = append(known, fresh)
				for _, key := range []c16Key{fresh, rapid.SampledFrom(known).Draw(t, "afterCancel")} {
					w.startDelivery(key)
					if err := process(authors[key], envelopes[key]); err != nil {
						fail("envelope rejected: %v", err)
					}
					completed(key)
				}
			case "endbusy":
				// The receiver is kept busy inside its handler while messages
				// queue up behind it and its context ends (cancel, deadline on
				// the harness clock, or a real timeout running out). The handler
				// goroutine is provably not between "took a message" and "calls
				// the handler", so afterwards NOTHING may be handled any more:
				// every queued message is looked at after the context ended.
				var r *c16Receiver
				if rapid.IntRange(0, 2).Draw(t, "realTimeout") == 0 && len(w.receivers) < 6 {
					r = addReceiver("timeout")
				} else {
					var live []*c16Receiver
					for _, c := range w.receivers {
						if !c.cancelled {
							live = append(live, c)
						}
					}
					if len(live) == 0 {
						break
					}
					r = rapid.SampledFrom(live).Draw(t, "busyWho")
				}
				gate := make(chan struct{})
				w.mu.Lock()
				r.gate = gate
				w.mu.Unlock()
				busySeq++
				freshDelivery(uint64(2000 + busySeq))
				parkedOrDone := verifkit.Eventually(c16Wait, func() bool {
					w.mu.Lock()
					defer w.mu.Unlock()
					return r.inGate || r.ctx.Err() != nil
				})
				if !parkedOrDone {
					close(gate)
					fail("VERIF-INCONCLUSIVE: receiver %d did not pick up a message within %v", r.id, c16Wait)
				}
				w.mu.Lock()
				strict := r.inGate
				w.mu.Unlock()
				queued := rapid.IntRange(3, 8).Draw(t, "queued")
				for i := 0; i < queued; i++ {
					busySeq++
					freshDelivery(uint64(2000 + busySeq))
				}
				r.end()
				<-r.ctx.Done()
				w.mu.Lock()
				r.cancelled = true
				r.boundary = map[c16Key]bool{}
				if !strict {
					// (a real timeout may run out before the first message was
					// picked up: then only the usual boundary rule applies)
					for k := range r.started {
						if r.seen[k] == 0 {
							r.boundary[k] = true
						}
					}
				}
				r.gate = nil
				w.mu.Unlock()
				close(gate)
				cancels++
				if strict {
					busyEnds++
				}
				// give a faulty receive loop the moment it needs to hand the
				// queued messages over (sensitivity only, no verdict depends on it)
				verifkit.Eventually(3*time.Millisecond, func() bool {
					w.mu.Lock()
					defer w.mu.Unlock()
					return len(r.bad) > 0 || len(r.inbox) == 0
				})
				hist = append(hist, fmt.Sprintf("endbusy%d:%s(%d queued,strict=%v)", r.id, r.kind, queued, strict))
			case "cancelmsg":
				// end the context of the oldest live message: its retransmissions stop
				if liveMsgs > 0 {
					msgCancels[len(msgCancels)-liveMsgs]()
					liveMsgs--
					hist = append(hist, "cancelmsg")
				}
			}
			check()
		}
		// sequence numbers: every send got its own, retransmissions repeat it
		w.mu.Lock()
		sendOf := map[uint64]uint64{}
		retransmissions := 0
		for id, seqs := range w.seqnos {
			if len(seqs) != 1 {
				w.mu.Unlock()
				fail("send %d was published with several sequence numbers: %v", id, seqs)
			}
			for s, n := range seqs {
				if other, ok := sendOf[s]; ok {
					w.mu.Unlock()
					fail("sends %d and %d share sequence number %d", other, id, s)
				}
				sendOf[s] = id
				retransmissions += n - 1
			}
		}
		w.mu.Unlock()
		dups := harnessDups + retransmissions
		st.Case(dups > 0 && cancels > 0, strings.Join(hist, " "),
			fmt.Sprintf("harness-duplicates:%v", harnessDups > 0), fmt.Sprintf("retransmissions-seen:%v", retransmissions > 0),
			fmt.Sprintf("cancellations:%v", cancels > 0), fmt.Sprintf("ended-while-busy:%v", busyEnds > 0),
			fmt.Sprintf("concurrent-sends:%v", concurrentSends > 0), fmt.Sprintf("receivers:%d", len(w.receivers)),
			fmt.Sprintf("sends>=3:%v", sends >= 3))
	})
}

// TestVerif_C16_Libp2pSeqnos hammers the channel's sequence counter the way
// concurrent senders do: g goroutines draw n numbers each, released together.
// All numbers drawn on one channel must be pairwise distinct.
func TestVerif_C16_Libp2pSeqnos(t *testing.T) {
	st := verifkit.New("C16", "TestVerif_C16_Libp2pSeqnos")
	defer st.Flush()
	rapid.Check(t, func(t *rapid.T) {
		ch := &channel{}
		g := rapid.IntRange(1, 16).Draw(t, "goroutines")
		n := rapid.IntRange(1, 400).Draw(t, "each")
		out := make([][]uint64, g)
		barrier := make(chan struct{})
		var wg sync.WaitGroup
		for i := 0; i < g; i++ {
			wg.Add(1)
			go func(i int) {
				defer wg.Done()
				mine := make([]uint64, 0, n)
				<-barrier
				for j := 0; j < n; j++ {
					mine = append(mine, ch.nextSeqno())
				}
				out[i] = mine
			}(i)
		}
		close(barrier)
		wg.Wait()
		seen := map[uint64]int{}
		for i, l := range out {
			for _, s := range l {
				if other, dup := seen[s]; dup {
					t.Fatalf("sequence number %d handed out twice (to senders %d and %d) with %d concurrent senders drawing %d numbers each", s, other, i, g, n)
				}
				seen[s] = i
			}
		}
		st.Case(g > 1, fmt.Sprintf("goroutines=%d each=%d", g, n), fmt.Sprintf("concurrent:%v", g > 1))
	})
}
