//go:build go1.23

package libp2p

import (
	"errors"
	"fmt"
	"net"
	"os"
	"strings"
	"sync"
	"testing"
	"time"

	libp2pnetwork "github.com/libp2p/go-libp2p/core/network"
	"github.com/libp2p/go-libp2p/core/peer"

	"github.com/keep-network/keep-core/internal/verifkit"
	"github.com/keep-network/keep-core/pkg/net/gen/pb"
	"pgregory.net/rapid"
)

// The transport level of the handshake: the real
// newAuthenticatedOutboundConnection (initiator) and
// newAuthenticatedInboundConnection (responder) talk over two net.Pipe pairs
// with a scripted relay in the middle that forwards, damages, re-signs or
// replays the signed envelopes of the three acts.

type c20tOp int

const (
	c20tPass          c20tOp = iota
	c20tFlipMessage          // one bit of the marshalled act
	c20tFlipSignature        // one bit of the signature
	c20tReplay               // the envelope of the same act recorded in an earlier honest session of the same two peers
	c20tResign               // act re-signed by a third peer under its own identity
	c20tSwapPeerID           // only the peer id replaced by the third peer's
	c20tOps
)

var c20tOpNames = []string{"pass", "flip-message-bit", "flip-signature-bit", "replay-earlier-session", "re-signed-by-third-peer", "peer-id-swapped"}

type c20tPlan struct {
	ops [4]c20tOp // index 1..3
	bit [4]int
}

type c20tRelayResult struct {
	recorded [4]*pb.HandshakeEnvelope // what the honest side sent, per act
	timedOut bool
}

func c20tIsTimeout(err error) bool {
	var ne net.Error
	return err != nil && (errors.Is(err, os.ErrDeadlineExceeded) || (errors.As(err, &ne) && ne.Timeout()))
}

func c20tFlip(b []byte, bit int) []byte {
	out := append([]byte{}, b...)
	if len(out) == 0 {
		return []byte{1}
	}
	bit %= len(out) * 8
	out[bit/8] ^= 1 << uint(bit%8)
	return out
}

// relay between the initiator-facing and the responder-facing connection.
func c20tRelay(toInitiator, toResponder net.Conn, plan c20tPlan, earlier *c20tRelayResult, third *testConnectionConfig) *c20tRelayResult {
	res := &c20tRelayResult{}
	iSide := &authenticatedConnection{Conn: toInitiator}
	iSide.initializePipe()
	rSide := &authenticatedConnection{Conn: toResponder}
	rSide.initializePipe()
	defer toInitiator.Close()
	defer toResponder.Close()
	for act := 1; act <= 3; act++ {
		from, to := iSide, rSide
		if act == 2 {
			from, to = rSide, iSide
		}
		env := &pb.HandshakeEnvelope{}
		if err := from.pipe.receive(env); err != nil {
			res.timedOut = res.timedOut || c20tIsTimeout(err)
			return res
		}
		res.recorded[act] = &pb.HandshakeEnvelope{
			Message:   append([]byte{}, env.Message...),
			Signature: append([]byte{}, env.Signature...),
			PeerID:    append([]byte{}, env.PeerID...),
		}
		switch plan.ops[act] {
		case c20tFlipMessage:
			env.Message = c20tFlip(env.Message, plan.bit[act])
		case c20tFlipSignature:
			env.Signature = c20tFlip(env.Signature, plan.bit[act])
		case c20tReplay:
			env = earlier.recorded[act]
		case c20tResign:
			sig, err := third.networkPrivateKey.Sign(env.Message)
			if err != nil {
				return res
			}
			env = &pb.HandshakeEnvelope{Message: env.Message, Signature: sig, PeerID: []byte(third.peerID)}
		case c20tSwapPeerID:
			env.PeerID = []byte(third.peerID)
		}
		if err := to.pipe.send(env); err != nil {
			res.timedOut = res.timedOut || c20tIsTimeout(err)
			return res
		}
	}
	return res
}

type c20tOutcome struct {
	outboundErr, inboundErr error
	relay                   *c20tRelayResult
}

func c20tSession(initiator, responder, third *testConnectionConfig, firewall *mockFirewall, pI, pR string, plan c20tPlan, earlier *c20tRelayResult) c20tOutcome {
	iConn, relayI := net.Pipe()
	relayR, rConn := net.Pipe()
	deadline := time.Now().Add(60 * time.Second)
	for _, c := range []net.Conn{iConn, relayI, relayR, rConn} {
		_ = c.SetDeadline(deadline)
	}
	var out c20tOutcome
	var wg sync.WaitGroup
	wg.Add(3)
	go func() {
		defer wg.Done()
		out.relay = c20tRelay(relayI, relayR, plan, earlier, third)
	}()
	go func() {
		defer wg.Done()
		_, out.outboundErr = newAuthenticatedOutboundConnection(iConn, libp2pnetwork.ConnectionState{}, initiator.peerID,
			initiator.networkPrivateKey, responder.peerID, firewall, pI)
	}()
	go func() {
		defer wg.Done()
		_, out.inboundErr = newAuthenticatedInboundConnection(rConn, libp2pnetwork.ConnectionState{}, responder.peerID,
			responder.networkPrivateKey, firewall, pR)
	}()
	wg.Wait()
	iConn.Close()
	rConn.Close()
	return out
}

var c20tProtocols = []string{"keep-beacon", "keep-ecdsa", "keep-beacon ", "keep-beaco", "", "keep-tbtc"}

func TestVerif_C20_Transport(t *testing.T) {
	st := verifkit.New("C20", "TestVerif_C20_Transport")
	defer st.Flush()
	initiator := createTestConnectionConfig(t)
	responder := createTestConnectionConfig(t)
	third := createTestConnectionConfig(t)
	firewall := newMockFirewall()
	for _, c := range []*testConnectionConfig{initiator, responder, third} {
		if err := firewall.updatePeer(c.networkPublicKey, true); err != nil {
			t.Fatal(err)
		}
	}
	var _ peer.ID = initiator.peerID

	rapid.Check(t, func(t *rapid.T) {
		pI := rapid.SampledFrom(c20tProtocols).Draw(t, "protocolInitiator")
		pR := pI
		if rapid.IntRange(0, 4).Draw(t, "protocolsDiffer") == 0 {
			pR = rapid.SampledFrom(c20tProtocols).Draw(t, "protocolResponder")
		}
		var plan c20tPlan
		touched := rapid.SampledFrom([][]int{{}, {1}, {2}, {2}, {3}, {3}, {1, 3}, {2, 3}, {1, 2}}).Draw(t, "actsTouched")
		for _, act := range touched {
			plan.ops[act] = c20tOp(rapid.IntRange(1, int(c20tOps)-1).Draw(t, fmt.Sprintf("act%dOp", act)))
			plan.bit[act] = rapid.IntRange(0, 4000).Draw(t, fmt.Sprintf("act%dBit", act))
		}
		inconclusive := func(why string) {
			fmt.Printf("VERIF-INCONCLUSIVE: %s\n", why)
			t.Fatalf("VERIF-INCONCLUSIVE: %s", why)
		}

		// an earlier honest session of the same two peers under the
		// initiator's protocol: replay material with valid signatures
		needEarlier := false
		for act := 1; act <= 3; act++ {
			needEarlier = needEarlier || plan.ops[act] == c20tReplay
		}
		var earlier *c20tRelayResult
		if needEarlier || rapid.IntRange(0, 9).Draw(t, "honestProbe") == 0 {
			h := c20tSession(initiator, responder, third, firewall, pI, pI, c20tPlan{}, nil)
			if h.relay.timedOut || c20tIsTimeout(h.outboundErr) || c20tIsTimeout(h.inboundErr) {
				inconclusive("honest session hit the 60 s pipe deadline")
			}
			if h.outboundErr != nil || h.inboundErr != nil {
				t.Fatalf("honest peers on the same protocol %q do not complete the handshake: initiator err=%v responder err=%v", pI, h.outboundErr, h.inboundErr)
			}
			earlier = h.relay
		}

		// model: which side completes
		initOK, respOK := true, true
		reason := "none"
		fail := func(both bool, why string) {
			if reason == "none" {
				reason = why
			}
			respOK = false
			if both {
				initOK = false
			}
		}
		// act 1 as seen by the responder
		switch plan.ops[1] {
		case c20tFlipMessage, c20tFlipSignature, c20tSwapPeerID:
			fail(true, "act1 signature check")
		case c20tPass, c20tReplay, c20tResign:
			if pI != pR {
				fail(true, "protocol mismatch")
			}
		}
		if initOK {
			// act 2 as seen by the initiator
			switch {
			case plan.ops[2] != c20tPass:
				// damaged / foreign signature, foreign identity, or an act 2 that
				// answers another nonce1
				fail(true, "act2 rejected by initiator")
			case plan.ops[1] == c20tReplay:
				// the responder answered the replayed nonce1 of the earlier session:
				// its challenge does not bind the initiator's fresh nonce1
				fail(true, "challenge bound to a replayed nonce1")
			}
		}
		if initOK && respOK {
			// act 3 as seen by the responder
			switch {
			case plan.ops[1] == c20tResign:
				// the responder pinned the third peer in act 1; act 3 comes from the initiator
				if plan.ops[3] != c20tResign {
					fail(false, "act3 not from the pinned peer")
				}
			case plan.ops[3] != c20tPass:
				fail(false, "act3 rejected by responder")
			}
		} else if initOK {
			respOK = false
		}
		// a third peer that re-signs act 1 AND act 3 is simply another initiator
		// talking to the responder while the real initiator is kept busy: both
		// complete, the responder with the third peer (its signatures are genuine).

		out := c20tSession(initiator, responder, third, firewall, pI, pR, plan, earlier)
		if out.relay.timedOut || c20tIsTimeout(out.outboundErr) || c20tIsTimeout(out.inboundErr) {
			inconclusive("session hit the 60 s pipe deadline")
		}
		var planDesc []string
		for act := 1; act <= 3; act++ {
			if plan.ops[act] != c20tPass {
				d := fmt.Sprintf("act%d:%s", act, c20tOpNames[plan.ops[act]])
				if plan.ops[act] == c20tFlipMessage || plan.ops[act] == c20tFlipSignature {
					d += fmt.Sprintf("@%d", plan.bit[act])
				}
				planDesc = append(planDesc, d)
			}
		}
		if (out.outboundErr == nil) != initOK || (out.inboundErr == nil) != respOK {
			t.Fatalf("protocols %q/%q plan %v: initiator completed=%v (err %v), responder completed=%v (err %v); expected initiator=%v responder=%v (%s)",
				pI, pR, planDesc, out.outboundErr == nil, out.outboundErr, out.inboundErr == nil, out.inboundErr, initOK, respOK, reason)
		}
		// statement level: the handshake (both sides) completes iff same protocol
		// when nothing was touched; any single touched act makes it fail
		both := out.outboundErr == nil && out.inboundErr == nil
		if len(touched) == 0 && both != (pI == pR) {
			t.Fatalf("untouched handshake between %q and %q: completed=%v", pI, pR, both)
		}
		if len(touched) == 1 && both {
			t.Fatalf("handshake completed on both sides although act %d was %s", touched[0], c20tOpNames[plan.ops[touched[0]]])
		}
		outcome := fmt.Sprintf("initiator:%v responder:%v", out.outboundErr == nil, out.inboundErr == nil)
		labels := []string{"outcome:" + strings.ReplaceAll(outcome, " ", ","), fmt.Sprintf("protocols-equal:%v", pI == pR), fmt.Sprintf("acts-touched:%d", len(touched)), "first-reject:" + reason}
		for _, d := range planDesc {
			if i := strings.Index(d, "@"); i > 0 {
				d = d[:i]
			}
			labels = append(labels, "op:"+d)
		}
		st.Case(len(touched) > 0 || pI != pR, fmt.Sprintf("pI=%q pR=%q plan=%v -> %s (%s)", pI, pR, planDesc, outcome, reason), labels...)
	})
}
