//go:build go1.23

package libp2p

import (
	"context"
	"encoding/binary"
	"fmt"
	"math/big"
	"runtime"
	"strings"
	"sync"
	"testing"
	"time"

	pubsub "github.com/libp2p/go-libp2p-pubsub"
	libp2pcrypto "github.com/libp2p/go-libp2p/core/crypto"
	"google.golang.org/protobuf/proto"
	"pgregory.net/rapid"

	"github.com/keep-network/keep-core/internal/verifkit"
	"github.com/keep-network/keep-core/pkg/net"
	"github.com/keep-network/keep-core/pkg/net/gen/pb"
	"github.com/keep-network/keep-core/pkg/net/retransmission"
)

// c17Scheduled says whether the n-th tick of a message's life (n >= 1) is a
// retransmission tick. Model written from the property text: standard =
// every tick; backoff = ticks 1, 3, 6, 11, 20, 37, ... = 2^(k-1)+k-1.
func c17Scheduled(backoff bool, n int) bool {
	if !backoff {
		return n >= 1
	}
	for k := 1; ; k++ {
		at := (1 << uint(k-1)) + k - 1
		if at == n {
			return true
		}
		if at > n {
			return false
		}
	}
}

type c17ChanPayload struct{ id uint64 }

func (p *c17ChanPayload) Type() string { return "c17/msg" }
func (p *c17ChanPayload) Marshal() ([]byte, error) {
	return binary.BigEndian.AppendUint64(nil, p.id), nil
}
func (p *c17ChanPayload) Unmarshal(b []byte) error {
	if len(b) != 8 {
		return fmt.Errorf("c17: bad payload")
	}
	p.id = binary.BigEndian.Uint64(b)
	return nil
}

// c17Recorder replaces the pubsub topic: it notes, per message, at which tick
// (number of ticks delivered to the channel's ticker so far) and with which
// sequence number the channel published it.
type c17Recorder struct {
	mu     sync.Mutex
	tick   int
	at     map[uint64][]int    // message id -> tick indexes of its publications
	seqnos map[uint64][]uint64 // message id -> sequence numbers used
}

func (r *c17Recorder) Publish(_ context.Context, data []byte, _ ...pubsub.PubOpt) error {
	var m pb.BroadcastNetworkMessage
	if err := proto.Unmarshal(data, &m); err != nil || len(m.Payload) != 8 {
		return fmt.Errorf("c17: published bytes do not decode: %v", err)
	}
	id := binary.BigEndian.Uint64(m.Payload)
	r.mu.Lock()
	r.at[id] = append(r.at[id], r.tick)
	r.seqnos[id] = append(r.seqnos[id], m.SequenceNumber)
	r.mu.Unlock()
	return nil
}

// c17Quiet waits for a proven quiet state of the channel's retransmission
// machinery, taken from a consistent goroutine snapshot: the Ticker's loop is
// parked waiting for the next tick (so the last tick has been handed to every
// handler) and no goroutine is inside the scheduler (neither registering a
// handler nor running a tick). Nothing can be published any more until the
// harness acts again.
func c17Quiet(ticker *retransmission.Ticker) bool {
	mine := fmt.Sprintf("(*Ticker).start(%p", ticker)
	return verifkit.Eventually(30*time.Second, func() bool {
		buf := make([]byte, 1<<20)
		for {
			n := runtime.Stack(buf, true)
			if n < len(buf) {
				buf = buf[:n]
				break
			}
			buf = make([]byte, 2*len(buf))
		}
		parked := false
		for _, g := range strings.Split(string(buf), "\n\n") {
			if strings.Contains(g, mine) {
				header, _, _ := strings.Cut(g, "\n")
				parked = strings.Contains(header, "[chan receive")
				continue
			}
			if strings.Contains(g, "retransmission.ScheduleRetransmissions") {
				return false
			}
		}
		return parked
	})
}

type c17ChanMsg struct {
	id        uint64
	strategy  string // "default" (no argument), "standard", "backoff"
	cancel    context.CancelFunc
	bornAt    int // ticks delivered before it was sent
	liveTicks int // ticks delivered while its context was live
	cancelled bool
}

// TestVerif_C17_Libp2pChannelSchedules checks the schedules where messages
// actually get them: the real libp2p channel.Send. Several messages of both
// strategies (and of the default) with overlapping lifetimes are sent on ONE
// channel whose ticker is driven by the harness; contexts end at drawn points.
// After the send and after every tick (each in a proven quiet state) every
// message must have been published exactly at the ticks its own schedule
// says - the original publication when it was sent, then every tick
// (standard/default) resp. its own ticks 1, 3, 6, 11, 20, 37 (backoff) counted
// from its own sending, for as long as its context lives - always with its
// own sequence number. Bursts of ticks (no waiting in between) are checked by
// count when the burst is over.
func TestVerif_C17_Libp2pChannelSchedules(t *testing.T) {
	st := verifkit.New("C17", "TestVerif_C17_Libp2pChannelSchedules")
	defer st.Flush()
	raw := make([]byte, 32)
	big.NewInt(17).FillBytes(raw)
	priv, err := libp2pcrypto.UnmarshalSecp256k1PrivateKey(raw)
	if err != nil {
		t.Fatal(err)
	}
	ident, err := createIdentity(priv)
	if err != nil {
		t.Fatal(err)
	}
	maxTicks := 45
	if verifkit.Thorough() {
		maxTicks = 80
	}
	rapid.Check(t, func(t *rapid.T) {
		ticks := make(chan uint64)
		ticker := retransmission.NewTicker(ticks)
		rec := &c17Recorder{at: map[uint64][]int{}, seqnos: map[uint64][]uint64{}}
		ch := &channel{
			name:                 "c17",
			clientIdentity:       ident,
			unmarshalersByType:   map[string]func() net.TaggedUnmarshaler{},
			publisher:            rec,
			retransmissionTicker: ticker,
		}
		var msgs []*c17ChanMsg
		var plan []string
		delivered := 0
		fail := func(format string, args ...any) {
			for _, m := range msgs {
				m.cancel()
			}
			t.Fatalf("%s\nplan: %s", fmt.Sprintf(format, args...), strings.Join(plan, " "))
		}
		quiet := func() {
			if !c17Quiet(ticker) {
				fail("VERIF-INCONCLUSIVE: retransmission machinery did not come to rest within 30s")
			}
		}
		defer func() {
			for _, m := range msgs {
				m.cancel()
			}
			// a last tick orders the Ticker's unlocked cleanup behind the last
			// registration (see notes/C17.md), then the source is closed
			if c17Quiet(ticker) {
				ticks <- 0
				close(ticks)
			}
		}()
		// exact: every tick so far was followed by a quiet state, so the tick
		// index of every publication is known; otherwise only the counts are
		check := func(exact bool) {
			rec.mu.Lock()
			defer rec.mu.Unlock()
			for _, m := range msgs {
				want := []int{m.bornAt}
				for n := 1; n <= m.liveTicks; n++ {
					if c17Scheduled(m.strategy == "backoff", n) {
						want = append(want, m.bornAt+n)
					}
				}
				got := rec.at[m.id]
				bad := len(got) != len(want)
				if !bad && exact {
					for i := range want {
						if got[i] != want[i] {
							bad = true
						}
					}
				}
				if bad {
					var others []string
					for _, o := range msgs {
						if o != m {
							others = append(others, fmt.Sprintf("msg%d:%s born@%d live=%d", o.id, o.strategy, o.bornAt, o.liveTicks))
						}
					}
					fail("message %d (%s strategy, sent after tick %d, %d ticks while its context was live): published at ticks %v, its schedule says %v (exact tick attribution: %v; other messages on the channel: %v)",
						m.id, m.strategy, m.bornAt, m.liveTicks, got, want, exact, others)
				}
				for _, s := range rec.seqnos[m.id] {
					if s != rec.seqnos[m.id][0] {
						fail("message %d was published with sequence numbers %v", m.id, rec.seqnos[m.id])
					}
				}
			}
		}
		exact := true
		tick := func(n int, burst bool) {
			for i := 0; i < n; i++ {
				delivered++
				rec.mu.Lock()
				rec.tick = delivered
				rec.mu.Unlock()
				for _, m := range msgs {
					if !m.cancelled {
						m.liveTicks++
					}
				}
				ticks <- uint64(delivered)
				if !burst {
					quiet()
					check(exact)
				}
			}
			if burst {
				exact = false // attribution inside the burst is not known
				quiet()
				check(false)
			}
		}
		send := func() {
			m := &c17ChanMsg{id: uint64(len(msgs) + 1), bornAt: delivered,
				strategy: rapid.SampledFrom([]string{"backoff", "backoff", "backoff", "standard", "default"}).Draw(t, "strategy")}
			ctx, cancel := context.WithCancel(context.Background())
			m.cancel = cancel
			var err error
			switch m.strategy {
			case "backoff":
				err = ch.Send(ctx, &c17ChanPayload{id: m.id}, net.BackoffRetransmissionStrategy)
			case "standard":
				err = ch.Send(ctx, &c17ChanPayload{id: m.id}, net.StandardRetransmissionStrategy)
			default:
				err = ch.Send(ctx, &c17ChanPayload{id: m.id})
			}
			if err != nil {
				fail("Send: %v", err)
			}
			msgs = append(msgs, m)
			plan = append(plan, fmt.Sprintf("send%d:%s", m.id, m.strategy))
			quiet() // the asynchronous registration has been made
			check(exact)
		}

		send()
		nOps := rapid.IntRange(2, 16).Draw(t, "ops")
		for op := 0; op < nOps && delivered < maxTicks; op++ {
			switch rapid.SampledFrom([]string{"ticks", "send", "ticks", "ticks", "send", "cancel", "burst"}).Draw(t, "op") {
			case "send":
				if len(msgs) < 6 {
					send()
				}
			case "ticks":
				n := rapid.IntRange(1, 9).Draw(t, "ticks")
				tick(n, false)
				plan = append(plan, fmt.Sprintf("t×%d", n))
			case "burst":
				n := rapid.IntRange(2, 12).Draw(t, "burst")
				tick(n, true)
				plan = append(plan, fmt.Sprintf("burst%d", n))
			case "cancel":
				m := msgs[rapid.IntRange(0, len(msgs)-1).Draw(t, "who")]
				if !m.cancelled {
					m.cancel()
					m.cancelled = true
					plan = append(plan, fmt.Sprintf("cancel%d", m.id))
					tick(rapid.IntRange(1, 3).Draw(t, "afterCancel"), false)
				}
			}
		}
		backoffs, overlap := 0, 0
		for _, m := range msgs {
			if m.strategy == "backoff" {
				backoffs++
				if m.liveTicks > 0 {
					overlap++
				}
			}
		}
		tk := "0-10"
		switch {
		case delivered >= 37:
			tk = "37+"
		case delivered >= 20:
			tk = "20-36"
		case delivered > 10:
			tk = "11-19"
		}
		st.Case(overlap >= 2, strings.Join(plan, " "),
			fmt.Sprintf("backoff-messages:%d", min(backoffs, 3)), fmt.Sprintf("messages:%d", len(msgs)), "ticks:"+tk,
			fmt.Sprintf("exact-attribution-throughout:%v", exact))
	})
}
