//go:build go1.23

package libp2p

import (
	"context"
	"encoding/binary"
	"fmt"
	"sort"
	"strings"
	"sync"
	"sync/atomic"
	"testing"
	"time"

	"github.com/ipfs/go-log"
	"github.com/libp2p/go-libp2p"
	pubsub "github.com/libp2p/go-libp2p-pubsub"
	"google.golang.org/protobuf/proto"
	"pgregory.net/rapid"

	"github.com/keep-network/keep-core/internal/verifkit"
	"github.com/keep-network/keep-core/pkg/net"
	"github.com/keep-network/keep-core/pkg/net/gen/pb"
	"github.com/keep-network/keep-core/pkg/net/retransmission"
)

var c16ProviderCases uint64

// c16Recorder sits between a channel object and its pubsub topic and notes the
// sequence number of everything the channel publishes.
type c16Recorder struct {
	inner publisher
	mu    *sync.Mutex
	seqs  map[uint64][]uint64 // send id -> sequence numbers it was published with
}

func (r *c16Recorder) Publish(ctx context.Context, data []byte, opts ...pubsub.PubOpt) error {
	var m pb.BroadcastNetworkMessage
	if err := proto.Unmarshal(data, &m); err == nil && len(m.Payload) == 8 {
		id := binary.BigEndian.Uint64(m.Payload)
		r.mu.Lock()
		r.seqs[id] = append(r.seqs[id], m.SequenceNumber)
		r.mu.Unlock()
	}
	return r.inner.Publish(ctx, data, opts...)
}

// TestVerif_C16_Libp2pProviderHandles: "each message sent on a channel gets a
// fresh sequence number" - for the channel as the callers know it, i.e. the
// name they pass to the provider. A real channel manager (real pubsub on a
// libp2p host without listen addresses) behind the real
// provider.BroadcastChannelFor is asked for the same, not yet existing channel
// by 1..8 goroutines released together, and again later; every handle that was
// handed out is then used for sending (concurrently or one after the other)
// and for drawing further numbers. All numbers used by the one sender on the
// one channel name must be pairwise distinct, whatever handle they went
// through.
func TestVerif_C16_Libp2pProviderHandles(t *testing.T) {
	st := verifkit.New("C16", "TestVerif_C16_Libp2pProviderHandles")
	defer st.Flush()
	_ = log.SetLogLevel("keep-libp2p", "fatal") // own messages loop back; no unmarshaler is registered
	self := c16MakeNode(9)
	rapid.Check(t, func(t *rapid.T) {
		ctx, cancel := context.WithCancel(context.Background())
		defer cancel()
		host, err := libp2p.New(libp2p.Identity(self.ident.privKey), libp2p.NoListenAddrs)
		if err != nil {
			t.Fatalf("VERIF-INCONCLUSIVE: libp2p host: %v", err)
		}
		defer host.Close()
		ticks := make(chan uint64)
		defer func() {
			// message contexts are cancelled by now (deferred later, run
			// earlier); see the channel test for why a last tick precedes close
			if verifkit.Eventually(5*time.Second, func() bool { return c16RetransmissionGoroutines() == 0 }) {
				ticks <- 0
				close(ticks)
			}
		}()
		cm, err := newChannelManager(ctx, self.ident, host, retransmission.NewTicker(ticks))
		if err != nil {
			t.Fatalf("VERIF-INCONCLUSIVE: channel manager: %v", err)
		}
		p := &provider{broadcastChannelManager: cm}
		name := fmt.Sprintf("c16-handles-%d", atomic.AddUint64(&c16ProviderCases, 1))

		// who asks for the channel, and when
		first := rapid.IntRange(1, 8).Draw(t, "firstRequests")
		later := rapid.IntRange(0, 3).Draw(t, "laterRequests")
		handles := make([]net.BroadcastChannel, first)
		errs := make([]error, first)
		barrier := make(chan struct{})
		var wg sync.WaitGroup
		for i := 0; i < first; i++ {
			wg.Add(1)
			go func(i int) {
				defer wg.Done()
				<-barrier
				handles[i], errs[i] = p.BroadcastChannelFor(name)
			}(i)
		}
		close(barrier)
		wg.Wait()
		for i := 0; i < later; i++ {
			h, err := p.BroadcastChannelFor(name)
			handles, errs = append(handles, h), append(errs, err)
		}
		for _, err := range errs {
			if err != nil {
				t.Fatalf("BroadcastChannelFor(%s): %v", name, err)
			}
		}
		// note what each underlying channel object publishes
		var mu sync.Mutex
		seqs := map[uint64][]uint64{}
		objects := map[*channel]bool{}
		for _, h := range handles {
			c := h.(*channel)
			if !objects[c] {
				objects[c] = true
				c.publisherMutex.Lock()
				c.publisher = &c16Recorder{inner: c.publisher, mu: &mu, seqs: seqs}
				c.publisherMutex.Unlock()
			}
		}
		// every handle sends; then every handle draws some more numbers
		type send struct {
			handle int
			id     uint64
		}
		var sends []send
		for i := range handles {
			for j, n := 0, rapid.IntRange(1, 3).Draw(t, "sends"); j < n; j++ {
				sends = append(sends, send{i, uint64(len(sends) + 1)})
			}
		}
		sends = rapid.Permutation(sends).Draw(t, "order")
		concurrent := rapid.Bool().Draw(t, "concurrentSends")
		sendErrs := make([]error, len(sends))
		msgCtx, msgCancel := context.WithCancel(ctx)
		defer msgCancel()
		barrier = make(chan struct{})
		for i, s := range sends {
			do := func(i int, s send) {
				sendErrs[i] = handles[s.handle].Send(msgCtx, &c16Payload{tpe: c16Type, id: s.id})
			}
			if concurrent {
				wg.Add(1)
				go func(i int, s send) {
					defer wg.Done()
					<-barrier
					do(i, s)
				}(i, s)
			} else {
				do(i, s)
			}
		}
		close(barrier)
		wg.Wait()
		for _, err := range sendErrs {
			if err != nil {
				t.Fatalf("Send on %s: %v", name, err)
			}
		}
		used := map[uint64]string{} // sequence number -> who used it
		mu.Lock()
		var ids []uint64
		for id := range seqs {
			ids = append(ids, id)
		}
		sort.Slice(ids, func(i, j int) bool { return ids[i] < ids[j] })
		for _, id := range ids {
			l := seqs[id]
			for _, s := range l {
				if s != l[0] {
					mu.Unlock()
					t.Fatalf("message %d was published with sequence numbers %v", id, l)
				}
			}
			if other, dup := used[l[0]]; dup {
				mu.Unlock()
				t.Fatalf("channel %q: %s and message %d were both sent by the one sender with sequence number %d (%d handles were handed out for the name, %d requested concurrently before the channel existed, backed by %d channel objects)",
					name, other, id, l[0], len(handles), first, len(objects))
			}
			used[l[0]] = fmt.Sprintf("message %d", id)
		}
		if len(ids) != len(sends) {
			mu.Unlock()
			t.Fatalf("%d messages sent, %d seen at the topic", len(sends), len(ids))
		}
		mu.Unlock()
		extra := rapid.IntRange(1, 20).Draw(t, "extraNumbers")
		drawn := make([][]uint64, len(handles))
		barrier = make(chan struct{})
		for i, h := range handles {
			wg.Add(1)
			go func(i int, c *channel) {
				defer wg.Done()
				<-barrier
				for j := 0; j < extra; j++ {
					drawn[i] = append(drawn[i], c.nextSeqno())
				}
			}(i, h.(*channel))
		}
		close(barrier)
		wg.Wait()
		for i, l := range drawn {
			for _, s := range l {
				if other, dup := used[s]; dup {
					t.Fatalf("channel %q: sequence number %d handed out to handle %d was already used by %s (%d handles, %d channel objects)", name, s, i, other, len(handles), len(objects))
				}
				used[s] = fmt.Sprintf("handle %d", i)
			}
		}
		var order []string
		for _, s := range sends {
			order = append(order, fmt.Sprintf("h%d", s.handle))
		}
		st.Case(first >= 2, fmt.Sprintf("first=%d later=%d concurrentSends=%v sends=%s extra=%d", first, later, concurrent, strings.Join(order, ","), extra),
			fmt.Sprintf("concurrent-first-requests:%v", first >= 2), fmt.Sprintf("later-requests:%v", later > 0), fmt.Sprintf("concurrent-sends:%v", concurrent))
	})
}
