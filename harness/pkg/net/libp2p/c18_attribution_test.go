//go:build go1.23

package libp2p

import (
	"bytes"
	"context"
	"crypto/rand"
	"fmt"
	"math/big"
	"runtime"
	"sort"
	"strings"
	"sync"
	"testing"
	"time"

	"github.com/btcsuite/btcd/btcec/v2"
	"github.com/ipfs/go-log"
	pubsub "github.com/libp2p/go-libp2p-pubsub"
	pubsubpb "github.com/libp2p/go-libp2p-pubsub/pb"
	libp2pcrypto "github.com/libp2p/go-libp2p/core/crypto"
	"github.com/libp2p/go-libp2p/core/peer"
	"google.golang.org/protobuf/encoding/protowire"
	"pgregory.net/rapid"

	"github.com/keep-network/keep-core/internal/verifkit"
	"github.com/keep-network/keep-core/pkg/net"
	"github.com/keep-network/keep-core/pkg/net/gen/pb"
)

// ---------------------------------------------------------------- peers

type c18Peer struct {
	name   string
	kind   string // secp256k1 | ed25519 | ecdsa | rsa
	priv   libp2pcrypto.PrivKey
	pub    libp2pcrypto.PubKey
	id     peer.ID
	keyPB  []byte // libp2p encoding of the public key
	inner  []byte // canonical inner identity: Identity{pub_key = keyPB}, encoded by hand
	opKey  []byte // secp256k1 only: 65-byte uncompressed operator key, computed from the scalar with btcec
	scalar int64
}

var (
	c18PoolOnce sync.Once
	c18Secp     []*c18Peer
	c18Others   []*c18Peer
)

func c18EncodeIdentity(keyPB []byte) []byte {
	b := protowire.AppendTag(nil, 1, protowire.BytesType)
	return protowire.AppendBytes(b, keyPB)
}

func c18MakePeer(name, kind string, priv libp2pcrypto.PrivKey) *c18Peer {
	pub := priv.GetPublic()
	id, err := peer.IDFromPublicKey(pub)
	if err != nil {
		panic(err)
	}
	keyPB, err := libp2pcrypto.MarshalPublicKey(pub)
	if err != nil {
		panic(err)
	}
	return &c18Peer{name: name, kind: kind, priv: priv, pub: pub, id: id, keyPB: keyPB, inner: c18EncodeIdentity(keyPB)}
}

// c18Pool builds the identities once per process: 64 secp256k1 operator keys
// from the scalars 1..64 (deterministic) and one key of every other libp2p
// key type (their bytes are random; no oracle depends on them).
func c18Pool() ([]*c18Peer, []*c18Peer) {
	c18PoolOnce.Do(func() {
		for k := int64(1); k <= 64; k++ {
			raw := make([]byte, 32)
			big.NewInt(k).FillBytes(raw)
			priv, err := libp2pcrypto.UnmarshalSecp256k1PrivateKey(raw)
			if err != nil {
				panic(err)
			}
			p := c18MakePeer(fmt.Sprintf("s%d", k), "secp256k1", priv)
			x, y := btcec.S256().ScalarBaseMult(raw)
			p.opKey = make([]byte, 65)
			p.opKey[0] = 4
			x.FillBytes(p.opKey[1:33])
			y.FillBytes(p.opKey[33:65])
			p.scalar = k
			c18Secp = append(c18Secp, p)
		}
		ed, _, err := libp2pcrypto.GenerateEd25519Key(bytes.NewReader(bytes.Repeat([]byte{7}, 64)))
		if err != nil {
			panic(err)
		}
		c18Others = append(c18Others, c18MakePeer("ed", "ed25519", ed))
		ec, _, err := libp2pcrypto.GenerateECDSAKeyPair(rand.Reader)
		if err != nil {
			panic(err)
		}
		c18Others = append(c18Others, c18MakePeer("ec", "ecdsa", ec))
		rs, _, err := libp2pcrypto.GenerateRSAKeyPair(2048, rand.Reader)
		if err != nil {
			panic(err)
		}
		c18Others = append(c18Others, c18MakePeer("rsa", "rsa", rs))
	})
	return c18Secp, c18Others
}

// ---------------------------------------------------------------- payload

const (
	c18TypeA = "c18/alpha"
	c18TypeB = "c18/beta"
)

// c18Payload is the protocol message of the harness. Its decoder rejects an
// empty payload and one starting with 0xFF.
type c18Payload struct {
	tpe  string
	data []byte
}

func (p *c18Payload) Type() string             { return p.tpe }
func (p *c18Payload) Marshal() ([]byte, error) { return p.data, nil }
func (p *c18Payload) Unmarshal(b []byte) error {
	if len(b) == 0 || b[0] == 0xFF {
		return fmt.Errorf("c18: undecodable payload")
	}
	p.data = append([]byte{}, b...)
	return nil
}

// ---------------------------------------------------------------- channel

type c18Rig struct {
	ch    *channel
	boxes []chan net.Message
}

// c18NewRig builds a receiving channel the way the channel manager does
// (only the fields the receive path touches) with n registered receivers. The
// receivers' inboxes are read by the harness itself: what arrives there is
// exactly what the channel passed to deliver.
func c18NewRig(n int) *c18Rig {
	r := c18NewBareRig(n)
	r.register(c18TypeA)
	r.register(c18TypeB)
	return r
}

// register installs the unmarshaler of a message type, as a protocol does
// when it starts on a channel that may already be carrying its traffic.
func (r *c18Rig) register(tpe string) {
	r.ch.SetUnmarshaler(func() net.TaggedUnmarshaler { return &c18Payload{tpe: tpe} })
}

// c18NewBareRig: a receiving channel with n receivers and no message type
// registered yet.
func c18NewBareRig(n int) *c18Rig {
	r := &c18Rig{ch: &channel{
		name:               "c18",
		unmarshalersByType: map[string]func() net.TaggedUnmarshaler{},
	}}
	for i := 0; i < n; i++ {
		box := make(chan net.Message, 64)
		r.boxes = append(r.boxes, box)
		r.ch.messageHandlers = append(r.ch.messageHandlers, &messageHandler{ctx: context.Background(), channel: box})
	}
	return r
}

func (r *c18Rig) drain() [][]net.Message {
	out := make([][]net.Message, len(r.boxes))
	for i, box := range r.boxes {
		for {
			select {
			case m := <-box:
				out[i] = append(out[i], m)
				continue
			default:
			}
			break
		}
	}
	return out
}

// ---------------------------------------------------------------- envelopes

type c18Envelope struct {
	class   string // what was built (label)
	outer   peer.ID
	outerP  *c18Peer // nil when the outer id is garbage
	sender  []byte
	payload []byte
	tpe     []byte
	seqno   uint64
	viaWire bool // through processPubsubMessage with hand-encoded bytes
	// expectation
	deliver  bool // must be delivered (canonical valid envelope)
	mayDeliv bool // may be delivered (exotic but matching); the attribution checks apply if it is
	badIdent bool // mismatching or malformed identity (non-trivial rule)
}

func c18EncodeEnvelope(e *c18Envelope) []byte {
	var b []byte
	b = protowire.AppendTag(b, 1, protowire.BytesType)
	b = protowire.AppendBytes(b, e.sender)
	b = protowire.AppendTag(b, 2, protowire.BytesType)
	b = protowire.AppendBytes(b, e.payload)
	b = protowire.AppendTag(b, 3, protowire.BytesType)
	b = protowire.AppendBytes(b, e.tpe)
	b = protowire.AppendTag(b, 4, protowire.VarintType)
	b = protowire.AppendVarint(b, e.seqno)
	return b
}

// c18KeyPB hand-encodes libp2p's PublicKey{Type, Data}.
func c18KeyPB(keyType uint64, data []byte) []byte {
	b := protowire.AppendTag(nil, 1, protowire.VarintType)
	b = protowire.AppendVarint(b, keyType)
	b = protowire.AppendTag(b, 2, protowire.BytesType)
	return protowire.AppendBytes(b, data)
}

func c18GenEnvelope(t *rapid.T, secp, others []*c18Peer) *c18Envelope {
	e := &c18Envelope{}
	author := rapid.SampledFrom(secp).Draw(t, "author")
	e.outer, e.outerP = author.id, author
	e.sender = author.inner
	e.payload = rapid.SliceOfN(rapid.ByteRange(0, 0xFE), 1, 12).Draw(t, "payload")
	e.tpe = []byte(rapid.SampledFrom([]string{c18TypeA, c18TypeB}).Draw(t, "type"))
	e.seqno = rapid.Uint64().Draw(t, "seqno")
	e.viaWire = rapid.Bool().Draw(t, "viaWire")

	class := rapid.SampledFrom([]string{
		"valid", "valid", "valid", "valid-real-sender",
		"inner-other-secp", "inner-near-secp", "inner-near-suffix-secp", "inner-other-kind", "match-not-secp",
		"inner-empty", "inner-truncated", "inner-random", "inner-garbage-key", "inner-wrong-keytype", "inner-extra-field",
		"outer-garbage", "outer-other",
		"type-unknown", "payload-bad",
	}).Draw(t, "class")
	e.class = class
	switch class {
	case "valid":
		e.deliver = true
	case "valid-real-sender":
		// envelope produced by the real sending side of that author
		sending := &channel{clientIdentity: &identity{id: author.id, pubKey: author.pub, privKey: author.priv}}
		msg, err := sending.messageProto(&c18Payload{tpe: string(e.tpe), data: e.payload})
		if err != nil {
			t.Fatalf("sender side could not build the envelope: %v", err)
		}
		e.sender, e.payload, e.tpe = msg.Sender, msg.Payload, msg.Type
		e.deliver = true
	case "inner-other-secp":
		other := rapid.SampledFrom(secp).Filter(func(p *c18Peer) bool { return p != author }).Draw(t, "claimed")
		e.sender, e.badIdent = other.inner, true
	case "inner-near-secp":
		// another well-formed key whose encoding shares as long a prefix as
		// the pool offers with the author's (partial comparisons)
		best, bestLen := (*c18Peer)(nil), -1
		for _, p := range secp {
			if p == author {
				continue
			}
			n := 0
			for n < len(p.inner) && p.inner[n] == author.inner[n] {
				n++
			}
			if n > bestLen {
				best, bestLen = p, n
			}
		}
		e.sender, e.badIdent = best.inner, true
	case "inner-near-suffix-secp":
		// same, longest common suffix (of the peer ids, which end in the key)
		best, bestLen := (*c18Peer)(nil), -1
		for _, p := range secp {
			if p == author {
				continue
			}
			n := 0
			for n < len(p.id) && p.id[len(p.id)-1-n] == author.id[len(author.id)-1-n] {
				n++
			}
			if n > bestLen {
				best, bestLen = p, n
			}
		}
		e.sender, e.badIdent = best.inner, true
	case "inner-other-kind":
		e.sender, e.badIdent = rapid.SampledFrom(others).Draw(t, "claimedOther").inner, true
	case "match-not-secp":
		// a peer with a non-operator key type, honestly naming itself
		p := rapid.SampledFrom(others).Draw(t, "nonSecpAuthor")
		e.outer, e.outerP, e.sender = p.id, p, p.inner
	case "inner-empty":
		e.sender, e.badIdent = nil, true
	case "inner-truncated":
		e.sender = author.inner[:rapid.IntRange(1, len(author.inner)-1).Draw(t, "cut")]
		e.badIdent = true
	case "inner-random":
		e.sender = rapid.SliceOfN(rapid.Byte(), 1, 48).Draw(t, "randomIdentity")
		e.badIdent = true
		if bytes.Equal(e.sender, author.inner) {
			e.sender = append(e.sender, 0xFF)
		}
	case "inner-garbage-key":
		e.sender = c18EncodeIdentity(rapid.SliceOfN(rapid.Byte(), 0, 40).Draw(t, "garbageKey"))
		e.badIdent = true
		if bytes.Equal(e.sender, author.inner) {
			e.sender = c18EncodeIdentity([]byte{1, 2, 3})
		}
	case "inner-wrong-keytype":
		// the author's 33 key bytes under a different (or unknown) key type
		raw, _ := author.pub.Raw()
		e.sender = c18EncodeIdentity(c18KeyPB(rapid.SampledFrom([]uint64{0, 1, 3, 9}).Draw(t, "keyType"), raw))
		e.badIdent = true
	case "inner-extra-field":
		// the author's identity followed by a field the schema does not know
		extra := protowire.AppendTag(nil, protowire.Number(rapid.IntRange(2, 30).Draw(t, "extraField")), protowire.VarintType)
		extra = protowire.AppendVarint(extra, rapid.Uint64().Draw(t, "extraValue"))
		e.sender = append(append([]byte{}, author.inner...), extra...)
		e.mayDeliv = true
	case "outer-garbage":
		e.outer, e.outerP = peer.ID(rapid.SliceOfN(rapid.Byte(), 0, 40).Draw(t, "outerBytes")), nil
		if e.outer == author.id {
			e.outer = ""
		}
		e.badIdent = true
	case "outer-other":
		// valid envelope of `author` published by somebody else
		pub := rapid.SampledFrom(secp).Filter(func(p *c18Peer) bool { return p != author }).Draw(t, "publisher")
		e.outer, e.outerP = pub.id, pub
		e.badIdent = true
	case "type-unknown":
		e.tpe = []byte(rapid.SampledFrom([]string{"", "c18/alph", "c18/alpha ", "C18/ALPHA", "c18/gamma", "\x00"}).Draw(t, "unknownType"))
	case "payload-bad":
		if rapid.Bool().Draw(t, "emptyPayload") {
			e.payload = nil
		} else {
			e.payload = append([]byte{0xFF}, e.payload...)
		}
	}
	return e
}

func (r *c18Rig) process(e *c18Envelope) (err error, panicked any) {
	defer func() {
		if p := recover(); p != nil {
			panicked = p
		}
	}()
	if e.viaWire {
		from := []byte(e.outer)
		return r.ch.processPubsubMessage(&pubsub.Message{Message: &pubsubpb.Message{From: from, Data: c18EncodeEnvelope(e)}}), nil
	}
	return r.ch.processContainerMessage(e.outer, &pb.BroadcastNetworkMessage{
		Sender: e.sender, Payload: e.payload, Type: e.tpe, SequenceNumber: e.seqno,
	}), nil
}

// c18CheckDelivered: whatever was delivered must be attributed to the
// authenticated publisher and carry the envelope's content.
func c18CheckDelivered(e *c18Envelope, m net.Message) string {
	if e.outerP == nil {
		return "delivered although the publisher id is not even a known peer"
	}
	if e.outerP.kind != "secp256k1" {
		return fmt.Sprintf("delivered a message of a %s peer, which has no operator key", e.outerP.kind)
	}
	if got := m.TransportSenderID().String(); got != e.outer.String() {
		return fmt.Sprintf("delivered sender id %s, authenticated publisher is %s", got, e.outer)
	}
	if !bytes.Equal(m.SenderPublicKey(), e.outerP.opKey) {
		return fmt.Sprintf("delivered sender key %x, authenticated publisher %s has key %x", m.SenderPublicKey(), e.outerP.name, e.outerP.opKey)
	}
	if m.Type() != string(e.tpe) || (m.Type() != c18TypeA && m.Type() != c18TypeB) {
		return fmt.Sprintf("delivered type %q for envelope type %q", m.Type(), e.tpe)
	}
	p, ok := m.Payload().(*c18Payload)
	if !ok || !bytes.Equal(p.data, e.payload) || p.tpe != string(e.tpe) {
		return fmt.Sprintf("delivered payload %+v for envelope payload %x of type %q", m.Payload(), e.payload, e.tpe)
	}
	if len(e.payload) == 0 || e.payload[0] == 0xFF {
		return "delivered a message whose payload the decoder rejects"
	}
	if m.Seqno() != e.seqno {
		return fmt.Sprintf("delivered seqno %d for envelope seqno %d", m.Seqno(), e.seqno)
	}
	return ""
}

// TestVerif_C18_Attribution feeds a receiving channel a generated sequence of
// envelopes - valid ones interleaved with every kind of bad one - and checks
// after each what reached the receivers.
func TestVerif_C18_Attribution(t *testing.T) {
	st := verifkit.New("C18", "TestVerif_C18_Attribution")
	defer st.Flush()
	secp, others := c18Pool()
	rapid.Check(t, func(t *rapid.T) {
		rig := c18NewBareRig(rapid.IntRange(1, 3).Draw(t, "receivers"))
		n := rapid.IntRange(1, 10).Draw(t, "envelopes")
		// each message type is registered either from the start or late, before
		// a drawn envelope - after envelopes of that type may already have
		// arrived and been dropped (a protocol starting on a busy channel)
		registerAt := map[string]int{}
		registered := map[string]bool{}
		for _, tpe := range []string{c18TypeA, c18TypeB} {
			if rapid.IntRange(0, 2).Draw(t, "late:"+tpe) == 0 {
				registerAt[tpe] = rapid.IntRange(1, n).Draw(t, "registerAt:"+tpe) // n = never during the sequence
			}
		}
		var hist []string
		labels := map[string]bool{}
		bad, validAfterBad, lateAfterDrop := false, false, false
		droppedUnregistered := map[string]bool{}
		for i := 0; i < n; i++ {
			for _, tpe := range []string{c18TypeA, c18TypeB} {
				if !registered[tpe] && registerAt[tpe] == i {
					rig.register(tpe)
					registered[tpe] = true
					if i > 0 {
						hist = append(hist, "register("+tpe+")")
					}
				}
			}
			e := c18GenEnvelope(t, secp, others)
			if !registered[string(e.tpe)] && (e.deliver || e.mayDeliv) {
				// its type has no unmarshaler (yet): it has to be dropped
				e.deliver, e.mayDeliv = false, false
				e.class += "-type-not-yet-registered"
				droppedUnregistered[string(e.tpe)] = true
			} else if e.deliver && droppedUnregistered[string(e.tpe)] {
				lateAfterDrop = true
			}
			err, panicked := rig.process(e)
			got := rig.drain()
			who := "?"
			if e.outerP != nil {
				who = e.outerP.name
			}
			hist = append(hist, fmt.Sprintf("%s@%s%s", e.class, who, map[bool]string{true: "/wire", false: ""}[e.viaWire]))
			where := fmt.Sprintf("envelope %d of [%s]", i, strings.Join(hist, " "))
			if panicked != nil {
				t.Fatalf("%s: panic: %v", where, panicked)
			}
			for ri, msgs := range got {
				switch {
				case len(msgs) > 1:
					t.Fatalf("%s: receiver %d got %d messages for one envelope", where, ri, len(msgs))
				case len(msgs) == 1:
					if !e.deliver && !e.mayDeliv {
						t.Fatalf("%s: delivered to receiver %d, must be dropped (sender %x, publisher %s, type %q, payload %x); error returned: %v",
							where, ri, e.sender, e.outer, e.tpe, e.payload, err)
					}
					if why := c18CheckDelivered(e, msgs[0]); why != "" {
						t.Fatalf("%s: receiver %d: %s", where, ri, why)
					}
				default:
					if e.deliver {
						t.Fatalf("%s: valid envelope of %s not delivered to receiver %d (error %v) - an earlier bad envelope must not affect it", where, who, ri, err)
					}
				}
			}
			delivered := len(got[0]) == 1
			if delivered && err != nil {
				t.Fatalf("%s: delivered but reported error %v", where, err)
			}
			if !delivered && err == nil {
				labels["silent-drop"] = true
			}
			labels["class:"+e.class] = true
			if e.badIdent {
				bad = true
			} else if e.deliver && bad {
				validAfterBad = true
			}
		}
		var ls []string
		for l := range labels {
			ls = append(ls, l)
		}
		ls = append(ls, fmt.Sprintf("bad-identity:%v", bad), fmt.Sprintf("valid-after-bad-identity:%v", validAfterBad),
			fmt.Sprintf("valid-after-drop-of-its-unregistered-type:%v", lateAfterDrop))
		st.Case(bad, strings.Join(hist, " "), ls...)
	})
}

// TestVerif_C18_IdentityDecode addresses identity.Unmarshal directly: every
// well-formed identity of every key type decodes to the peer id of its key
// (and survives the real Marshal), every damaged one yields an error or an
// identity different from the original - never a panic.
func TestVerif_C18_IdentityDecode(t *testing.T) {
	st := verifkit.New("C18", "TestVerif_C18_IdentityDecode")
	defer st.Flush()
	secp, others := c18Pool()
	all := append(append([]*c18Peer{}, secp...), others...)
	rapid.Check(t, func(t *rapid.T) {
		p := rapid.SampledFrom(all).Draw(t, "peer")
		if rapid.Bool().Draw(t, "otherKind") {
			p = rapid.SampledFrom(others).Draw(t, "otherPeer")
		}
		mode := rapid.SampledFrom([]string{"canonical", "real-marshal", "truncated", "bitflip", "random"}).Draw(t, "mode")
		input := p.inner
		switch mode {
		case "real-marshal":
			b, err := (&identity{id: p.id, pubKey: p.pub}).Marshal()
			if err != nil {
				t.Fatalf("Marshal of %s identity: %v", p.kind, err)
			}
			input = b
		case "truncated":
			input = p.inner[:rapid.IntRange(0, len(p.inner)-1).Draw(t, "cut")]
		case "bitflip":
			input = append([]byte{}, p.inner...)
			pos := rapid.IntRange(0, len(input)-1).Draw(t, "pos")
			input[pos] ^= byte(1 << uint(rapid.IntRange(0, 7).Draw(t, "bit")))
		case "random":
			input = rapid.SliceOfN(rapid.Byte(), 0, 64).Draw(t, "bytes")
		}
		var got identity
		var err error
		func() {
			defer func() {
				if r := recover(); r != nil {
					t.Fatalf("identity.Unmarshal(%x) panicked: %v", input, r)
				}
			}()
			err = got.Unmarshal(input)
		}()
		switch mode {
		case "canonical", "real-marshal":
			if err != nil {
				t.Fatalf("%s identity of %s does not decode: %v", mode, p.name, err)
			}
			if got.id != p.id || got.pubKey == nil || !got.pubKey.Equals(p.pub) {
				t.Fatalf("%s identity of %s decodes to id %s, expected %s", mode, p.name, got.id, p.id)
			}
		default:
			if err == nil {
				// a decoded identity always has the id of the key it carries
				want, idErr := peer.IDFromPublicKey(got.pubKey)
				if idErr != nil || want != got.id {
					t.Fatalf("damaged identity %x decoded to id %s which is not the id of its key (%s, %v)", input, got.id, want, idErr)
				}
				if mode == "truncated" && got.id == p.id {
					t.Fatalf("truncated identity %x still decodes to the original peer", input)
				}
			}
		}
		st.Case(mode != "canonical" && mode != "real-marshal", fmt.Sprintf("%s %s %x", mode, p.name, input),
			"mode:"+mode, "kind:"+p.kind, fmt.Sprintf("decoded:%v", err == nil))
	})
}

// FuzzVerif_C18_Envelope (thorough tier): coverage-guided bytes for the whole
// envelope and the publisher id. Whatever is delivered must be attributed to
// the authenticated publisher; nothing may panic.
func FuzzVerif_C18_Envelope(f *testing.F) {
	secp, others := c18Pool()
	for i, sel := range []int{0, 5, 63, len(secp)} {
		p := append(append([]*c18Peer{}, secp...), others...)[sel]
		e := &c18Envelope{sender: p.inner, payload: []byte{byte(i), 2, 3}, tpe: []byte(c18TypeA), seqno: uint64(i)}
		f.Add(uint8(sel), []byte(nil), c18EncodeEnvelope(e))   // honest publisher
		f.Add(uint8(sel+1), []byte(nil), c18EncodeEnvelope(e)) // somebody else publishes it
		f.Add(uint8(255), []byte(p.id), c18EncodeEnvelope(e))  // publisher id given as raw bytes
		e.tpe = []byte("c18/unknown")
		f.Add(uint8(sel), []byte(nil), c18EncodeEnvelope(e))
	}
	f.Add(uint8(0), []byte{}, []byte{})
	f.Fuzz(func(t *testing.T, sel uint8, rawOuter []byte, data []byte) {
		rig := c18NewRig(1)
		var outer peer.ID
		var outerP *c18Peer
		if int(sel) < len(secp)+len(others) {
			if int(sel) < len(secp) {
				outerP = secp[sel]
			} else {
				outerP = others[int(sel)-len(secp)]
			}
			outer = outerP.id
		} else {
			outer = peer.ID(rawOuter)
			for _, p := range append(append([]*c18Peer{}, secp...), others...) {
				if p.id == outer {
					outerP = p
				}
			}
		}
		_ = rig.ch.processPubsubMessage(&pubsub.Message{Message: &pubsubpb.Message{From: []byte(outer), Data: data}})
		got := rig.drain()[0]
		if len(got) > 1 {
			t.Fatalf("%d messages delivered for one envelope", len(got))
		}
		if len(got) == 1 {
			m := got[0]
			if outerP == nil || outerP.kind != "secp256k1" {
				t.Fatalf("delivered a message published by %q which is not an operator peer", outer)
			}
			if m.TransportSenderID().String() != outer.String() || !bytes.Equal(m.SenderPublicKey(), outerP.opKey) {
				t.Fatalf("delivered message attributed to %s / %x, publisher is %s / %x", m.TransportSenderID(), m.SenderPublicKey(), outer, outerP.opKey)
			}
			// the envelope must really name that publisher: decode it by hand
			var sender []byte
			for b := data; len(b) > 0; {
				num, typ, n := protowire.ConsumeTag(b)
				if n < 0 {
					break
				}
				b = b[n:]
				if typ == protowire.BytesType {
					v, n := protowire.ConsumeBytes(b)
					if n < 0 {
						break
					}
					if num == 1 {
						sender = v
					}
					b = b[n:]
					continue
				}
				n = protowire.ConsumeFieldValue(num, typ, b)
				if n < 0 {
					break
				}
				b = b[n:]
			}
			if !bytes.Contains(sender, outerP.keyPB[len(outerP.keyPB)-33:]) {
				t.Fatalf("delivered message of %s but the envelope's sender field %x does not carry its key", outerP.name, sender)
			}
			if p, ok := m.Payload().(*c18Payload); !ok || len(p.data) == 0 || p.data[0] == 0xFF || (m.Type() != c18TypeA && m.Type() != c18TypeB) {
				t.Fatalf("delivered type %q payload %+v", m.Type(), m.Payload())
			}
		}
	})
}

// c18WorkerGoroutines inspects the goroutines of the process (a consistent
// snapshot): alive = message workers of the given channel that exist, active =
// those of them that are not parked in their select (they may hold an
// envelope, wherever they are).
func c18WorkerGoroutines(ch *channel) (alive, active int) {
	mine := fmt.Sprintf("(*channel).incomingMessageWorker(%p", ch)
	buf := make([]byte, 1<<20)
	for {
		n := runtime.Stack(buf, true)
		if n < len(buf) {
			buf = buf[:n]
			break
		}
		buf = make([]byte, 2*len(buf))
	}
	for _, g := range strings.Split(string(buf), "\n\n") {
		// only the workers of this channel (the receiver pointer is printed
		// as the first argument of the frame)
		worker := strings.Contains(g, mine)
		if worker {
			alive++
		}
		header, _, _ := strings.Cut(g, "\n")
		parked := strings.Contains(header, "[select") || strings.Contains(header, "[chan receive")
		if worker && !parked {
			active++
		}
	}
	return
}

// TestVerif_C18_WorkerPath feeds envelopes the way the pubsub subscription
// loop does: into the channel's incoming queue, served by the real
// incomingMessageWorker goroutines (messageWorkers of them, as handleMessages
// starts). The stream holds MORE bad envelopes than there are workers
// (unknown types, undecodable payloads, malformed and mismatching identities)
// interleaved with valid ones, and at least one valid envelope after the last
// bad one. Dropping a bad envelope must not affect the others: every valid
// envelope is delivered, correctly attributed, and nothing else is.
//
// The verdict is taken only in a final state that is proven, not timed: either
// the queue is empty and every message worker is parked in its select, or no
// message worker is left at all (then nobody can ever serve the queue). A
// bounded wait that ends in neither state is VERIF-INCONCLUSIVE.
func TestVerif_C18_WorkerPath(t *testing.T) {
	st := verifkit.New("C18", "TestVerif_C18_WorkerPath")
	defer st.Flush()
	secp, others := c18Pool()
	// the workers log every rejected envelope; keep the captured output small
	_ = log.SetLogLevel("keep-libp2p", "fatal")
	rapid.Check(t, func(t *rapid.T) {
		rig := c18NewRig(rapid.IntRange(1, 2).Draw(t, "receivers"))
		rig.ch.incomingMessageQueue = make(chan *pubsub.Message, incomingMessageThrottle)
		ctx, cancel := context.WithCancel(context.Background())
		defer cancel()
		for i := 0; i < messageWorkers; i++ {
			go rig.ch.incomingMessageWorker(ctx)
		}
		// all workers must be seen inside incomingMessageWorker before the
		// stream starts: only then does "none is left" later mean they ended
		if !verifkit.Eventually(30*time.Second, func() bool {
			alive, _ := c18WorkerGoroutines(rig.ch)
			return alive == messageWorkers
		}) {
			alive, _ := c18WorkerGoroutines(rig.ch)
			t.Fatalf("VERIF-INCONCLUSIVE: %d of %d message workers seen running within 30s", alive, messageWorkers)
		}
		nBad := messageWorkers + rapid.IntRange(1, 2*messageWorkers).Draw(t, "extraBad")
		nGood := rapid.IntRange(1, 12).Draw(t, "good")
		// positions of the good envelopes among the bad ones; the last good one
		// always comes after every bad one
		goodAfter := make([]int, nGood) // number of bad envelopes before it
		for i := range goodAfter {
			goodAfter[i] = rapid.IntRange(0, nBad).Draw(t, "goodAfter")
		}
		goodAfter[nGood-1] = nBad
		sort.Ints(goodAfter)
		var stream []*c18Envelope
		classes := map[string]bool{}
		gi := 0
		for b := 0; b <= nBad; b++ {
			for gi < nGood && goodAfter[gi] == b {
				e := c18GenEnvelope(t, secp, others)
				for !e.deliver {
					e = c18GenEnvelope(t, secp, others)
				}
				stream = append(stream, e)
				gi++
			}
			if b < nBad {
				e := c18GenEnvelope(t, secp, others)
				for e.deliver || e.mayDeliv {
					e = c18GenEnvelope(t, secp, others)
				}
				classes["class:"+e.class] = true
				stream = append(stream, e)
			}
		}
		// unique sequence numbers identify the envelopes at the receivers
		for i, e := range stream {
			e.seqno = uint64(i + 1)
			rig.ch.incomingMessageQueue <- &pubsub.Message{Message: &pubsubpb.Message{From: []byte(e.outer), Data: c18EncodeEnvelope(e)}}
		}
		// wait for a proven final state
		deadline := time.Now().Add(30 * time.Second)
		final := ""
		for i := 0; final == ""; i++ {
			if len(rig.ch.incomingMessageQueue) == 0 {
				// every worker parked in its select while the queue is empty:
				// nobody holds an envelope, everything has been dealt with
				if _, active := c18WorkerGoroutines(rig.ch); active == 0 && len(rig.ch.incomingMessageQueue) == 0 {
					final = "queue served"
					break
				}
			} else if i > 20 {
				if alive, _ := c18WorkerGoroutines(rig.ch); alive == 0 {
					final = fmt.Sprintf("no message worker left, %d envelopes still queued", len(rig.ch.incomingMessageQueue))
					break
				}
			}
			if time.Now().After(deadline) {
				alive, busy := c18WorkerGoroutines(rig.ch) // busy = not parked
				t.Fatalf("VERIF-INCONCLUSIVE: incoming queue not served within 30s (queued %d, workers alive %d, busy %d)", len(rig.ch.incomingMessageQueue), alive, busy)
			}
			if i < 50 {
				runtime.Gosched()
			} else {
				time.Sleep(200 * time.Microsecond)
			}
		}
		got := rig.drain()
		for ri, msgs := range got {
			bySeq := map[uint64]int{}
			for _, m := range msgs {
				bySeq[m.Seqno()]++
				if m.Seqno() == 0 || m.Seqno() > uint64(len(stream)) {
					t.Fatalf("receiver %d got a message with unknown seqno %d", ri, m.Seqno())
				}
				e := stream[m.Seqno()-1]
				if !e.deliver {
					t.Fatalf("receiver %d: envelope %d of class %s was delivered, must be dropped", ri, m.Seqno(), e.class)
				}
				if why := c18CheckDelivered(e, m); why != "" {
					t.Fatalf("receiver %d: envelope %d: %s", ri, m.Seqno(), why)
				}
			}
			missing := 0
			first := 0
			for i, e := range stream {
				if e.deliver && bySeq[uint64(i+1)] != 1 {
					if missing == 0 {
						first = i + 1
					}
					missing++
				}
			}
			if missing > 0 {
				t.Fatalf("receiver %d: %d of %d valid envelopes were not delivered exactly once (first: envelope %d of %d, %d copies) although they went through the same queue as %d rejected envelopes; %d message workers configured; final state: %s",
					ri, missing, nGood, first, len(stream), bySeq[uint64(first)], nBad, messageWorkers, final)
			}
		}
		var ls []string
		for c := range classes {
			ls = append(ls, c)
		}
		ls = append(ls, fmt.Sprintf("bad>=2x-workers:%v", nBad >= 2*messageWorkers))
		st.Case(true, fmt.Sprintf("workers=%d bad=%d good=%d goodAfter=%v", messageWorkers, nBad, nGood, goodAfter), ls...)
	})
}
