//go:build go1.23

package retransmission

import (
	"context"
	"errors"
	"fmt"
	"runtime"
	"strings"
	"sync"
	"sync/atomic"
	"testing"
	"time"

	"github.com/keep-network/keep-core/internal/testutils"
	"github.com/keep-network/keep-core/internal/verifkit"
	"github.com/keep-network/keep-core/pkg/net"
	"pgregory.net/rapid"
)

// Finding key of D5 (BackoffStrategy.Tick mutates its counters without
// synchronisation). While the finding is listed as open the harness never
// lets two ticks of a backoff message be in flight together.
const c17KeyD5 = "D5-backoff-tick-race"

// c17Expected is the model of the two schedules, written from the property
// text: standard = every tick; backoff = ticks 1, 3, 6, 11, 20, 37, 70, ...
// i.e. the k-th retransmission happens at tick 2^(k-1)+k-1 (gaps 2, 3, 5, 9,
// 17, ... = delays 1, 2, 4, 8, 16 doubling). It returns how many
// retransmissions are due after n ticks.
func c17Expected(backoff bool, n int) int {
	if !backoff {
		return n
	}
	k := 0
	for (1<<uint(k))+k <= n { // tick of retransmission k+1
		k++
	}
	return k
}

type c17State struct {
	// ticks the Ticker loop has started to hand out, counted by a sentinel
	// handler of the harness. Deliberately an atomic of its own: the per-tick
	// goroutines never touch it, so it orders nothing between them.
	seen int64

	mu   sync.Mutex
	msgs []*c17Msg
	bad  []string // violations observed inside callbacks
}

// c17Msg is one message whose retransmissions are scheduled on the ticker.
// All fields below mu are guarded by state.mu.
type c17Msg struct {
	s       *c17State
	id      int
	backoff bool
	inner   Strategy
	cancel  context.CancelFunc
	errMod  int // every errMod-th retransmission reports an error (0 = never)

	registered, cancelled bool
	racing                bool // being scheduled while ticks are dispatched: the ticks it sees are not known yet
	liveTicks             int  // ticks sent while registered and not cancelled
	returned              int  // Strategy.Tick invocations that returned
	entered, exited       int  // retransmit callback entries / exits
	maxInside             int
	gate                  chan struct{} // non-nil: callbacks block until it is closed
}

// Tick makes c17Msg the Strategy handed to ScheduleRetransmissions: it runs
// the real strategy and reports completion afterwards. Nothing is
// synchronised BEFORE the real Tick on purpose: a lock here would order the
// per-tick goroutines for the race detector and hide what production does.
func (m *c17Msg) Tick(fn RetransmitFn) error {
	err := m.inner.Tick(fn)
	m.s.mu.Lock()
	m.returned++
	m.s.mu.Unlock()
	return err
}

func (m *c17Msg) retransmit() error {
	s := m.s
	s.mu.Lock()
	m.entered++
	n := m.entered
	if inside := m.entered - m.exited; inside > m.maxInside {
		m.maxInside = inside
	}
	// a retransmission can never come before the tick it belongs to was sent
	if due := c17Expected(m.backoff, m.liveTicks); n > due && !m.racing {
		s.bad = append(s.bad, fmt.Sprintf("message %d (%s): retransmission #%d happened when only %d ticks were delivered to it (%d due)",
			m.id, m.kind(), n, m.liveTicks, due))
	}
	gate := m.gate
	s.mu.Unlock()
	if gate != nil {
		<-gate
	}
	s.mu.Lock()
	m.exited++
	s.mu.Unlock()
	if m.errMod > 0 && n%m.errMod == 0 {
		return errors.New("publish failed")
	}
	return nil
}

func (m *c17Msg) kind() string {
	if m.backoff {
		return "backoff"
	}
	return "standard"
}

// c17Workers inspects the goroutines of the process and counts those doing
// retransmission work (a frame of this package, other than a Ticker loop or
// the harness itself): unparked = may still call into the strategy or the
// callback, parked = blocked on a gate of the harness.
func c17Workers() (unparked, parked int) {
	buf := make([]byte, 1<<20)
	for {
		n := runtime.Stack(buf, true)
		if n < len(buf) {
			buf = buf[:n]
			break
		}
		buf = make([]byte, 2*len(buf))
	}
	for _, g := range strings.Split(string(buf), "\n\n") {
		if !strings.Contains(g, "/pkg/net/retransmission.") ||
			strings.Contains(g, "(*Ticker).start(") ||
			strings.Contains(g, "TestVerif_C17") {
			continue
		}
		header, _, _ := strings.Cut(g, "\n")
		if strings.Contains(g, "(*c17Msg).retransmit(") && strings.Contains(header, "chan receive") {
			parked++
		} else {
			unparked++
		}
	}
	return
}

// quiesce waits until every Tick invocation owed to every message has either
// returned or is parked inside its (gated) callback. It returns "" when that
// state is reached, a violation text when a message got MORE invocations than
// ticks - or FEWER and provably nobody is left who could still deliver them -
// and inconclusive=true on timeout. With final=true it additionally waits
// until no retransmission goroutine is left at all before looking, so late
// invocations cannot slip past the last look.
func (s *c17State) quiesce(ticker *Ticker, ticks chan uint64, sent int, final bool) (violation string, inconclusive bool) {
	deadline := time.Now().Add(30 * time.Second)
	// look reads the bookkeeping: settled = every message got exactly the
	// invocations it is owed; over = some message got more; under names a
	// message that got fewer so far.
	look := func() (settled bool, over, under string) {
		s.mu.Lock()
		defer s.mu.Unlock()
		settled = true
		for _, m := range s.msgs {
			if m.racing {
				continue // judged once its registration has settled
			}
			got := m.returned + (m.entered - m.exited)
			if got > m.liveTicks && over == "" {
				over = fmt.Sprintf("message %d (%s): strategy ticked %d times although only %d ticks were delivered while its context was live",
					m.id, m.kind(), got, m.liveTicks)
			}
			if got < m.liveTicks && under == "" {
				under = fmt.Sprintf("message %d (%s): strategy ticked only %d times although %d ticks were delivered while its context was live, and no retransmission goroutine is left that could still do it",
					m.id, m.kind(), got, m.liveTicks)
			}
			if got != m.liveTicks {
				settled = false
			}
		}
		if len(s.bad) > 0 && over == "" {
			over = s.bad[0]
		}
		return
	}
	for i := 0; ; i++ {
		// the Ticker loop must have taken up the last tick sent: the send on
		// the unbuffered channel only says it was received. From then on the
		// loop holds the handlers lock until every handler was visited, so a
		// registration made after quiescence cannot see that tick.
		seenAll := atomic.LoadInt64(&s.seen) == int64(sent)
		settled, over, _ := look()
		if over != "" {
			return over, false
		}
		if seenAll && settled && !final {
			return "", false
		}
		if seenAll && ((final && settled) || (i >= 200 && i%200 == 0)) {
			// Is anybody left who could still tick? Taking the handlers lock
			// proves the loop finished handing out the last tick (every
			// per-tick goroutine has been created); the goroutine dump then
			// shows whether any of them is still around. If none is, the
			// bookkeeping read AFTER the dump is final.
			ticker.handlersMutex.Lock()
			ticker.handlersMutex.Unlock() //nolint:staticcheck
			if unparked, _ := c17Workers(); unparked == 0 {
				settled, over, under := look()
				switch {
				case over != "":
					return over, false
				case settled:
					return "", false
				default:
					return under, false
				}
			}
		}
		if !seenAll && i >= 200 && i%200 == 0 && len(ticks) == 0 && c17TickerParked(ticker) {
			// The tick source is empty and the Ticker waits for the next tick:
			// every tick written has been taken and its dispatch is over. The
			// sentinel handler (never cancelled) counts the dispatches.
			if seen := atomic.LoadInt64(&s.seen); seen != int64(sent) {
				return fmt.Sprintf("%d ticks were written to the tick source (channel capacity %d) but the ticker dispatched %d: \"for each item read from the channel, new tick is triggered\"",
					sent, cap(ticks), seen), false
			}
		}
		if i < 200 {
			runtime.Gosched()
			continue
		}
		if time.Now().After(deadline) {
			return "", true
		}
		time.Sleep(100 * time.Microsecond)
	}
}

// c17TickerParked reports whether the loop goroutine of this Ticker is parked
// waiting for the next tick (consistent goroutine snapshot; the Ticker is
// recognised by the receiver pointer printed in its start frame).
func c17TickerParked(ticker *Ticker) bool {
	buf := make([]byte, 1<<20)
	for {
		n := runtime.Stack(buf, true)
		if n < len(buf) {
			buf = buf[:n]
			break
		}
		buf = make([]byte, 2*len(buf))
	}
	mine := fmt.Sprintf("(*Ticker).start(%p", ticker)
	for _, g := range strings.Split(string(buf), "\n\n") {
		if strings.Contains(g, mine) {
			header, _, _ := strings.Cut(g, "\n")
			return strings.Contains(header, "[chan receive")
		}
	}
	return false
}

// check compares the retransmission counts with the model; call only in a
// quiescent state.
func (s *c17State) check() string {
	s.mu.Lock()
	defer s.mu.Unlock()
	for _, m := range s.msgs {
		if m.racing {
			continue
		}
		if want := c17Expected(m.backoff, m.liveTicks); m.entered != want {
			return fmt.Sprintf("message %d (%s): %d retransmissions after %d ticks, schedule says %d",
				m.id, m.kind(), m.entered, m.liveTicks, want)
		}
	}
	return ""
}

// c17WaitRegistered waits until the registration goroutine started by
// ScheduleRetransmissions has done its work. It is called in quiescent states
// only (every per-tick goroutine has returned or is parked at a gate), so "no
// unparked retransmission goroutine is left" means exactly that. No field of
// the Ticker is consulted.
func c17WaitRegistered() bool {
	return verifkit.Eventually(30*time.Second, func() bool {
		unparked, _ := c17Workers()
		return unparked == 0
	})
}

// TestVerif_C17_Schedule: 1..3 messages share one Ticker fed from a
// harness-owned channel. A generated plan registers them, sends ticks one by
// one (each fully processed before the next) or in bursts (several ticks in
// flight, their callbacks overlapping), parks callbacks behind a gate,
// releases them and cancels contexts. In every quiescent state the number of
// retransmissions of every message must equal the schedule of the property;
// no retransmission may come early; none after the context ended.
func TestVerif_C17_Schedule(t *testing.T) {
	st := verifkit.New("C17", "TestVerif_C17_Schedule")
	defer st.Flush()
	excludeD5 := verifkit.Known(c17KeyD5)
	maxTicks := 150
	if verifkit.Thorough() {
		maxTicks = 420
	}
	overlappedBackoff := false
	_ = &overlappedBackoff // D5 is repaired; the finding key is only used for exclusion while listed open
	rapid.Check(t, func(t *rapid.T) {
		// the tick source: unbuffered like the time ticker, or buffered like the
		// chain block counters' watch channels (ticks can pile up in it)
		tickCap := rapid.SampledFrom([]int{0, 0, 1, 4, 64}).Draw(t, "tickSourceCapacity")
		ticks := make(chan uint64, tickCap)
		ticker := NewTicker(ticks)
		s := &c17State{}
		ticker.onTick(context.Background(), func() { atomic.AddInt64(&s.seen, 1) })
		nMsgs := rapid.IntRange(1, 4).Draw(t, "messages")
		for i := 0; i < nMsgs; i++ {
			m := &c17Msg{s: s, id: i, backoff: rapid.IntRange(0, 2).Draw(t, "strategy") > 0}
			// the production factory picks the strategy
			if m.backoff {
				m.inner = WithStrategy(net.BackoffRetransmissionStrategy)
			} else {
				m.inner = WithStrategy(net.StandardRetransmissionStrategy)
			}
			if rapid.IntRange(0, 3).Draw(t, "failing") == 0 {
				m.errMod = rapid.IntRange(1, 3).Draw(t, "errMod")
			}
			s.msgs = append(s.msgs, m)
		}
		var plan []string
		sent := 0
		burstOnBackoff, sawCancelThenTicks := false, false
		racingRegs := 0
		maxBurst := 0

		fail := func(format string, args ...any) {
			// unblock everything before failing so no goroutine is left parked
			s.mu.Lock()
			for _, m := range s.msgs {
				if m.gate != nil {
					close(m.gate)
					m.gate = nil
				}
				if m.cancel != nil {
					m.cancel()
				}
			}
			s.mu.Unlock()
			close(ticks)
			t.Fatalf("%s\nplan: %s", fmt.Sprintf(format, args...), strings.Join(plan, " "))
		}
		final := false
		settle := func() {
			v, inconclusive := s.quiesce(ticker, ticks, sent, final)
			if inconclusive {
				s.mu.Lock()
				var state []string
				for _, m := range s.msgs {
					state = append(state, fmt.Sprintf("sent=%d seen=%d", sent, atomic.LoadInt64(&s.seen)))
					state = append(state, fmt.Sprintf("msg%d(%s) live=%d returned=%d entered=%d exited=%d", m.id, m.kind(), m.liveTicks, m.returned, m.entered, m.exited))
				}
				s.mu.Unlock()
				fail("VERIF-INCONCLUSIVE: tick goroutines did not settle within 30s: %v", state)
			}
			if v != "" {
				fail("%s", v)
			}
			if v := s.check(); v != "" {
				fail("%s", v)
			}
		}
		register := func(m *c17Msg) {
			ctx, cancel := context.WithCancel(context.Background())
			m.cancel = cancel
			ScheduleRetransmissions(ctx, &testutils.MockLogger{}, ticker, m.retransmit, m)
			// registration is asynchronous in production; ticks racing with it
			// are a boundary the property does not speak about
			if !c17WaitRegistered() {
				fail("VERIF-INCONCLUSIVE: handler registration not observed")
			}
			s.mu.Lock()
			m.registered = true
			s.mu.Unlock()
			plan = append(plan, fmt.Sprintf("reg%d:%s", m.id, m.kind()))
		}
		sendBurst := func(n int) {
			// n ticks back to back: nothing waits for the callbacks in between
			for i := 0; i < n; i++ {
				s.mu.Lock()
				for _, m := range s.msgs {
					if m.registered && !m.cancelled {
						m.liveTicks++
					}
				}
				s.mu.Unlock()
				sent++
				ticks <- uint64(sent)
			}
		}
		liveBackoff := func() bool {
			for _, m := range s.msgs {
				if m.backoff && m.registered && !m.cancelled {
					return true
				}
			}
			return false
		}

		register(s.msgs[0])
		if rapid.Bool().Draw(t, "holdFirst") {
			s.mu.Lock()
			s.msgs[0].gate = make(chan struct{})
			s.mu.Unlock()
			plan = append(plan, "hold0")
		}
		nOps := rapid.IntRange(1, 14).Draw(t, "ops")
		for op := 0; op < nOps && sent < maxTicks; op++ {
			switch rapid.SampledFrom([]string{"step", "step", "burst", "burst", "burst", "bigburst", "run", "register", "register-during-ticks", "cancel", "hold", "release", "register-during-ticks"}).Draw(t, "op") {
			case "step":
				sendBurst(1)
				plan = append(plan, "t")
				settle()
			case "burst", "bigburst":
				n := rapid.IntRange(2, 8).Draw(t, "burst")
				if rapid.IntRange(0, 3).Draw(t, "big") == 0 {
					n = rapid.IntRange(9, 70).Draw(t, "bigBurst")
				}
				if excludeD5 && liveBackoff() {
					st.Excluded(c17KeyD5)
					for i := 0; i < n; i++ {
						sendBurst(1)
						settle()
					}
					plan = append(plan, fmt.Sprintf("seq%d", n))
					break
				}
				if liveBackoff() {
					burstOnBackoff = true
					overlappedBackoff = true
				}
				if n > maxBurst {
					maxBurst = n
				}
				sendBurst(n)
				plan = append(plan, fmt.Sprintf("burst%d", n))
				settle()
			case "run":
				// many ticks, each fully processed before the next: exact
				// attribution of every retransmission to its tick
				n := rapid.IntRange(3, 40).Draw(t, "run")
				for i := 0; i < n; i++ {
					sendBurst(1)
					settle()
				}
				plan = append(plan, fmt.Sprintf("seq%d", n))
			case "register":
				for _, m := range s.msgs {
					if !m.registered {
						register(m)
						break
					}
				}
			case "register-during-ticks":
				// A message is scheduled while a burst of ticks is being
				// dispatched. Which of those ticks it sees is not defined
				// (registration is asynchronous) - but once both the burst and
				// the registration are over it IS scheduled: the ticks it saw
				// are read off (0..burst), and from then on it must follow its
				// schedule like every other live message.
				var m *c17Msg
				for _, c := range s.msgs {
					if !c.registered {
						m = c
						break
					}
				}
				if m == nil {
					break
				}
				n := rapid.IntRange(4, 40).Draw(t, "racingBurst")
				if liveBackoff() {
					burstOnBackoff = true
					overlappedBackoff = true
				}
				s.mu.Lock()
				m.racing = true
				s.mu.Unlock()
				ctx, cancel := context.WithCancel(context.Background())
				m.cancel = cancel
				var wg sync.WaitGroup
				wg.Add(1)
				go func() {
					defer wg.Done()
					sendBurst(n)
				}()
				for i, k := 0, rapid.IntRange(0, 30).Draw(t, "racingDelay"); i < k; i++ {
					runtime.Gosched()
				}
				ScheduleRetransmissions(ctx, &testutils.MockLogger{}, ticker, m.retransmit, m)
				wg.Wait()
				settle() // every tick dispatched, the other messages settled
				ticker.handlersMutex.Lock()
				ticker.handlersMutex.Unlock() //nolint:staticcheck
				if !c17WaitRegistered() {
					fail("VERIF-INCONCLUSIVE: racing registration did not settle")
				}
				s.mu.Lock()
				saw := m.returned + (m.entered - m.exited)
				m.liveTicks, m.racing, m.registered = saw, false, true
				s.mu.Unlock()
				plan = append(plan, fmt.Sprintf("reg%d:%s-during-burst%d(saw %d)", m.id, m.kind(), n, saw))
				racingRegs++
				if saw > n {
					fail("message %d scheduled during a burst of %d ticks was ticked %d times", m.id, n, saw)
				}
				settle()
				// it is scheduled now: a tick must reach it
				sendBurst(1)
				plan = append(plan, "t")
				settle()
			case "cancel":
				m := s.msgs[rapid.IntRange(0, nMsgs-1).Draw(t, "cancelWho")]
				if m.registered && !m.cancelled {
					m.cancel()
					s.mu.Lock()
					m.cancelled = true
					s.mu.Unlock()
					plan = append(plan, fmt.Sprintf("cancel%d", m.id))
					// ticks right after the cancellation must not reach it
					n := rapid.IntRange(1, 5).Draw(t, "afterCancel")
					if excludeD5 && liveBackoff() {
						for i := 0; i < n; i++ {
							sendBurst(1)
							settle()
						}
					} else {
						if n > 1 && liveBackoff() {
							burstOnBackoff = true
							overlappedBackoff = true
						}
						sendBurst(n)
					}
					plan = append(plan, fmt.Sprintf("burst%d", n))
					sawCancelThenTicks = true
					settle()
				}
			case "hold":
				m := s.msgs[rapid.IntRange(0, nMsgs-1).Draw(t, "holdWho")]
				s.mu.Lock()
				if m.gate == nil {
					m.gate = make(chan struct{})
					plan = append(plan, fmt.Sprintf("hold%d", m.id))
				}
				s.mu.Unlock()
			case "release":
				m := s.msgs[rapid.IntRange(0, nMsgs-1).Draw(t, "releaseWho")]
				s.mu.Lock()
				if m.gate != nil {
					close(m.gate)
					m.gate = nil
					plan = append(plan, fmt.Sprintf("release%d", m.id))
				}
				s.mu.Unlock()
				settle()
			}
		}
		// wind down: end every context, open every gate, push two more ticks
		// through (the second one is accepted only after the first was handled
		// completely), and look again: nothing may have moved.
		s.mu.Lock()
		for _, m := range s.msgs {
			if m.cancel != nil {
				m.cancel()
			}
			m.cancelled = true
			if m.gate != nil {
				close(m.gate)
				m.gate = nil
			}
		}
		s.mu.Unlock()
		sendBurst(2)
		plan = append(plan, "cancel-all", "burst2")
		settle()
		// last look, taken only once no retransmission goroutine is left: a
		// faulty scheduler's late invocations would have happened by then
		final = true
		settle()
		close(ticks)

		overl, fired := 0, 0
		var desc []string
		s.mu.Lock()
		for _, m := range s.msgs {
			if m.maxInside > overl {
				overl = m.maxInside
			}
			fired += m.entered
			desc = append(desc, fmt.Sprintf("%s:%dt/%dr", m.kind(), m.liveTicks, m.entered))
		}
		s.mu.Unlock()
		ovl := "1"
		switch {
		case overl == 0:
			ovl = "0"
		case overl >= 8:
			ovl = "8+"
		case overl >= 2:
			ovl = "2-7"
		}
		tk := "0-9"
		switch {
		case sent >= 70:
			tk = "70+"
		case sent >= 20:
			tk = "20-69"
		case sent >= 10:
			tk = "10-19"
		}
		st.Case(overl >= 2, fmt.Sprintf("%s | %s", strings.Join(desc, ","), strings.Join(plan, " ")),
			"overlapping-callbacks:"+ovl, "ticks:"+tk,
			fmt.Sprintf("burst-on-backoff:%v", burstOnBackoff),
			fmt.Sprintf("cancel-then-ticks:%v", sawCancelThenTicks),
			fmt.Sprintf("messages:%d", nMsgs), fmt.Sprintf("tick-source-capacity:%d", tickCap),
			fmt.Sprintf("scheduled-during-ticks:%v", racingRegs > 0))
	})
}

// TestVerif_C17_ConcurrentTicks addresses the strategies directly, the way
// ScheduleRetransmissions does: every tick calls Tick on its own goroutine.
// The goroutines of a wave are released together from a barrier, so ticks
// really overlap. After all waves the number of retransmissions must be the
// scheduled one, and after every wave (a quiescent point) too.
func TestVerif_C17_ConcurrentTicks(t *testing.T) {
	st := verifkit.New("C17", "TestVerif_C17_ConcurrentTicks")
	defer st.Flush()
	excludeD5 := verifkit.Known(c17KeyD5)
	overlappedBackoff := false
	_ = &overlappedBackoff // D5 is repaired; the finding key is only used for exclusion while listed open
	rapid.Check(t, func(t *rapid.T) {
		backoff := rapid.IntRange(0, 3).Draw(t, "strategy") > 0
		var strategy Strategy
		if backoff {
			strategy = WithBackoffStrategy()
		} else {
			strategy = WithStandardStrategy()
		}
		nWaves := rapid.IntRange(1, 10).Draw(t, "waves")
		var mu sync.Mutex
		fired, total, maxWave := 0, 0, 0
		var waves []int
		for w := 0; w < nWaves; w++ {
			size := rapid.IntRange(1, 12).Draw(t, "wave")
			if rapid.IntRange(0, 4).Draw(t, "big") == 0 {
				size = rapid.IntRange(13, 64).Draw(t, "bigWave")
			}
			if excludeD5 && backoff {
				if size > 1 {
					st.Excluded(c17KeyD5)
				}
				// same number of ticks, one at a time
				for i := 0; i < size; i++ {
					_ = strategy.Tick(func() error { fired++; return nil })
				}
				total += size
				waves = append(waves, -size)
			} else {
				if size > 1 && backoff {
					overlappedBackoff = true
				}
				if size > maxWave {
					maxWave = size
				}
				barrier := make(chan struct{})
				var wg sync.WaitGroup
				for i := 0; i < size; i++ {
					wg.Add(1)
					go func() {
						defer wg.Done()
						<-barrier
						_ = strategy.Tick(func() error {
							mu.Lock()
							fired++
							mu.Unlock()
							return nil
						})
					}()
				}
				close(barrier)
				wg.Wait()
				total += size
				waves = append(waves, size)
			}
			mu.Lock()
			got := fired
			mu.Unlock()
			if want := c17Expected(backoff, total); got != want {
				t.Fatalf("%v strategy: %d retransmissions after %d ticks delivered in waves %v (negative = one at a time), schedule says %d",
					map[bool]string{true: "backoff", false: "standard"}[backoff], got, total, waves, want)
			}
		}
		st.Case(maxWave >= 2, fmt.Sprintf("backoff=%v waves=%v", backoff, waves),
			fmt.Sprintf("backoff:%v", backoff), fmt.Sprintf("overlap:%v", maxWave >= 2), fmt.Sprintf("ticks>=70:%v", total >= 70))
	})
}

// TestVerif_C17_ModelAnchors pins the harness model itself to the numbers
// written in the property statement, so a mistake in c17Expected cannot
// silently redefine the property.
func TestVerif_C17_ModelAnchors(t *testing.T) {
	st := verifkit.New("C17", "TestVerif_C17_ModelAnchors")
	defer st.Flush()
	want := map[int]bool{1: true, 3: true, 6: true, 11: true, 20: true, 37: true, 70: true, 135: true}
	prev := 0
	for n := 1; n <= 140; n++ {
		k := c17Expected(true, n)
		if (k == prev+1) != want[n] {
			t.Fatalf("model: tick %d fires=%v, statement says %v", n, k == prev+1, want[n])
		}
		prev = k
		if c17Expected(false, n) != n {
			t.Fatalf("model: standard strategy after %d ticks", n)
		}
		st.Case(want[n], fmt.Sprintf("tick %d -> %d retransmissions", n, k))
	}
}
