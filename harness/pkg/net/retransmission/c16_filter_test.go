//go:build go1.23

package retransmission

import (
	"fmt"
	"sort"
	"strings"
	"sync"
	"testing"

	"github.com/keep-network/keep-core/internal/verifkit"
	"github.com/keep-network/keep-core/pkg/net"
	"pgregory.net/rapid"
)

type c16ID string

func (i c16ID) String() string { return string(i) }

type c16Message struct {
	sender c16ID
	seqno  uint64
}

func (m *c16Message) TransportSenderID() net.TransportIdentifier { return m.sender }
func (m *c16Message) SenderPublicKey() []byte                    { return nil }
func (m *c16Message) Payload() interface{}                       { return nil }
func (m *c16Message) Type() string                               { return "c16" }
func (m *c16Message) Seqno() uint64                              { return m.seqno }

// the model identifies a message by the pair itself, never by a rendering
type c16Key struct {
	sender c16ID
	seqno  uint64
}

// TestVerif_C16_Filter: one handler wrapped by WithRetransmissionSupport
// receives generated waves of deliveries; the deliveries of a wave run on
// their own goroutines released together (concurrent duplicates). After every
// wave each (sender, seqno) delivered so far must have reached the delegate
// exactly once: never twice (the property), and once because the wrapper's
// contract is to pass every message it has not passed yet (so "at most once"
// is not satisfied vacuously by swallowing messages of other senders or
// sequence numbers). Sender names and numbers are chosen so that sloppy cache
// keys collide ("a"+"11" vs "a1"+"1", same number from different senders).
func TestVerif_C16_Filter(t *testing.T) {
	st := verifkit.New("C16", "TestVerif_C16_Filter")
	defer st.Flush()
	senders := []c16ID{"a", "a1", "a-1", "a-", "1", "", "b", "1-1", "a 1"}
	seqnos := []uint64{0, 1, 2, 11, 12, 21, 111, 1 << 32, 1<<64 - 1}
	rapid.Check(t, func(t *rapid.T) {
		var mu sync.Mutex
		handled := map[c16Key]int{}
		handler := WithRetransmissionSupport(func(m net.Message) {
			mu.Lock()
			handled[c16Key{c16ID(m.TransportSenderID().String()), m.Seqno()}]++
			mu.Unlock()
		})
		delivered := map[c16Key]int{}
		nWaves := rapid.IntRange(1, 8).Draw(t, "waves")
		maxConcurrentDup := 0
		var hist []string
		for w := 0; w < nWaves; w++ {
			n := rapid.IntRange(1, 10).Draw(t, "deliveries")
			wave := make([]c16Key, n)
			perKey := map[c16Key]int{}
			for i := range wave {
				if i > 0 && rapid.IntRange(0, 2).Draw(t, "repeat") > 0 {
					// a duplicate of something in this very wave or earlier
					wave[i] = wave[rapid.IntRange(0, i-1).Draw(t, "of")]
				} else {
					wave[i] = c16Key{rapid.SampledFrom(senders).Draw(t, "sender"), rapid.SampledFrom(seqnos).Draw(t, "seqno")}
				}
				perKey[wave[i]]++
			}
			concurrent := rapid.IntRange(0, 3).Draw(t, "concurrent") > 0
			for _, c := range perKey {
				if concurrent && c > maxConcurrentDup {
					maxConcurrentDup = c
				}
			}
			if concurrent {
				barrier := make(chan struct{})
				var wg sync.WaitGroup
				for _, k := range wave {
					wg.Add(1)
					go func(k c16Key) {
						defer wg.Done()
						<-barrier
						handler(&c16Message{k.sender, k.seqno})
					}(k)
				}
				close(barrier)
				wg.Wait()
			} else {
				for _, k := range wave {
					handler(&c16Message{k.sender, k.seqno})
				}
			}
			var ws []string
			for _, k := range wave {
				delivered[k]++
				ws = append(ws, fmt.Sprintf("%q#%d", string(k.sender), k.seqno))
			}
			hist = append(hist, fmt.Sprintf("%s[%s]", map[bool]string{true: "par", false: "seq"}[concurrent], strings.Join(ws, " ")))
			mu.Lock()
			var keys []c16Key
			for k := range delivered {
				keys = append(keys, k)
			}
			sort.Slice(keys, func(i, j int) bool {
				if keys[i].sender != keys[j].sender {
					return keys[i].sender < keys[j].sender
				}
				return keys[i].seqno < keys[j].seqno
			})
			for _, k := range keys {
				if handled[k] > 1 {
					mu.Unlock()
					t.Fatalf("message (%q, %d) reached the handler %d times after %d deliveries; history %s", string(k.sender), k.seqno, handled[k], delivered[k], strings.Join(hist, " "))
				}
				if handled[k] == 0 {
					mu.Unlock()
					t.Fatalf("message (%q, %d) was delivered %d times and never reached the handler (taken for a retransmission of a different message?); history %s", string(k.sender), k.seqno, delivered[k], strings.Join(hist, " "))
				}
			}
			for k := range handled {
				if delivered[k] == 0 {
					mu.Unlock()
					t.Fatalf("handler saw (%q, %d) which was never delivered", string(k.sender), k.seqno)
				}
			}
			mu.Unlock()
		}
		dups := 0
		for _, c := range delivered {
			if c > 1 {
				dups++
			}
		}
		st.Case(dups > 0, strings.Join(hist, " "),
			fmt.Sprintf("duplicated-messages:%v", dups > 0), fmt.Sprintf("concurrent-duplicates:%v", maxConcurrentDup > 1))
	})
}
