//go:build go1.23

package handshake

import (
	"testing"

	"github.com/keep-network/keep-core/internal/c19wire"
	"pgregory.net/rapid"
)

// C19 - pkg/net/security/handshake: the three handshake acts.

func c19GenNonce(t *rapid.T) uint64 {
	if rapid.IntRange(0, 2).Draw(t, "nonceEdge") == 0 {
		return rapid.SampledFrom([]uint64{0, 1, 255, 256, 1<<32 - 1, 1 << 32, 1<<63 - 1, 1 << 63, 1<<64 - 1}).Draw(t, "nonce")
	}
	return rapid.Uint64().Draw(t, "nonce")
}

func c19Codecs() []c19wire.Codec {
	return []c19wire.Codec{
		c19wire.Codec{
			Name: "handshake.Act1Message",
			New:  func() c19wire.Msg { return &Act1Message{} },
			Gen: func(t *rapid.T) c19wire.Msg {
				return &Act1Message{nonce1: c19GenNonce(t), protocol1: c19wire.GenText(t, "protocol")}
			},
		}.WithFixed("nonce", 8, c19wire.Step{Num: 1}),
		c19wire.Codec{
			Name: "handshake.Act2Message",
			New:  func() c19wire.Msg { return &Act2Message{} },
			Gen: func(t *rapid.T) c19wire.Msg {
				m := &Act2Message{nonce2: c19GenNonce(t), protocol2: c19wire.GenText(t, "protocol")}
				copy(m.challenge[:], c19wire.GenFixed(t, "challenge", 32))
				return m
			},
		}.WithFixed("nonce", 8, c19wire.Step{Num: 1}).WithFixed("challenge", 32, c19wire.Step{Num: 2}),
		c19wire.Codec{
			Name: "handshake.Act3Message",
			New:  func() c19wire.Msg { return &Act3Message{} },
			Gen: func(t *rapid.T) c19wire.Msg {
				m := &Act3Message{}
				copy(m.challenge[:], c19wire.GenFixed(t, "challenge", 32))
				return m
			},
		}.WithFixed("challenge", 32, c19wire.Step{Num: 1}),
	}
}

func TestVerif_C19_HandshakeRoundTrip(t *testing.T) {
	c19wire.RunRoundTrip(t, "TestVerif_C19_HandshakeRoundTrip", c19Codecs())
}

func TestVerif_C19_HandshakeHostile(t *testing.T) {
	c19wire.RunHostile(t, "TestVerif_C19_HandshakeHostile", c19Codecs())
}

func FuzzVerif_C19_Handshake(f *testing.F) { c19wire.RunFuzz(f, c19Codecs()) }
