//go:build go1.23

package handshake

import (
	crand "crypto/rand"
	"encoding/binary"
	"fmt"
	"strings"
	"testing"

	"github.com/keep-network/keep-core/internal/verifkit"
	"github.com/keep-network/keep-core/pkg/net/gen/pb"
	"google.golang.org/protobuf/proto"
	"pgregory.net/rapid"
)

// c20Nonces is installed as crypto/rand.Reader while a session runs so that
// the nonces of the real InitiateHandshake / AnswerHandshake are the
// rapid-drawn values (all nonce values are in the quantifier, including equal
// and related ones). The harness reads the nonces back from the states, so the
// model stays right even if a Go release stops honouring rand.Reader.
type c20Nonces struct{ queue []uint64 }

func (r *c20Nonces) Read(p []byte) (int, error) {
	for i := 0; i < len(p); i += 8 {
		var v uint64 = 0xA5A5A5A5A5A5A5A5
		if len(r.queue) > 0 {
			v, r.queue = r.queue[0], r.queue[1:]
		}
		var b [8]byte
		binary.LittleEndian.PutUint64(b[:], v)
		copy(p[i:], b[:])
	}
	return len(p), nil
}

func c20WithNonces(nonces []uint64, f func()) {
	old := crand.Reader
	crand.Reader = &c20Nonces{queue: append([]uint64{}, nonces...)}
	defer func() { crand.Reader = old }()
	f()
}

// ---- symbolic challenge of the reference model -----------------------------
// The model never computes a hash. A challenge value is a base - "what an
// honest responder derives for (nonce1, nonce2)" or one of two constants - plus
// the set of bits flipped on top of it. Two values are equal iff base and
// flipped bits are equal, and two derived bases are equal iff both nonces are
// equal (the derivation binds both nonces).
type c20Sym struct {
	konst int // 0: derived from (x, y); 1: all zero bytes; 2: all 0xff bytes
	x, y  uint64
	mask  [32]byte
}

func (s c20Sym) eq(o c20Sym) bool {
	if s.konst != o.konst || s.mask != o.mask {
		return false
	}
	return s.konst != 0 || (s.x == o.x && s.y == o.y)
}

func (s c20Sym) String() string {
	base := fmt.Sprintf("H(%x,%x)", s.x, s.y)
	if s.konst == 1 {
		base = "00.."
	} else if s.konst == 2 {
		base = "ff.."
	}
	if s.mask != ([32]byte{}) {
		base += fmt.Sprintf("^%x", s.mask[:])
	}
	return base
}

// one honest session run with the real code; its acts are the replay material.
type c20Session struct {
	x, y     uint64
	protocol string
	act1     *Act1Message
	act2     *Act2Message
	act3     *Act3Message
}

func c20HonestSession(t *rapid.T, x, y uint64, protocol string) *c20Session {
	s := &c20Session{protocol: protocol}
	c20WithNonces([]uint64{x, y}, func() {
		i1, err := InitiateHandshake(protocol)
		if err != nil {
			t.Fatalf("InitiateHandshake: %v", err)
		}
		s.act1 = i1.Message()
		i2 := i1.Next()
		r2, err := AnswerHandshake(s.act1, protocol)
		if err != nil {
			t.Fatalf("honest session: AnswerHandshake failed for equal protocols %q: %v", protocol, err)
		}
		s.act2 = r2.Message()
		r3 := r2.Next()
		i3, err := i2.Next(s.act2)
		if err != nil {
			t.Fatalf("honest session (nonces %x,%x protocol %q): initiator rejects the untouched act 2: %v", i1.nonce1, r2.nonce2, protocol, err)
		}
		s.act3 = i3.Message()
		if err := r3.FinalizeHandshake(s.act3); err != nil {
			t.Fatalf("honest session (nonces %x,%x protocol %q): responder rejects the untouched act 3: %v", i1.nonce1, r2.nonce2, protocol, err)
		}
		s.x, s.y = i1.nonce1, r2.nonce2
	})
	return s
}

var c20Protocols = []string{
	"keep-beacon", "keep-ecdsa", "keep-beacon ", "keep-beaco", "Keep-beacon", "keep-beacon/2", "", "k", "keep-tbtc",
}

func c20GenNonce(t *rapid.T, label string) uint64 {
	switch rapid.IntRange(0, 5).Draw(t, label+"Class") {
	case 0:
		return uint64(rapid.IntRange(0, 3).Draw(t, label+"Small"))
	case 1:
		return ^uint64(0) - uint64(rapid.IntRange(0, 3).Draw(t, label+"Top"))
	case 2:
		return uint64(1) << uint(rapid.IntRange(0, 63).Draw(t, label+"Bit"))
	default:
		return rapid.Uint64().Draw(t, label)
	}
}

// wire transport of an act with optional length damage of a bytes field.
type c20Wire struct {
	use      bool
	lenDelta int // applied to the nonce (act 1/2) or challenge (act 3) field; 0 = none
	chDelta  int // applied to the challenge field of act 2
}

func c20GenWire(t *rapid.T, label string, act int, touched bool) c20Wire {
	w := c20Wire{use: rapid.Bool().Draw(t, label+"Wire")}
	if w.use && touched && rapid.IntRange(0, 5).Draw(t, label+"WireDamage") == 0 {
		d := rapid.SampledFrom([]int{-8, -1, 1, 8}).Draw(t, label+"LenDelta")
		if act == 2 && rapid.Bool().Draw(t, label+"DamageChallenge") {
			w.chDelta = d
		} else {
			w.lenDelta = d
		}
	}
	return w
}

func c20Resize(b []byte, delta int) []byte {
	if delta == 0 {
		return b
	}
	n := len(b) + delta
	if n < 0 {
		n = 0
	}
	out := make([]byte, n)
	copy(out, b)
	return out
}

func TestVerif_C20_Handshake(t *testing.T) {
	st := verifkit.New("C20", "TestVerif_C20_Handshake")
	defer st.Flush()
	rapid.Check(t, func(t *rapid.T) {
		// ---------------- the session under test -----------------------
		pI := rapid.SampledFrom(c20Protocols).Draw(t, "protocolInitiator")
		pR := pI
		if rapid.IntRange(0, 5).Draw(t, "protocolsDiffer") == 0 {
			pR = rapid.SampledFrom(c20Protocols).Draw(t, "protocolResponder")
		}
		a := c20GenNonce(t, "nonce1")
		b := c20GenNonce(t, "nonce2")
		switch rapid.IntRange(0, 7).Draw(t, "nonceRelation") {
		case 0:
			b = a
		case 1:
			b = a + 1
		case 2:
			b = ^a
		}
		// which acts the adversary touches in this case (later acts are only
		// reached when the earlier ones pass, so single-act plans dominate)
		plan := rapid.SampledFrom([][4]bool{
			{}, {false, true}, {false, false, true}, {false, false, true}, {false, false, false, true}, {false, false, false, true},
			{false, true, true}, {false, false, true, true}, {false, true, false, true}, {false, true, true, true},
		}).Draw(t, "actsTouched")
		nTampers := func(act, max int) int {
			if !plan[act] {
				return 0
			}
			return rapid.IntRange(1, max).Draw(t, fmt.Sprintf("act%dTampers", act))
		}
		delta := uint64(1) << uint(rapid.IntRange(0, 63).Draw(t, "deltaBit"))
		if rapid.Bool().Draw(t, "wideDelta") {
			delta = rapid.Uint64Min(1).Draw(t, "delta")
		}

		// ---------------- replay material: other honest sessions --------
		// nonces related to the session under test (same, swapped, shifted
		// by the shared delta) so that a derivation that forgets a nonce,
		// or mixes them symmetrically, collides.
		type rel struct{ x, y uint64 }
		rels := []rel{{a, b}, {b, a}, {a ^ delta, b ^ delta}, {a, b ^ delta}, {a ^ delta, b}, {a + delta, b - delta}, {a, a}, {b, b}}
		nOthers := rapid.IntRange(1, 2).Draw(t, "otherSessions")
		var others []*c20Session
		for k := 0; k < nOthers; k++ {
			var x, y uint64
			if rapid.IntRange(0, 4).Draw(t, "otherRandom") == 0 {
				x, y = c20GenNonce(t, "otherNonce1"), c20GenNonce(t, "otherNonce2")
			} else {
				r := rapid.SampledFrom(rels).Draw(t, "otherRelation")
				x, y = r.x, r.y
			}
			op := pI
			if rapid.IntRange(0, 3).Draw(t, "otherProtocolDiffers") == 0 {
				op = rapid.SampledFrom(c20Protocols).Draw(t, "otherProtocol")
			}
			others = append(others, c20HonestSession(t, x, y, op))
		}

		var tampers []string
		effective := 0      // number of effective alterations
		var altered [4]bool // altered[k]: act k was delivered different from what was sent

		noncePool := func(own uint64) []uint64 {
			p := []uint64{own, a, b, own + 1, own - 1, own ^ delta, a ^ delta, b ^ delta, 0, ^uint64(0)}
			for _, o := range others {
				p = append(p, o.x, o.y)
			}
			return p
		}
		genNonceTamper := func(label string, own uint64) uint64 {
			if rapid.IntRange(0, 5).Draw(t, label+"Random") == 0 {
				return rapid.Uint64().Draw(t, label+"Value")
			}
			return rapid.SampledFrom(noncePool(own)).Draw(t, label+"Pool")
		}
		genProtocolTamper := func(label string) string {
			if rapid.IntRange(0, 2).Draw(t, label+"Pick") == 0 {
				return rapid.SampledFrom([]string{pI, pR}).Draw(t, label+"Own")
			}
			return rapid.SampledFrom(c20Protocols).Draw(t, label+"Pool")
		}
		// challenge tamper: returns new bytes and the model symbol
		genChallengeTamper := func(label string, cur [32]byte, curSym c20Sym) ([32]byte, c20Sym, string) {
			switch rapid.IntRange(0, 4).Draw(t, label+"Kind") {
			case 0: // one bit
				i := rapid.IntRange(0, 255).Draw(t, label+"Bit")
				cur[i/8] ^= 1 << uint(i%8)
				curSym.mask[i/8] ^= 1 << uint(i%8)
				return cur, curSym, fmt.Sprintf("flip%d", i)
			case 1: // constant
				var z [32]byte
				k := c20Sym{konst: 1}
				if rapid.Bool().Draw(t, label+"Ones") {
					for i := range z {
						z[i] = 0xff
					}
					k.konst = 2
				}
				return z, k, "const"
			case 2: // written again unchanged
				return cur, curSym, "same"
			default: // challenge of another honest session
				k := rapid.IntRange(0, len(others)-1).Draw(t, label+"From")
				o := others[k]
				return o.act2.challenge, c20Sym{x: o.x, y: o.y}, fmt.Sprintf("from-session%d", k)
			}
		}

		// ---------------- act 1 -----------------------------------------
		var i1 *InitiatorAct1
		c20WithNonces([]uint64{a}, func() {
			var err error
			if i1, err = InitiateHandshake(pI); err != nil {
				t.Fatalf("InitiateHandshake: %v", err)
			}
		})
		a = i1.nonce1
		i2 := i1.Next()
		act1 := i1.Message()
		m1n, m1p := a, pI // model of the act as delivered
		for n := nTampers(1, 2); n > 0; n-- {
			switch rapid.IntRange(0, 2).Draw(t, "act1Tamper") {
			case 0:
				v := genNonceTamper("act1Nonce", a)
				act1 = &Act1Message{nonce1: v, protocol1: act1.protocol1}
				m1n = v
				tampers = append(tampers, fmt.Sprintf("act1.nonce=%x", v))
			case 1:
				q := genProtocolTamper("act1Protocol")
				act1 = &Act1Message{nonce1: act1.nonce1, protocol1: q}
				m1p = q
				tampers = append(tampers, fmt.Sprintf("act1.protocol=%q", q))
			default:
				k := rapid.IntRange(0, len(others)-1).Draw(t, "act1Replay")
				o := others[k]
				act1 = &Act1Message{nonce1: o.act1.nonce1, protocol1: o.act1.protocol1}
				m1n, m1p = o.x, o.protocol
				tampers = append(tampers, fmt.Sprintf("act1<-session%d", k))
			}
		}
		if m1n != a || m1p != pI {
			effective++
			altered[1] = true
		}
		w1 := c20GenWire(t, "act1", 1, plan[1])
		wireBroken := 0 // act whose wire form was damaged (0 = none)
		if w1.use {
			raw, err := act1.Marshal()
			if err != nil {
				t.Fatalf("act 1 Marshal: %v", err)
			}
			if w1.lenDelta != 0 {
				var m pb.Act1Message
				if err := proto.Unmarshal(raw, &m); err != nil {
					t.Fatalf("act 1 wire form is not the protobuf message: %v", err)
				}
				m.Nonce = c20Resize(m.Nonce, w1.lenDelta)
				raw, _ = proto.Marshal(&m)
				tampers = append(tampers, fmt.Sprintf("act1.nonce-len%+d", w1.lenDelta))
				effective++
				altered[1] = true
			}
			got := &Act1Message{}
			if err := got.Unmarshal(raw); err != nil {
				if w1.lenDelta == 0 {
					t.Fatalf("act 1 {%x %q} does not survive Marshal/Unmarshal: %v", act1.nonce1, act1.protocol1, err)
				}
				wireBroken = 1
			} else if w1.lenDelta != 0 {
				t.Fatalf("act 1 with a %d-byte nonce field was decoded (nonce %x)", 8+w1.lenDelta, got.nonce1)
			} else if got.nonce1 != act1.nonce1 || got.protocol1 != act1.protocol1 {
				t.Fatalf("act 1 changed on the wire: {%x %q} -> {%x %q}", act1.nonce1, act1.protocol1, got.nonce1, got.protocol1)
			}
			act1 = got
		}

		// model: verdict of every step
		exp1 := m1p == pR
		failedAt := 0
		var r2 *ResponderAct2
		var r3 *ResponderAct3
		var i3 *InitiatorAct3
		var stepErr error
		if wireBroken == 1 {
			failedAt = 1
		} else {
			c20WithNonces([]uint64{b}, func() { r2, stepErr = AnswerHandshake(act1, pR) })
			if (stepErr == nil) != exp1 {
				t.Fatalf("AnswerHandshake(act1{%x %q}, responder protocol %q): err=%v, expected accept=%v; initiator protocol %q tampers=%v",
					act1.nonce1, act1.protocol1, pR, stepErr, exp1, pI, tampers)
			}
			if stepErr != nil {
				failedAt = 1
			}
		}

		var m2n uint64
		var m2c, cResponder c20Sym
		var m2p string
		if failedAt == 0 {
			b = r2.nonce2
			if r2.protocol2 != pR {
				t.Fatalf("responder state carries protocol %q, responder runs %q", r2.protocol2, pR)
			}
			cResponder = c20Sym{x: m1n, y: b} // derived from the nonce1 the responder SAW and its own nonce2
			r3 = r2.Next()
			act2 := r2.Message()
			act2 = &Act2Message{nonce2: act2.nonce2, challenge: act2.challenge, protocol2: act2.protocol2}
			if act2.nonce2 != b || act2.protocol2 != pR {
				t.Fatalf("act 2 {%x %q} does not carry the responder's nonce %x and protocol %q", act2.nonce2, act2.protocol2, b, pR)
			}
			m2n, m2c, m2p = b, cResponder, pR
			for n := nTampers(2, 3); n > 0; n-- {
				switch rapid.IntRange(0, 4).Draw(t, "act2Tamper") {
				case 0:
					v := genNonceTamper("act2Nonce", b)
					act2.nonce2, m2n = v, v
					tampers = append(tampers, fmt.Sprintf("act2.nonce=%x", v))
				case 1:
					var how string
					act2.challenge, m2c, how = genChallengeTamper("act2Challenge", act2.challenge, m2c)
					tampers = append(tampers, "act2.challenge:"+how)
				case 2:
					q := genProtocolTamper("act2Protocol")
					act2.protocol2, m2p = q, q
					tampers = append(tampers, fmt.Sprintf("act2.protocol=%q", q))
				case 3:
					k := rapid.IntRange(0, len(others)-1).Draw(t, "act2Replay")
					o := others[k]
					act2 = &Act2Message{nonce2: o.act2.nonce2, challenge: o.act2.challenge, protocol2: o.act2.protocol2}
					m2n, m2c, m2p = o.y, c20Sym{x: o.x, y: o.y}, o.protocol
					tampers = append(tampers, fmt.Sprintf("act2<-session%d", k))
				default:
					// consistent forgery: nonce and challenge both taken from one
					// other session (what a recomputing attacker would send)
					k := rapid.IntRange(0, len(others)-1).Draw(t, "act2Forge")
					o := others[k]
					act2.nonce2, act2.challenge = o.act2.nonce2, o.act2.challenge
					m2n, m2c = o.y, c20Sym{x: o.x, y: o.y}
					tampers = append(tampers, fmt.Sprintf("act2.nonce+challenge<-session%d", k))
				}
			}
			if m2n != b || !m2c.eq(cResponder) || m2p != pR {
				effective++
				altered[2] = true
			}
			w2 := c20GenWire(t, "act2", 2, plan[2])
			if w2.use {
				raw, err := act2.Marshal()
				if err != nil {
					t.Fatalf("act 2 Marshal: %v", err)
				}
				damaged := w2.lenDelta != 0 || w2.chDelta != 0
				if damaged {
					var m pb.Act2Message
					if err := proto.Unmarshal(raw, &m); err != nil {
						t.Fatalf("act 2 wire form is not the protobuf message: %v", err)
					}
					m.Nonce = c20Resize(m.Nonce, w2.lenDelta)
					m.Challenge = c20Resize(m.Challenge, w2.chDelta)
					raw, _ = proto.Marshal(&m)
					tampers = append(tampers, fmt.Sprintf("act2.len nonce%+d challenge%+d", w2.lenDelta, w2.chDelta))
					effective++
					altered[2] = true
				}
				got := &Act2Message{}
				if err := got.Unmarshal(raw); err != nil {
					if !damaged {
						t.Fatalf("act 2 does not survive Marshal/Unmarshal: %v", err)
					}
					wireBroken = 2
				} else if damaged {
					t.Fatalf("act 2 with a %d-byte nonce and %d-byte challenge field was decoded", 8+w2.lenDelta, 32+w2.chDelta)
				} else if got.nonce2 != act2.nonce2 || got.challenge != act2.challenge || got.protocol2 != act2.protocol2 {
					t.Fatalf("act 2 changed on the wire")
				}
				act2 = got
			}
			// the initiator accepts iff the protocol is its own and the challenge
			// is the one derived from ITS nonce1 and the nonce2 it received
			exp2 := m2p == pI && m2c.eq(c20Sym{x: a, y: m2n})
			if wireBroken == 2 {
				failedAt = 2
			} else {
				i3, stepErr = i2.Next(act2)
				if (stepErr == nil) != exp2 {
					t.Fatalf("InitiatorAct2.Next: err=%v, expected accept=%v\n initiator: nonce1=%x protocol=%q\n responder: saw nonce1=%x, nonce2=%x protocol=%q, challenge %v\n act 2 as delivered: nonce2=%x protocol=%q challenge %v\n tampers=%v",
						stepErr, exp2, a, pI, m1n, b, pR, cResponder, m2n, m2p, m2c, tampers)
				}
				if stepErr != nil {
					failedAt = 2
				}
			}
		}

		if failedAt == 0 {
			act3 := i3.Message()
			act3 = &Act3Message{challenge: act3.challenge}
			m3c := m2c // the initiator echoes the challenge it accepted
			for n := nTampers(3, 2); n > 0; n-- {
				switch rapid.IntRange(0, 1).Draw(t, "act3Tamper") {
				case 0:
					var how string
					act3.challenge, m3c, how = genChallengeTamper("act3Challenge", act3.challenge, m3c)
					tampers = append(tampers, "act3.challenge:"+how)
				default:
					k := rapid.IntRange(0, len(others)-1).Draw(t, "act3Replay")
					o := others[k]
					act3 = &Act3Message{challenge: o.act3.challenge}
					m3c = c20Sym{x: o.x, y: o.y}
					tampers = append(tampers, fmt.Sprintf("act3<-session%d", k))
				}
			}
			if !m3c.eq(m2c) {
				effective++
				altered[3] = true
			}
			w3 := c20GenWire(t, "act3", 3, plan[3])
			if w3.use {
				raw, err := act3.Marshal()
				if err != nil {
					t.Fatalf("act 3 Marshal: %v", err)
				}
				if w3.lenDelta != 0 {
					var m pb.Act3Message
					if err := proto.Unmarshal(raw, &m); err != nil {
						t.Fatalf("act 3 wire form is not the protobuf message: %v", err)
					}
					m.Challenge = c20Resize(m.Challenge, w3.lenDelta)
					raw, _ = proto.Marshal(&m)
					tampers = append(tampers, fmt.Sprintf("act3.challenge-len%+d", w3.lenDelta))
					effective++
					altered[3] = true
				}
				got := &Act3Message{}
				if err := got.Unmarshal(raw); err != nil {
					if w3.lenDelta == 0 {
						t.Fatalf("act 3 does not survive Marshal/Unmarshal: %v", err)
					}
					wireBroken = 3
				} else if w3.lenDelta != 0 {
					t.Fatalf("act 3 with a %d-byte challenge field was decoded", 32+w3.lenDelta)
				} else if got.challenge != act3.challenge {
					t.Fatalf("act 3 changed on the wire")
				}
				act3 = got
			}
			exp3 := m3c.eq(cResponder)
			if wireBroken == 3 {
				failedAt = 3
			} else {
				stepErr = r3.FinalizeHandshake(act3)
				if (stepErr == nil) != exp3 {
					t.Fatalf("FinalizeHandshake: err=%v, expected accept=%v\n initiator: nonce1=%x protocol=%q\n responder: saw nonce1=%x, nonce2=%x protocol=%q, expects %v\n act 3 as delivered: challenge %v\n tampers=%v",
						stepErr, exp3, a, pI, m1n, b, pR, cResponder, m3c, tampers)
				}
				if stepErr != nil {
					failedAt = 3
				}
			}
		}

		completed := failedAt == 0
		// whole-handshake statements of the property, derived from its text and
		// not from the per-step predictions above:
		//  - nothing altered: completes iff both run the same protocol;
		//  - exactly one act altered, replayed or swapped for a foreign one (the
		//    other two delivered as sent): the handshake fails. (Alterations of
		//    several acts that are consistent with each other - what only a party
		//    rewriting the whole conversation can do - are judged by the per-step
		//    model; the envelope signatures of the transport exclude them.)
		nAltered := 0
		for _, x := range altered {
			if x {
				nAltered++
			}
		}
		if nAltered == 0 && (pI == pR) != completed {
			t.Fatalf("untampered handshake between %q and %q: completed=%v (noop tampers %v)", pI, pR, completed, tampers)
		}
		if nAltered == 1 && completed {
			t.Fatalf("handshake completed although one act was altered: pI=%q pR=%q nonce1=%x nonce2=%x tampers=%v", pI, pR, a, b, tampers)
		}

		outcome := "completed"
		if !completed {
			outcome = fmt.Sprintf("fails@act%d", failedAt)
		}
		labels := []string{"outcome:" + outcome, fmt.Sprintf("acts-altered:%d", nAltered), fmt.Sprintf("protocols-equal:%v", pI == pR), fmt.Sprintf("effective-tampers:%d", c20Cap(effective, 3))}
		if len(tampers) > 0 && effective == 0 {
			labels = append(labels, "noop-tampers-only")
		}
		if completed && nAltered > 0 {
			labels = append(labels, "completed-by-consistent-forgery-of-several-acts")
		}
		for _, tp := range tampers {
			labels = append(labels, "tamper:"+c20Kind(tp))
		}
		st.Case(effective > 0, fmt.Sprintf("pI=%q pR=%q n1=%x n2=%x others=%s tampers=%v -> %s", pI, pR, a, b, c20Others(others), tampers, outcome), labels...)
	})
}

func c20Cap(v, max int) int {
	if v > max {
		return max
	}
	return v
}

func c20Kind(tp string) string {
	if i := strings.IndexAny(tp, "=:<+ "); i > 0 {
		tp = tp[:i]
	}
	return strings.TrimRight(tp, "-0123456789")
}

func c20Others(o []*c20Session) string {
	var parts []string
	for _, s := range o {
		parts = append(parts, fmt.Sprintf("(%x,%x,%q)", s.x, s.y, s.protocol))
	}
	return strings.Join(parts, "")
}
