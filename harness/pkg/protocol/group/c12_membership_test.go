//go:build go1.23

package group

// C12, the membership check itself: IsValidMembership and IsInGroup of a
// validator built over a generated operator list (operators holding several
// seats, up to the largest possible group) are compared, for every member
// index 0..255 and for keys of members and outsiders, with a direct model over
// the list: a key holds index i iff 1 <= i <= size and the address of the key
// is the i-th entry.

import (
	"fmt"
	"math/big"
	"strings"
	"testing"

	"github.com/keep-network/keep-core/internal/testutils"
	"github.com/keep-network/keep-core/internal/verifkit"
	"github.com/keep-network/keep-core/pkg/chain"
	"github.com/keep-network/keep-core/pkg/chain/local_v1"
	"github.com/keep-network/keep-core/pkg/operator"
	"pgregory.net/rapid"
)

type c12Operator struct {
	name string
	pub  *operator.PublicKey
	key  []byte
	addr chain.Address
}

func TestVerif_C12_MembershipValidator(t *testing.T) {
	st := verifkit.New("C12", "TestVerif_C12_MembershipValidator")
	defer st.Flush()
	var signing chain.Signing
	var pool []*c12Operator
	for i := 0; i < 10; i++ {
		d := big.NewInt(int64(1201 + 17*i))
		x, y := local_v1.DefaultCurve.ScalarBaseMult(d.Bytes())
		pub := &operator.PublicKey{Curve: operator.Secp256k1, X: x, Y: y}
		if signing == nil {
			signing = local_v1.NewSigner(&operator.PrivateKey{PublicKey: *pub, D: d})
		}
		addr, err := signing.PublicKeyToAddress(pub)
		if err != nil {
			t.Fatal(err)
		}
		pool = append(pool, &c12Operator{string(rune('A' + i)), pub, operator.MarshalUncompressed(pub), addr})
	}

	rapid.Check(t, func(t *rapid.T) {
		// sizes: small groups, the production sizes 64 and 100, and the
		// largest group a member index can address
		n := rapid.OneOf(rapid.IntRange(1, 12), rapid.SampledFrom([]int{64, 100, 254, 255})).Draw(t, "groupSize")
		k := rapid.IntRange(1, 8).Draw(t, "operators")
		first := rapid.IntRange(0, len(pool)-1).Draw(t, "firstOperator")
		seats := make([]int, n)
		var list []chain.Address
		var layout strings.Builder
		held := map[int]int{}
		for i := range seats {
			seats[i] = (first + rapid.IntRange(0, k-1).Draw(t, "seatOperator")) % len(pool)
			list = append(list, pool[seats[i]].addr)
			held[seats[i]]++
			if i < 40 {
				layout.WriteString(pool[seats[i]].name)
			}
		}
		v := NewMembershipValidator(&testutils.MockLogger{}, list, signing)

		spoofable, multi := false, false
		for op, o := range pool {
			if held[op] > 1 {
				multi = true
			}
			if got := v.IsInGroup(o.pub); got != (held[op] > 0) {
				t.Fatalf("seats %s.. (size %d): IsInGroup(%s)=%v but the operator holds %d seats", layout.String(), n, o.name, got, held[op])
			}
			count := 0
			for idx := 0; idx <= 255; idx++ {
				want := idx >= 1 && idx <= n && seats[idx-1] == op
				got := v.IsValidMembership(MemberIndex(idx), o.key)
				if got != want {
					t.Fatalf("seats %s.. (size %d): IsValidMembership(index %d, key of %s)=%v, the seat list gives %v",
						layout.String(), n, idx, o.name, got, want)
				}
				if got {
					count++
				}
			}
			if count != held[op] {
				t.Fatalf("operator %s holds %d seats but %d indices validate", o.name, held[op], count)
			}
			if held[op] > 0 && held[op] < n {
				spoofable = true // some seat belongs to another operator
			}
		}
		labels := []string{fmt.Sprintf("size:%s", map[bool]string{true: "<=12", false: ">=64"}[n <= 12])}
		if multi {
			labels = append(labels, "operator-with-several-seats")
		}
		if n >= 254 {
			labels = append(labels, "size:index-space-exhausted")
		}
		if len(held) == 1 {
			labels = append(labels, "single-operator-group")
		}
		st.Case(spoofable, fmt.Sprintf("n=%d seats=%s", n, layout.String()), labels...)
	})
}
