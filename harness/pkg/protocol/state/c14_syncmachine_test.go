//go:build go1.23

package state

import (
	"context"
	"fmt"
	"strings"
	"sync"
	"testing"
	"time"

	"github.com/keep-network/keep-core/internal/testutils"
	"github.com/keep-network/keep-core/internal/verifkit"
	"github.com/keep-network/keep-core/pkg/net"
	"github.com/keep-network/keep-core/pkg/protocol/group"
	"pgregory.net/rapid"
)

const c14Wait = 30 * time.Second

// ---- fake broadcast channel endpoint (one per machine) ---------------------

type c14Handler struct {
	ctx context.Context
	fn  func(net.Message)
}

type c14Channel struct {
	mu       sync.Mutex
	handlers []c14Handler
	pushed   int // handler invocations (one buffered message each)
	lost     []int

	// the network layer's delivery routine of this member: messages are
	// handed to the registered handlers one after the other, in arrival
	// order; a handler that blocks (full machine buffer) holds up the ones
	// behind it, exactly like the per-handler queue of the real channels
	queue      []*c14Msg
	running    bool
	lastHanded int // id of the message handed over last (0: none yet)
}

func (c *c14Channel) Name() string { return "c14" }
func (c *c14Channel) Send(ctx context.Context, m net.TaggedMarshaler, s ...net.RetransmissionStrategy) error {
	return nil
}
func (c *c14Channel) Recv(ctx context.Context, handler func(m net.Message)) {
	c.mu.Lock()
	c.handlers = append(c.handlers, c14Handler{ctx, handler})
	c.mu.Unlock()
}
func (c *c14Channel) SetUnmarshaler(unmarshaler func() net.TaggedUnmarshaler) {}
func (c *c14Channel) SetFilter(filter net.BroadcastChannelFilter) error       { return nil }

// deliver: the message arrives at this member now. It is handed to every
// handler whose context is alive at hand-over (that is what the real channels
// do); a message nobody listens for is lost.
func (c *c14Channel) deliver(m *c14Msg) {
	c.mu.Lock()
	c.queue = append(c.queue, m)
	if !c.running {
		c.running = true
		go c.pump()
	}
	c.mu.Unlock()
}

func (c *c14Channel) pump() {
	for {
		c.mu.Lock()
		if len(c.queue) == 0 {
			c.running = false
			c.mu.Unlock()
			return
		}
		m := c.queue[0]
		c.queue = c.queue[1:]
		var live []c14Handler
		for _, h := range c.handlers {
			if h.ctx.Err() == nil {
				live = append(live, h)
			}
		}
		c.handlers = live
		if len(live) == 0 {
			c.lost = append(c.lost, m.id)
		}
		c.pushed += len(live)
		if len(live) > 0 {
			c.lastHanded = m.id
		}
		c.mu.Unlock()
		for _, h := range live {
			h.fn(m)
		}
	}
}

// drained reports whether everything that arrived was handed over, and the
// id of the message handed over last.
func (c *c14Channel) drained() (bool, int) {
	c.mu.Lock()
	defer c.mu.Unlock()
	return !c.running && len(c.queue) == 0, c.lastHanded
}

type c14Msg struct{ id int }

func (m *c14Msg) TransportSenderID() net.TransportIdentifier { return nil }
func (m *c14Msg) SenderPublicKey() []byte                    { return []byte{1} }
func (m *c14Msg) Payload() interface{}                       { return m.id }
func (m *c14Msg) Type() string                               { return "c14/msg" }
func (m *c14Msg) Seqno() uint64                              { return uint64(m.id) }

// ---- toy protocol ------------------------------------------------------------

type c14StateSpec struct {
	delay, active uint64
}

type c14Machine struct {
	id     int
	bc     *verifkit.FakeBlockCounter
	ch     *c14Channel
	specs  []c14StateSpec
	slow   []uint64 // blocks Initiate of state i takes on this machine
	states []*c14State

	mu        sync.Mutex
	cur       *c14State
	acked     int
	lastAcked int
	expect    [][2]uint64 // (message id, height at which it arrived at this member)
	unsettled int         // consecutive polls in which the last hand-over was not acknowledged
	events    []string
	done      bool
	final     SyncState
	endBlock  uint64
	err       error
	initCall  []uint64
	initRet   []uint64
	nextCall  []uint64
	initCount []int
	receives  [][]int // per state: ids received in order
}

type c14State struct {
	m   *c14Machine
	idx int

	phase string // created | initiating | initiated | nexted
}

func (s *c14State) DelayBlocks() uint64  { return s.m.specs[s.idx].delay }
func (s *c14State) ActiveBlocks() uint64 { return s.m.specs[s.idx].active }
func (s *c14State) MemberIndex() group.MemberIndex {
	return group.MemberIndex(s.m.id)
}

func (s *c14State) Initiate(ctx context.Context) error {
	m := s.m
	h := m.bc.Height()
	m.mu.Lock()
	s.phase = "initiating"
	m.initCall[s.idx] = h
	m.initCount[s.idx]++
	m.mu.Unlock()
	if k := m.slow[s.idx]; k > 0 {
		_ = m.bc.WaitForBlockHeight(h + k)
	}
	m.mu.Lock()
	m.initRet[s.idx] = m.bc.Height()
	s.phase = "initiated"
	m.mu.Unlock()
	return nil
}

func (s *c14State) Receive(msg net.Message) error {
	m := s.m
	m.mu.Lock()
	m.receives[s.idx] = append(m.receives[s.idx], msg.Payload().(int))
	m.acked++
	m.lastAcked = msg.Payload().(int)
	m.mu.Unlock()
	return nil
}

func (s *c14State) Next() (SyncState, error) {
	m := s.m
	h := m.bc.Height()
	m.mu.Lock()
	defer m.mu.Unlock()
	m.nextCall[s.idx] = h
	s.phase = "nexted"
	if s.idx+1 == len(m.specs) {
		return nil, nil
	}
	n := &c14State{m: m, idx: s.idx + 1, phase: "created"}
	m.states = append(m.states, n)
	m.cur = n
	return n, nil
}

// inMainLoop: the machine's current state finished initiating and was not
// left yet, i.e. the machine is (or is about to be) selecting on messages and
// the end-of-state block.
//
// The machine's buffer is FIFO: once the message handed over last has been
// received, every earlier one has been received or is gone for good. stuck
// reports that the hand-overs are finished but the last one is still not
// acknowledged (it may be waiting in the buffer - or it was discarded).
func (m *c14Machine) settled() (ok bool, stuck bool) {
	m.mu.Lock()
	defer m.mu.Unlock()
	if m.done {
		return true, false
	}
	if m.cur.phase == "initiated" {
		idle, last := m.ch.drained()
		if !idle {
			m.unsettled = 0
			return false, false
		}
		if last == 0 || m.lastAcked == last {
			m.unsettled = 0
			return true, false
		}
		m.unsettled++
		return false, true
	}
	return true, false
}

// ---- reference model ----------------------------------------------------------

type c14Model struct {
	E, I                        []uint64 // end / initiation block of each state
	initCall, initRet, nextCall []uint64 // observable call blocks given the slowness
	safe                        []bool   // initiation returns strictly before the state's end
}

func c14Predict(start, h0 uint64, specs []c14StateSpec, slow []uint64) c14Model {
	n := len(specs)
	md := c14Model{E: make([]uint64, n), I: make([]uint64, n), initCall: make([]uint64, n), initRet: make([]uint64, n), nextCall: make([]uint64, n), safe: make([]bool, n)}
	prevEnd := start
	prevNext := start
	if h0 > prevNext {
		prevNext = h0 // the member joins late: everything is called as soon as possible
	}
	for i, sp := range specs {
		md.I[i] = prevEnd + sp.delay
		md.E[i] = md.I[i] + sp.active
		md.initCall[i] = max(md.I[i], prevNext)
		md.initRet[i] = md.initCall[i] + slow[i]
		md.nextCall[i] = max(md.E[i], md.initRet[i])
		md.safe[i] = md.initRet[i] < md.E[i]
		prevEnd, prevNext = md.E[i], md.nextCall[i]
	}
	return md
}

// current returns the state whose handler is registered at the quiescent
// point of height h (-1: the machine has finished).
func (md c14Model) current(h uint64) int {
	for i := range md.nextCall {
		if h < md.nextCall[i] {
			return i
		}
	}
	return -1
}

// ---- generator ----------------------------------------------------------------

func c14GenSpecs(t *rapid.T) []c14StateSpec {
	n := rapid.IntRange(2, 8).Draw(t, "states")
	specs := make([]c14StateSpec, n)
	for i := range specs {
		switch rapid.SampledFrom([]string{"silent", "messaging", "messaging", "any"}).Draw(t, "stateKind") {
		case "silent":
			specs[i] = c14StateSpec{0, 0}
		case "messaging":
			specs[i] = c14StateSpec{uint64(rapid.IntRange(0, 2).Draw(t, "delay")), uint64(rapid.IntRange(1, 4).Draw(t, "active"))}
		default:
			specs[i] = c14StateSpec{uint64(rapid.IntRange(0, 4).Draw(t, "delay")), uint64(rapid.IntRange(0, 4).Draw(t, "active"))}
		}
	}
	return specs
}

func c14GenSlow(t *rapid.T, specs []c14StateSpec) []uint64 {
	slow := make([]uint64, len(specs))
	for i, sp := range specs {
		switch rapid.SampledFrom([]string{"fast", "fast", "fast", "slow", "slow", "overrun"}).Draw(t, "initiation") {
		case "slow":
			if sp.active >= 2 {
				slow[i] = uint64(rapid.IntRange(1, int(sp.active)-1).Draw(t, "slowBlocks"))
			}
		case "overrun":
			slow[i] = sp.active + uint64(rapid.IntRange(0, 2).Draw(t, "overrunBlocks"))
		}
	}
	return slow
}

func c14Render(specs []c14StateSpec) string {
	var p []string
	for _, s := range specs {
		p = append(p, fmt.Sprintf("%d+%d", s.delay, s.active))
	}
	return strings.Join(p, ",")
}

// TestVerif_C14_Windows: 1..3 members run the same generated protocol on the
// real SyncMachine over a block counter and channel owned by the harness.
func TestVerif_C14_Windows(t *testing.T) {
	st := verifkit.New("C14", "TestVerif_C14_Windows")
	defer st.Flush()
	rapid.Check(t, func(t *rapid.T) {
		specs := c14GenSpecs(t)
		start := uint64(rapid.IntRange(3, 50_000).Draw(t, "start"))
		// the member usually gets ready a few blocks before the start block,
		// sometimes only after it
		h0 := uint64(int(start) - rapid.IntRange(-2, 3).Draw(t, "blocksBeforeStart"))
		members := rapid.IntRange(1, 3).Draw(t, "members")
		bc := verifkit.NewFakeBlockCounter(h0)
		machines := make([]*c14Machine, members)
		models := make([]c14Model, members)
		for i := range machines {
			m := &c14Machine{id: i + 1, bc: bc, ch: &c14Channel{}, specs: specs, slow: c14GenSlow(t, specs)}
			n := len(specs)
			m.initCall, m.initRet, m.nextCall = make([]uint64, n), make([]uint64, n), make([]uint64, n)
			m.initCount, m.receives = make([]int, n), make([][]int, n)
			m.cur = &c14State{m: m, idx: 0, phase: "created"}
			m.states = []*c14State{m.cur}
			machines[i] = m
			models[i] = c14Predict(start, h0, specs, m.slow)
		}
		var total uint64
		for _, sp := range specs {
			total += sp.delay + sp.active
		}
		endBlock := start + total
		lastCall := endBlock
		for _, md := range models {
			lastCall = max(lastCall, md.nextCall[len(specs)-1])
		}
		// message plan: at every height where, on every machine, the state
		// whose handler is registered is one that is guaranteed to drain its
		// buffer before its end block (see notes: the select between a
		// buffered message and the end-of-state block is a documented race)
		plan := map[uint64]int{}
		msgDuringDelay, msgBeforeStart := false, false
		bursts, burstOutsideLoop := 0, false
		for h := h0; h < lastCall; h++ {
			ok := true
			for _, md := range models {
				c := md.current(h)
				if c < 0 || !md.safe[c] {
					ok = false
				}
			}
			if !ok {
				continue
			}
			k := rapid.SampledFrom([]int{0, 0, 0, 1, 1, 1, 2, 2, 3, 3, -1}).Draw(t, "messagesAtBlock")
			if k < 0 {
				// a burst larger than the machine's buffer (a big group, or
				// several message types on one channel); capped per case
				k = 0
				if bursts < 2 {
					bursts++
					k = syncReceiveBuffer + rapid.IntRange(1, 40).Draw(t, "burstBeyondBuffer")
					for _, md := range models {
						if c := md.current(h); h < md.initRet[c] {
							burstOutsideLoop = true
						}
					}
				}
			}
			if k > 0 {
				plan[h] = k
				if h < start {
					msgBeforeStart = true
				}
				for _, md := range models {
					if c := md.current(h); h < md.I[c] {
						msgDuringDelay = true
					}
				}
			}
		}
		slowInit, overrun := false, false
		for i, m := range machines {
			for s, k := range m.slow {
				if k > 0 && models[i].safe[s] {
					slowInit = true
				}
				if k > 0 && !models[i].safe[s] {
					overrun = true
				}
			}
		}
		desc := fmt.Sprintf("states[%s] start=%d h0=%d members=%d", c14Render(specs), start, h0, members)
		for _, m := range machines {
			desc += fmt.Sprintf(" slow%d=%v", m.id, m.slow)
		}

		for _, m := range machines {
			m := m
			go func() {
				sm := NewSyncMachine(&testutils.MockLogger{}, m.ch, bc, m.states[0])
				final, end, err := sm.Execute(start)
				m.mu.Lock()
				m.final, m.endBlock, m.err, m.done = final, end, err, true
				m.mu.Unlock()
			}()
		}
		nextID := 1
		probes := 0
		quiesce := func(what string) {
			ok := verifkit.Eventually(c14Wait, func() bool {
				doneCount := 0
				for _, m := range machines {
					m.mu.Lock()
					if m.done {
						doneCount++
					}
					m.mu.Unlock()
				}
				if p, _ := bc.Pending(); p+doneCount != len(machines) {
					return false
				}
				all := true
				for _, m := range machines {
					ok, stuck := m.settled()
					if !ok {
						all = false
					}
					if stuck && m.unsettled%200 == 0 {
						// the last hand-over stays unacknowledged: one more
						// message for this member settles it - it queues up
						// behind whatever is still buffered, and if it is
						// received while earlier ones are not, those are lost
						// (decided by the comparison at the end, not here)
						probe := &c14Msg{id: nextID}
						m.expect = append(m.expect, [2]uint64{uint64(nextID), bc.Height()})
						nextID++
						probes++
						m.ch.deliver(probe)
					}
				}
				return all
			})
			if !ok {
				fmt.Println("VERIF-INCONCLUSIVE: state machines did not settle " + what)
				t.Fatalf("VERIF-INCONCLUSIVE: machines did not settle %s; %s", what, desc)
			}
		}
		allDone := func() bool {
			for _, m := range machines {
				m.mu.Lock()
				d := m.done
				m.mu.Unlock()
				if !d {
					return false
				}
			}
			return true
		}
		defer bc.AdvanceTo(lastCall + 64) // releases anything still waiting
		var deliveries []string
		for {
			quiesce(fmt.Sprintf("at block %d", bc.Height()))
			if allDone() {
				break
			}
			h := bc.Height()
			if h > lastCall+2 {
				t.Fatalf("a machine is still running at block %d; the protocol ends at block %d (last call expected at %d); %s", h, endBlock, lastCall, desc)
			}
			for k := 0; k < plan[h]; k++ {
				msg := &c14Msg{id: nextID}
				for _, m := range machines {
					m.expect = append(m.expect, [2]uint64{uint64(nextID), h})
				}
				nextID++
				for _, m := range machines {
					m.ch.deliver(msg)
				}
			}
			if plan[h] > 0 {
				deliveries = append(deliveries, fmt.Sprintf("%d@%d", plan[h], h-start))
				quiesce(fmt.Sprintf("after delivering at block %d", h))
			}
			bc.Advance(1)
		}
		desc += " msgs(count@block-start)=" + strings.Join(deliveries, ",")

		// ---- compare with the model
		for i, m := range machines {
			md := models[i]
			if m.err != nil {
				t.Fatalf("member %d: Execute failed: %v; %s", m.id, m.err, desc)
			}
			if m.endBlock != endBlock {
				t.Fatalf("member %d: Execute reports end block %d, expected start + total duration = %d + %d = %d; %s", m.id, m.endBlock, start, total, endBlock, desc)
			}
			if fs, ok := m.final.(*c14State); !ok || fs.idx != len(specs)-1 {
				t.Fatalf("member %d: final state %v is not the last state of the protocol; %s", m.id, m.final, desc)
			}
			if len(m.states) != len(specs) {
				t.Fatalf("member %d: %d states entered, the protocol has %d; %s", m.id, len(m.states), len(specs), desc)
			}
			for s := range specs {
				if m.initCount[s] != 1 {
					t.Fatalf("member %d: state %d initiated %d times; %s", m.id, s, m.initCount[s], desc)
				}
				if m.initCall[s] < md.I[s] {
					t.Fatalf("member %d: state %d initiated at block %d, before the end of the previous state + delay = %d; %s", m.id, s, m.initCall[s], md.I[s], desc)
				}
				if m.initCall[s] != md.initCall[s] {
					t.Fatalf("member %d: state %d initiated at block %d, expected %d (previous end %d + delay %d; previous state left at %d); %s",
						m.id, s, m.initCall[s], md.initCall[s], md.I[s]-specs[s].delay, specs[s].delay, c14Prev(md.nextCall, s, start), desc)
				}
				if m.nextCall[s] < md.E[s] {
					t.Fatalf("member %d: state %d left at block %d, before its end block %d; %s", m.id, s, m.nextCall[s], md.E[s], desc)
				}
				if m.nextCall[s] != md.nextCall[s] {
					t.Fatalf("member %d: state %d left at block %d, expected %d (end block %d, initiation returned at %d); %s", m.id, s, m.nextCall[s], md.nextCall[s], md.E[s], md.initRet[s], desc)
				}
			}
			// messages: every delivered message is received exactly once, by
			// the state that was current when it was delivered, in order
			want := make([][]int, len(specs))
			for _, e := range m.expect {
				id := int(e[0])
				c := md.current(e[1])
				want[c] = append(want[c], id)
			}
			if len(m.ch.lost) > 0 {
				t.Fatalf("member %d: messages %v were delivered while no handler of the machine was registered (lost); %s", m.id, m.ch.lost, desc)
			}
			for s := range specs {
				if fmt.Sprint(m.receives[s]) != fmt.Sprint(want[s]) {
					at := 0
					for at < len(want[s]) && at < len(m.receives[s]) && want[s][at] == m.receives[s][at] {
						at++
					}
					t.Fatalf("member %d: state %d received %d messages, %d arrived while it was current (each must be handed to it exactly once, in order); first difference at position %d: arrived %v.. received %v..; received per state: %v; %s",
						m.id, s, len(m.receives[s]), len(want[s]), at, c14Head(want[s][at:]), c14Head(m.receives[s][at:]), c14Counts(m.receives), desc)
				}
			}
		}
		nt := slowInit && msgDuringDelay
		st.Case(nt, desc, fmt.Sprintf("slow-initiation:%v", slowInit), fmt.Sprintf("overrun:%v", overrun), fmt.Sprintf("msg-during-delay:%v", msgDuringDelay),
			fmt.Sprintf("msg-before-start:%v", msgBeforeStart), fmt.Sprintf("members:%d", members), fmt.Sprintf("late-join:%v", h0 > start), fmt.Sprintf("messages:%v", nextID > 1),
			fmt.Sprintf("burst-beyond-buffer:%v", bursts > 0), fmt.Sprintf("extra-probes:%v", probes > 0), fmt.Sprintf("burst-while-not-receiving:%v", burstOutsideLoop))
	})
}

func c14Prev(next []uint64, s int, start uint64) uint64 {
	if s == 0 {
		return start
	}
	return next[s-1]
}

func c14Head(l []int) []int {
	if len(l) > 6 {
		return l[:6]
	}
	return l
}

func c14Counts(r [][]int) []int {
	out := make([]int, len(r))
	for i, l := range r {
		out[i] = len(l)
	}
	return out
}
