//go:build go1.23

package state

import (
	"context"
	"errors"
	"fmt"
	"strings"
	"sync"
	"sync/atomic"
	"testing"
	"time"

	"github.com/keep-network/keep-core/internal/testutils"
	"github.com/keep-network/keep-core/internal/verifkit"
	"github.com/keep-network/keep-core/pkg/net"
	"github.com/keep-network/keep-core/pkg/protocol/group"
	"pgregory.net/rapid"
)

const c15Wait = 60 * time.Second

// ---- channel endpoint and messages ----------------------------------------------

type c15Channel struct {
	mu       sync.Mutex
	handlers []c15Handler

	// delayRecv: the registration of a receiver takes a while (the harness
	// decides how long); recvCalled is closed when Recv was entered
	delayRecv  bool
	recvCalled chan struct{}
	recvGate   chan struct{}

	attempted atomic.Int64 // deliveries handed to (or attempted on) handlers
	ownLost   atomic.Bool  // a message sent by a state found no receiver
	sent      []c15Sent    // what the member's states broadcast, with the context they (re)transmit under
}

type c15Sent struct {
	id  int
	ctx context.Context
}

type c15Handler struct {
	ctx context.Context
	fn  func(net.Message)
}

// c15Own is what the initial toy state broadcasts from its Initiate.
type c15Own struct{ id int }

func (o *c15Own) Type() string             { return "c15/own" }
func (o *c15Own) Marshal() ([]byte, error) { return []byte{byte(o.id)}, nil }

func (c *c15Channel) Name() string { return "c15" }

// Send loops the member's own message back to its receivers, like the
// production channels do. As in production, a message published while no
// receiver is registered is not delivered later.
func (c *c15Channel) Send(ctx context.Context, m net.TaggedMarshaler, s ...net.RetransmissionStrategy) error {
	own := m.(*c15Own)
	c.mu.Lock()
	c.sent = append(c.sent, c15Sent{own.id, ctx})
	c.mu.Unlock()
	if c.deliver(&c15Msg{typ: own.Type(), id: own.id}) == 0 {
		c.ownLost.Store(true)
	}
	return nil
}

func (c *c15Channel) Recv(ctx context.Context, handler func(m net.Message)) {
	if c.delayRecv {
		close(c.recvCalled)
		<-c.recvGate
	}
	c.mu.Lock()
	c.handlers = append(c.handlers, c15Handler{ctx, handler})
	c.mu.Unlock()
}
func (c *c15Channel) SetUnmarshaler(unmarshaler func() net.TaggedUnmarshaler) {}
func (c *c15Channel) SetFilter(filter net.BroadcastChannelFilter) error       { return nil }

// deliver returns the number of live handlers the message was handed to.
func (c *c15Channel) deliver(m net.Message) int {
	c.mu.Lock()
	var live []c15Handler
	for _, h := range c.handlers {
		if h.ctx.Err() == nil {
			live = append(live, h)
		}
	}
	c.mu.Unlock()
	for _, h := range live {
		c.attempted.Add(1)
		h.fn(m)
	}
	return len(live)
}

type c15Payload struct{ id int }

type c15Msg struct {
	typ string
	id  int
	seq uint64
}

func (m *c15Msg) TransportSenderID() net.TransportIdentifier { return nil }
func (m *c15Msg) SenderPublicKey() []byte                    { return []byte{2} }
func (m *c15Msg) Payload() interface{}                       { return &c15Payload{m.id} }
func (m *c15Msg) Type() string                               { return m.typ }
func (m *c15Msg) Seqno() uint64                              { return m.seq }

func c15Type(state int) string { return fmt.Sprintf("c15/state-%d", state) }

// ---- plan -------------------------------------------------------------------------

// one delivery of a message: which message (type = state it is meant for,
// id), in which phase (= while which state is current) and whether before or
// after that state's initiation finished.
type c15Delivery struct {
	forState  int
	id        int
	afterInit bool
	dup       bool
}

type c15Plan struct {
	states int
	need   []int           // messages of its own type sent to the state
	slow   []bool          // the state's initiation lasts longer than the transition check interval
	phases [][]c15Delivery // deliveries while state p is current, in order
	// ending: "final" | "init-error" | "next-error" | "cancel-during-init" |
	// "init-error-under-traffic" (the initiation fails while the machine is
	// busy inside Receive) |
	// "cancel-before-allow" | "cancel-under-traffic" (the run is cancelled
	// while the machine is busy inside Receive and `queued` more messages are
	// waiting, so cancellation competes with everything else that is ready)
	ending   string
	endState int
	queued   int
	// slowRecv: installing the receiver takes a while
	slowRecv bool
	// burstState >= 0: while that state is current a Receive is parked and
	// burst (> asyncReceiveBuffer) messages arrive meanwhile
	burstState int
	burst      int
}

func (p *c15Plan) String() string {
	var b strings.Builder
	fmt.Fprintf(&b, "states=%d need=%v slow=%v end=%s@%d", p.states, p.need, c15Bits(p.slow), p.ending, p.endState)
	if p.ending == "cancel-under-traffic" {
		fmt.Fprintf(&b, "(+%d queued)", p.queued)
	}
	if p.slowRecv {
		b.WriteString(" slow-recv")
	}
	if p.burstState >= 0 {
		fmt.Fprintf(&b, " burst=%d@%d", p.burst, p.burstState)
	}
	for ph, ds := range p.phases {
		if len(ds) == 0 {
			continue
		}
		fmt.Fprintf(&b, " |during %d:", ph)
		for _, d := range ds {
			mark := ""
			if d.afterInit {
				mark = "'"
			}
			if d.dup {
				mark += "*"
			}
			fmt.Fprintf(&b, " m%d→s%d%s", d.id, d.forState, mark)
		}
	}
	return b.String()
}

func c15Bits(l []bool) string {
	var b strings.Builder
	for _, v := range l {
		if v {
			b.WriteByte('1')
		} else {
			b.WriteByte('0')
		}
	}
	return b.String()
}

func c15GenPlan(t *rapid.T, label string) *c15Plan {
	p := &c15Plan{states: rapid.IntRange(2, 5).Draw(t, label+"states")}
	p.need = make([]int, p.states)
	p.slow = make([]bool, p.states)
	p.phases = make([][]c15Delivery, p.states)
	id := 1
	type first struct{ forState, id, phase int }
	var firsts []first
	for s := 0; s < p.states; s++ {
		p.need[s] = rapid.IntRange(0, 3).Draw(t, label+"need")
		p.slow[s] = rapid.IntRange(0, 3).Draw(t, label+"slowInitiation") == 0
		for k := 0; k < p.need[s]; k++ {
			// the sender may be far ahead: the message can arrive while any
			// earlier state (or the state itself) is current
			phase := rapid.IntRange(0, s).Draw(t, label+"arrivesDuring")
			if rapid.Bool().Draw(t, label+"onTime") {
				phase = s
			}
			firsts = append(firsts, first{s, id, phase})
			id++
		}
	}
	// messages nobody needs (for a state of a longer protocol / of no state)
	for k := rapid.IntRange(0, 2).Draw(t, label+"noise"); k > 0; k-- {
		firsts = append(firsts, first{p.states + rapid.IntRange(0, 1).Draw(t, label+"noiseState"), id, rapid.IntRange(0, p.states-1).Draw(t, label+"noisePhase")})
		id++
	}
	for ph := 0; ph < p.states; ph++ {
		var ds []c15Delivery
		for _, f := range firsts {
			if f.phase == ph {
				ds = append(ds, c15Delivery{forState: f.forState, id: f.id, afterInit: rapid.Bool().Draw(t, label+"afterInit")})
			}
			// retransmissions / duplicates of something delivered earlier
			if f.phase < ph && rapid.IntRange(0, 5).Draw(t, label+"dup") == 0 {
				ds = append(ds, c15Delivery{forState: f.forState, id: f.id, afterInit: rapid.Bool().Draw(t, label+"afterInit"), dup: true})
			}
		}
		if len(ds) > 1 {
			ds = rapid.Permutation(ds).Draw(t, label+"order")
		}
		// before-initiation deliveries first, then the others (stable)
		var before, after []c15Delivery
		for _, d := range ds {
			if d.afterInit {
				after = append(after, d)
			} else {
				before = append(before, d)
			}
		}
		p.phases[ph] = append(before, after...)
	}
	p.ending = rapid.SampledFrom([]string{"final", "final", "final", "final", "init-error", "next-error", "cancel-during-init", "cancel-before-allow",
		"cancel-under-traffic", "cancel-under-traffic", "cancel-under-traffic", "init-error-under-traffic", "init-error-under-traffic"}).Draw(t, label+"ending")
	p.queued = rapid.IntRange(0, 2).Draw(t, label+"queuedBehindBusyReceive")
	p.slowRecv = rapid.IntRange(0, 2).Draw(t, label+"slowReceiverRegistration") == 0
	p.burstState = -1
	if p.ending != "cancel-under-traffic" && p.ending != "init-error-under-traffic" && rapid.IntRange(0, 3).Draw(t, label+"burst") == 0 {
		p.burstState = rapid.IntRange(0, p.endState).Draw(t, label+"burstState")
		p.burst = asyncReceiveBuffer + rapid.IntRange(1, 40).Draw(t, label+"burstBeyondBuffer")
	}
	p.endState = p.states - 1
	if p.ending != "final" {
		p.endState = rapid.IntRange(0, p.states-1).Draw(t, label+"endState")
	}
	return p
}

// ---- toy protocol over the real BaseAsyncState ---------------------------------

type c15Event struct {
	kind  string // init-start | init-end | can | recv | next
	state int
	id    int  // message id for recv
	ok    bool // answer of can
}

type c15Chain struct {
	plan *c15Plan
	base *BaseAsyncState

	mu            sync.Mutex
	events        []c15Event
	visibleAtInit map[int][]int
	visibleAtTrue map[int][]int

	initStarted []chan struct{}
	initEnded   []chan struct{}
	gate        []chan struct{}
	allow       []atomic.Bool
	acks        chan struct{}
	states      []*c15State

	ch *c15Channel
	// sentinel: closed when the message with sentinelID was received
	sentinelID   int
	sentinelSeen chan struct{}
	received     atomic.Int64

	// a message with this id parks the machine inside Receive until released
	blockID     int
	recvEntered chan struct{}
	recvRelease chan struct{}
}

type c15State struct {
	c   *c15Chain
	idx int
}

var errC15Init = errors.New("c15: injected initiation failure")
var errC15Next = errors.New("c15: injected transition failure")

func (c *c15Chain) event(e c15Event) {
	c.mu.Lock()
	c.events = append(c.events, e)
	c.mu.Unlock()
}

func (c *c15Chain) visible(state int) []int {
	var ids []int
	for _, p := range ExtractMessagesPayloads[*c15Payload](c.base, c15Type(state)) {
		ids = append(ids, p.id)
	}
	return ids
}

func (s *c15State) MemberIndex() group.MemberIndex { return 1 }

func (s *c15State) Initiate(ctx context.Context) error {
	c := s.c
	c.event(c15Event{kind: "init-start", state: s.idx})
	// the first thing a state does: broadcast its message (looped back to the
	// member itself; retransmitted by the channel for as long as ctx lives)
	_ = c.ch.Send(ctx, &c15Own{id: c15OwnID + s.idx})
	close(c.initStarted[s.idx])
	select {
	case <-c.gate[s.idx]:
	case <-ctx.Done():
		return ctx.Err()
	}
	vis := c.visible(s.idx)
	c.mu.Lock()
	c.visibleAtInit[s.idx] = vis
	c.mu.Unlock()
	c.event(c15Event{kind: "init-end", state: s.idx})
	close(c.initEnded[s.idx])
	if (c.plan.ending == "init-error" || c.plan.ending == "init-error-under-traffic") && c.plan.endState == s.idx {
		return errC15Init
	}
	return nil
}

// CanTransition answers true once the harness allows it. What the state can
// see of its own messages at that moment is recorded and compared with what
// was admitted (a state that could not see them would be stuck in a real
// protocol; here that shows up as a wrong snapshot, not as a stall).
func (s *c15State) CanTransition() bool {
	c := s.c
	ok := false
	if c.allow[s.idx].Load() {
		ok = true
		vis := c.visible(s.idx)
		c.mu.Lock()
		c.visibleAtTrue[s.idx] = vis
		c.mu.Unlock()
	}
	c.event(c15Event{kind: "can", state: s.idx, ok: ok})
	return ok
}

func (s *c15State) Receive(msg net.Message) error {
	c := s.c
	id := msg.Payload().(*c15Payload).id
	c.event(c15Event{kind: "recv", state: s.idx, id: id})
	c.base.ReceiveToHistory(msg)
	c.received.Add(1)
	if id == c.sentinelID {
		close(c.sentinelSeen)
	}
	if id == c.blockID {
		close(c.recvEntered)
		<-c.recvRelease
	}
	c.acks <- struct{}{}
	return nil
}

func (s *c15State) Next() (AsyncState, error) {
	c := s.c
	c.event(c15Event{kind: "next", state: s.idx})
	if c.plan.ending == "next-error" && c.plan.endState == s.idx {
		return nil, errC15Next
	}
	if s.idx == c.plan.states-1 {
		return nil, nil
	}
	n := &c15State{c: c, idx: s.idx + 1}
	c.mu.Lock()
	c.states = append(c.states, n)
	c.mu.Unlock()
	return n, nil
}

// ---- running one chain -----------------------------------------------------------

type c15Outcome struct {
	final        AsyncState
	err          error
	delivered    []c15Delivery // in delivery order, with the phase in `phaseOf`
	phaseOf      []int
	beforeInit   []bool
	inconclusive string
	violation    string
	optionalTail int // the last deliveries raced with the cancellation
}

func c15Run(plan *c15Plan) (*c15Chain, *c15Outcome) {
	n := plan.states
	c := &c15Chain{plan: plan, base: NewBaseAsyncState(), visibleAtInit: map[int][]int{}, visibleAtTrue: map[int][]int{},
		initStarted: make([]chan struct{}, n), initEnded: make([]chan struct{}, n), gate: make([]chan struct{}, n),
		allow: make([]atomic.Bool, n), acks: make(chan struct{}, 4096), blockID: -1, sentinelID: -1,
		sentinelSeen: make(chan struct{}), recvEntered: make(chan struct{}), recvRelease: make(chan struct{})}
	for i := 0; i < n; i++ {
		c.initStarted[i], c.initEnded[i], c.gate[i] = make(chan struct{}), make(chan struct{}), make(chan struct{})
	}
	if plan.ending == "cancel-under-traffic" || plan.ending == "init-error-under-traffic" {
		c.blockID = 1000 + plan.endState
	} else if plan.burstState >= 0 {
		c.blockID = 3000 + plan.burstState
		c.sentinelID = 4000 + plan.burstState
	}
	out := &c15Outcome{}
	ctx, cancel := context.WithCancel(context.Background())
	defer cancel()
	ch := &c15Channel{delayRecv: plan.slowRecv, recvCalled: make(chan struct{}), recvGate: make(chan struct{})}
	c.ch = ch
	first := &c15State{c: c, idx: 0}
	c.states = []*c15State{first}
	type result struct {
		final AsyncState
		err   error
	}
	done := make(chan result, 1)
	go func() {
		f, err := NewAsyncMachine(&testutils.MockLogger{}, ctx, ch, first).Execute()
		done <- result{f, err}
	}()
	gateOpen := make([]bool, n)
	released := false
	defer func() {
		// release whatever may still be parked
		cancel()
		if !released {
			close(c.recvRelease)
		}
		for i := 0; i < n; i++ {
			if !gateOpen[i] {
				close(c.gate[i])
			}
		}
	}()
	finished := false
	waitFor := func(what string, sig <-chan struct{}) bool {
		select {
		case <-sig:
			return true
		case r := <-done:
			out.final, out.err, finished = r.final, r.err, true
			return false
		case <-time.After(c15Wait):
			out.inconclusive = "timeout waiting for " + what
			return false
		}
	}
	seq := uint64(0)
	deliver := func(d c15Delivery, phase int, before bool) bool {
		seq++
		if ch.deliver(&c15Msg{typ: c15Type(d.forState), id: d.id, seq: seq}) == 0 {
			out.violation = fmt.Sprintf("message m%d delivered while state %d is current found no registered handler (lost)", d.id, phase)
			return false
		}
		out.delivered = append(out.delivered, d)
		out.phaseOf = append(out.phaseOf, phase)
		out.beforeInit = append(out.beforeInit, before)
		return waitFor(fmt.Sprintf("Receive of m%d", d.id), c.acks)
	}
	// awaitEnd waits for Execute to return; `after` is the state at which the
	// run must end: the machine initiating the following state instead is a
	// violation (seen at once, no timeout involved).
	awaitEnd := func(after int) {
		if finished {
			return
		}
		var nextStarted <-chan struct{}
		if after+1 < n {
			nextStarted = c.initStarted[after+1]
		}
		select {
		case r := <-done:
			out.final, out.err, finished = r.final, r.err, true
		case <-nextStarted:
			out.violation = fmt.Sprintf("state %d was initiated although the run had to end at state %d (%s)", after+1, after, plan.ending)
		case <-time.After(c15Wait):
			out.inconclusive = "timeout waiting for Execute to return"
		}
	}
	if plan.slowRecv {
		// the receiver registration is in progress for a while; the unchanged
		// machine does nothing else meanwhile (a schedule, not a verdict)
		if waitFor("the machine to register its receiver", ch.recvCalled) {
			select {
			case <-c.initStarted[0]:
			case <-time.After(transitionCheckInterval / 5):
			}
			close(ch.recvGate)
		}
	}
	for p := 0; p < n && !finished && out.inconclusive == "" && out.violation == ""; p++ {
		if !waitFor(fmt.Sprintf("Initiate of state %d", p), c.initStarted[p]) {
			break
		}
		{
			// the state broadcast its own message when its initiation started:
			// sent after Execute was called, so it must be received
			if ch.ownLost.Load() {
				out.violation = fmt.Sprintf("the message state %d sent from its Initiate found no registered receiver: the machine was not listening (lost)", p)
				break
			}
			out.delivered = append(out.delivered, c15Delivery{forState: n + 7, id: c15OwnID + p})
			out.phaseOf = append(out.phaseOf, p)
			out.beforeInit = append(out.beforeInit, true)
			if !waitFor(fmt.Sprintf("Receive of state %d's own message", p), c.acks) {
				break
			}
		}
		ok := true
		for _, d := range plan.phases[p] {
			if !d.afterInit {
				if ok = deliver(d, p, true); !ok {
					break
				}
			}
		}
		if !ok {
			break
		}
		if plan.ending == "cancel-during-init" && plan.endState == p {
			cancel()
			awaitEnd(p)
			break
		}
		if plan.ending == "init-error-under-traffic" && plan.endState == p {
			// the initiation fails at the moment the machine's loop is busy
			// inside Receive: the failure has to wait for the loop, it must
			// not get lost
			seq++
			out.delivered = append(out.delivered, c15Delivery{forState: n + 5, id: c.blockID})
			out.phaseOf = append(out.phaseOf, p)
			out.beforeInit = append(out.beforeInit, true)
			if ch.deliver(&c15Msg{typ: c15Type(n + 5), id: c.blockID, seq: seq}) == 0 {
				out.violation = fmt.Sprintf("message delivered while state %d is current found no registered handler (lost)", p)
				break
			}
			if !waitFor("the machine to enter Receive", c.recvEntered) {
				break
			}
			close(c.gate[p])
			gateOpen[p] = true
			if !waitFor(fmt.Sprintf("end of Initiate of state %d", p), c.initEnded[p]) {
				break
			}
			// the transition routine gets a moment to report the failure (a
			// schedule, not a verdict), then the loop is let go
			time.Sleep(transitionCheckInterval / 4)
			close(c.recvRelease)
			released = true
			if !waitFor("the end of the long Receive", c.acks) {
				break
			}
			// Decided by events only: the pending failure competes with at
			// most one queued message per round, and a select picks among
			// ready cases uniformly - if the machine takes c15Rounds messages
			// in a row and still has not reported the failure, the failure
			// is gone (chance of that with the failure pending: 2^-c15Rounds).
			for k := 0; k < c15Rounds && !finished && out.inconclusive == ""; k++ {
				seq++
				out.delivered = append(out.delivered, c15Delivery{forState: n + 6, id: 5000 + k, afterInit: true})
				out.phaseOf = append(out.phaseOf, p)
				out.beforeInit = append(out.beforeInit, false)
				out.optionalTail++
				ch.deliver(&c15Msg{typ: c15Type(n + 6), id: 5000 + k, seq: seq})
				waitFor("the failed initiation to be reported", c.acks)
			}
			if !finished && out.inconclusive == "" {
				out.violation = fmt.Sprintf("the initiation of state %d failed while the machine was busy receiving; the machine went on receiving %d more messages and never reported the failure", p, c15Rounds)
			}
			break
		}
		if plan.slow[p] {
			// the initiation outlasts a couple of transition checks (a
			// schedule, not a verdict: nothing may happen meanwhile)
			time.Sleep(transitionCheckInterval * 5 / 2)
		}
		close(c.gate[p])
		gateOpen[p] = true
		if !waitFor(fmt.Sprintf("end of Initiate of state %d", p), c.initEnded[p]) {
			break
		}
		if plan.ending == "init-error" && plan.endState == p {
			awaitEnd(p)
			break
		}
		if plan.burstState == p {
			// a lagging member: one Receive takes long, meanwhile more
			// messages than the machine's buffer holds arrive. The network
			// delivers from its own routine (the production handler blocks
			// when the buffer is full).
			note := func(d c15Delivery) {
				out.delivered = append(out.delivered, d)
				out.phaseOf = append(out.phaseOf, p)
				out.beforeInit = append(out.beforeInit, false)
			}
			r0 := c.received.Load()
			seq++
			note(c15Delivery{forState: n + 5, id: c.blockID, afterInit: true})
			ch.deliver(&c15Msg{typ: c15Type(n + 5), id: c.blockID, seq: seq})
			if !waitFor("the machine to enter Receive", c.recvEntered) {
				break
			}
			base := ch.attempted.Load()
			burstDone := make(chan struct{})
			first := seq + 1
			for k := 0; k < plan.burst; k++ {
				seq++
				note(c15Delivery{forState: n + 6, id: 10000 + k, afterInit: true})
			}
			go func() {
				for k := 0; k < plan.burst; k++ {
					ch.deliver(&c15Msg{typ: c15Type(n + 6), id: 10000 + k, seq: first + uint64(k)})
				}
				close(burstDone)
			}()
			// more than a buffer-full has been handed over (the last one is
			// blocked in the handler or - if messages get dropped - gone)
			if !verifkit.Eventually(c15Wait, func() bool { return ch.attempted.Load()-base > int64(asyncReceiveBuffer) }) {
				out.inconclusive = "burst delivery did not reach the buffer size"
				break
			}
			time.Sleep(transitionCheckInterval / 20)
			before := c.received.Load()
			close(c.recvRelease)
			released = true
			if !waitFor("the burst to be handed over", burstDone) {
				break
			}
			if !verifkit.Eventually(c15Wait, func() bool { return c.received.Load() > before }) {
				out.inconclusive = "machine did not go on receiving after the long Receive"
				break
			}
			// channels are FIFO: once this one is through, everything
			// admitted before it has been handed to Receive
			seq++
			note(c15Delivery{forState: n + 6, id: c.sentinelID, afterInit: true})
			ch.deliver(&c15Msg{typ: c15Type(n + 6), id: c.sentinelID, seq: seq})
			if !waitFor("the message after the burst", c.sentinelSeen) {
				break
			}
			// take the acknowledgements of what was received out of the way
			drained := true
			for k := c.received.Load() - r0; k > 0 && drained; k-- {
				drained = waitFor("acknowledgements of the burst", c.acks)
			}
			if !drained {
				break
			}
		}
		for _, d := range plan.phases[p] {
			if d.afterInit {
				if ok = deliver(d, p, false); !ok {
					break
				}
			}
		}
		if !ok {
			break
		}
		if plan.ending == "cancel-before-allow" && plan.endState == p {
			cancel()
			awaitEnd(p)
			break
		}
		if plan.ending == "cancel-under-traffic" && plan.endState == p {
			// a message parks the machine's loop inside Receive; more
			// messages queue up behind it; the run is cancelled; the
			// transition routine gets time to notice (a schedule, not a
			// verdict); then the loop is let go and finds cancellation
			// competing with whatever else is ready
			seq++
			blocker := c15Delivery{forState: n + 5, id: c.blockID, afterInit: true}
			if ch.deliver(&c15Msg{typ: c15Type(blocker.forState), id: blocker.id, seq: seq}) == 0 {
				out.violation = fmt.Sprintf("message delivered while state %d is current found no registered handler (lost)", p)
				break
			}
			out.delivered = append(out.delivered, blocker)
			out.phaseOf = append(out.phaseOf, p)
			out.beforeInit = append(out.beforeInit, false)
			if !waitFor("the machine to enter Receive", c.recvEntered) {
				break
			}
			for k := 0; k < plan.queued; k++ {
				seq++
				d := c15Delivery{forState: n + 6, id: 2000 + k, afterInit: true}
				ch.deliver(&c15Msg{typ: c15Type(d.forState), id: d.id, seq: seq})
				out.delivered = append(out.delivered, d)
				out.phaseOf = append(out.phaseOf, p)
				out.beforeInit = append(out.beforeInit, false)
				out.optionalTail++
			}
			cancel()
			time.Sleep(transitionCheckInterval / 4)
			close(c.recvRelease)
			released = true
			awaitEnd(p)
			break
		}
		c.allow[p].Store(true)
		if (plan.ending == "next-error" && plan.endState == p) || p == n-1 {
			awaitEnd(p)
			break
		}
	}
	if !finished && out.inconclusive == "" && out.violation == "" {
		awaitEnd(n - 1)
	}
	// A member that is done keeps serving the slower ones: what its states
	// broadcast is retransmitted under the context they were given, which
	// has to live as long as the CALLER's context - not just until Execute
	// returns (Requirement 1 of AsyncState). A late member picks the
	// messages up from those retransmissions only.
	if finished && out.violation == "" && ctx.Err() == nil {
		ch.mu.Lock()
		for _, snt := range ch.sent {
			if snt.ctx.Err() != nil {
				out.violation = fmt.Sprintf("Execute returned (%v) and the caller's context is still alive, but the context under which message m%d is retransmitted is already cancelled: a member that is late can no longer obtain it", out.err, snt.id)
				break
			}
		}
		ch.mu.Unlock()
	}
	return c, out
}

// c15Verify compares what happened with what the property demands.
func c15Verify(c *c15Chain, out *c15Outcome) string {
	plan := c.plan
	c.mu.Lock()
	events := append([]c15Event{}, c.events...)
	states := append([]*c15State{}, c.states...)
	c.mu.Unlock()
	if out.violation != "" {
		return out.violation
	}
	// --- ordering of the state work
	initStart, initEnd, nextAt := map[int]int{}, map[int]int{}, map[int]int{}
	lastTrueCan := map[int]int{}
	var visited []int
	var recvIDs, recvStates []int
	for i, e := range events {
		switch e.kind {
		case "init-start":
			if _, dup := initStart[e.state]; dup {
				return fmt.Sprintf("state %d initiated twice", e.state)
			}
			initStart[e.state] = i
			visited = append(visited, e.state)
			if e.state > 0 {
				if _, ok := nextAt[e.state-1]; !ok {
					return fmt.Sprintf("state %d initiated before the transition out of state %d", e.state, e.state-1)
				}
			}
		case "init-end":
			initEnd[e.state] = i
		case "can":
			if _, ok := initEnd[e.state]; !ok {
				return fmt.Sprintf("CanTransition of state %d called before its Initiate returned", e.state)
			}
			if _, left := nextAt[e.state]; left {
				return fmt.Sprintf("CanTransition of state %d called after the machine left it", e.state)
			}
			if e.ok {
				lastTrueCan[e.state] = i
			}
		case "next":
			if _, dup := nextAt[e.state]; dup {
				return fmt.Sprintf("Next of state %d called twice", e.state)
			}
			if _, ok := initEnd[e.state]; !ok {
				return fmt.Sprintf("Next of state %d called before its Initiate returned", e.state)
			}
			if (plan.ending == "init-error" || plan.ending == "init-error-under-traffic") && plan.endState == e.state {
				return fmt.Sprintf("Next of state %d called although its Initiate failed", e.state)
			}
			if _, ok := lastTrueCan[e.state]; !ok {
				return fmt.Sprintf("Next of state %d called without CanTransition having answered true after the initiation", e.state)
			}
			nextAt[e.state] = i
		case "recv":
			recvIDs = append(recvIDs, e.id)
			recvStates = append(recvStates, e.state)
		}
	}
	for i, s := range visited {
		if s != i {
			return fmt.Sprintf("states visited %v: not the chain order without gaps", visited)
		}
	}
	// --- every delivered message reaches Receive exactly once, in order, at
	// the state that was current
	var wantIDs []int
	for _, d := range out.delivered {
		wantIDs = append(wantIDs, d.id)
	}
	must := len(wantIDs) - out.optionalTail
	if len(recvIDs) < must || len(recvIDs) > len(wantIDs) || fmt.Sprint(recvIDs) != fmt.Sprint(wantIDs[:len(recvIDs)]) {
		at := 0
		for at < len(recvIDs) && at < len(wantIDs) && recvIDs[at] == wantIDs[at] {
			at++
		}
		return fmt.Sprintf("%d messages delivered, %d received (each must be received exactly once, in delivery order; the last %d raced with a cancellation and may be missing); first difference at position %d: delivered %v.. received %v..",
			len(wantIDs), len(recvIDs), out.optionalTail, at, c15Head(wantIDs[at:]), c15Head(recvIDs[at:]))
	}
	for i := range recvIDs {
		if recvStates[i] != out.phaseOf[i] {
			return fmt.Sprintf("message m%d delivered while state %d was current was handed to state %d", recvIDs[i], out.phaseOf[i], recvStates[i])
		}
	}
	// --- history: what a state sees of its own type when its initiation
	// finishes = everything of that type admitted before, in order (also what
	// arrived while earlier states were current); and everything admitted so
	// far when it is allowed to move on
	for _, s := range visited {
		if _, ok := initEnd[s]; !ok {
			continue
		}
		var wantInit, wantTrue []int
		for i, d := range out.delivered {
			if d.forState != s {
				continue
			}
			if out.phaseOf[i] < s || (out.phaseOf[i] == s && out.beforeInit[i]) {
				wantInit = append(wantInit, d.id)
			}
			if out.phaseOf[i] <= s {
				wantTrue = append(wantTrue, d.id)
			}
		}
		c.mu.Lock()
		gotInit := c.visibleAtInit[s]
		gotTrue, sawTrue := c.visibleAtTrue[s]
		c.mu.Unlock()
		if fmt.Sprint(gotInit) != fmt.Sprint(wantInit) {
			return fmt.Sprintf("state %d sees messages %v of its type when its initiation finishes, admitted before that: %v", s, gotInit, wantInit)
		}
		if sawTrue && fmt.Sprint(gotTrue) != fmt.Sprint(wantTrue) {
			return fmt.Sprintf("state %d sees messages %v of its type when it may move on, admitted so far: %v", s, gotTrue, wantTrue)
		}
	}
	// --- termination
	switch plan.ending {
	case "final":
		if out.err != nil {
			return fmt.Sprintf("Execute failed with %v, expected the final state", out.err)
		}
		fs, ok := out.final.(*c15State)
		if !ok || fs != states[len(states)-1] || fs.idx != plan.states-1 {
			return fmt.Sprintf("Execute returned state %v, expected the last state %d", out.final, plan.states-1)
		}
		if len(visited) != plan.states || len(nextAt) != plan.states {
			return fmt.Sprintf("visited %v, left %d states; the chain has %d", visited, len(nextAt), plan.states)
		}
	case "init-error", "init-error-under-traffic":
		if out.final != nil || !errors.Is(out.err, errC15Init) {
			return fmt.Sprintf("Execute returned (%v, %v), expected the initiation error of state %d", out.final, out.err, plan.endState)
		}
		if len(visited) != plan.endState+1 {
			return fmt.Sprintf("visited %v although the initiation of state %d failed", visited, plan.endState)
		}
	case "next-error":
		if out.final != nil || !errors.Is(out.err, errC15Next) {
			return fmt.Sprintf("Execute returned (%v, %v), expected the transition error of state %d", out.final, out.err, plan.endState)
		}
		if len(visited) != plan.endState+1 {
			return fmt.Sprintf("visited %v although the transition out of state %d failed", visited, plan.endState)
		}
	default:
		if out.final != nil || !errors.Is(out.err, context.Canceled) {
			return fmt.Sprintf("Execute returned (%v, %v) after cancellation, expected context.Canceled", out.final, out.err)
		}
		if _, left := nextAt[plan.endState]; left {
			return fmt.Sprintf("state %d was left although the run was cancelled before it could move on", plan.endState)
		}
	}
	return ""
}

const c15OwnID = 9000

// c15Rounds: see the init-error-under-traffic ending
const c15Rounds = 64

func c15Head(l []int) []int {
	if len(l) > 6 {
		return l[:6]
	}
	return l
}

const c15Batch = 8

// TestVerif_C15_Interleavings: batches of generated delivery / initiation /
// cancellation schedules against the real AsyncMachine and BaseAsyncState.
func TestVerif_C15_Interleavings(t *testing.T) {
	st := verifkit.New("C15", "TestVerif_C15_Interleavings")
	defer st.Flush()
	rapid.Check(t, func(t *rapid.T) {
		plans := make([]*c15Plan, c15Batch)
		for i := range plans {
			plans[i] = c15GenPlan(t, fmt.Sprintf("c%d.", i))
		}
		chains := make([]*c15Chain, len(plans))
		outs := make([]*c15Outcome, len(plans))
		var wg sync.WaitGroup
		for i := range plans {
			wg.Add(1)
			go func(i int) {
				defer wg.Done()
				chains[i], outs[i] = c15Run(plans[i])
			}(i)
		}
		wg.Wait()
		for i, plan := range plans {
			if outs[i].inconclusive != "" {
				fmt.Println("VERIF-INCONCLUSIVE: " + outs[i].inconclusive)
				t.Fatalf("VERIF-INCONCLUSIVE: %s; plan %s", outs[i].inconclusive, plan)
			}
		}
		for i, plan := range plans {
			if v := c15Verify(chains[i], outs[i]); v != "" {
				t.Fatalf("%s; plan: %s; events: %s", v, plan, c15Events(chains[i]))
			}
			early, dups := false, false
			for ph, ds := range plan.phases {
				for _, d := range ds {
					if d.forState > ph && d.forState < plan.states && ph <= plan.endState {
						early = true
					}
					if d.dup {
						dups = true
					}
				}
			}
			slowInit := false
			for s, v := range plan.slow {
				if v && s <= plan.endState {
					slowInit = true
				}
			}
			st.Case(early, plan.String(), "ending:"+plan.ending, fmt.Sprintf("early-message:%v", early), fmt.Sprintf("duplicates:%v", dups), fmt.Sprintf("states:%d", plan.states), fmt.Sprintf("slow-initiation:%v", slowInit))
		}
	})
}

func c15Events(c *c15Chain) string {
	c.mu.Lock()
	defer c.mu.Unlock()
	var p []string
	for _, e := range c.events {
		switch e.kind {
		case "recv":
			p = append(p, fmt.Sprintf("recv%d(m%d)", e.state, e.id))
		case "can":
			p = append(p, fmt.Sprintf("can%d=%v", e.state, e.ok))
		default:
			p = append(p, fmt.Sprintf("%s%d", e.kind, e.state))
		}
	}
	if len(p) > 80 {
		p = append(p[:40], append([]string{"..."}, p[len(p)-39:]...)...)
	}
	return strings.Join(p, " ")
}
