//go:build go1.23

package announcer

// C12, readiness announcements: the real Announce loop runs against a fake
// channel; generated announcements (claimed index, sender network key,
// session, protocol id) are delivered, and the returned ready list is compared
// with the admission model: the receiver itself plus every index announced by
// the network key that holds it, for this protocol and session.

import (
	"context"
	"fmt"
	"testing"
	"time"

	"github.com/keep-network/keep-core/internal/testutils"
	"github.com/keep-network/keep-core/internal/verifkit"
	"github.com/keep-network/keep-core/pkg/protocol/group"
	"pgregory.net/rapid"
)

type c12Foreign struct{ senderID group.MemberIndex }

func (f *c12Foreign) Type() string { return "c12/foreign" }

const c12WaitLimit = 60 * time.Second

func TestVerif_C12_AnnouncerReadyList(t *testing.T) {
	st := verifkit.New("C12", "TestVerif_C12_AnnouncerReadyList")
	defer st.Flush()
	pool, signing := c12Pool(t)
	logger := &testutils.MockLogger{}
	const protocolID = "c12-protocol"

	rapid.Check(t, func(t *rapid.T) {
		sc := c12GenScenario(t)
		// the announcer knows no member status
		sc.ia, sc.dq = map[group.MemberIndex]bool{}, map[group.MemberIndex]bool{}
		validator := group.NewMembershipValidator(logger, sc.addresses(pool), signing)
		channel := &c12Channel{}
		announcer := New(protocolID, channel, validator)

		// the announcer knows no member status: every seat may announce
		allowed := map[group.MemberIndex]bool{}
		for i := 1; i <= sc.n; i++ {
			allowed[group.MemberIndex(i)] = true
		}
		r := &c12Receiver{
			name: "announce", kindNames: []string{"announcement", "announcementOfOtherProtocol", "foreign"},
			ownKinds: []int{0}, allowed: allowed,
			build: func(t *rapid.T, m c12Msg, _ []byte) (interface{}, string, bool, string) {
				switch m.kind {
				case 0:
					p := &announcementMessage{senderID: m.idx, protocolID: protocolID, sessionID: m.session}
					return p, p.Type(), true, ""
				case 1:
					other := rapid.SampledFrom([]string{"", "c12-protoco", "c12-protocol2", "other"}).Draw(t, "protocolID")
					p := &announcementMessage{senderID: m.idx, protocolID: other, sessionID: m.session}
					return p, p.Type(), true, ""
				default:
					p := &c12Foreign{senderID: m.idx}
					return p, p.Type(), true, ""
				}
			},
		}
		nMsgs := rapid.IntRange(1, 10).Draw(t, "messages")
		var plan []*c12Planned
		want := map[group.MemberIndex]bool{sc.receiver: true}
		for i := 0; i < nMsgs; i++ {
			p := c12Plan(t, sc, pool, r)
			plan = append(plan, p)
			if p.want {
				want[p.msg.idx] = true
			}
		}

		ctx, cancel := context.WithCancel(context.Background())
		defer cancel()
		type outcome struct {
			ready []group.MemberIndex
			err   error
		}
		result := make(chan outcome, 1)
		go func() {
			ready, err := announcer.Announce(ctx, sc.receiver, c12Session)
			result <- outcome{ready, err}
		}()
		if !verifkit.Eventually(c12WaitLimit, func() bool { return channel.registered() == 1 }) {
			cancel()
			<-result
			fmt.Println("VERIF-INCONCLUSIVE: Announce did not register its receiver in time")
			t.Fatalf("inconclusive")
		}
		for _, p := range plan {
			channel.deliver(p.netMessage(pool))
		}
		// a last message of another kind: once the loop asks for its payload
		// every earlier message has been processed completely
		drained := make(chan struct{})
		sentinel := &c12NetMessage{key: pool[0].key, payload: &c12Foreign{}, typ: "c12/foreign",
			onPayload: func() { close(drained) }}
		channel.deliver(sentinel)
		select {
		case <-drained:
		case <-time.After(c12WaitLimit):
			cancel()
			<-result
			fmt.Println("VERIF-INCONCLUSIVE: Announce did not drain its buffer in time")
			t.Fatalf("inconclusive")
		}
		cancel()
		var out outcome
		select {
		case out = <-result:
		case <-time.After(c12WaitLimit):
			fmt.Println("VERIF-INCONCLUSIVE: Announce did not return after its context was cancelled")
			t.Fatalf("inconclusive")
		}
		if out.err != nil {
			t.Fatalf("Announce failed: %v", out.err)
		}

		got := map[group.MemberIndex]bool{}
		for i, idx := range out.ready {
			if got[idx] {
				t.Fatalf("ready list %v repeats member %d", out.ready, idx)
			}
			if i > 0 && out.ready[i-1] >= idx {
				t.Fatalf("ready list %v is not in ascending order", out.ready)
			}
			got[idx] = true
		}
		for idx := 0; idx <= 255; idx++ {
			m := group.MemberIndex(idx)
			if got[m] != want[m] {
				t.Fatalf("group %s (receiver *): after %s the ready list is %v; member %d: listed=%v, the admission rule gives %v",
					sc.render(pool), c12Texts(plan), out.ready, m, got[m], want[m])
			}
		}
		c12Record(st, sc, pool, r, plan, map[string]bool{})
	})
}
