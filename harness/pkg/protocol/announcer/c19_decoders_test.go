//go:build go1.23

package announcer

import (
	"testing"

	"github.com/keep-network/keep-core/internal/c19wire"
	"pgregory.net/rapid"
)

// C19 - pkg/protocol/announcer: the readiness announcement message.

func c19Codecs() []c19wire.Codec {
	return []c19wire.Codec{
		c19wire.Codec{
			Name: "announcer.announcementMessage",
			New:  func() c19wire.Msg { return &announcementMessage{} },
			Gen: func(t *rapid.T) c19wire.Msg {
				return &announcementMessage{
					senderID:   c19wire.GenIndex(t, "sender"),
					protocolID: c19wire.GenText(t, "protocol"),
					sessionID:  c19wire.GenText(t, "session"),
				}
			},
			Touch: func(m c19wire.Msg) { _ = m.(*announcementMessage).Type() },
		}.WithSender(func(m c19wire.Msg) uint64 { return uint64(m.(*announcementMessage).senderID) }),
	}
}

func TestVerif_C19_AnnouncerRoundTrip(t *testing.T) {
	c19wire.RunRoundTrip(t, "TestVerif_C19_AnnouncerRoundTrip", c19Codecs())
}

func TestVerif_C19_AnnouncerHostile(t *testing.T) {
	c19wire.RunHostile(t, "TestVerif_C19_AnnouncerHostile", c19Codecs())
}

func FuzzVerif_C19_Announcer(f *testing.F) { c19wire.RunFuzz(f, c19Codecs()) }
