//go:build go1.23

package inactivity

// C12, inactivity claim signing: the claim signing state is fed generated
// (claimed index, sender network key, session, member status, public key
// field) combinations through its real Receive; the message history the
// signature verification reads from is compared with the admission model.

import (
	"fmt"
	"testing"

	"github.com/keep-network/keep-core/internal/testutils"
	"github.com/keep-network/keep-core/internal/verifkit"
	"github.com/keep-network/keep-core/pkg/protocol/group"
	"github.com/keep-network/keep-core/pkg/protocol/state"
	"pgregory.net/rapid"
)

// a payload of another protocol sharing the wallet channel
type c12Foreign struct{ senderID group.MemberIndex }

func (f *c12Foreign) SenderID() group.MemberIndex { return f.senderID }
func (f *c12Foreign) Type() string                { return "c12/foreign" }

func TestVerif_C12_InactivityClaimSigning(t *testing.T) {
	st := verifkit.New("C12", "TestVerif_C12_InactivityClaimSigning")
	defer st.Flush()
	pool, signing := c12Pool(t)
	logger := &testutils.MockLogger{}
	claimType := (&claimSignatureMessage{}).Type()

	rapid.Check(t, func(t *rapid.T) {
		sc := c12GenScenario(t)
		threshold := rapid.IntRange(0, (sc.n-1)/2).Draw(t, "dishonestThreshold")
		validator := group.NewMembershipValidator(logger, sc.addresses(pool), signing)
		member := newSigningMember(logger, sc.receiver, sc.n, threshold, validator, c12Session)
		allowed := map[group.MemberIndex]bool{}
		for i := 1; i <= sc.n; i++ {
			idx := group.MemberIndex(i)
			switch {
			case sc.ia[idx]:
				member.group.MarkMemberAsInactive(idx)
			case sc.dq[idx]:
				member.group.MarkMemberAsDisqualified(idx)
			default:
				allowed[idx] = true
			}
		}
		base := state.NewBaseAsyncState()
		css := &claimSigningState{BaseAsyncState: base, channel: &c12Channel{}, member: member}

		c12Feed(t, st, sc, pool, &c12Receiver{
			name: "claimSigning", kindNames: []string{"claimSignature", "foreign"}, ownKinds: []int{0},
			allowed: allowed, note: fmt.Sprintf(" t=%d", threshold),
			build: func(t *rapid.T, m c12Msg, key []byte) (interface{}, string, bool, string) {
				if m.kind == 1 {
					p := &c12Foreign{senderID: m.idx}
					return p, p.Type(), true, ""
				}
				p := &claimSignatureMessage{senderID: m.idx, sessionID: m.session,
					signature: []byte{1, 2, 3}, publicKey: key}
				ok, tag := true, ""
				if rapid.IntRange(0, 5).Draw(t, "mutPublicKeyField") == 0 {
					// the signature's public key is not the network key:
					// documented to be rejected
					other := rapid.IntRange(0, c12PoolSize-1).Draw(t, "publicKeyField")
					p.publicKey = pool[other].key
					if string(p.publicKey) != string(key) {
						ok, tag = false, "pubkey-field:not-the-network-key"
					}
				}
				return p, p.Type(), ok, tag
			},
			receive:  css.Receive,
			register: RegisterUnmarshallers,
			ident: func(m interface{}) string {
				if v, ok := m.(*claimSignatureMessage); ok {
					return fmt.Sprintf("claimSignature/%d/%q/%x", v.senderID, v.sessionID, v.publicKey[:8])
				}
				return fmt.Sprintf("%T", m)
			},
			stored: func() map[int][]interface{} {
				out := map[int][]interface{}{}
				for _, nm := range base.GetAllReceivedMessages(claimType) {
					out[0] = append(out[0], nm.Payload())
				}
				for _, nm := range base.GetAllReceivedMessages("c12/foreign") {
					out[1] = append(out[1], nm.Payload())
				}
				return out
			},
		}, map[string]bool{})
	})
}
