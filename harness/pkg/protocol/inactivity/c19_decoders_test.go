//go:build go1.23

package inactivity

import (
	"testing"

	"github.com/keep-network/keep-core/internal/c19wire"
	"pgregory.net/rapid"
)

// C19 - pkg/protocol/inactivity: the inactivity claim signature message.

func c19Codecs() []c19wire.Codec {
	return []c19wire.Codec{
		c19wire.Codec{
			Name: "inactivity.claimSignatureMessage",
			New:  func() c19wire.Msg { return &claimSignatureMessage{} },
			Gen: func(t *rapid.T) c19wire.Msg {
				m := &claimSignatureMessage{
					senderID:  c19wire.GenIndex(t, "sender"),
					signature: c19wire.GenPayload(t, "signature"),
					publicKey: c19wire.GenPayload(t, "publicKey"),
					sessionID: c19wire.GenText(t, "session"),
				}
				copy(m.claimHash[:], c19wire.GenFixed(t, "claimHash", ClaimHashByteSize))
				return m
			},
			Touch: func(m c19wire.Msg) {
				_ = m.(*claimSignatureMessage).Type()
				_ = m.(*claimSignatureMessage).SessionID()
			},
		}.WithSender(func(m c19wire.Msg) uint64 { return uint64(m.(*claimSignatureMessage).SenderID()) }).
			WithFixed("claimHash", ClaimHashByteSize, c19wire.Step{Num: 2}),
	}
}

func TestVerif_C19_InactivityRoundTrip(t *testing.T) {
	c19wire.RunRoundTrip(t, "TestVerif_C19_InactivityRoundTrip", c19Codecs())
}

func TestVerif_C19_InactivityHostile(t *testing.T) {
	c19wire.RunHostile(t, "TestVerif_C19_InactivityHostile", c19Codecs())
}

func FuzzVerif_C19_Inactivity(f *testing.F) { c19wire.RunFuzz(f, c19Codecs()) }
