//go:build go1.23

package tbtc

// C12, signing completion across the attempts of one signing. The real
// signingRetryLoop.start runs with the real announcer and the real signing
// done check, both created - as the signing executor creates them - on the
// channel and validator the node wires in getSigningExecutor (wire-level
// provider of c12_wiring_test.go: bytes + sender key, the node's unmarshaler
// factories, buffered hand-over). The harness owns the block clock, the
// attempt function and the wire.
//
// Generated histories: up to three attempts; an attempt ends because too few
// members announced, because the signing protocol failed for this member,
// because its done signal could not be sent, because the attempt timed out, or
// because every member of the attempt confirmed it. While the done check of an
// attempt is open the wire carries confirmations of that attempt and hostile
// ones: confirmations of EARLIER attempts (valid for those), of later ones, of
// another message, after the timeout, from members left out of the attempt,
// for a seat the sending key does not hold, second confirmations.
//
// Oracle: the confirmations that take part in the completion decision of
// attempt n (the done check's confirmed set at the moment waitUntilAllDone
// returns, and what the loop reports) are exactly the ones the admission model
// admits from what each key sent for attempt n.

import (
	"context"
	"errors"
	"fmt"
	"math/big"
	"sort"
	"strings"
	"sync/atomic"
	"testing"
	"time"

	"github.com/keep-network/keep-core/internal/testutils"
	"github.com/keep-network/keep-core/internal/verifkit"
	"github.com/keep-network/keep-core/pkg/net"
	"github.com/keep-network/keep-core/pkg/protocol/announcer"
	announcerpb "github.com/keep-network/keep-core/pkg/protocol/announcer/gen/pb"
	"github.com/keep-network/keep-core/pkg/protocol/group"
	"github.com/keep-network/keep-core/pkg/tecdsa"
	"github.com/keep-network/keep-core/pkg/tecdsa/signing"
	"google.golang.org/protobuf/proto"
	"pgregory.net/rapid"
)

// ---------------------------------------------------------------------------
// logical block clock

type c12Clock struct {
	events  chan c12LoopEvent
	mu      chan struct{} // binary semaphore
	height  uint64
	waiters []*c12ClockWaiter
}

type c12ClockWaiter struct {
	block   uint64
	release chan struct{}
}

func c12NewClock(start uint64, events chan c12LoopEvent) *c12Clock {
	c := &c12Clock{events: events, mu: make(chan struct{}, 1), height: start}
	return c
}

func (c *c12Clock) lock()   { c.mu <- struct{}{} }
func (c *c12Clock) unlock() { <-c.mu }

func (c *c12Clock) current() (uint64, error) {
	c.lock()
	defer c.unlock()
	return c.height, nil
}

// waitForBlock is the waitForBlockFn given to the loop.
func (c *c12Clock) waitForBlock(ctx context.Context, block uint64) error {
	c.lock()
	if block <= c.height {
		c.unlock()
		c.events <- c12LoopEvent{kind: "wait", block: block}
		return nil
	}
	w := &c12ClockWaiter{block: block, release: make(chan struct{})}
	c.waiters = append(c.waiters, w)
	c.unlock()
	c.events <- c12LoopEvent{kind: "wait", block: block}
	select {
	case <-w.release:
		return nil
	case <-ctx.Done():
		return ctx.Err()
	}
}

func (c *c12Clock) advanceTo(block uint64) {
	c.lock()
	if block > c.height {
		c.height = block
	}
	var rest []*c12ClockWaiter
	for _, w := range c.waiters {
		if w.block <= c.height {
			close(w.release)
		} else {
			rest = append(rest, w)
		}
	}
	c.waiters = rest
	c.unlock()
}

// ---------------------------------------------------------------------------
// events the loop side reports to the harness

type c12LoopEvent struct {
	kind    string // wait, announce-sent, listen, attempt, send, wait-called, wait-returned, returned
	block   uint64
	attempt uint64
	// listen
	members      []group.MemberIndex
	timeoutBlock uint64
	handler      int
	// attempt
	params *signingAttemptParams
	reply  chan c12AttemptReply
	// send
	sendReply chan error
	sent      net.TaggedMarshaler
	// wait-returned
	result    *signing.Result
	endBlock  uint64
	err       error
	confirmed map[group.MemberIndex]string
	// returned
	loopResult *signingRetryLoopResult
}

type c12AttemptReply struct {
	result   *signing.Result
	endBlock uint64
	err      error
}

// c12DoneSpy forwards to the real done check and reports what the loop asks
// it to do and what it answers.
type c12DoneSpy struct {
	real    *signingDoneCheck
	channel *c12WireChannel
	events  chan c12LoopEvent
	attempt uint64
}

func c12DoneContent(m *signingDoneMessage) string {
	return fmt.Sprintf("attempt=%d msg=%v R=%v S=%v end=%d", m.attemptNumber, m.message, m.signature.R, m.signature.S, m.endBlock)
}

func (s *c12DoneSpy) listen(ctx context.Context, message *big.Int, attemptNumber uint64, attemptTimeoutBlock uint64,
	attemptMembersIndexes []group.MemberIndex) {
	before := s.channel.registered()
	s.real.listen(ctx, message, attemptNumber, attemptTimeoutBlock, attemptMembersIndexes)
	s.attempt = attemptNumber
	s.events <- c12LoopEvent{kind: "listen", attempt: attemptNumber, members: append([]group.MemberIndex{}, attemptMembersIndexes...),
		timeoutBlock: attemptTimeoutBlock, handler: before}
}

func (s *c12DoneSpy) signalDone(ctx context.Context, memberIndex group.MemberIndex, message *big.Int, attemptNumber uint64,
	result *signing.Result, endBlock uint64) error {
	return s.real.signalDone(ctx, memberIndex, message, attemptNumber, result, endBlock)
}

func (s *c12DoneSpy) waitUntilAllDone(ctx context.Context) (*signing.Result, uint64, error) {
	s.events <- c12LoopEvent{kind: "wait-called", attempt: s.attempt}
	result, endBlock, err := s.real.waitUntilAllDone(ctx)
	// the confirmations the decision was taken on
	confirmed := map[group.MemberIndex]string{}
	s.real.doneSignersMutex.Lock()
	for idx, m := range s.real.doneSigners {
		confirmed[idx] = c12DoneContent(m)
		if m.senderID != idx {
			confirmed[idx] += fmt.Sprintf(" (kept for %d, claims %d)", idx, m.senderID)
		}
	}
	s.real.doneSignersMutex.Unlock()
	s.events <- c12LoopEvent{kind: "wait-returned", attempt: s.attempt, result: result, endBlock: endBlock, err: err, confirmed: confirmed}
	return result, endBlock, err
}

// ---------------------------------------------------------------------------

const c12LoopStart = uint64(1000)

// session value of a generated message that stands for "left over from an
// earlier attempt"
const c12StaleSession = "c12-earlier-attempt"

func c12AttemptBlocks(k uint64) (annStart, annEnd, timeout uint64) {
	start := c12LoopStart + (k-1)*uint64(signingAttemptMaximumBlocks())
	annStart = start + signingAttemptAnnouncementDelayBlocks
	annEnd = annStart + signingAttemptAnnouncementActiveBlocks
	timeout = annEnd + signingAttemptMaximumProtocolBlocks
	return
}

// c12LoopRun is the harness side of one case.
type c12LoopRun struct {
	t       *rapid.T
	world   *c12WireWorld
	sc      *c12Scenario
	channel *c12WireChannel
	clock   *c12Clock
	events  chan c12LoopEvent
	seen    map[uint64]bool // blocks somebody waits / waited for
	backlog []c12LoopEvent
	self    group.MemberIndex
	selfOp  int
	message *big.Int
	log     []string
	// handlers installed by the done checks of earlier attempts
	earlier map[int]bool
}

func (r *c12LoopRun) logf(format string, args ...any) {
	r.log = append(r.log, fmt.Sprintf(format, args...))
}

// next returns the next event that is not a block wait; block waits are
// remembered. Bounded: the loop side always reaches its next report without
// the harness doing anything (the clock is only moved by the harness).
func (r *c12LoopRun) next(what string) c12LoopEvent {
	if len(r.backlog) > 0 {
		e := r.backlog[0]
		r.backlog = r.backlog[1:]
		return e
	}
	for {
		select {
		case e := <-r.events:
			if e.kind == "wait" {
				r.seen[e.block] = true
				if e.attempt == 0 {
					// a wait of the loop itself for the next attempt's
					// announcement start is a step of the history
					for k := uint64(1); k <= 8; k++ {
						if s, _, _ := c12AttemptBlocks(k); s == e.block {
							e.attempt = k
							return e
						}
					}
				}
				continue
			}
			return e
		case <-time.After(c12WaitLimit):
			c12Inconclusive(r.t, "the loop did not reach its next step ("+what+") in time; history: "+strings.Join(r.log, " | "))
		}
	}
}

// awaitWaiter blocks until somebody waits for the block (so that moving the
// clock releases it).
func (r *c12LoopRun) awaitWaiter(block uint64) {
	for !r.seen[block] {
		select {
		case e := <-r.events:
			if e.kind == "wait" {
				r.seen[e.block] = true
				if s, _, _ := c12AttemptBlocks(r.attemptOfStart(e.block)); s == e.block && e.block != block {
					e.attempt = r.attemptOfStart(e.block)
					r.backlog = append(r.backlog, e)
				}
				continue
			}
			r.backlog = append(r.backlog, e)
		case <-time.After(c12WaitLimit):
			c12Inconclusive(r.t, fmt.Sprintf("nobody waits for block %d; history: %s", block, strings.Join(r.log, " | ")))
		}
	}
}

func (r *c12LoopRun) attemptOfStart(block uint64) uint64 {
	for k := uint64(1); k <= 8; k++ {
		if s, _, _ := c12AttemptBlocks(k); s == block {
			return k
		}
	}
	return 1
}

// settle delivers a last envelope nobody can count (a confirmation of attempt
// 0 by the node itself) and waits until every handler that is still listening
// has taken it: everything handed over before has then been processed.
func (r *c12LoopRun) settle() {
	bytes, err := (&signingDoneMessage{senderID: r.self, message: r.message, attemptNumber: 0,
		signature: &tecdsa.Signature{R: big.NewInt(1), S: big.NewInt(1)}, endBlock: 1}).Marshal()
	if err != nil {
		r.t.Fatalf("marshal: %v", err)
	}
	r.channel.receiveWire(r.world.pubs[r.selfOp], (&signingDoneMessage{}).Type(), bytes)
	r.channel.handOver()
	if !verifkit.Eventually(c12WaitLimit, func() bool { return r.channel.settledFor(r.earlier, false) }) {
		c12Inconclusive(r.t, "the receivers did not take the handed-over messages in time")
	}
	// Receivers of earlier attempts are gone on the unchanged tree (their
	// contexts are done, nothing is handed to them). Should one still be
	// installed it gets a moment to process what it was handed, without
	// consequences when it does not (its consumer may have ended).
	for i := 0; i < 400 && !r.channel.settledFor(r.earlier, true); i++ {
		time.Sleep(200 * time.Microsecond)
	}
}

// c12Gone waits until the context of a receiver is done. On the unchanged
// tree the receiver of an abandoned attempt is cancelled by a goroutine that
// has just been released by the block clock, i.e. after a few scheduling
// rounds; the wait is bounded by scheduling rounds (sleeps that yield the
// processor), not by a deadline, and generously. When the bound is hit the
// history simply goes on with the receiver still listening (the channel keeps
// delivering to it, as the real one would). Once a receiver has outlived the
// long bound in this process, later waits use a short one: a tree that does
// not cancel its receivers would otherwise cost seconds per case.
var c12ReceiverOutlivedBound atomic.Bool

func c12Gone(ctx context.Context) bool {
	rounds := 4000
	if c12ReceiverOutlivedBound.Load() {
		rounds = 40
	}
	for i := 0; i < rounds; i++ {
		if ctx.Err() != nil {
			return true
		}
		time.Sleep(200 * time.Microsecond)
	}
	if ctx.Err() != nil {
		return true
	}
	c12ReceiverOutlivedBound.Store(true)
	return false
}

func TestVerif_C12_SigningLoopAttempts(t *testing.T) {
	st := verifkit.New("C12", "TestVerif_C12_SigningLoopAttempts")
	defer st.Flush()
	world := c12NewWireWorld(t)
	pool := world.pool
	protocolID := fmt.Sprintf("%v-%v", ProtocolName, "signing")
	announcementType := (&c12AnnouncementType{}).Type()
	doneType := (&signingDoneMessage{}).Type()
	sigGood := &tecdsa.Signature{R: big.NewInt(7001), S: big.NewInt(7002)}
	sigOther := &tecdsa.Signature{R: big.NewInt(9001), S: big.NewInt(9002)}

	rapid.Check(t, func(t *rapid.T) {
		sc := c12GenScenario(t)
		// member status belongs to the attempts here
		sc.ia, sc.dq = map[group.MemberIndex]bool{}, map[group.MemberIndex]bool{}
		if sc.n > 7 {
			sc.n = 7
			sc.seats = sc.seats[:7]
			if int(sc.receiver) > 7 {
				sc.receiver = group.MemberIndex(rapid.IntRange(1, 7).Draw(t, "receiverInSmallGroup"))
			}
			held := map[int]bool{}
			for _, op := range sc.seats {
				held[op] = true
			}
			sc.inGroup, sc.outGroup = nil, nil
			for i := 0; i < c12PoolSize; i++ {
				if held[i] {
					sc.inGroup = append(sc.inGroup, i)
				} else {
					sc.outGroup = append(sc.outGroup, i)
				}
			}
		}
		self := sc.receiver
		selfOp := sc.seats[int(self)-1]
		honest := sc.n/2 + 1
		message := big.NewInt(int64(rapid.IntRange(1000, 1000000).Draw(t, "signedMessage")))

		n, _ := world.node(t, sc, selfOp)
		n.groupParameters.HonestThreshold = honest
		se, ok, err := n.getSigningExecutor(world.share.PublicKey())
		if err != nil || !ok {
			t.Fatalf("getSigningExecutor: ok=%v err=%v", ok, err)
		}
		channel := se.broadcastChannel.(*c12WireChannel)
		events := make(chan c12LoopEvent, 4096)
		clock := c12NewClock(c12LoopStart, events)
		run := &c12LoopRun{t: t, world: world, sc: sc, channel: channel, clock: clock, events: events,
			seen: map[uint64]bool{}, self: self, selfOp: selfOp, message: message, earlier: map[int]bool{}}

		// as in signingExecutor.sign
		ann := announcer.New(protocolID, se.broadcastChannel, se.membershipValidator)
		spy := &c12DoneSpy{real: newSigningDoneCheck(se.groupParameters.GroupSize, se.broadcastChannel, se.membershipValidator),
			channel: channel, events: events}
		loop := newSigningRetryLoop(&testutils.MockLogger{}, message, c12LoopStart, self, sc.addresses(pool),
			se.groupParameters, ann, spy)

		// what the node sends: announcements are only noted, the done signal
		// is refused or, like on the real channels, comes back to the node's
		// own receivers
		channel.onSend = func(m net.TaggedMarshaler) error {
			if m.Type() != doneType {
				events <- c12LoopEvent{kind: "announce-sent"}
				return nil
			}
			reply := make(chan error, 1)
			events <- c12LoopEvent{kind: "send", sent: m, sendReply: reply}
			if err := <-reply; err != nil {
				return err
			}
			bytes, err := m.Marshal()
			if err != nil {
				return err
			}
			channel.receiveWire(world.pubs[selfOp], m.Type(), bytes)
			channel.handOver()
			return nil
		}
		attemptFn := func(p *signingAttemptParams) (*signing.Result, uint64, error) {
			reply := make(chan c12AttemptReply, 1)
			events <- c12LoopEvent{kind: "attempt", attempt: uint64(p.number), params: p, reply: reply}
			r := <-reply
			return r.result, r.endBlock, r.err
		}

		ctx, cancel := context.WithCancel(context.Background())
		defer cancel()
		go func() {
			res, err := loop.start(ctx, clock.waitForBlock, clock.current, attemptFn)
			events <- c12LoopEvent{kind: "returned", loopResult: res, err: err}
		}()

		caseTags := map[string]bool{}
		var allPlans []*c12Planned
		var listeners []context.Context // receivers of attempts abandoned before the wait
		maxAttempts := uint64(rapid.IntRange(2, 3).Draw(t, "attempts"))
		finished := false
		nontrivial := false
		var rec *c12Receiver

		fail := func(format string, args ...any) {
			t.Fatalf("group %s (node runs seat *): %s\nhistory: %s", sc.render(pool), fmt.Sprintf(format, args...),
				strings.Join(run.log, " | "))
		}

		e := run.next("first attempt")
		lastListener := -1
		for k := uint64(1); !finished; k++ {
			annStart, annEnd, timeout := c12AttemptBlocks(k)
			if lastListener >= 0 {
				run.earlier[lastListener] = true
				lastListener = -1
			}
			if e.kind != "wait" || e.attempt != k {
				fail("expected the loop to wait for the announcement of attempt %d, got %s (attempt %d)", k, e.kind, e.attempt)
			}
			if k > maxAttempts {
				// the signing is given up
				cancel()
				for e = run.next("loop end"); e.kind != "returned"; e = run.next("loop end") {
				}
				if e.loopResult != nil {
					fail("the loop did not end without a result after it was cancelled: %s", e.kind)
				}
				run.logf("cancelled before attempt %d", k)
				break
			}
			if k > 1 {
				// attempt k-1 is long over when the next one is announced:
				// its timeout block has passed ...
				_, _, previousTimeout := c12AttemptBlocks(k - 1)
				clock.advanceTo(previousTimeout)
				// ... and the receivers bound to it are gone
				for _, l := range listeners {
					if !c12Gone(l) {
						caseTags["loop:receiver-of-abandoned-attempt-still-listening"] = true
						run.logf("receiver of an abandoned attempt still listens after its timeout block")
					}
				}
				listeners = nil
			}
			clock.advanceTo(annStart)

			// announcement phase
			e = run.next("announcement")
			if e.kind != "announce-sent" {
				fail("expected the announcement of attempt %d, got %s", k, e.kind)
			}
			ready := map[group.MemberIndex]bool{self: true}
			minority := rapid.IntRange(0, 5).Draw(t, "minority") == 0
			for i := 1; i <= sc.n; i++ {
				idx := group.MemberIndex(i)
				if idx == self {
					continue
				}
				announces := rapid.IntRange(0, 9).Draw(t, "announces") != 0
				if minority {
					announces = len(ready) < honest-1 && announces
				}
				if !announces {
					continue
				}
				ready[idx] = true
				bytes, err := proto.Marshal(&announcerpb.AnnouncementMessage{SenderID: uint32(idx), ProtocolID: protocolID,
					SessionID: fmt.Sprintf("%v-%v", message, k)})
				if err != nil {
					t.Fatalf("marshal: %v", err)
				}
				channel.receiveWire(world.pubs[sc.seats[i-1]], announcementType, bytes)
			}
			channel.handOver()
			run.settle()
			run.awaitWaiter(annEnd)
			clock.advanceTo(annEnd)
			run.logf("attempt %d: %d of %d ready", k, len(ready), sc.n)

			e = run.next("after announcement")
			if len(ready) < honest {
				caseTags["attempt:too-few-ready"] = true
				if e.kind != "wait" || e.attempt != k+1 {
					fail("only %d of %d members were ready for attempt %d but the loop went on with %s", len(ready), sc.n, k, e.kind)
				}
				continue
			}
			if e.kind == "returned" && e.err != nil && strings.Contains(e.err.Error(), "cannot select members") {
				// the retry algorithm found no member set for this attempt:
				// the signing ends (member selection is not this property)
				caseTags["attempt:no-member-set"] = true
				run.logf("attempt %d: no member set", k)
				break
			}
			if e.kind != "listen" || e.attempt != k {
				fail("expected the done check of attempt %d to start listening, got %s (%v)", k, e.kind, e.err)
			}
			if e.timeoutBlock != timeout {
				fail("attempt %d listens with timeout block %d, expected %d", k, e.timeoutBlock, timeout)
			}
			members := e.members
			listenerCtx := channel.handlerContext(e.handler)
			lastListener = e.handler
			allowed := map[group.MemberIndex]bool{}
			included := false
			for _, m := range members {
				if !ready[m] {
					fail("attempt %d includes member %d that did not announce", k, m)
				}
				allowed[m] = true
				if m == self {
					included = true
				}
			}
			run.logf("attempt %d: members %v timeout block %d", k, members, timeout)

			// the messages on the wire while this done check is open
			ordinal := 0
			rec = &c12Receiver{
				name: "signingLoop/doneCheck", kindNames: []string{"signingDone", "announcement", "foreign"},
				ownKinds: []int{0}, allowed: allowed, selfAllowed: true,
				build: func(t *rapid.T, m c12Msg, _ []byte) (interface{}, string, bool, string) {
					ordinal++
					switch m.kind {
					case 1:
						return &announcerpb.AnnouncementMessage{SenderID: uint32(m.idx), ProtocolID: protocolID,
							SessionID: fmt.Sprintf("%v-%v", message, k)}, announcementType, true, ""
					case 2:
						p := &c12Foreign{senderID: m.idx}
						return p, p.Type(), true, ""
					}
					p := &signingDoneMessage{senderID: m.idx, message: new(big.Int).Set(message), attemptNumber: k,
						signature: sigGood, endBlock: annEnd + uint64(ordinal)}
					tag := ""
					earlier := func() {
						// a confirmation of an earlier attempt, valid for
						// that attempt
						j := uint64(rapid.IntRange(1, int(k)-1).Draw(t, "earlierAttempt"))
						_, jEnd, jTimeout := c12AttemptBlocks(j)
						p.attemptNumber = j
						p.endBlock = jEnd + uint64(rapid.IntRange(1, int(jTimeout-jEnd)).Draw(t, "earlierEndBlock"))
						tag = "confirmation-of-EARLIER-attempt"
					}
					switch {
					case m.session == c12Session:
						if rapid.IntRange(0, 11).Draw(t, "otherSignature") == 0 {
							p.signature = sigOther
							tag = "other-signature"
						}
					case m.session == c12StaleSession && k > 1:
						earlier()
					default:
						variant := rapid.IntRange(0, 5).Draw(t, "otherSession")
						switch {
						case variant <= 2 && k > 1:
							earlier()
						case variant == 3 || variant <= 2:
							p.attemptNumber = k + 1
							tag = "confirmation-of-later-attempt"
						case variant == 4:
							p.message = new(big.Int).Add(message, big.NewInt(1))
							tag = "other-message"
						default:
							p.endBlock = timeout + 1
							tag = "end-block-after-timeout"
						}
					}
					return p, p.Type(), true, tag
				},
			}
			var plan []*c12Planned
			for _, m := range members {
				if m != self && rapid.IntRange(0, 7).Draw(t, "confirms") != 0 {
					plan = append(plan, c12PlanMsg(t, sc, pool, rec, c12Msg{idx: m, op: sc.seats[int(m)-1], session: c12Session, kind: 0}))
				}
			}
			if k > 1 {
				// late retransmissions: members of this attempt whose
				// confirmation of an earlier attempt is still travelling
				for _, m := range members {
					if rapid.IntRange(0, 2).Draw(t, "lateRetransmission") == 0 {
						plan = append(plan, c12PlanMsg(t, sc, pool, rec, c12Msg{idx: m, op: sc.seats[int(m)-1], session: c12StaleSession, kind: 0}))
					}
				}
			}
			for i, extra := 0, rapid.IntRange(0, 4).Draw(t, "otherMessages"); i < extra; i++ {
				plan = append(plan, c12Plan(t, sc, pool, rec))
			}
			if len(plan) > 1 {
				order := rapid.Permutation(plan).Draw(t, "arrivalOrder")
				plan = order
			}
			early := 0
			outcome := "observer"
			if included {
				outcome = rapid.SampledFrom([]string{"done", "done", "done", "protocol-error", "protocol-error", "signal-fails"}).Draw(t, "ownOutcome")
				early = rapid.IntRange(0, len(plan)).Draw(t, "arrivedBeforeOwnSignal")
			}
			caseTags["attempt:"+outcome] = true

			want := map[group.MemberIndex]string{}
			wantEnd := map[group.MemberIndex]uint64{}
			wantSig := map[group.MemberIndex]*tecdsa.Signature{}
			admit := func(p *c12Planned) {
				if _, dup := want[p.msg.idx]; dup && p.want {
					p.want = false
					p.extraOK, p.extraTag = false, "second-confirmation"
					p.text = strings.Replace(p.text, "->TAKEN", "->ignored(second confirmation)", 1)
				}
				if m, is := p.payload.(*signingDoneMessage); is && !strings.Contains(p.text, "{") {
					p.text += "{" + c12DoneContent(m) + "}"
				}
				if p.want {
					m := p.payload.(*signingDoneMessage)
					want[p.msg.idx] = c12DoneContent(m)
					wantEnd[p.msg.idx] = m.endBlock
					wantSig[p.msg.idx] = m.signature
				}
			}
			deliver := func(list []*c12Planned) {
				var envelopes []c12WireEnvelope
				for _, p := range list {
					admit(p)
					env := c12WireEnvelope{sender: p.msg.op, typ: p.typ}
					var err error
					switch v := p.payload.(type) {
					case *signingDoneMessage:
						env.bytes, err = v.Marshal()
						if v.attemptNumber < k {
							nontrivial = true
						}
					case *announcerpb.AnnouncementMessage:
						env.bytes, err = proto.Marshal(v)
					}
					if err != nil {
						t.Fatalf("marshal: %v", err)
					}
					envelopes = append(envelopes, env)
					run.logf("attempt %d wire: %s", k, p.text)
				}
				// bursts: all envelopes of a burst are taken from the wire
				// before the burst is handed over
				for i, env := range envelopes {
					channel.receiveWire(world.pubs[env.sender], env.typ, env.bytes)
					if i == len(envelopes)-1 || rapid.IntRange(0, 2).Draw(t, "burstEnds") == 0 {
						channel.handOver()
						run.settle()
					}
				}
			}

			decided := false
			if included {
				e = run.next("signing attempt")
				if e.kind != "attempt" || e.attempt != k {
					fail("expected the signing attempt %d to be executed, got %s", k, e.kind)
				}
				deliver(plan[:early])
				if outcome == "protocol-error" {
					e.reply <- c12AttemptReply{err: errors.New("scripted: the signing protocol failed")}
					listeners = append(listeners, listenerCtx)
					run.logf("attempt %d: signing protocol failed for the node", k)
				} else {
					ownEnd := annEnd + uint64(rapid.IntRange(1, int(timeout-annEnd)).Draw(t, "ownEndBlock"))
					e.reply <- c12AttemptReply{result: &signing.Result{Signature: sigGood}, endBlock: ownEnd}
					e = run.next("done signal")
					if e.kind != "send" {
						fail("expected the done signal of attempt %d, got %s", k, e.kind)
					}
					own := e.sent.(*signingDoneMessage)
					if own.senderID != self || own.attemptNumber != k || own.endBlock != ownEnd || own.message.Cmp(message) != 0 {
						fail("the node's done signal of attempt %d is %s (sender %d)", k, c12DoneContent(own), own.senderID)
					}
					if outcome == "signal-fails" {
						e.sendReply <- errors.New("scripted: cannot send")
						listeners = append(listeners, listenerCtx)
						run.logf("attempt %d: done signal could not be sent", k)
					} else {
						ownPlan := c12PlanMsg(t, sc, pool, &c12Receiver{kindNames: rec.kindNames, ownKinds: rec.ownKinds, allowed: allowed, selfAllowed: true,
							build: func(*rapid.T, c12Msg, []byte) (interface{}, string, bool, string) {
								return own, own.Type(), true, fmt.Sprintf("own signal attempt=%d end=%d", k, ownEnd)
							}}, c12Msg{idx: self, op: selfOp, session: c12Session, kind: 0})
						admit(ownPlan)
						run.logf("attempt %d wire: %s", k, ownPlan.text)
						e.sendReply <- nil
						decided = true
					}
				}
			} else {
				decided = true
			}
			if !decided {
				allPlans = append(allPlans, plan[:early]...)
				e = run.next("next attempt")
				continue
			}

			// the done check phase
			e = run.next("done check wait")
			if e.kind != "wait-called" || e.attempt != k {
				fail("expected the loop to wait for the confirmations of attempt %d, got %s", k, e.kind)
			}
			run.settle()
			deliver(plan[early:])
			allPlans = append(allPlans, plan...)

			complete := len(want) == len(members)
			agreed := true
			var latest uint64
			var common *tecdsa.Signature
			for _, m := range members {
				if s, ok := wantSig[m]; ok {
					if common == nil {
						common = s
					} else if !s.Equals(common) {
						agreed = false
					}
				}
				if wantEnd[m] > latest {
					latest = wantEnd[m]
				}
			}
			if !complete {
				// nothing more arrives: the attempt times out
				run.awaitWaiter(timeout)
				clock.advanceTo(timeout)
			}
			e = run.next("decision of the done check")
			if e.kind != "wait-returned" || e.attempt != k {
				fail("expected the decision of the done check of attempt %d, got %s", k, e.kind)
			}
			// (M) the confirmations the decision was taken on
			var idxs []int
			for idx := range e.confirmed {
				idxs = append(idxs, int(idx))
			}
			for idx := range want {
				if _, ok := e.confirmed[idx]; !ok {
					idxs = append(idxs, int(idx))
				}
			}
			sort.Ints(idxs)
			for _, i := range idxs {
				idx := group.MemberIndex(i)
				if e.confirmed[idx] != want[idx] {
					fail("the completion decision of attempt %d (members %v) was taken with member %d confirmed by [%s]; the admission rule applied to what each key sent for attempt %d gives [%s]",
						k, members, idx, e.confirmed[idx], k, want[idx])
				}
			}
			switch {
			case complete && agreed:
				caseTags["decision:complete"] = true
				if e.err != nil || e.result == nil || !e.result.Signature.Equals(common) || e.endBlock != latest {
					fail("every member of attempt %d confirmed it (latest end block %d) but the done check answered result=%v end=%d err=%v",
						k, latest, e.result, e.endBlock, e.err)
				}
				e = run.next("loop result")
				if e.kind != "returned" || e.err != nil || e.loopResult == nil {
					fail("attempt %d is complete but the loop went on with %s (err %v)", k, e.kind, e.err)
				}
				if !e.loopResult.result.Signature.Equals(common) || e.loopResult.latestEndBlock != latest || e.loopResult.attemptTimeoutBlock != timeout {
					fail("the loop reports signature %v, latest end block %d, timeout block %d; attempt %d was confirmed with latest end block %d and times out at %d",
						e.loopResult.result.Signature, e.loopResult.latestEndBlock, e.loopResult.attemptTimeoutBlock, k, latest, timeout)
				}
				run.logf("attempt %d complete", k)
				finished = true
			case complete:
				caseTags["decision:signatures-differ"] = true
				if e.err == nil {
					fail("the confirmations of attempt %d carry different signatures but the done check answered result=%v", k, e.result)
				}
				run.logf("attempt %d: signatures differ", k)
				e = run.next("next attempt")
			default:
				caseTags["decision:timed-out"] = true
				if e.err == nil {
					fail("members %v of attempt %d: only %d confirmed but the done check answered result=%v end=%d",
						members, k, len(want), e.result, e.endBlock)
				}
				run.logf("attempt %d timed out with %d of %d confirmations", k, len(want), len(members))
				e = run.next("next attempt")
			}
		}
		cancel()

		if rec == nil {
			rec = &c12Receiver{name: "signingLoop/doneCheck", kindNames: []string{"signingDone", "announcement", "foreign"},
				ownKinds: []int{0}, allowed: map[group.MemberIndex]bool{}, selfAllowed: true}
		}
		rec.note = " " + strings.Join(run.log, " | ")
		if nontrivial {
			caseTags["wire:confirmation-of-earlier-attempt"] = true
		}
		// non-trivial here: a confirmation of an earlier attempt is on the
		// wire while a later done check is open
		c12RecordAs(st, sc, pool, rec, allPlans, caseTags, nontrivial)
	})
}
