//go:build go1.23

package tbtc

import (
	"bytes"
	"crypto/sha256"
	"encoding/binary"
	"encoding/hex"
	"fmt"
	"strings"
	"testing"

	"github.com/btcsuite/btcd/btcec"
	"github.com/btcsuite/btcd/chaincfg/chainhash"
	"github.com/btcsuite/btcd/txscript"
	"github.com/btcsuite/btcd/wire"
	"github.com/btcsuite/btcutil"
	"github.com/keep-network/keep-core/internal/verifkit"
	"github.com/keep-network/keep-core/pkg/bitcoin"
	"github.com/keep-network/keep-core/pkg/chain"
	"pgregory.net/rapid"
)

// consensus rule set of a segwit-era block (what miners enforce) - the
// weakest set under which a spend could ever confirm.
const c28ConsensusFlags = txscript.ScriptBip16 |
	txscript.ScriptVerifyDERSignatures |
	txscript.ScriptVerifyCheckLockTimeVerify |
	txscript.ScriptVerifyCheckSequenceVerify |
	txscript.ScriptVerifyWitness |
	txscript.ScriptStrictMultiSig

const c28LocktimeThreshold = 500_000_000

func c28Key(t *rapid.T, label string) *btcec.PrivateKey {
	b := rapid.SliceOfN(rapid.Byte(), 32, 32).Draw(t, label)
	b[0] &= 0x7f
	b[31] |= 1
	priv, _ := btcec.PrivKeyFromBytes(btcec.S256(), b)
	return priv
}

func c28Hash160(b []byte) (out [20]byte) {
	copy(out[:], btcutil.Hash160(b))
	return
}

// the documented template (Deposit.sol), written with the script builder.
func c28Template(depositor [20]byte, extra *[32]byte, blinding [8]byte, walletPKH, refundPKH [20]byte, locktime [4]byte) ([]byte, error) {
	b := txscript.NewScriptBuilder().AddData(depositor[:]).AddOp(txscript.OP_DROP)
	if extra != nil {
		b.AddData(extra[:]).AddOp(txscript.OP_DROP)
	}
	b.AddData(blinding[:]).AddOp(txscript.OP_DROP).
		AddOp(txscript.OP_DUP).AddOp(txscript.OP_HASH160).AddData(walletPKH[:]).AddOp(txscript.OP_EQUAL).
		AddOp(txscript.OP_IF).
		AddOp(txscript.OP_CHECKSIG).
		AddOp(txscript.OP_ELSE).
		AddOp(txscript.OP_DUP).AddOp(txscript.OP_HASH160).AddData(refundPKH[:]).AddOp(txscript.OP_EQUALVERIFY).
		AddData(locktime[:]).AddOp(txscript.OP_CHECKLOCKTIMEVERIFY).AddOp(txscript.OP_DROP).
		AddOp(txscript.OP_CHECKSIG).
		AddOp(txscript.OP_ENDIF)
	return b.Script()
}

type c28Deposit struct {
	d         *Deposit
	depositor [20]byte
	wallet    *btcec.PrivateKey
	refund    *btcec.PrivateKey
	third     *btcec.PrivateKey
	locktime  uint32
	ltClass   string
	// spendableDomain: the 4-byte little-endian push is a minimally encoded
	// positive script number (every real timestamp / realistic height).
	spendableDomain bool
}

func c28GenLocktime(t *rapid.T) (uint32, string) {
	switch rapid.IntRange(0, 9).Draw(t, "locktimeClass") {
	case 0, 1, 2, 3:
		return uint32(rapid.IntRange(1_500_000_000, 2_100_000_000).Draw(t, "locktime")), "timestamp"
	case 4:
		return uint32(rapid.IntRange(0x00800000, c28LocktimeThreshold-1).Draw(t, "locktime")), "height"
	case 5:
		return uint32(c28LocktimeThreshold + rapid.IntRange(-2, 2).Draw(t, "locktime")), "kind-boundary"
	case 6:
		return uint32(rapid.SampledFrom([]int{0x00800000, 0x00800001, 0x7fffffff, 0x7ffffffe, 0x01000000, 0x00ffffff}).Draw(t, "locktime")), "encoding-edge"
	case 7:
		return uint32(rapid.IntRange(0, 0x007fffff).Draw(t, "locktime")), "non-minimal"
	case 8:
		return uint32(rapid.Int64Range(0x80000000, 0xffffffff).Draw(t, "locktime")), "negative"
	default:
		return rapid.Uint32().Draw(t, "locktime"), "any"
	}
}

// embedded data: mostly random, but the degenerate patterns (all zero, all
// ones, a single set bit) are over-represented - the value is opaque to the
// script, a present all-zero extra data is still present.
func c28Pattern(t *rapid.T, n int, label string) []byte {
	switch rapid.IntRange(0, 9).Draw(t, label+"Pattern") {
	case 0, 1:
		return make([]byte, n)
	case 2:
		b := make([]byte, n)
		for i := range b {
			b[i] = 0xff
		}
		return b
	case 3:
		b := make([]byte, n)
		b[rapid.IntRange(0, n-1).Draw(t, label+"BitAt")] = 1 << uint(rapid.IntRange(0, 7).Draw(t, label+"Bit"))
		return b
	default:
		return rapid.SliceOfN(rapid.Byte(), n, n).Draw(t, label)
	}
}

func c28GenDeposit(t *rapid.T) *c28Deposit {
	g := &c28Deposit{}
	g.wallet = c28Key(t, "walletKey")
	g.refund = c28Key(t, "refundKey")
	g.third = c28Key(t, "thirdKey")
	if g.refund.D.Cmp(g.wallet.D) == 0 || g.third.D.Cmp(g.wallet.D) == 0 || g.third.D.Cmp(g.refund.D) == 0 {
		t.Skip("colliding keys")
	}
	copy(g.depositor[:], c28Pattern(t, 20, "depositor"))
	addr := hex.EncodeToString(g.depositor[:])
	switch rapid.IntRange(0, 2).Draw(t, "addressForm") {
	case 0:
		addr = "0x" + addr
	case 1:
		addr = "0x" + strings.ToUpper(addr)
	}
	g.locktime, g.ltClass = c28GenLocktime(t)
	g.spendableDomain = g.locktime >= 0x00800000 && g.locktime <= 0x7fffffff
	g.d = &Deposit{
		Depositor:           chain.Address(addr),
		WalletPublicKeyHash: c28Hash160(g.wallet.PubKey().SerializeCompressed()),
		RefundPublicKeyHash: c28Hash160(g.refund.PubKey().SerializeCompressed()),
	}
	copy(g.d.BlindingFactor[:], c28Pattern(t, 8, "blinding"))
	binary.LittleEndian.PutUint32(g.d.RefundLocktime[:], g.locktime)
	if rapid.Bool().Draw(t, "extraData") {
		var e [32]byte
		copy(e[:], c28Pattern(t, 32, "extra"))
		g.d.ExtraData = &e
	}
	return g
}

// spending transaction locktime relative to the refund locktime.
func c28GenTxLocktime(t *rapid.T, l uint32) (uint32, string) {
	switch rapid.IntRange(0, 9).Draw(t, "txLocktimeClass") {
	case 0, 1:
		return l, "at"
	case 2, 3:
		if l > 0 {
			return l - 1, "one-before"
		}
		return l, "at"
	case 4:
		if l < 0xffffffff {
			return l + 1, "one-after"
		}
		return l, "at"
	case 5:
		return 0, "zero"
	case 6:
		// same kind, anywhere
		if l < c28LocktimeThreshold {
			return uint32(rapid.IntRange(0, c28LocktimeThreshold-1).Draw(t, "txLocktime")), "same-kind"
		}
		return uint32(rapid.Int64Range(c28LocktimeThreshold, 0xffffffff).Draw(t, "txLocktime")), "same-kind"
	case 7:
		// the other kind, numerically above/below
		if l < c28LocktimeThreshold {
			return uint32(rapid.Int64Range(c28LocktimeThreshold, 0xffffffff).Draw(t, "txLocktime")), "other-kind"
		}
		return uint32(rapid.IntRange(0, c28LocktimeThreshold-1).Draw(t, "txLocktime")), "other-kind"
	case 8:
		return 0xffffffff, "max"
	default:
		return rapid.Uint32().Draw(t, "txLocktime"), "any"
	}
}

var c28Who = []string{"wallet", "refund", "third"}

// c28GenHistory: the script is a function of the deposit PARAMETERS. A node
// builds scripts for many deposits in its lifetime and the funding outpoint
// does not determine the parameters (the Bridge does not check revealed
// parameters against the funding output; a reveal can be reorganised away and
// replaced), so the deposit under test comes after 0..2 earlier deposits whose
// scripts were already built - pointing at the same funding outpoint, another
// output of the same funding transaction, or an unrelated one. Every deposit
// carries its UTXO as in production. Earlier scripts are checked against the
// template as well.
func c28GenHistory(t *rapid.T) (*c28Deposit, string) {
	newOutpoint := func() *bitcoin.TransactionOutpoint {
		op := &bitcoin.TransactionOutpoint{OutputIndex: uint32(rapid.IntRange(0, 3).Draw(t, "fundingOutputIndex"))}
		copy(op.TransactionHash[:], rapid.SliceOfN(rapid.Byte(), 32, 32).Draw(t, "fundingTxHash"))
		return op
	}
	attach := func(g *c28Deposit, op *bitcoin.TransactionOutpoint) {
		g.d.Utxo = &bitcoin.UnspentTransactionOutput{
			Outpoint: &bitcoin.TransactionOutpoint{TransactionHash: op.TransactionHash, OutputIndex: op.OutputIndex},
			Value:    rapid.Int64Range(1, 2_100_000_000_000_000).Draw(t, "depositValue"),
		}
	}
	var last *bitcoin.TransactionOutpoint
	earlier := rapid.IntRange(0, 2).Draw(t, "earlierDeposits")
	for i := 0; i < earlier; i++ {
		p := c28GenDeposit(t)
		op := newOutpoint()
		if last != nil && rapid.Bool().Draw(t, "earlierSameOutpoint") {
			op = last
		}
		attach(p, op)
		last = op
		script, err := p.d.Script()
		if err != nil {
			t.Fatalf("Script() failed for a well-formed deposit: %v", err)
		}
		want, err := c28Template(p.depositor, p.d.ExtraData, p.d.BlindingFactor, p.d.WalletPublicKeyHash, p.d.RefundPublicKeyHash, p.d.RefundLocktime)
		if err != nil {
			t.Fatalf("template: %v", err)
		}
		if !bytes.Equal(script, want) {
			t.Fatalf("earlier deposit %d: script %x differs from the documented template %x", i+1, script, want)
		}
	}
	g := c28GenDeposit(t)
	relation := "first-deposit"
	switch {
	case last == nil:
		if rapid.IntRange(0, 4).Draw(t, "noUtxo") == 0 {
			return g, "no-utxo"
		}
		attach(g, newOutpoint())
	default:
		switch rapid.IntRange(0, 3).Draw(t, "outpointRelation") {
		case 0, 1:
			relation = "same-outpoint-as-earlier"
			attach(g, last)
		case 2:
			relation = "same-funding-tx-other-output"
			attach(g, &bitcoin.TransactionOutpoint{TransactionHash: last.TransactionHash, OutputIndex: last.OutputIndex + 1})
		default:
			relation = "unrelated-outpoint"
			attach(g, newOutpoint())
		}
	}
	return g, relation
}

func c28ExtraClass(e *[32]byte) string {
	switch {
	case e == nil:
		return "absent"
	case *e == [32]byte{}:
		return "all-zero"
	default:
		return "present"
	}
}

func TestVerif_C28_SpendConditions(t *testing.T) {
	st := verifkit.New("C28", "TestVerif_C28_SpendConditions")
	defer st.Flush()
	rapid.Check(t, func(t *rapid.T) {
		g, relation := c28GenHistory(t)
		script, err := g.d.Script()
		if err != nil {
			t.Fatalf("Script() failed for a well-formed deposit: %v", err)
		}
		// The UTXO is the one the depositor funded: P2SH / P2WSH of the script
		// the Bridge defines for these parameters (the documented template),
		// NOT of whatever Script() returns - the wallet presents Script() as
		// redeem / witness script and must be able to unlock that UTXO.
		funded, err := c28Template(g.depositor, g.d.ExtraData, g.d.BlindingFactor, g.d.WalletPublicKeyHash, g.d.RefundPublicKeyHash, g.d.RefundLocktime)
		if err != nil {
			t.Fatalf("template: %v", err)
		}
		witness := rapid.Bool().Draw(t, "p2wsh")
		var lock []byte
		if witness {
			h := sha256.Sum256(funded)
			lock = append([]byte{0x00, 0x20}, h[:]...)
		} else {
			h := c28Hash160(funded)
			lock = append(append([]byte{0xa9, 0x14}, h[:]...), 0x87)
		}
		amount := rapid.Int64Range(1, 2_100_000_000_000_000).Draw(t, "amount")

		// who is presented as the public key and who signs
		keys := map[string]*btcec.PrivateKey{"wallet": g.wallet, "refund": g.refund, "third": g.third}
		pubOf := rapid.SampledFrom([]string{"wallet", "wallet", "refund", "refund", "refund", "third"}).Draw(t, "publicKeyOf")
		signer := pubOf
		if rapid.IntRange(0, 4).Draw(t, "foreignSignature") == 0 {
			signer = rapid.SampledFrom(c28Who).Draw(t, "signer")
		}
		txLocktime, txLtClass := c28GenTxLocktime(t, g.locktime)
		sequence := rapid.SampledFrom([]uint32{0xffffffff, 0xfffffffe, 0xfffffffe, 0, 0}).Draw(t, "sequence")

		// spending transaction; the deposit may sit next to another input
		tx := wire.NewMsgTx(1)
		idx := 0
		otherFirst := rapid.IntRange(0, 3).Draw(t, "otherInputFirst") == 0
		otherSeq := rapid.SampledFrom([]uint32{0xffffffff, 0}).Draw(t, "otherSequence")
		var prevHash chainhash.Hash
		copy(prevHash[:], rapid.SliceOfN(rapid.Byte(), 32, 32).Draw(t, "fundingHash"))
		if otherFirst {
			tx.AddTxIn(&wire.TxIn{PreviousOutPoint: wire.OutPoint{Hash: prevHash, Index: 7}, Sequence: otherSeq})
			idx = 1
		}
		tx.AddTxIn(&wire.TxIn{PreviousOutPoint: wire.OutPoint{Hash: prevHash, Index: uint32(rapid.IntRange(0, 3).Draw(t, "fundingIndex"))}, Sequence: sequence})
		if !otherFirst && rapid.IntRange(0, 3).Draw(t, "otherInputLast") == 0 {
			tx.AddTxIn(&wire.TxIn{PreviousOutPoint: wire.OutPoint{Hash: prevHash, Index: 9}, Sequence: otherSeq})
		}
		tx.AddTxOut(wire.NewTxOut(amount/2, append([]byte{0x00, 0x14}, g.d.WalletPublicKeyHash[:]...)))
		tx.LockTime = txLocktime

		pubBytes := keys[pubOf].PubKey().SerializeCompressed()
		var sig []byte
		if witness {
			sig, err = txscript.RawTxInWitnessSignature(tx, txscript.NewTxSigHashes(tx), idx, amount, script, txscript.SigHashAll, keys[signer])
			if err != nil {
				t.Fatalf("signing: %v", err)
			}
			tx.TxIn[idx].Witness = wire.TxWitness{sig, pubBytes, script}
		} else {
			sig, err = txscript.RawTxInSignature(tx, idx, script, txscript.SigHashAll, keys[signer])
			if err != nil {
				t.Fatalf("signing: %v", err)
			}
			ss, err := txscript.NewScriptBuilder().AddData(sig).AddData(pubBytes).AddData(script).Script()
			if err != nil {
				t.Fatalf("sigscript: %v", err)
			}
			tx.TxIn[idx].SignatureScript = ss
		}

		run := func(flags txscript.ScriptFlags) error {
			vm, err := txscript.NewEngine(lock, tx, idx, flags, nil, nil, amount)
			if err != nil {
				return err
			}
			return vm.Execute()
		}
		errStd := run(txscript.StandardVerifyFlags)
		errCons := run(c28ConsensusFlags)

		// model
		sameKind := (g.locktime < c28LocktimeThreshold) == (txLocktime < c28LocktimeThreshold)
		locktimePassed := sameKind && txLocktime >= g.locktime && sequence != 0xffffffff
		desc := fmt.Sprintf("L=%d(%s) tx.locktime=%d(%s) seq=%x pub=%s sig=%s %s extra=%v history=%s", g.locktime, g.ltClass, txLocktime, txLtClass, sequence, pubOf, signer,
			map[bool]string{true: "p2wsh", false: "p2sh"}[witness], g.d.ExtraData != nil, relation)
		verdict := ""
		switch {
		case pubOf != signer || pubOf == "third":
			verdict = "reject"
		case pubOf == "wallet":
			verdict = "accept"
		case g.locktime >= 0x80000000:
			// sign bit set: as a script number the pushed locktime is zero or
			// negative (0x80000000 is "negative zero", i.e. already passed
			// for any transaction; other values make CHECKLOCKTIMEVERIFY fail
			// for good). "Before the locktime" has no meaning here.
			verdict = "unasserted"
		case !locktimePassed:
			verdict = "reject"
		case g.spendableDomain:
			verdict = "accept"
		default:
			// locktime bytes that are not a minimally encoded positive
			// number: whether the refund ever becomes spendable depends on
			// relay policy - only the safety directions are asserted.
			verdict = "unasserted"
		}
		switch verdict {
		case "accept":
			if errStd != nil || errCons != nil {
				t.Fatalf("%s: the spend must be valid but the script engine rejects it (standard: %v, consensus: %v); script %x", desc, errStd, errCons, script)
			}
		case "reject":
			if errStd == nil || errCons == nil {
				t.Fatalf("%s: the spend must be invalid but the script engine accepts it (standard: %v, consensus: %v); script %x", desc, errStd, errCons, script)
			}
		}
		boundary := pubOf == "refund" && signer == "refund" && (txLtClass == "at" || txLtClass == "one-before" || txLtClass == "one-after") && g.spendableDomain
		st.Case(boundary, desc, "path:"+pubOf+"/"+signer, "verdict:"+verdict, "locktime:"+g.ltClass, "tx-locktime:"+txLtClass,
			fmt.Sprintf("sequence:%x", sequence), fmt.Sprintf("p2wsh:%v", witness), "extra-data:"+c28ExtraClass(g.d.ExtraData), "history:"+relation)
	})
}

// The script is the documented template with the depositor, blinding factor
// and optional extra data as dropped pushes in front; removing them leaves
// exactly the spend-condition part, which does not depend on them.
func TestVerif_C28_Embedding(t *testing.T) {
	st := verifkit.New("C28", "TestVerif_C28_Embedding")
	defer st.Flush()
	rapid.Check(t, func(t *rapid.T) {
		g, relation := c28GenHistory(t)
		script, err := g.d.Script()
		if err != nil {
			t.Fatalf("Script() failed for a well-formed deposit: %v", err)
		}
		want, err := c28Template(g.depositor, g.d.ExtraData, g.d.BlindingFactor, g.d.WalletPublicKeyHash, g.d.RefundPublicKeyHash, g.d.RefundLocktime)
		if err != nil {
			t.Fatalf("template: %v", err)
		}
		if !bytes.Equal(script, want) {
			t.Fatalf("script %x differs from the documented template %x", script, want)
		}
		// parse: the leading dropped pushes carry exactly the embedded data
		pos := 0
		next := func(what string) (byte, []byte) {
			if pos >= len(script) {
				t.Fatalf("script ends before %s", what)
			}
			op := script[pos]
			pos++
			n := 0
			switch {
			case op >= 0x01 && op <= 0x4b:
				n = int(op)
			case op == txscript.OP_PUSHDATA1:
				if pos >= len(script) {
					t.Fatalf("truncated push at %s", what)
				}
				n = int(script[pos])
				pos++
			default:
				return op, nil
			}
			if pos+n > len(script) {
				t.Fatalf("truncated push at %s", what)
			}
			data := script[pos : pos+n]
			pos += n
			return op, data
		}
		expectPushDrop := func(what string, data []byte) {
			if _, d := next(what); !bytes.Equal(d, data) {
				t.Fatalf("%s push holds %x, expected %x", what, d, data)
			}
			if op, _ := next(what + " drop"); op != txscript.OP_DROP {
				t.Fatalf("%s is not dropped (opcode %x)", what, op)
			}
		}
		expectPushDrop("depositor", g.depositor[:])
		if g.d.ExtraData != nil {
			expectPushDrop("extra data", g.d.ExtraData[:])
		}
		expectPushDrop("blinding factor", g.d.BlindingFactor[:])
		rest := script[pos:]
		// the same keys and locktime with different embedded data give the
		// same spend-condition part
		other := *g.d
		var od [20]byte
		copy(od[:], rapid.SliceOfN(rapid.Byte(), 20, 20).Draw(t, "otherDepositor"))
		other.Depositor = chain.Address("0x" + hex.EncodeToString(od[:]))
		copy(other.BlindingFactor[:], rapid.SliceOfN(rapid.Byte(), 8, 8).Draw(t, "otherBlinding"))
		if rapid.Bool().Draw(t, "otherExtra") {
			var e [32]byte
			copy(e[:], c28Pattern(t, 32, "otherExtraData"))
			other.ExtraData = &e
		} else {
			other.ExtraData = nil
		}
		script2, err := other.Script()
		if err != nil {
			t.Fatalf("Script() failed: %v", err)
		}
		if !bytes.HasSuffix(script2, rest) {
			t.Fatalf("embedded data alters the spend conditions: %x vs %x", script2, script)
		}
		prefix2 := 1 + 20 + 1 + 1 + 8 + 1
		if other.ExtraData != nil {
			prefix2 += 1 + 32 + 1
		}
		if len(script2)-len(rest) != prefix2 {
			t.Fatalf("embedded data part of %x has %d bytes, expected %d", script2, len(script2)-len(rest), prefix2)
		}
		wantLen := 92
		if g.d.ExtraData != nil {
			wantLen = 126
		}
		if len(script) != wantLen {
			t.Fatalf("script has %d bytes, expected %d", len(script), wantLen)
		}
		st.Case(g.d.ExtraData != nil != (other.ExtraData != nil), fmt.Sprintf("depositor=%s blinding=%x extra=%v L=%d other-extra=%v", g.d.Depositor, g.d.BlindingFactor, g.d.ExtraData != nil, g.locktime, other.ExtraData != nil),
			"extra-data:"+c28ExtraClass(g.d.ExtraData), "locktime:"+g.ltClass, "history:"+relation)
	})
}
