//go:build go1.23

package tbtc

import (
	"context"
	"crypto/ecdsa"
	"fmt"
	"math/big"
	"sort"
	"sync"
	"testing"

	"github.com/ethereum/go-ethereum/crypto"
	"pgregory.net/rapid"

	"github.com/keep-network/keep-common/pkg/chain/ethereum/ethutil"
	"github.com/keep-network/keep-core/internal/testutils"
	"github.com/keep-network/keep-core/internal/verifkit"
	"github.com/keep-network/keep-core/pkg/chain"
	"github.com/keep-network/keep-core/pkg/internal/tecdsatest"
	"github.com/keep-network/keep-core/pkg/operator"
	"github.com/keep-network/keep-core/pkg/protocol/group"
	"github.com/keep-network/keep-core/pkg/tecdsa"
	"github.com/keep-network/keep-core/pkg/tecdsa/dkg"
)

// This file closes the client-side half of C40: the real dkgResultSigner and
// dkgResultSubmitter.SubmitResult (pkg/tbtc/dkg_submit.go) are driven with DKG
// results whose group has inactive AND disqualified members; what they hand to
// the chain is validated with a transcription of EcdsaDkgValidator (the same
// rules as in harness/pkg/chain/ethereum/c40_onchain_rules_test.go, which checks
// the Ethereum implementation of the assembly itself - it cannot be imported
// here because pkg/chain/ethereum imports pkg/tbtc).

const (
	c40sGroupSize       = 100
	c40sGroupThreshold  = 51
	c40sActiveThreshold = 90
)

// --- contract side (hand-written abi.encode, see EcdsaDkgValidator.sol)

func c40sPad32(v *big.Int) []byte { out := make([]byte, 32); v.FillBytes(out); return out }

// abi.encode(uint256 chainid, bytes groupPubKey, uint8[] misbehaved, uint256 startBlock)
func c40sResultHash(chainID *big.Int, groupPubKey []byte, misbehaved []group.MemberIndex, startBlock uint64) []byte {
	var tail []byte
	head := c40sPad32(chainID)
	head = append(head, c40sPad32(big.NewInt(4*32))...)
	tail = append(tail, c40sPad32(big.NewInt(int64(len(groupPubKey))))...)
	tail = append(tail, groupPubKey...)
	if r := len(groupPubKey) % 32; r != 0 {
		tail = append(tail, make([]byte, 32-r)...)
	}
	head = append(head, c40sPad32(big.NewInt(int64(4*32+len(tail))))...)
	tail = append(tail, c40sPad32(big.NewInt(int64(len(misbehaved))))...)
	for _, m := range misbehaved {
		tail = append(tail, c40sPad32(big.NewInt(int64(m)))...)
	}
	head = append(head, c40sPad32(new(big.Int).SetUint64(startBlock))...)
	return crypto.Keccak256(append(head, tail...))
}

// keccak256(abi.encode(uint32[] ids))
func c40sMembersHash(ids []uint32) [32]byte {
	enc := c40sPad32(big.NewInt(32))
	enc = append(enc, c40sPad32(big.NewInt(int64(len(ids))))...)
	for _, id := range ids {
		enc = append(enc, c40sPad32(new(big.Int).SetUint64(uint64(id)))...)
	}
	var out [32]byte
	copy(out[:], crypto.Keccak256(enc))
	return out
}

var c40sHalfOrder, _ = new(big.Int).SetString("7FFFFFFFFFFFFFFFFFFFFFFFFFFFFFFF5D576E7357A4501DDFE92F46681B20A0", 16)

// OpenZeppelin ECDSA.recover over toEthSignedMessageHash(hash)
func c40sRecover(hash, sig []byte) ([20]byte, error) {
	var addr [20]byte
	if len(sig) != 65 {
		return addr, fmt.Errorf("invalid signature length %d", len(sig))
	}
	if new(big.Int).SetBytes(sig[32:64]).Cmp(c40sHalfOrder) > 0 {
		return addr, fmt.Errorf("invalid signature 's' value")
	}
	if sig[64] != 27 && sig[64] != 28 {
		return addr, fmt.Errorf("invalid signature 'v' value %d", sig[64])
	}
	prefixed := crypto.Keccak256([]byte("\x19Ethereum Signed Message:\n32"), hash)
	pub, err := crypto.Ecrecover(prefixed, append(append([]byte{}, sig[:64]...), sig[64]-27))
	if err != nil {
		return addr, err
	}
	copy(addr[:], crypto.Keccak256(pub[1:])[12:])
	return addr, nil
}

// EcdsaDkgValidator.validate (fields, signatures, members hash) on the result
// the client submits; idOperator = sortitionPool.getIDOperators.
func c40sValidate(r *DKGChainResult, chainID *big.Int, startBlock uint64, idOperator func(uint32) [20]byte) (bool, string) {
	if len(r.GroupPublicKey) != 64 {
		return false, fmt.Sprintf("Malformed group public key (%d bytes)", len(r.GroupPublicKey))
	}
	mis := r.MisbehavedMembersIndexes
	if c40sGroupSize-len(mis) < c40sActiveThreshold {
		return false, "Too many members misbehaving during DKG"
	}
	if len(mis) > 1 {
		if mis[0] < 1 || int(mis[len(mis)-1]) > c40sGroupSize {
			return false, "Corrupted misbehaved members indices"
		}
		for i := 1; i < len(mis); i++ {
			if mis[i-1] >= mis[i] {
				return false, "Corrupted misbehaved members indices"
			}
		}
	}
	count := len(r.Signatures) / 65
	if len(r.Signatures) == 0 {
		return false, "No signatures provided"
	}
	if len(r.Signatures)%65 != 0 {
		return false, "Malformed signatures array"
	}
	sm := r.SigningMembersIndexes
	if count != len(sm) {
		return false, "Unexpected signatures count"
	}
	if count < c40sGroupThreshold {
		return false, "Too few signatures"
	}
	if count > c40sGroupSize {
		return false, "Too many signatures"
	}
	if sm[0] < 1 || int(sm[len(sm)-1]) > c40sGroupSize {
		return false, "Corrupted signing member indices"
	}
	for i := 1; i < len(sm); i++ {
		if sm[i-1] >= sm[i] {
			return false, "Corrupted signing member indices"
		}
	}
	// validateSignatures: the hash is computed from the SUBMITTED fields
	hash := c40sResultHash(chainID, r.GroupPublicKey, mis, startBlock)
	for i := 0; i < count; i++ {
		if int(sm[i])-1 >= len(r.Members) {
			return false, "Invalid signatures: member index out of bounds"
		}
		want := idOperator(r.Members[sm[i]-1])
		got, err := c40sRecover(hash, r.Signatures[65*i:65*(i+1)])
		if err != nil {
			return false, "Invalid signatures: " + err.Error()
		}
		if got != want {
			return false, fmt.Sprintf("Invalid signatures: signature of member %d does not recover to its operator under the hash of the submitted result (misbehaved %v)", sm[i], mis)
		}
	}
	// validateMembersHash, loop transcribed literally
	if len(mis) > 0 {
		if len(r.Members) < len(mis) {
			return false, "Invalid members hash: underflow"
		}
		groupMembers := make([]uint32, len(r.Members)-len(mis))
		k, j := 0, 0
		for i := 0; i < len(r.Members); i++ {
			if i != int(mis[k])-1 {
				if j >= len(groupMembers) {
					return false, "Invalid members hash: index out of bounds"
				}
				groupMembers[j] = r.Members[i]
				j++
			} else if k < len(mis)-1 {
				k++
			}
		}
		if c40sMembersHash(groupMembers) != r.MembersHash {
			return false, fmt.Sprintf("Invalid members hash: contract hashes the members without the submitted misbehaved indices %v", mis)
		}
		return true, ""
	}
	if c40sMembersHash(r.Members) != r.MembersHash {
		return false, "Invalid members hash"
	}
	return true, ""
}

// --- Ethereum-style signing identity of one operator (keep-common's signer,
// the one pkg/chain/ethereum wraps)

type c40sSigner struct {
	*ethutil.EthereumSigner
	address chain.Address
}

func (s *c40sSigner) Address() chain.Address { return s.address }
func (s *c40sSigner) PublicKeyToAddress(*operator.PublicKey) (chain.Address, error) {
	return "", fmt.Errorf("c40: not needed")
}
func (s *c40sSigner) PublicKeyBytesToAddress(publicKey []byte) chain.Address {
	return chain.Address(fmt.Sprintf("0x%x", s.EthereumSigner.PublicKeyBytesToAddress(publicKey)))
}

type c40sOperator struct {
	key     *ecdsa.PrivateKey
	address [20]byte
	signer  *c40sSigner
}

// --- chain double: embeds the package's local chain for everything the flow
// does not touch; the DKG result methods follow the Ethereum chain's rules
// (sorted indices, 64-byte key, keccak/abi hashes) and record their arguments.

type c40sChain struct {
	*localChain
	chainID    *big.Int
	blocks     *verifkit.FakeBlockCounter
	state      DKGState
	identity   *c40sSigner
	idOperator func(uint32) [20]byte
	startBlock uint64

	assembledMisbehavedArg []group.MemberIndex
	assembledOperatingArg  []group.MemberIndex
	validated              []*DKGChainResult
	validationVerdict      string
	submitted              []*DKGChainResult
}

func (c *c40sChain) Signing() chain.Signing                    { return c.identity }
func (c *c40sChain) GetDKGState() (DKGState, error)            { return c.state, nil }
func (c *c40sChain) BlockCounter() (chain.BlockCounter, error) { return c.blocks, nil }

func c40sSorted(in []group.MemberIndex) []group.MemberIndex {
	out := append([]group.MemberIndex{}, in...)
	sort.Slice(out, func(i, j int) bool { return out[i] < out[j] })
	return out
}

func c40sKeyBytes(pub *ecdsa.PublicKey) []byte {
	out := make([]byte, 64)
	pub.X.FillBytes(out[:32])
	pub.Y.FillBytes(out[32:])
	return out
}

func (c *c40sChain) CalculateDKGResultSignatureHash(groupPublicKey *ecdsa.PublicKey, misbehaved []group.MemberIndex, startBlock uint64) (dkg.ResultSignatureHash, error) {
	var out dkg.ResultSignatureHash
	copy(out[:], c40sResultHash(c.chainID, c40sKeyBytes(groupPublicKey), c40sSorted(misbehaved), startBlock))
	return out, nil
}

func (c *c40sChain) AssembleDKGResult(submitter group.MemberIndex, groupPublicKey *ecdsa.PublicKey, operating, misbehaved []group.MemberIndex,
	signatures map[group.MemberIndex][]byte, selection *GroupSelectionResult) (*DKGChainResult, error) {
	c.assembledMisbehavedArg = append([]group.MemberIndex{}, misbehaved...)
	c.assembledOperatingArg = append([]group.MemberIndex{}, operating...)
	var signers []group.MemberIndex
	for m := range signatures {
		signers = append(signers, m)
	}
	signers = c40sSorted(signers)
	var sigs []byte
	for _, m := range signers {
		if len(signatures[m]) != 65 {
			return nil, fmt.Errorf("c40: signature of member %d has %d bytes", m, len(signatures[m]))
		}
		sigs = append(sigs, signatures[m]...)
	}
	var ids []uint32
	for _, m := range c40sSorted(operating) {
		ids = append(ids, selection.OperatorsIDs[m-1])
	}
	return &DKGChainResult{
		SubmitterMemberIndex:     submitter,
		GroupPublicKey:           c40sKeyBytes(groupPublicKey),
		MisbehavedMembersIndexes: c40sSorted(misbehaved),
		Signatures:               sigs,
		SigningMembersIndexes:    signers,
		Members:                  selection.OperatorsIDs,
		MembersHash:              c40sMembersHash(ids),
	}, nil
}

// the free validation call the submitter makes before submitting
func (c *c40sChain) IsDKGResultValid(r *DKGChainResult) (bool, error) {
	c.validated = append(c.validated, r)
	ok, why := c40sValidate(r, c.chainID, c.startBlock, c.idOperator)
	c.validationVerdict = why
	return ok, nil
}

func (c *c40sChain) SubmitDKGResult(r *DKGChainResult) error {
	c.submitted = append(c.submitted, r)
	c.state = Challenge
	return nil
}

var (
	c40sOnce      sync.Once
	c40sBase      *localChain
	c40sShares    []*tecdsa.PrivateKeyShare
	c40sOperators []*c40sOperator
)

func c40sSetup(t *testing.T) {
	c40sOnce.Do(func() {
		c40sBase = Connect()
		data, err := tecdsatest.LoadPrivateKeyShareTestFixtures(1)
		if err != nil {
			panic(err)
		}
		for _, d := range data {
			c40sShares = append(c40sShares, tecdsa.NewPrivateKeyShare(d))
		}
		for i := 0; i < 40; i++ {
			k, err := crypto.ToECDSA(crypto.Keccak256([]byte(fmt.Sprintf("c40 submit operator key %d", i))))
			if err != nil {
				panic(err)
			}
			op := &c40sOperator{key: k}
			copy(op.address[:], crypto.PubkeyToAddress(k.PublicKey).Bytes())
			op.signer = &c40sSigner{EthereumSigner: ethutil.NewSigner(k), address: chain.Address(crypto.PubkeyToAddress(k.PublicKey).Hex())}
			c40sOperators = append(c40sOperators, op)
		}
	})
}

// TestVerif_C40_SubmittedResultPassesValidator: members sign with the real
// dkgResultSigner, one of them submits with the real dkgResultSubmitter; the
// result handed to the chain must pass the contract's validation.
func TestVerif_C40_SubmittedResultPassesValidator(t *testing.T) {
	c40sSetup(t)
	st := verifkit.New("C40", "TestVerif_C40_SubmittedResultPassesValidator")
	defer st.Flush()
	params := &GroupParameters{GroupSize: c40sGroupSize, GroupQuorum: c40sActiveThreshold, HonestThreshold: c40sGroupThreshold}
	rapid.Check(t, func(t *rapid.T) {
		// seats
		nOps := rapid.IntRange(1, 40).Draw(t, "operators")
		opOfID := map[uint32]*c40sOperator{}
		var opIDs []uint32
		for len(opIDs) < nOps {
			id := uint32(rapid.IntRange(1, 100000).Draw(t, "operatorID"))
			if opOfID[id] != nil {
				continue
			}
			opOfID[id] = c40sOperators[len(opIDs)]
			opIDs = append(opIDs, id)
		}
		selection := &GroupSelectionResult{}
		for i := 0; i < c40sGroupSize; i++ {
			id := opIDs[rapid.IntRange(0, nOps-1).Draw(t, "seatOperator")]
			selection.OperatorsIDs = append(selection.OperatorsIDs, id)
			selection.OperatorsAddresses = append(selection.OperatorsAddresses, opOfID[id].signer.address)
		}
		idOperator := func(id uint32) [20]byte {
			if op := opOfID[id]; op != nil {
				return op.address
			}
			return [20]byte{}
		}

		// partition: inactive and disqualified members, 0..10 in total,
		// mostly both kinds present
		nMis := rapid.SampledFrom([]int{0, 1, 2, 2, 3, 4, 6, 10}).Draw(t, "misbehavedCount")
		all := make([]group.MemberIndex, c40sGroupSize)
		for i := range all {
			all[i] = group.MemberIndex(i + 1)
		}
		perm := rapid.Permutation(all).Draw(t, "memberOrder")
		mis := append([]group.MemberIndex{}, perm[:nMis]...)
		if nMis > 0 && rapid.Bool().Draw(t, "misbehavedAtEnds") {
			end := group.MemberIndex(rapid.SampledFrom([]int{1, 100}).Draw(t, "endIndex"))
			dup := false
			for _, m := range mis {
				dup = dup || m == end
			}
			if !dup {
				mis[0] = end
			}
		}
		nInactive := 0
		if nMis > 0 {
			switch rapid.IntRange(0, 5).Draw(t, "kindSplit") {
			case 0:
				nInactive = 0
			case 1:
				nInactive = nMis
			default:
				nInactive = rapid.IntRange(1, max(1, nMis-1)).Draw(t, "inactiveCount")
			}
		}
		inactive, disqualified := mis[:nInactive], mis[nInactive:]

		share := c40sShares[rapid.IntRange(0, len(c40sShares)-1).Draw(t, "share")]
		result := &dkg.Result{Group: group.NewGroup(params.DishonestThreshold(), params.GroupSize), PrivateKeyShare: share}
		// marks arrive interleaved, like during a protocol run
		marks := rapid.Permutation(append([]group.MemberIndex{}, mis...)).Draw(t, "markOrder")
		isInactive := map[group.MemberIndex]bool{}
		for _, m := range inactive {
			isInactive[m] = true
		}
		for _, m := range marks {
			if isInactive[m] {
				result.Group.MarkMemberAsInactive(m)
			} else {
				result.Group.MarkMemberAsDisqualified(m)
			}
		}
		operating := result.Group.OperatingMemberIndexes()
		if len(operating) != c40sGroupSize-nMis {
			t.Fatalf("harness: %d operating members after marking %d", len(operating), nMis)
		}

		var chainID *big.Int
		switch rapid.IntRange(0, 2).Draw(t, "chainIDClass") {
		case 0:
			chainID = big.NewInt(rapid.SampledFrom([]int64{1, 11155111, 31337}).Draw(t, "knownChainID"))
		case 1:
			chainID = new(big.Int).SetUint64(rapid.Uint64().Draw(t, "chainID64"))
		default:
			chainID = big.NewInt(int64(rapid.IntRange(1, 100000).Draw(t, "chainID")))
		}
		startBlock := uint64(rapid.IntRange(0, 1<<40).Draw(t, "startBlock"))

		newChain := func(op *c40sOperator) *c40sChain {
			return &c40sChain{localChain: c40sBase, chainID: chainID, blocks: verifkit.NewFakeBlockCounter(uint64(rapid.IntRange(1, 1<<30).Draw(t, "currentBlock"))),
				state: AwaitingResult, identity: op.signer, idOperator: idOperator, startBlock: startBlock}
		}

		// supporters: at least the quorum the submitter insists on
		nSup := len(operating)
		if len(operating) > c40sActiveThreshold && rapid.IntRange(0, 3).Draw(t, "allSupport") != 0 {
			nSup = rapid.IntRange(c40sActiveThreshold, len(operating)-1).Draw(t, "supporters")
		}
		supporters := rapid.Permutation(append([]group.MemberIndex{}, operating...)).Draw(t, "supporterSet")[:nSup]
		signatures := map[group.MemberIndex][]byte{}
		chains := map[*c40sOperator]*c40sChain{}
		var firstSigned *dkg.SignedResult
		for _, m := range supporters {
			op := opOfID[selection.OperatorsIDs[m-1]]
			ch := chains[op]
			if ch == nil {
				ch = newChain(op)
				chains[op] = ch
			}
			signed, err := newDkgResultSigner(ch, startBlock).SignResult(result)
			if err != nil {
				t.Fatalf("member %d: SignResult failed: %v", m, err)
			}
			signatures[m] = signed.Signature
			if firstSigned == nil {
				firstSigned = signed
			} else if signed.ResultHash != firstSigned.ResultHash {
				t.Fatalf("members sign different hashes of the same result")
			}
		}
		submitter := supporters[rapid.IntRange(0, nSup-1).Draw(t, "submitter")]
		subChain := newChain(opOfID[selection.OperatorsIDs[submitter-1]])
		// another member's signature verifies with the submitter's signer
		if ok, err := newDkgResultSigner(subChain, startBlock).VerifySignature(firstSigned); err != nil || !ok {
			t.Fatalf("VerifySignature rejects a member's signature: %v %v", ok, err)
		}

		var waitedFor []uint64
		waitFn := func(ctx context.Context, block uint64) error { waitedFor = append(waitedFor, block); return nil }
		drs := newDkgResultSubmitter(&testutils.MockLogger{}, subChain, params, selection, waitFn)
		err := drs.SubmitResult(context.Background(), submitter, result, signatures)

		ctx := fmt.Sprintf("chain %v start %d inactive %v disqualified %v supporters %d submitter %d operators %d",
			chainID, startBlock, c40sSorted(inactive), c40sSorted(disqualified), nSup, submitter, nOps)
		if len(subChain.validated) != 1 {
			t.Fatalf("%s: the submitter validated %d results before submitting (err %v)", ctx, len(subChain.validated), err)
		}
		handed := subChain.validated[0]
		wantMis := c40sSorted(mis)
		if fmt.Sprint(handed.MisbehavedMembersIndexes) != fmt.Sprint(wantMis) {
			t.Fatalf("%s: result handed to the chain names misbehaved members %v; inactive ∪ disqualified is %v (AssembleDKGResult received %v)",
				ctx, handed.MisbehavedMembersIndexes, wantMis, subChain.assembledMisbehavedArg)
		}
		if ok, why := c40sValidate(handed, chainID, startBlock, idOperator); !ok {
			t.Fatalf("%s: the contract would reject the result the client assembled: %s", ctx, why)
		}
		var activeIDs []uint32
		for _, m := range operating {
			activeIDs = append(activeIDs, selection.OperatorsIDs[m-1])
		}
		if handed.MembersHash != c40sMembersHash(activeIDs) {
			t.Fatalf("%s: members hash is not the hash of the operating members' ids", ctx)
		}
		if err != nil {
			t.Fatalf("%s: SubmitResult failed: %v (validator: %s)", ctx, err, subChain.validationVerdict)
		}
		if len(subChain.submitted) != 1 || subChain.submitted[0] != handed {
			t.Fatalf("%s: %d results submitted; the validated result must be the submitted one", ctx, len(subChain.submitted))
		}
		if handed.SubmitterMemberIndex != submitter || len(handed.SigningMembersIndexes) != nSup {
			t.Fatalf("%s: submitted result carries submitter %d and %d signers", ctx, handed.SubmitterMemberIndex, len(handed.SigningMembersIndexes))
		}
		if len(waitedFor) != 1 {
			t.Fatalf("%s: submitter waited for %v", ctx, waitedFor)
		}

		kind := "none"
		switch {
		case len(inactive) > 0 && len(disqualified) > 0:
			kind = "inactive+disqualified"
		case len(inactive) > 0:
			kind = "inactive-only"
		case len(disqualified) > 0:
			kind = "disqualified-only"
		}
		// non-trivial: both kinds of misbehaviour and not everybody supports
		st.Case(kind == "inactive+disqualified" && nSup != len(operating), ctx, "misbehaved:"+kind, fmt.Sprintf("all-support:%v", nSup == len(operating)))
	})
}
