//go:build go1.23

package tbtc

import (
	"bytes"
	"context"
	"errors"
	"fmt"
	"math/big"
	"runtime"
	"strconv"
	"strings"
	"sync"
	"sync/atomic"
	"testing"
	"time"

	"github.com/keep-network/keep-core/internal/testutils"
	"github.com/keep-network/keep-core/internal/verifkit"
	"github.com/keep-network/keep-core/pkg/chain"
	"github.com/keep-network/keep-core/pkg/protocol/group"
	"github.com/keep-network/keep-core/pkg/tecdsa"
	"github.com/keep-network/keep-core/pkg/tecdsa/dkg"
	"github.com/keep-network/keep-core/pkg/tecdsa/signing"
	"pgregory.net/rapid"
)

// ---------------------------------------------------------------------------
// C11 - retry-loop attempts have identical, non-overlapping block windows.
//
// The real signingRetryLoop.start / dkgRetryLoop.start run against a fake
// block counter, a scripted announcer, scripted attempt functions and (for
// signing) a scripted done check. The clock is LOGICAL: it advances only when
// the loop goroutine waits for a block or a scripted step "takes" blocks, so
// every observation below is a deterministic function of the drawn script.
// ---------------------------------------------------------------------------

const c11Wait = 60 * time.Second // machinery bound; hitting it is INCONCLUSIVE

type c11Phase struct{ delay, active, protocol, cooldown uint64 }

func (p c11Phase) max() uint64 { return p.delay + p.active + p.protocol + p.cooldown }

// closed form of the property: windows of attempt n for a loop started at `start`.
func (p c11Phase) window(start uint64, n uint) (announceStart, announceEnd, timeout uint64) {
	announceStart = start + uint64(n-1)*p.max() + p.delay
	announceEnd = announceStart + p.active
	timeout = announceEnd + p.protocol
	return
}

var (
	c11Signing = c11Phase{signingAttemptAnnouncementDelayBlocks, signingAttemptAnnouncementActiveBlocks, signingAttemptMaximumProtocolBlocks, signingAttemptCoolDownBlocks}
	c11Dkg     = c11Phase{dkgAttemptAnnouncementDelayBlocks, dkgAttemptAnnouncementActiveBlocks, dkgAttemptMaximumProtocolBlocks, dkgAttemptCoolDownBlocks}
)

func c11Goid() int64 {
	var buf [64]byte
	n := runtime.Stack(buf[:], false)
	f := bytes.Fields(buf[:n])
	id, _ := strconv.ParseInt(string(f[1]), 10, 64)
	return id
}

// script of one attempt of one member
type c11Step struct {
	curErr       bool   // signing: the current block cannot be read
	waitErr      bool   // waiting for the announcement start block fails
	announce     string // "error" | "few" | "ready"
	ready        []group.MemberIndex
	attempt      string // "error" | "ok"
	attemptTakes uint64 // blocks mined while the attempt function runs
	signal       string // signing: "ok" | "error"
	done         string // signing: "ok" | "error" | "timeout"
	doneTakes    uint64
}

func (s c11Step) String() string {
	var p []string
	if s.curErr {
		p = append(p, "cur-err")
	}
	if s.waitErr {
		p = append(p, "wait-err")
	}
	p = append(p, "ann:"+s.announce)
	if s.announce == "ready" {
		p = append(p, fmt.Sprintf("att:%s+%d", s.attempt, s.attemptTakes))
		if s.attempt == "ok" && s.signal != "" {
			p = append(p, "sig:"+s.signal, fmt.Sprintf("done:%s+%d", s.done, s.doneTakes))
		}
	}
	return strings.Join(p, ",")
}

type c11Observed struct {
	n             uint
	cur           uint64 // signing: current block the loop saw for this attempt
	curSeen       bool
	announced     bool
	announceStart uint64 // block the loop goroutine waited for before announcing
	announceEnd   uint64 // block the announcement context is bound to
	entryHeight   uint64 // clock when the announcer was entered
	closedOnEntry bool   // the announcement window was already over
	listened      bool
	listenTimeout uint64 // timeout block given to the done check
	doneCtxBlock  uint64 // block the done-check context is bound to
	executed      bool
	paramStart    uint64
	paramTimeout  uint64
	paramNumber   uint
}

// c11Sim is one member's simulation.
type c11Sim struct {
	phase   c11Phase
	signing bool
	start   uint64
	member  group.MemberIndex
	script  []c11Step
	bc      *verifkit.FakeBlockCounter
	cancel  context.CancelFunc

	mu          sync.Mutex
	loopGoid    int64
	bg          []uint64 // blocks waited for by helper goroutines, in order
	bgSeen      int
	mainWaits   []uint64
	inflight    atomic.Int64 // waitForBlock calls in progress
	curCalls    int
	waitErrDone uint
	obs         map[uint]*c11Observed
	order       []uint
	current     uint // attempt in progress (signing: from the current-block call; dkg: from the announcer)
	doneCtx     context.Context
	problem     string // first violation
	inconcl     string
	over        bool
}

func (s *c11Sim) fail(format string, a ...any) {
	if s.problem == "" {
		s.problem = fmt.Sprintf(format, a...)
	}
}

func (s *c11Sim) ob(n uint) *c11Observed {
	o, ok := s.obs[n]
	if !ok {
		o = &c11Observed{n: n}
		s.obs[n] = o
		s.order = append(s.order, n)
	}
	return o
}

func (s *c11Sim) step(n uint) (c11Step, bool) {
	if n == 0 || int(n) > len(s.script) {
		return c11Step{}, false
	}
	return s.script[n-1], true
}

// waitForBlock is the waitForBlockFn handed to the loop. Called by the loop
// goroutine it IS the clock: time passes until the block is reached. Called
// by a helper goroutine (context cancellation on a block) it registers a real
// waiter on the fake counter.
func (s *c11Sim) waitForBlock(ctx context.Context, block uint64) error {
	s.inflight.Add(1)
	defer s.inflight.Add(-1)
	if c11Goid() == s.loopGoid {
		s.mu.Lock()
		s.mainWaits = append(s.mainWaits, block)
		waits := len(s.mainWaits)
		n := s.current
		if !s.signing {
			n = s.current + 1 // the dkg loop waits before it announces attempt current+1
		}
		// a scripted wait failure hits once per attempt
		failOnce := n != s.waitErrDone
		s.waitErrDone = n
		s.mu.Unlock()
		// The script is over when the loop keeps iterating far beyond it,
		// whatever hooks it calls or omits on the way.
		if waits > 4*len(s.script)+16 {
			s.over = true
			s.cancel()
			return errors.New("scripted: over")
		}
		if st, ok := s.step(n); ok && st.waitErr && failOnce {
			return errors.New("scripted: block wait failed")
		}
		if block > s.bc.Height() {
			s.bc.AdvanceTo(block)
		}
		return nil
	}
	w, _ := s.bc.BlockHeightWaiter(block)
	s.mu.Lock()
	s.bg = append(s.bg, block)
	s.mu.Unlock()
	select {
	case <-w:
	case <-ctx.Done():
	}
	return nil
}

// nextHelperBlock waits until the helper goroutine created just before the
// current hook has registered its block waiter and returns that block.
func (s *c11Sim) nextHelperBlock() (uint64, bool) {
	ok := verifkit.Eventually(c11Wait, func() bool {
		s.mu.Lock()
		defer s.mu.Unlock()
		return len(s.bg) > s.bgSeen
	})
	if !ok {
		s.inconcl = "no block-bound context was set up before the hook"
		return 0, false
	}
	s.mu.Lock()
	defer s.mu.Unlock()
	b := s.bg[s.bgSeen]
	s.bgSeen++
	return b, true
}

func c11CtxDone(ctx context.Context) bool {
	select {
	case <-ctx.Done():
		return true
	case <-time.After(c11Wait):
		return false
	}
}

// boundTo checks that ctx is live strictly before `block` and done from
// `block` on, moving the clock to `block` if it is not there yet.
func (s *c11Sim) boundTo(ctx context.Context, block uint64, what string, n uint) bool {
	if s.bc.Height() < block {
		if ctx.Err() != nil {
			s.fail("attempt %d: %s is already over at block %d, before its end block %d", n, what, s.bc.Height(), block)
			return false
		}
		if block-1 > s.bc.Height() {
			s.bc.AdvanceTo(block - 1)
		}
		if ctx.Err() != nil {
			s.fail("attempt %d: %s is over at block %d, before its end block %d", n, what, s.bc.Height(), block)
			return false
		}
		s.bc.AdvanceTo(block)
	}
	if !c11CtxDone(ctx) {
		s.inconcl = fmt.Sprintf("attempt %d: %s not over although block %d is reached", n, what, block)
		return false
	}
	return true
}

func (s *c11Sim) currentBlock() (uint64, error) {
	s.mu.Lock()
	s.curCalls++
	n := uint(s.curCalls)
	s.current = n
	s.mu.Unlock()
	st, ok := s.step(n)
	if !ok {
		s.over = true
		s.cancel()
		return s.bc.Height(), nil
	}
	if st.curErr {
		return 0, errors.New("scripted: cannot read the current block")
	}
	o := s.ob(n)
	o.cur, o.curSeen = s.bc.Height(), true
	return o.cur, nil
}

// Announce is the scripted announcer (both loops).
func (s *c11Sim) Announce(ctx context.Context, memberIndex group.MemberIndex, sessionID string) ([]group.MemberIndex, error) {
	i := strings.LastIndex(sessionID, "-")
	nn, err := strconv.Atoi(sessionID[i+1:])
	if err != nil {
		s.inconcl = "cannot parse session id " + sessionID
		return nil, errors.New("bad session")
	}
	n := uint(nn)
	if s.over {
		return nil, errors.New("scripted: over")
	}
	s.current = n
	st, ok := s.step(n)
	if !ok {
		s.over = true
		s.cancel()
		return nil, errors.New("scripted: over")
	}
	if memberIndex != s.member {
		s.fail("attempt %d announced for member %d, the loop belongs to member %d", n, memberIndex, s.member)
	}
	o := s.ob(n)
	if o.announced {
		s.fail("attempt %d announced twice", n)
	}
	o.announced = true
	s.mu.Lock()
	if len(s.mainWaits) > 0 {
		o.announceStart = s.mainWaits[len(s.mainWaits)-1]
	}
	s.mu.Unlock()
	end, got := s.nextHelperBlock()
	if !got {
		return nil, errors.New("inconclusive")
	}
	o.announceEnd = end
	o.entryHeight = s.bc.Height()
	o.closedOnEntry = end <= o.entryHeight
	if !s.boundTo(ctx, end, "the announcement phase", n) {
		return nil, errors.New("stop")
	}
	if o.closedOnEntry {
		// nobody else can be heard in a window that is already closed
		return []group.MemberIndex{s.member}, nil
	}
	switch st.announce {
	case "error":
		return nil, errors.New("scripted: announcement failed")
	default:
		return append([]group.MemberIndex{}, st.ready...), nil
	}
}

func (s *c11Sim) recordAttempt(number uint, startBlock, timeoutBlock uint64) c11Step {
	o := s.ob(number)
	if o.executed {
		s.fail("attempt %d executed twice", number)
	}
	o.executed = true
	o.paramNumber, o.paramStart, o.paramTimeout = number, startBlock, timeoutBlock
	if number != s.current {
		s.fail("attempt function called with number %d during attempt %d", number, s.current)
	}
	st, _ := s.step(number)
	if st.attemptTakes > 0 {
		s.bc.AdvanceTo(s.bc.Height() + st.attemptTakes)
	}
	return st
}

var c11Signature = &tecdsa.Signature{R: big.NewInt(7), S: big.NewInt(9), RecoveryID: 1}

func (s *c11Sim) signingAttempt(p *signingAttemptParams) (*signing.Result, uint64, error) {
	st := s.recordAttempt(p.number, p.startBlock, p.timeoutBlock)
	if st.attempt == "error" {
		return nil, 0, errors.New("scripted: attempt failed")
	}
	return &signing.Result{Signature: c11Signature}, s.bc.Height(), nil
}

func (s *c11Sim) dkgAttempt(p *dkgAttemptParams) (*dkg.Result, error) {
	st := s.recordAttempt(p.number, p.startBlock, p.timeoutBlock)
	if st.attempt == "error" {
		return nil, errors.New("scripted: attempt failed")
	}
	return &dkg.Result{}, nil
}

// scripted done check (signing loop)
func (s *c11Sim) listen(ctx context.Context, message *big.Int, attemptNumber uint64, attemptTimeoutBlock uint64, members []group.MemberIndex) {
	n := uint(attemptNumber)
	o := s.ob(n)
	o.listened, o.listenTimeout = true, attemptTimeoutBlock
	if n != s.current {
		s.fail("done check set up for attempt %d during attempt %d", n, s.current)
	}
	b, got := s.nextHelperBlock()
	if got {
		o.doneCtxBlock = b
	}
	s.doneCtx = ctx
}

func (s *c11Sim) signalDone(ctx context.Context, memberIndex group.MemberIndex, message *big.Int, attemptNumber uint64, result *signing.Result, endBlock uint64) error {
	st, _ := s.step(uint(attemptNumber))
	if st.signal == "error" {
		return errors.New("scripted: cannot signal")
	}
	return nil
}

func (s *c11Sim) waitUntilAllDone(ctx context.Context) (*signing.Result, uint64, error) {
	n := s.current
	o := s.ob(n)
	st, _ := s.step(n)
	switch st.done {
	case "ok":
		if st.doneTakes > 0 {
			s.bc.AdvanceTo(s.bc.Height() + st.doneTakes)
		}
		return &signing.Result{Signature: c11Signature}, s.bc.Height(), nil
	case "error":
		return nil, 0, errors.New("scripted: signatures differ")
	default:
		// nobody confirms: the wait lasts until the attempt times out
		if o.doneCtxBlock != 0 {
			s.boundTo(ctx, o.doneCtxBlock, "the done-check phase", n)
		}
		return nil, 0, errWaitDoneTimedOut
	}
}

// ------------------------------------------------------------ generator ----

type c11Plan struct {
	n        int
	ops      chain.Addresses
	params   *GroupParameters
	start    uint64
	members  []group.MemberIndex
	late     []uint64 // clock of each member when its loop starts, relative to start
	scripts  [][]c11Step
	seedText *big.Int
}

func c11GenTakes(t *rapid.T, ph c11Phase, label string) uint64 {
	switch rapid.SampledFrom([]string{"none", "short", "short", "full", "cooldown", "overrun", "long-overrun"}).Draw(t, label+"Kind") {
	case "none":
		return 0
	case "short":
		return uint64(rapid.IntRange(1, int(ph.protocol)-1).Draw(t, label+"Short"))
	case "full":
		return ph.protocol
	case "cooldown":
		return ph.protocol + uint64(rapid.IntRange(1, int(ph.cooldown+ph.delay)).Draw(t, label+"Cool"))
	case "overrun":
		return ph.protocol + ph.cooldown + ph.delay + uint64(rapid.IntRange(1, int(ph.active)+2).Draw(t, label+"Over"))
	default:
		return ph.protocol + uint64(rapid.IntRange(int(ph.max()), 3*int(ph.max())).Draw(t, label+"Long"))
	}
}

func c11GenPlan(t *rapid.T, ph c11Phase, signing bool) c11Plan {
	p := c11Plan{}
	p.n = rapid.IntRange(3, 8).Draw(t, "groupSize")
	for i := 0; i < p.n; i++ {
		p.ops = append(p.ops, chain.Address(fmt.Sprintf("0x%02x", i*7+3)))
	}
	h := rapid.IntRange(p.n/2+1, p.n).Draw(t, "honestThreshold")
	q := rapid.IntRange(h, p.n).Draw(t, "quorum")
	p.params = &GroupParameters{GroupSize: p.n, GroupQuorum: q, HonestThreshold: h}
	need := h
	if !signing {
		// leave room for the retry selection of later attempts
		q = min(q, max(h, p.n-2))
		p.params.GroupQuorum = q
		need = q
	}
	p.start = rapid.Uint64Range(1, 20_000_000).Draw(t, "startBlock")
	p.seedText = big.NewInt(int64(rapid.IntRange(1, 100000).Draw(t, "message")))
	nMembers := rapid.IntRange(2, 3).Draw(t, "members")
	all := make([]group.MemberIndex, p.n)
	for i := range all {
		all[i] = group.MemberIndex(i + 1)
	}
	p.members = rapid.Permutation(all).Draw(t, "memberSeats")[:nMembers]
	for mi := 0; mi < nMembers; mi++ {
		// late start: k whole attempts plus an offset at a window boundary
		var late uint64
		if rapid.IntRange(0, 2).Draw(t, "lateStart") > 0 {
			k := uint64(rapid.IntRange(0, 3).Draw(t, "lateAttempts"))
			off := rapid.SampledFrom([]uint64{0, ph.delay, ph.delay + ph.active - 1, ph.delay + ph.active, ph.delay + ph.active + 1,
				ph.delay + ph.active + ph.protocol, ph.max() - 1}).Draw(t, "lateOffset")
			if rapid.IntRange(0, 3).Draw(t, "lateAnyOffset") == 0 {
				off = uint64(rapid.IntRange(0, int(ph.max())-1).Draw(t, "lateOff"))
			}
			late = k*ph.max() + off
		}
		p.late = append(p.late, late)
		length := rapid.IntRange(2, 8).Draw(t, "attempts")
		var script []c11Step
		for a := 0; a < length; a++ {
			st := c11Step{}
			if signing {
				st.curErr = rapid.IntRange(0, 14).Draw(t, "curErr") == 0
				st.waitErr = rapid.IntRange(0, 19).Draw(t, "waitErr") == 0
			}
			st.announce = rapid.SampledFrom([]string{"ready", "ready", "ready", "ready", "few", "error"}).Draw(t, "announce")
			others := []group.MemberIndex{}
			for _, m := range all {
				if m != p.members[mi] {
					others = append(others, m)
				}
			}
			others = rapid.Permutation(others).Draw(t, "readyOthers")
			switch st.announce {
			case "ready":
				k := p.n - 1
				if rapid.IntRange(0, 2).Draw(t, "notAllReady") == 0 {
					k = rapid.IntRange(need-1, p.n-1).Draw(t, "readyCount")
				}
				st.ready = append([]group.MemberIndex{p.members[mi]}, others[:k]...)
			case "few":
				k := rapid.IntRange(0, max(0, need-2)).Draw(t, "fewCount")
				st.ready = append([]group.MemberIndex{p.members[mi]}, others[:k]...)
			}
			st.attempt = rapid.SampledFrom([]string{"ok", "ok", "error"}).Draw(t, "attemptOutcome")
			st.attemptTakes = c11GenTakes(t, ph, "attemptTakes")
			if signing {
				st.signal = rapid.SampledFrom([]string{"ok", "ok", "ok", "error"}).Draw(t, "signal")
				st.done = rapid.SampledFrom([]string{"ok", "error", "timeout", "timeout"}).Draw(t, "done")
				st.doneTakes = uint64(rapid.IntRange(0, 6).Draw(t, "doneTakes"))
			}
			script = append(script, st)
		}
		p.scripts = append(p.scripts, script)
	}
	return p
}

// ------------------------------------------------------------- running ----

type c11Run struct {
	sim      *c11Sim
	sigRes   *signingRetryLoopResult
	err      error
	finished bool
}

func c11RunMember(p c11Plan, mi int, ph c11Phase, signingLoop bool) c11Run {
	ctx, cancel := context.WithCancel(context.Background())
	s := &c11Sim{phase: ph, signing: signingLoop, start: p.start, member: p.members[mi], script: p.scripts[mi],
		bc: verifkit.NewFakeBlockCounter(p.start + p.late[mi]), cancel: cancel, obs: map[uint]*c11Observed{}}
	run := c11Run{sim: s}
	done := make(chan struct{})
	go func() {
		defer close(done)
		s.loopGoid = c11Goid()
		if signingLoop {
			loop := newSigningRetryLoop(&testutils.MockLogger{}, new(big.Int).Set(p.seedText), p.start, s.member,
				append(chain.Addresses{}, p.ops...), p.params, s, s)
			run.sigRes, run.err = loop.start(ctx, s.waitForBlock, s.currentBlock, s.signingAttempt)
		} else {
			loop := newDkgRetryLoop(&testutils.MockLogger{}, new(big.Int).Set(p.seedText), p.start, s.member,
				append(chain.Addresses{}, p.ops...), p.params, s, uint(len(s.script)))
			_, run.err = loop.start(ctx, s.waitForBlock, s.dkgAttempt)
		}
	}()
	select {
	case <-done:
		run.finished = true
	case <-time.After(2 * c11Wait):
		s.inconcl = "the loop did not return"
	}
	cancel()
	// helper goroutines (context cancellation on a block) end with the context;
	// one that starts late finds the context cancelled and returns at once
	if !verifkit.Eventually(c11Wait, func() bool { return s.inflight.Load() == 0 }) {
		s.inconcl = "helper goroutines did not end"
	}
	return run
}

// c11CheckMember compares everything one member observed with the closed form.
func c11CheckMember(t *rapid.T, p c11Plan, mi int, run c11Run, ph c11Phase, signingLoop bool) (skipped, failed, executed int) {
	s := run.sim
	who := fmt.Sprintf("member %d (starts %d blocks late, script %v)", s.member, p.late[mi], p.scripts[mi])
	if s.inconcl != "" {
		t.Fatalf("VERIF-INCONCLUSIVE: %s: %s", who, s.inconcl)
	}
	if s.problem != "" {
		t.Fatalf("%s: %s", who, s.problem)
	}
	var prev *c11Observed
	for n := uint(1); int(n) <= len(s.script); n++ {
		o, seen := s.obs[n]
		st := s.script[n-1]
		wantStart, wantEnd, wantTimeout := ph.window(p.start, n)
		if !seen {
			continue
		}
		if signingLoop && o.curSeen {
			if o.announced && wantEnd <= o.cur {
				t.Fatalf("%s: took part in attempt %d although its announcement phase [%d,%d) was over at the observed current block %d",
					who, n, wantStart, wantEnd, o.cur)
			}
			if !o.announced && !st.waitErr && o.cur < wantEnd && !s.over {
				t.Fatalf("%s: attempt %d was skipped although the current block %d is before the end %d of its announcement phase",
					who, n, o.cur, wantEnd)
			}
		}
		if !o.announced {
			skipped++
			continue
		}
		if o.announceStart != wantStart {
			t.Fatalf("%s: attempt %d announces from block %d, every member must use start %d + (n-1)*%d + %d = %d",
				who, n, o.announceStart, p.start, ph.max(), ph.delay, wantStart)
		}
		if o.announceEnd != wantEnd {
			t.Fatalf("%s: the announcement phase of attempt %d is bound to block %d, expected %d", who, n, o.announceEnd, wantEnd)
		}
		if o.entryHeight < wantStart {
			t.Fatalf("%s: attempt %d announced at block %d, before its announcement start %d", who, n, o.entryHeight, wantStart)
		}
		if prev != nil {
			_, _, prevTimeout := ph.window(p.start, prev.n)
			if prev.executed {
				prevTimeout = prev.paramTimeout
			}
			if !(o.announceStart > prevTimeout) {
				t.Fatalf("%s: attempt %d starts announcing at block %d, attempt %d only times out at block %d",
					who, n, o.announceStart, prev.n, prevTimeout)
			}
		}
		prev = o
		if o.closedOnEntry {
			if signingLoop {
				t.Fatalf("%s: took part in attempt %d (announced at block %d) although its announcement phase [%d,%d) had already passed",
					who, n, o.entryHeight, wantStart, wantEnd)
			}
			skipped++ // dkg: reached too late, the window is closed and nobody else is heard
		}
		if o.listened {
			if o.listenTimeout != wantTimeout {
				t.Fatalf("%s: the done check of attempt %d got timeout block %d, expected %d", who, n, o.listenTimeout, wantTimeout)
			}
			if o.doneCtxBlock != wantTimeout {
				t.Fatalf("%s: the done-check phase of attempt %d is bound to block %d, expected the timeout block %d", who, n, o.doneCtxBlock, wantTimeout)
			}
		}
		if o.executed {
			executed++
			if o.closedOnEntry {
				t.Fatalf("%s: attempt %d was executed although its announcement phase [%d,%d) was over when the member reached it (block %d)",
					who, n, wantStart, wantEnd, o.entryHeight)
			}
			if o.paramStart != wantEnd || o.paramTimeout != wantTimeout {
				t.Fatalf("%s: attempt %d executed with start block %d and timeout block %d, expected %d and %d",
					who, n, o.paramStart, o.paramTimeout, wantEnd, wantTimeout)
			}
			if st.attempt == "error" || (signingLoop && (st.signal == "error" || st.done != "ok")) {
				failed++
			}
		} else {
			failed++ // announced but not executed: announcement error, too few ready members or excluded
		}
	}
	for n, o := range s.obs {
		if int(n) > len(s.script) && (o.announced || o.executed) {
			t.Fatalf("%s: attempt %d beyond the script was announced", who, n)
		}
	}
	if signingLoop && run.sigRes != nil {
		// the successful attempt is the last one observed
		last := s.order[len(s.order)-1]
		_, _, wantTimeout := ph.window(p.start, last)
		if run.sigRes.attemptTimeoutBlock != wantTimeout {
			t.Fatalf("%s: the loop result names timeout block %d for the successful attempt %d, expected %d", who, run.sigRes.attemptTimeoutBlock, last, wantTimeout)
		}
	}
	return
}

func c11Check(t *rapid.T, st *verifkit.Stats, ph c11Phase, signingLoop bool) {
	p := c11GenPlan(t, ph, signingLoop)
	runs := make([]c11Run, len(p.members))
	var wg sync.WaitGroup
	for mi := range p.members {
		wg.Add(1)
		go func(mi int) {
			defer wg.Done()
			runs[mi] = c11RunMember(p, mi, ph, signingLoop)
		}(mi)
	}
	wg.Wait()
	skipped, failed, executed := 0, 0, 0
	for mi := range p.members {
		s, f, e := c11CheckMember(t, p, mi, runs[mi], ph, signingLoop)
		skipped, failed, executed = skipped+s, failed+f, executed+e
	}
	// members agree per attempt number
	common := 0
	for a := 0; a < len(runs); a++ {
		for b := a + 1; b < len(runs); b++ {
			for n, oa := range runs[a].sim.obs {
				ob, ok := runs[b].sim.obs[n]
				if !ok || !oa.announced || !ob.announced {
					continue
				}
				common++
				if oa.announceStart != ob.announceStart || oa.announceEnd != ob.announceEnd {
					t.Fatalf("members %d and %d disagree on attempt %d: announcement [%d,%d) vs [%d,%d)",
						runs[a].sim.member, runs[b].sim.member, n, oa.announceStart, oa.announceEnd, ob.announceStart, ob.announceEnd)
				}
				if oa.executed && ob.executed && (oa.paramStart != ob.paramStart || oa.paramTimeout != ob.paramTimeout) {
					t.Fatalf("members %d and %d disagree on attempt %d: start/timeout %d/%d vs %d/%d",
						runs[a].sim.member, runs[b].sim.member, n, oa.paramStart, oa.paramTimeout, ob.paramStart, ob.paramTimeout)
				}
			}
		}
	}
	var desc []string
	for mi := range p.members {
		desc = append(desc, fmt.Sprintf("m%d late=%d %v", p.members[mi], p.late[mi], p.scripts[mi]))
	}
	lateMembers := 0
	for _, l := range p.late {
		if l > 0 {
			lateMembers++
		}
	}
	st.Case(skipped > 0 && failed > 0,
		fmt.Sprintf("start=%d n=%d h=%d q=%d | %s", p.start, p.n, p.params.HonestThreshold, p.params.GroupQuorum, strings.Join(desc, " | ")),
		fmt.Sprintf("skipped:%s", c11Bucket(skipped)), fmt.Sprintf("failed:%s", c11Bucket(failed)), fmt.Sprintf("executed:%s", c11Bucket(executed)),
		fmt.Sprintf("late-members:%d", lateMembers), fmt.Sprintf("attempts-seen-by-two-members:%s", c11Bucket(common)))
}

func c11Bucket(n int) string {
	switch {
	case n == 0:
		return "0"
	case n <= 2:
		return "1-2"
	case n <= 6:
		return "3-6"
	default:
		return ">6"
	}
}

func TestVerif_C11_SigningWindows(t *testing.T) {
	st := verifkit.New("C11", "TestVerif_C11_SigningWindows")
	defer st.Flush()
	rapid.Check(t, func(t *rapid.T) { c11Check(t, st, c11Signing, true) })
}

func TestVerif_C11_DkgWindows(t *testing.T) {
	st := verifkit.New("C11", "TestVerif_C11_DkgWindows")
	defer st.Flush()
	rapid.Check(t, func(t *rapid.T) { c11Check(t, st, c11Dkg, false) })
}
