//go:build go1.23

package tbtc

import (
	"crypto/ecdsa"
	"crypto/sha256"
	"encoding/binary"
	"encoding/hex"
	"fmt"
	"math"
	"math/big"
	"math/rand"
	"sort"
	"strings"
	"testing"

	"github.com/keep-network/keep-core/internal/verifkit"
	"github.com/keep-network/keep-core/pkg/chain"
	"github.com/keep-network/keep-core/pkg/tecdsa"
	"golang.org/x/crypto/ripemd160"
	"pgregory.net/rapid"
)

// ---------------------------------------------------------------------------
// independent models

// c22ModelSeed = sha256(hash160(compressed wallet key) || safe block hash),
// written without the repo's bitcoin helpers.
func c22ModelSeed(pub *ecdsa.PublicKey, blockHash [32]byte) [32]byte {
	compressed := make([]byte, 33)
	compressed[0] = 0x02 + byte(pub.Y.Bit(0))
	pub.X.FillBytes(compressed[1:])
	s := sha256.Sum256(compressed)
	r := ripemd160.New()
	_, _ = r.Write(s[:])
	pkh := r.Sum(nil)
	return sha256.Sum256(append(append([]byte{}, pkh...), blockHash[:]...))
}

// c22ModelLeader: documented algorithm - distinct operators, ascending order,
// shuffled by a generator seeded with the first 8 seed bytes, first one wins.
func c22ModelLeader(view []chain.Address, seed [32]byte) chain.Address {
	seen := map[chain.Address]bool{}
	var ops []string
	for _, o := range view {
		if !seen[o] {
			seen[o] = true
			ops = append(ops, string(o))
		}
	}
	sort.Strings(ops)
	idx := make([]int, len(ops))
	for i := range idx {
		idx[i] = i
	}
	rng := rand.New(rand.NewSource(int64(binary.BigEndian.Uint64(seed[:8]))))
	rng.Shuffle(len(idx), func(i, j int) { idx[i], idx[j] = idx[j], idx[i] })
	return chain.Address(ops[idx[0]])
}

func c22HeartbeatDraw(seed [32]byte) float64 {
	return rand.New(rand.NewSource(int64(binary.BigEndian.Uint64(seed[:8])))).Float64()
}

// c22ModelChecklist follows the property text: nil for index 0; redemption
// first; deposit sweep, moved funds sweep, moving funds every fourth window;
// heartbeat only by the seeded draw (probability 1/16).
func c22ModelChecklist(index uint64, seed [32]byte) []WalletActionType {
	if index == 0 {
		return nil
	}
	out := []WalletActionType{ActionRedemption}
	if index%4 == 0 {
		out = append(out, ActionDepositSweep, ActionMovedFundsSweep, ActionMovingFunds)
	}
	if c22HeartbeatDraw(seed) < 1.0/16.0 {
		out = append(out, ActionHeartbeat)
	}
	return out
}

func c22Actions(a []WalletActionType) string {
	if a == nil {
		return "nil"
	}
	parts := make([]string, len(a))
	for i, x := range a {
		parts[i] = x.String()
	}
	return "[" + strings.Join(parts, ",") + "]"
}

func c22SameActions(a, b []WalletActionType) bool {
	if (a == nil) != (b == nil) || len(a) != len(b) {
		return false
	}
	for i := range a {
		if a[i] != b[i] {
			return false
		}
	}
	return true
}

// ---------------------------------------------------------------------------
// generators

// 2..8 (sometimes 1) distinct operator addresses, mixed-case hex like real
// chain addresses, so that sorted order differs from creation order.
func c22GenOperators(t *rapid.T) []chain.Address {
	n := rapid.SampledFrom([]int{1, 2, 2, 3, 3, 4, 5, 6, 8}).Draw(t, "operators")
	seen := map[string]bool{}
	var ops []chain.Address
	for len(ops) < n {
		// short drawn body, fixed-width rendering; lower-cased collisions are
		// avoided so that no two operators differ by case only
		body := rapid.StringMatching("[0-9a-fA-F]{6}").Draw(t, "addr")
		a := fmt.Sprintf("%s%034d", body, len(ops))
		if seen[strings.ToLower(a)] {
			continue
		}
		seen[strings.ToLower(a)] = true
		ops = append(ops, chain.Address(a))
	}
	return ops
}

// a member's local view: every operator present, 1..4 seats each, seats in a
// drawn order.
func c22GenView(t *rapid.T, ops []chain.Address, label string) []chain.Address {
	var seats []chain.Address
	for _, o := range ops {
		c := rapid.IntRange(1, 4).Draw(t, label+"Seats")
		for k := 0; k < c; k++ {
			seats = append(seats, o)
		}
	}
	return rapid.Permutation(seats).Draw(t, label+"Order")
}

func c22GenWalletKey(t *rapid.T) *ecdsa.PublicKey {
	k := rapid.Uint64Range(1, math.MaxUint64).Draw(t, "walletScalar")
	x, y := tecdsa.Curve.ScalarBaseMult(new(big.Int).SetUint64(k).Bytes())
	return &ecdsa.PublicKey{Curve: tecdsa.Curve, X: x, Y: y}
}

func c22GenIndex(t *rapid.T) uint64 {
	switch rapid.IntRange(0, 9).Draw(t, "indexClass") {
	case 0, 1, 2:
		return 4 * rapid.Uint64Range(1, 5000).Draw(t, "index4")
	case 3:
		return math.MaxUint64 / coordinationFrequencyBlocks / 4 * 4 // largest representable, multiple of 4
	case 4:
		return math.MaxUint64/coordinationFrequencyBlocks - rapid.Uint64Range(0, 7).Draw(t, "indexTop")
	default:
		return rapid.Uint64Range(1, 20000).Draw(t, "index")
	}
}

func c22SameView(a, b []chain.Address) bool {
	if len(a) != len(b) {
		return false
	}
	for i := range a {
		if a[i] != b[i] {
			return false
		}
	}
	return true
}

func c22Contains(view []chain.Address, a chain.Address) bool {
	for _, o := range view {
		if o == a {
			return true
		}
	}
	return false
}

func c22Short(view []chain.Address) string {
	parts := make([]string, len(view))
	for i, o := range view {
		parts[i] = string(o)[:6]
	}
	return strings.Join(parts, " ")
}

// ---------------------------------------------------------------------------
// members with differently ordered views agree on seed, leader and checklist

func TestVerif_C22_MembersAgree(t *testing.T) {
	st := verifkit.New("C22", "TestVerif_C22_MembersAgree")
	defer st.Flush()
	localChain := Connect()
	rapid.Check(t, func(t *rapid.T) {
		ops := c22GenOperators(t)
		pub := c22GenWalletKey(t)
		index := c22GenIndex(t)
		block := index * coordinationFrequencyBlocks
		var hash [32]byte
		copy(hash[:], rapid.SliceOfN(rapid.Byte(), 32, 32).Draw(t, "safeBlockHash"))
		localChain.setBlockHashByNumber(block-coordinationSafeBlockShift, hex.EncodeToString(hash[:]))

		// member 0: some view; member 1: same seats in another order; member
		// 2: other seat counts (repetition) and another order.
		views := [][]chain.Address{c22GenView(t, ops, "viewA")}
		views = append(views, rapid.Permutation(views[0]).Draw(t, "viewBOrder"))
		views = append(views, c22GenView(t, ops, "viewC"))

		wantSeed := c22ModelSeed(pub, hash)
		wantLeader := c22ModelLeader(views[0], wantSeed)
		wantList := c22ModelChecklist(index, wantSeed)

		for m, view := range views {
			ce := &coordinationExecutor{
				chain:             localChain,
				coordinatedWallet: wallet{publicKey: pub, signingGroupOperators: append([]chain.Address{}, view...)},
			}
			window := newCoordinationWindow(block)
			if window.index() != index {
				t.Fatalf("window at block %d has index %d, want %d", block, window.index(), index)
			}
			seed, err := ce.getSeed(window.coordinationBlock)
			if err != nil {
				t.Fatalf("member %d: getSeed: %v", m, err)
			}
			if seed != wantSeed {
				t.Fatalf("member %d: seed %x, want sha256(pkh|hash) = %x", m, seed, wantSeed)
			}
			leader := ce.getLeader(seed)
			if !c22Contains(view, leader) {
				t.Fatalf("member %d: leader %s is not one of the wallet operators %v", m, leader, view)
			}
			if leader != wantLeader {
				t.Fatalf("member %d (view %v) elects %s, member 0 (view %v) expects %s", m, view, leader, views[0], wantLeader)
			}
			if again := ce.getLeader(seed); again != leader {
				t.Fatalf("member %d: leader not stable across calls: %s then %s", m, leader, again)
			}
			if !c22SameView(ce.coordinatedWallet.signingGroupOperators, view) {
				t.Fatalf("member %d: getLeader reordered the wallet's operator list", m)
			}
			list := ce.getActionsChecklist(window.index(), seed)
			if !c22SameActions(list, wantList) {
				t.Fatalf("member %d: checklist %s, want %s (index %d, draw %.6f)", m, c22Actions(list), c22Actions(wantList), index, c22HeartbeatDraw(seed))
			}
		}

		permuted := !c22SameView(views[0], views[1]) || !c22SameView(views[0], views[2])
		hb := len(wantList) > 0 && wantList[len(wantList)-1] == ActionHeartbeat
		st.Case(len(ops) >= 2 && permuted,
			fmt.Sprintf("ops=%d A=[%s] C=[%s] key=%x idx=%d hash=%x -> %s %s", len(ops), c22Short(views[0]), c22Short(views[2]), pub.X.Bytes()[:4], index, hash[:4], string(wantLeader)[:6], c22Actions(wantList)),
			fmt.Sprintf("operators:%d", len(ops)), fmt.Sprintf("every-4th:%v", index%4 == 0), fmt.Sprintf("heartbeat:%v", hb),
			fmt.Sprintf("permuted:%v", permuted))
	})
}

// ---------------------------------------------------------------------------
// checklist over arbitrary seeds, biased to the heartbeat threshold

// seeds (first 8 bytes) whose draw lies within 0.002 of the 1/16 threshold,
// found by a deterministic scan (no randomness of our own).
func c22ThresholdSeeds() (below, above []uint64) {
	for s := uint64(1); len(below) < 24 || len(above) < 24; s++ {
		var seed [32]byte
		binary.BigEndian.PutUint64(seed[:8], s*0x9E3779B97F4A7C15)
		d := c22HeartbeatDraw(seed) - 1.0/16.0
		if d < 0 && d > -0.002 && len(below) < 24 {
			below = append(below, s*0x9E3779B97F4A7C15)
		}
		if d >= 0 && d < 0.002 && len(above) < 24 {
			above = append(above, s*0x9E3779B97F4A7C15)
		}
		if s > 2_000_000 {
			break
		}
	}
	return
}

func TestVerif_C22_Checklist(t *testing.T) {
	st := verifkit.New("C22", "TestVerif_C22_Checklist")
	defer st.Flush()
	below, above := c22ThresholdSeeds()
	if len(below) == 0 || len(above) == 0 {
		fmt.Println("VERIF-INCONCLUSIVE: no seeds found near the heartbeat threshold")
		t.FailNow()
	}
	ce := &coordinationExecutor{}
	rapid.Check(t, func(t *rapid.T) {
		var seed [32]byte
		copy(seed[:], rapid.SliceOfN(rapid.Byte(), 32, 32).Draw(t, "seed"))
		class := rapid.SampledFrom([]string{"random", "random", "just-below", "just-above"}).Draw(t, "seedClass")
		switch class {
		case "just-below":
			binary.BigEndian.PutUint64(seed[:8], rapid.SampledFrom(below).Draw(t, "head"))
		case "just-above":
			binary.BigEndian.PutUint64(seed[:8], rapid.SampledFrom(above).Draw(t, "head"))
		}
		var index uint64
		switch rapid.IntRange(0, 7).Draw(t, "indexClass") {
		case 0:
			index = 0
		case 1:
			index = rapid.Uint64().Draw(t, "anyIndex")
		case 2:
			index = math.MaxUint64 - rapid.Uint64Range(0, 8).Draw(t, "top")
		case 3, 4:
			index = 4 * rapid.Uint64Range(1, 1<<40).Draw(t, "index4")
		default:
			index = rapid.Uint64Range(1, 64).Draw(t, "smallIndex")
		}
		got := ce.getActionsChecklist(index, seed)
		want := c22ModelChecklist(index, seed)
		if !c22SameActions(got, want) {
			t.Fatalf("index %d seed %x (draw %.8f): checklist %s, want %s", index, seed[:8], c22HeartbeatDraw(seed), c22Actions(got), c22Actions(want))
		}
		// the clauses of the statement, spelled out on the result itself
		if index > 0 {
			if len(got) == 0 || got[0] != ActionRedemption {
				t.Fatalf("index %d: checklist %s does not start with redemption", index, c22Actions(got))
			}
			for _, a := range got[1:] {
				switch a {
				case ActionDepositSweep, ActionMovedFundsSweep, ActionMovingFunds:
					if index%4 != 0 {
						t.Fatalf("index %d: %s outside every fourth window", index, a)
					}
				case ActionHeartbeat:
				default:
					t.Fatalf("index %d: unexpected action %s in %s", index, a, c22Actions(got))
				}
			}
		}
		hb := len(want) > 0 && want[len(want)-1] == ActionHeartbeat
		st.Case(index > 0 && (class != "random" || hb || index%4 == 0),
			fmt.Sprintf("idx=%d seed=%x draw=%.6f -> %s", index, seed[:8], c22HeartbeatDraw(seed), c22Actions(want)),
			"seed:"+class, fmt.Sprintf("heartbeat:%v", hb), fmt.Sprintf("every-4th:%v", index > 0 && index%4 == 0), fmt.Sprintf("index0:%v", index == 0))
	})
}
