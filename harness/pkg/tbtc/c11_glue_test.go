//go:build go1.23

package tbtc

import (
	"context"
	"crypto/ecdsa"
	"crypto/rand"
	"fmt"
	"math/big"
	"runtime"
	"strconv"
	"strings"
	"sync"
	"sync/atomic"
	"testing"

	golog "github.com/ipfs/go-log/v2"
	"github.com/keep-network/keep-core/internal/testutils"
	"github.com/keep-network/keep-core/internal/verifkit"
	"github.com/keep-network/keep-core/pkg/chain"
	"github.com/keep-network/keep-core/pkg/chain/local_v1"
	"github.com/keep-network/keep-core/pkg/generator"
	"github.com/keep-network/keep-core/pkg/net"
	"github.com/keep-network/keep-core/pkg/operator"
	announcerpb "github.com/keep-network/keep-core/pkg/protocol/announcer/gen/pb"
	"github.com/keep-network/keep-core/pkg/protocol/group"
	"github.com/keep-network/keep-core/pkg/tecdsa"
	"google.golang.org/protobuf/proto"
	"pgregory.net/rapid"
)

// ---------------------------------------------------------------------------
// C11, the loops AS THE NODE BUILDS THEM. The windows of attempt n must be the
// same for every member that is handed the same start block by the wallet
// action / the chain event, whatever block the member itself observes when it
// gets there. Here the loops are not constructed by the harness but by the
// real glue: signingExecutor.sign(ctx, message, startBlock) and
// dkgExecutor.generateSigningGroup(..., startBlock, delayBlocks), with the real
// announcer on a recording broadcast channel. Each simulated member controls
// one seat and never hears anybody else, so every attempt ends after its
// announcement phase and the loop walks through its attempts. Observed per
// announcement (attempt number = suffix of the announced session id): the
// block the loop goroutine waited for before announcing, the block the
// announcement context is bound to and the member's clock at that moment.
// ---------------------------------------------------------------------------

type c11GObs struct {
	n             uint
	announceStart uint64
	announceEnd   uint64
	entryHeight   uint64
}

type c11GSim struct {
	bc        *verifkit.FakeBlockCounter
	mu        sync.Mutex
	mainWaits []uint64
	helpers   []uint64 // helper registrations not yet attributed to an announcement
	obs       []c11GObs
	inconcl   string
	polls     atomic.Int64
}

// calledFromLoop reports whether the current goroutine is inside the start()
// method of one of the retry loops (as opposed to a helper goroutine that
// cancels a context on a block).
func c11GCalledFromLoop() bool {
	pcs := make([]uintptr, 32)
	n := runtime.Callers(2, pcs)
	frames := runtime.CallersFrames(pcs[:n])
	for {
		f, more := frames.Next()
		if strings.HasSuffix(f.Function, "(*signingRetryLoop).start") || strings.HasSuffix(f.Function, "(*dkgRetryLoop).start") {
			return true
		}
		if !more {
			return false
		}
	}
}

func (s *c11GSim) waitForBlock(ctx context.Context, block uint64) error {
	if c11GCalledFromLoop() {
		s.mu.Lock()
		s.mainWaits = append(s.mainWaits, block)
		s.mu.Unlock()
		if block > s.bc.Height() {
			s.bc.AdvanceTo(block)
		}
		return nil
	}
	w, _ := s.bc.BlockHeightWaiter(block)
	s.mu.Lock()
	s.helpers = append(s.helpers, block)
	s.mu.Unlock()
	select {
	case <-w:
	case <-ctx.Done():
	}
	return nil
}

// currentBlock: a loop that keeps polling the chain without ever waiting for a
// block (a spinning loop) still sees time pass: every 256th poll mines a block.
func (s *c11GSim) currentBlock() (uint64, error) {
	if s.polls.Add(1)%256 == 0 {
		s.bc.Advance(1)
	}
	return s.bc.Height(), nil
}

// recording broadcast channel; Send runs on the loop goroutine (the announcer
// sends right after it registered its receiver).
type c11GChannel struct {
	sim *c11GSim
	// attempts beyond the executor's attempts limit (0 = no limit known) lie
	// behind the loop time-out and are not observed
	limit uint
}

func (c *c11GChannel) Name() string                                { return "c11" }
func (c *c11GChannel) Recv(context.Context, func(m net.Message))   {}
func (c *c11GChannel) SetUnmarshaler(func() net.TaggedUnmarshaler) {}
func (c *c11GChannel) SetFilter(net.BroadcastChannelFilter) error  { return nil }
func (c *c11GChannel) Send(ctx context.Context, m net.TaggedMarshaler, _ ...net.RetransmissionStrategy) error {
	s := c.sim
	raw, err := m.Marshal()
	if err != nil {
		return err
	}
	var am announcerpb.AnnouncementMessage
	if err := proto.Unmarshal(raw, &am); err != nil || !strings.Contains(m.Type(), "announcement") {
		return nil // not an announcement
	}
	n, err := strconv.Atoi(am.SessionID[strings.LastIndex(am.SessionID, "-")+1:])
	if err != nil {
		s.inconcl = "cannot parse announced session " + am.SessionID
		return nil
	}
	if c.limit != 0 && uint(n) > c.limit {
		// the loop context is (being) cancelled; just let the phase end
		s.mu.Lock()
		var last uint64
		for _, b := range s.helpers {
			last = max(last, b)
		}
		s.mu.Unlock()
		if last > s.bc.Height() {
			s.bc.AdvanceTo(last)
		}
		return nil
	}
	o := c11GObs{n: uint(n)}
	// two helper registrations are outstanding now: the one of the loop /
	// protocol time-out (never consumed) and the one of this announcement
	ok := verifkit.Eventually(c11Wait, func() bool {
		s.mu.Lock()
		defer s.mu.Unlock()
		return len(s.helpers) >= 2
	})
	if !ok {
		s.inconcl = "the announcement context was not bound to a block"
		return nil
	}
	s.mu.Lock()
	if len(s.mainWaits) > 0 {
		o.announceStart = s.mainWaits[len(s.mainWaits)-1]
	}
	mi := 0
	for i, b := range s.helpers {
		if b < s.helpers[mi] {
			mi = i
		}
	}
	o.announceEnd = s.helpers[mi]
	s.helpers = append(s.helpers[:mi], s.helpers[mi+1:]...)
	s.mu.Unlock()
	o.entryHeight = s.bc.Height()
	s.mu.Lock()
	s.obs = append(s.obs, o)
	s.mu.Unlock()
	if o.announceEnd > o.entryHeight {
		s.bc.AdvanceTo(o.announceEnd) // the announcer listens until its phase ends
	}
	return nil
}

type c11GProvider struct{ ch net.BroadcastChannel }

func (p *c11GProvider) ID() net.TransportIdentifier                              { return nil }
func (p *c11GProvider) Type() string                                             { return "c11" }
func (p *c11GProvider) BroadcastChannelFor(string) (net.BroadcastChannel, error) { return p.ch, nil }
func (p *c11GProvider) ConnectionManager() net.ConnectionManager                 { return nil }
func (p *c11GProvider) BroadcastChannelForwarderFor(string)                      {}
func (p *c11GProvider) CreateTransportIdentifier(*operator.PublicKey) (net.TransportIdentifier, error) {
	return nil, nil
}

// the local chain with a production-like DKG submission time-out (the local
// default of 10 blocks would end the protocol before the first announcement)
type c11GChain struct{ *localChain }

func (c c11GChain) DKGParameters() (*DKGParameters, error) {
	return &DKGParameters{SubmissionTimeoutBlocks: 536, ChallengePeriodBlocks: 11520, ApprovePrecedencePeriodBlocks: 20}, nil
}

var (
	c11GOnce    sync.Once
	c11GKey     *ecdsa.PublicKey
	c11GSigning chain.Signing
	c11GLocal   *localChain
)

func c11GInit(t interface{ Fatalf(string, ...any) }) {
	c11GOnce.Do(func() {
		_ = golog.SetLogLevel("*", "fatal") // the executors log every failed signing
		k, err := ecdsa.GenerateKey(tecdsa.Curve, rand.Reader)
		if err != nil {
			t.Fatalf("VERIF-INCONCLUSIVE: %v", err)
		}
		c11GKey = &k.PublicKey
		priv, _, err := operator.GenerateKeyPair(local_v1.DefaultCurve)
		if err != nil {
			t.Fatalf("VERIF-INCONCLUSIVE: %v", err)
		}
		c11GSigning = local_v1.NewSigner(priv)
		c11GLocal = ConnectWithKey(priv)
	})
}

type c11GMember struct {
	seat  group.MemberIndex
	entry int64 // clock when the member gets to the glue, relative to the start block (may be negative)
}

type c11GPlan struct {
	n       int
	params  *GroupParameters
	start   uint64
	delay   uint64 // dkg: confirmation delay handed to the glue together with the start block
	limit   uint   // signing: attempts limit of the executor
	message *big.Int
	members []c11GMember
}

func c11GGenPlan(t *rapid.T, ph c11Phase, signing bool) c11GPlan {
	p := c11GPlan{}
	p.n = rapid.IntRange(3, 8).Draw(t, "groupSize")
	h := rapid.IntRange(max(2, p.n/2+1), p.n).Draw(t, "honestThreshold")
	p.params = &GroupParameters{GroupSize: p.n, GroupQuorum: rapid.IntRange(h, p.n).Draw(t, "quorum"), HonestThreshold: h}
	p.start = rapid.Uint64Range(1000, 20_000_000).Draw(t, "startBlock")
	p.message = big.NewInt(int64(rapid.IntRange(1, 1_000_000).Draw(t, "message")))
	p.limit = uint(rapid.IntRange(2, 6).Draw(t, "attemptsLimit"))
	if !signing {
		p.delay = uint64(rapid.IntRange(0, 60).Draw(t, "delayBlocks"))
	}
	seats := rapid.Permutation(func() []group.MemberIndex {
		var all []group.MemberIndex
		for i := 1; i <= p.n; i++ {
			all = append(all, group.MemberIndex(i))
		}
		return all
	}()).Draw(t, "seats")
	nm := rapid.IntRange(2, 3).Draw(t, "members")
	for i := 0; i < nm; i++ {
		var entry int64
		switch rapid.SampledFrom([]string{"early", "on-time", "in-phase", "boundary", "late", "late"}).Draw(t, "entryKind") {
		case "early":
			entry = -int64(rapid.IntRange(1, 30).Draw(t, "earlyBy"))
		case "on-time":
			entry = 0
		case "in-phase":
			entry = int64(rapid.IntRange(1, int(ph.delay+ph.active)-1).Draw(t, "inPhase"))
		case "boundary":
			k := int64(rapid.IntRange(0, int(p.limit)-1).Draw(t, "boundaryAttempt"))
			off := rapid.SampledFrom([]int64{int64(ph.delay), int64(ph.delay + ph.active - 1), int64(ph.delay + ph.active), int64(ph.delay + ph.active + 1), int64(ph.max()) - 1}).Draw(t, "boundaryOffset")
			entry = k*int64(ph.max()) + off
		default:
			entry = int64(rapid.IntRange(int(ph.delay+ph.active), int(p.limit)*int(ph.max())).Draw(t, "lateBy"))
		}
		p.members = append(p.members, c11GMember{seat: seats[i], entry: int64(p.delay) + entry})
	}
	return p
}

// c11GRunSigning lets one member run the real signingExecutor.sign.
func c11GRunSigning(p c11GPlan, m c11GMember) *c11GSim {
	s := &c11GSim{bc: verifkit.NewFakeBlockCounter(uint64(int64(p.start) + m.entry))}
	ch := &c11GChannel{sim: s, limit: p.limit}
	var operators chain.Addresses
	for i := 0; i < p.n; i++ {
		operators = append(operators, chain.Address(fmt.Sprintf("0x%02x", i*5+1)))
	}
	validator := group.NewMembershipValidator(&testutils.MockLogger{}, operators, c11GSigning)
	sg := &signer{wallet: wallet{publicKey: c11GKey, signingGroupOperators: operators}, signingGroupMemberIndex: m.seat}
	se := newSigningExecutor([]*signer{sg}, ch, validator, p.params, generator.NewProtocolLatch(), s.currentBlock, s.waitForBlock, p.limit)
	ctx, cancel := context.WithCancel(context.Background())
	defer cancel()
	done := make(chan struct{})
	go func() {
		defer close(done)
		_, _, _, _ = se.sign(ctx, new(big.Int).Set(p.message), p.start)
	}()
	if !verifkit.Eventually(2*c11Wait, func() bool {
		select {
		case <-done:
			return true
		default:
			return false
		}
	}) {
		s.inconcl = "signingExecutor.sign did not return"
	}
	return s
}

// c11GRunDkg lets one member run the real dkgExecutor.generateSigningGroup.
func c11GRunDkg(p c11GPlan, m c11GMember) *c11GSim {
	s := &c11GSim{bc: verifkit.NewFakeBlockCounter(uint64(int64(p.start) + m.entry))}
	ch := &c11GChannel{sim: s}
	var operators chain.Addresses
	for i := 0; i < p.n; i++ {
		operators = append(operators, chain.Address(fmt.Sprintf("0x%02x", i*5+1)))
	}
	latch := generator.NewProtocolLatch()
	de := &dkgExecutor{groupParameters: p.params, chain: c11GChain{c11GLocal}, netProvider: &c11GProvider{ch}, protocolLatch: latch, waitForBlockFn: s.waitForBlock}
	de.generateSigningGroup(logger.With(), new(big.Int).Set(p.message), []uint8{uint8(m.seat)},
		&GroupSelectionResult{OperatorsAddresses: operators}, p.start, p.delay)
	// the member's goroutine holds the latch while it runs
	started := verifkit.Eventually(c11Wait, func() bool {
		s.mu.Lock()
		defer s.mu.Unlock()
		return latch.IsExecuting() || len(s.obs) > 0 || len(s.mainWaits) > 0
	})
	if !started || !verifkit.Eventually(2*c11Wait, func() bool { return !latch.IsExecuting() }) {
		s.inconcl = "dkgExecutor.generateSigningGroup did not finish"
	}
	return s
}

func c11GCheck(t *rapid.T, st *verifkit.Stats, ph c11Phase, signing bool) {
	c11GInit(t)
	p := c11GGenPlan(t, ph, signing)
	sims := make([]*c11GSim, len(p.members))
	var wg sync.WaitGroup
	for i := range p.members {
		wg.Add(1)
		go func(i int) {
			defer wg.Done()
			if signing {
				sims[i] = c11GRunSigning(p, p.members[i])
			} else {
				sims[i] = c11GRunDkg(p, p.members[i])
			}
		}(i)
	}
	wg.Wait()
	loopStart := p.start + p.delay // the block every member's loop is anchored at
	announced, lateMembers := 0, 0
	byAttempt := map[uint][]int{}
	for i, s := range sims {
		m := p.members[i]
		who := fmt.Sprintf("member %d (start block %d%s, reaches the %s at block %d)", m.seat, p.start,
			map[bool]string{true: "", false: fmt.Sprintf(" + %d delay blocks", p.delay)}[signing],
			map[bool]string{true: "signing executor", false: "dkg executor"}[signing], int64(p.start)+m.entry)
		if s.inconcl != "" {
			t.Fatalf("VERIF-INCONCLUSIVE: %s: %s", who, s.inconcl)
		}
		if m.entry-int64(p.delay) >= int64(ph.delay+ph.active) {
			lateMembers++
		}
		var prev *c11GObs
		for k := range s.obs {
			o := s.obs[k]
			wantStart, wantEnd, _ := ph.window(loopStart, o.n)
			if o.announceStart != wantStart || o.announceEnd != wantEnd {
				t.Fatalf("%s: attempt %d announces in blocks [%d,%d); every member handed start block %d must use [%d,%d) for attempt %d",
					who, o.n, o.announceStart, o.announceEnd, loopStart, wantStart, wantEnd, o.n)
			}
			if signing && o.entryHeight >= o.announceEnd {
				t.Fatalf("%s: took part in attempt %d at block %d although its announcement phase [%d,%d) had passed", who, o.n, o.entryHeight, wantStart, wantEnd)
			}
			if prev != nil && !(o.n > prev.n && o.announceStart > prev.announceEnd+ph.protocol) {
				t.Fatalf("%s: attempt %d announces from block %d, attempt %d only times out at block %d", who, o.n, o.announceStart, prev.n, prev.announceEnd+ph.protocol)
			}
			prev = &s.obs[k]
			byAttempt[o.n] = append(byAttempt[o.n], i)
			announced++
		}
	}
	shared := 0
	for n, idx := range byAttempt {
		if len(idx) < 2 {
			continue
		}
		shared++
		var first c11GObs
		for j, i := range idx {
			for _, o := range sims[i].obs {
				if o.n != n {
					continue
				}
				if j == 0 {
					first = o
				} else if o.announceStart != first.announceStart || o.announceEnd != first.announceEnd {
					t.Fatalf("members %d and %d disagree on attempt %d: [%d,%d) vs [%d,%d)", p.members[idx[0]].seat, p.members[i].seat, n,
						first.announceStart, first.announceEnd, o.announceStart, o.announceEnd)
				}
			}
		}
	}
	var desc []string
	for _, m := range p.members {
		desc = append(desc, fmt.Sprintf("m%d@%+d", m.seat, m.entry))
	}
	st.Case(lateMembers > 0 && announced > 0,
		fmt.Sprintf("start=%d delay=%d limit=%d n=%d h=%d msg=%v | %s", p.start, p.delay, p.limit, p.n, p.params.HonestThreshold, p.message, strings.Join(desc, " ")),
		fmt.Sprintf("late-members:%d", lateMembers), fmt.Sprintf("announcements:%s", c11Bucket(announced)), fmt.Sprintf("attempts-seen-by-two-members:%s", c11Bucket(shared)))
}

// TestVerif_C11_SigningExecutorWindows: members run the real
// signingExecutor.sign with the same start block and different entry times.
func TestVerif_C11_SigningExecutorWindows(t *testing.T) {
	st := verifkit.New("C11", "TestVerif_C11_SigningExecutorWindows")
	defer st.Flush()
	rapid.Check(t, func(t *rapid.T) { c11GCheck(t, st, c11Signing, true) })
}

// TestVerif_C11_DkgExecutorWindows: members run the real
// dkgExecutor.generateSigningGroup with the same start block and delay.
func TestVerif_C11_DkgExecutorWindows(t *testing.T) {
	st := verifkit.New("C11", "TestVerif_C11_DkgExecutorWindows")
	defer st.Flush()
	rapid.Check(t, func(t *rapid.T) { c11GCheck(t, st, c11Dkg, false) })
}
