//go:build go1.23

package tbtc

import (
	"fmt"
	"math/big"
	"sort"
	"strings"
	"testing"

	"github.com/keep-network/keep-core/internal/testutils"
	"github.com/keep-network/keep-core/internal/verifkit"
	"github.com/keep-network/keep-core/pkg/chain"
	"github.com/keep-network/keep-core/pkg/protocol/group"
	"pgregory.net/rapid"
)

// ---------------------------------------------------------------------------
// C10 - attempt member selection: every member derives the same participants
// ---------------------------------------------------------------------------

type c10Layout struct {
	n         int
	operators chain.Addresses // seat i (member i+1) -> operator
	letters   []string        // compact rendering of the layout
	params    *GroupParameters
}

// c10GenLayout draws a wallet of 5..20 seats held by 2..n operators (operators
// with several seats are frequent) and scaled group parameters
// n/2 < honest threshold <= quorum <= n.
func c10GenLayout(t *rapid.T) c10Layout {
	n := rapid.IntRange(5, 20).Draw(t, "groupSize")
	var nOps int
	mode := rapid.SampledFrom([]string{"distinct", "few", "mixed", "mixed", "many"}).Draw(t, "layoutMode")
	switch mode {
	case "distinct":
		nOps = n
	case "few":
		nOps = rapid.IntRange(2, max(2, n/3)).Draw(t, "operators")
	case "many":
		nOps = rapid.IntRange(max(2, n*2/3), n).Draw(t, "operators")
	default:
		nOps = rapid.IntRange(2, n).Draw(t, "operators")
	}
	names := make([]chain.Address, nOps)
	for i := range names {
		// drawn prefix: sorted order of the addresses is not creation order
		names[i] = chain.Address(fmt.Sprintf("0x%s%02d", rapid.StringMatching("[a-f0-9]{2}").Draw(t, "prefix"), i))
	}
	var seatOps []int
	if mode == "distinct" {
		for i := 0; i < n; i++ {
			seatOps = append(seatOps, i)
		}
	} else {
		seatOps = rapid.SliceOfN(rapid.IntRange(0, nOps-1), n, n).Draw(t, "seatOperators")
	}
	l := c10Layout{n: n}
	for _, o := range seatOps {
		l.operators = append(l.operators, names[o])
		l.letters = append(l.letters, string(rune('a'+o)))
	}
	// honest threshold: a majority; mostly in the lower part (51 of 100 in
	// production), one case in four anywhere up to n
	h := rapid.IntRange(n/2+1, n/2+1+n/4).Draw(t, "honestThreshold")
	if rapid.IntRange(0, 3).Draw(t, "highThreshold") == 0 {
		h = rapid.IntRange(n/2+1, n).Draw(t, "honestThresholdAny")
	}
	// quorum between the threshold and n; two cases in three leave slack
	// below n so that ready operators can be dropped by the DKG retry selection
	q := rapid.IntRange(h, n).Draw(t, "quorum")
	if rapid.IntRange(0, 2).Draw(t, "quorumSlack") > 0 {
		q = rapid.IntRange(h, h+(n-h)/2).Draw(t, "quorumLow")
	}
	l.params = &GroupParameters{GroupSize: n, GroupQuorum: q, HonestThreshold: h}
	return l
}

// c10GenReady draws a ready set of at least atLeast members (a set: the
// announcer reports unique indexes), ascending like the announcer reports it.
func c10GenReady(t *rapid.T, n, atLeast int, label string) []group.MemberIndex {
	// number of members that did not announce: biased to few (min of two draws)
	missing := min(rapid.IntRange(0, n-atLeast).Draw(t, label+"Missing"), rapid.IntRange(0, n-atLeast).Draw(t, label+"Missing2"))
	size := n - missing
	all := make([]group.MemberIndex, n)
	for i := range all {
		all[i] = group.MemberIndex(i + 1)
	}
	perm := rapid.Permutation(all).Draw(t, label+"Perm")
	ready := append([]group.MemberIndex{}, perm[:size]...)
	sort.Slice(ready, func(i, j int) bool { return ready[i] < ready[j] })
	return ready
}

func c10Set(list []group.MemberIndex) map[group.MemberIndex]bool {
	m := map[group.MemberIndex]bool{}
	for _, x := range list {
		m[x] = true
	}
	return m
}

// c10CheckPartition: the excluded list names existing members once each;
// returns the included members (ascending).
func c10CheckPartition(t *rapid.T, what string, n int, excluded []group.MemberIndex) []group.MemberIndex {
	ex := map[group.MemberIndex]bool{}
	for _, m := range excluded {
		if m < 1 || int(m) > n {
			t.Fatalf("%s: excluded list %v names member %d outside the group 1..%d", what, excluded, m, n)
		}
		if ex[m] {
			t.Fatalf("%s: excluded list %v names member %d twice", what, excluded, m)
		}
		ex[m] = true
	}
	var included []group.MemberIndex
	for i := 1; i <= n; i++ {
		if !ex[group.MemberIndex(i)] {
			included = append(included, group.MemberIndex(i))
		}
	}
	return included
}

// nontrivial rule of C10: some operator holds >= 2 seats and one of its seats
// is not ready.
func c10NonTrivial(l c10Layout, ready []group.MemberIndex) bool {
	seats := map[chain.Address]int{}
	for _, o := range l.operators {
		seats[o]++
	}
	rs := c10Set(ready)
	for i, o := range l.operators {
		if seats[o] >= 2 && !rs[group.MemberIndex(i+1)] {
			return true
		}
	}
	return false
}

func c10SameList(a, b []group.MemberIndex) bool {
	if len(a) != len(b) {
		return false
	}
	for i := range a {
		if a[i] != b[i] {
			return false
		}
	}
	return true
}

func c10Message(t *rapid.T, label string) *big.Int {
	if rapid.Bool().Draw(t, label+"Small") {
		return big.NewInt(int64(rapid.IntRange(0, 1000).Draw(t, label)))
	}
	return new(big.Int).SetBytes(rapid.SliceOfN(rapid.Byte(), 32, 32).Draw(t, label+"Bytes"))
}

// TestVerif_C10_SigningSelection: for one wallet layout, message, attempt
// number and ready SET, every member (own loop object, own member index, own
// order of the ready list, one of them with a history of earlier attempts on
// the same loop object) must compute the same excluded list; the included
// members are ready members and exactly honest-threshold many.
func TestVerif_C10_SigningSelection(t *testing.T) {
	st := verifkit.New("C10", "TestVerif_C10_SigningSelection")
	defer st.Flush()
	rapid.Check(t, func(t *rapid.T) {
		l := c10GenLayout(t)
		message := c10Message(t, "message")
		attempt := uint(rapid.IntRange(1, 40).Draw(t, "attempt"))
		ready := c10GenReady(t, l.n, l.params.HonestThreshold, "ready")
		readySet := c10Set(ready)

		newLoop := func(member int) *signingRetryLoop {
			return newSigningRetryLoop(&testutils.MockLogger{}, new(big.Int).Set(message), 100,
				group.MemberIndex(member), append(chain.Addresses{}, l.operators...),
				&GroupParameters{GroupSize: l.n, GroupQuorum: l.params.GroupQuorum, HonestThreshold: l.params.HonestThreshold},
				nil, nil)
		}

		// reference: member 1, fresh loop, ascending ready list
		ref := newLoop(1)
		ref.attemptCounter = attempt
		refExcluded, err := ref.performMembersSelection(append([]group.MemberIndex{}, ready...))
		if err != nil {
			t.Fatalf("selection failed for a ready set of %d >= honest threshold %d: %v", len(ready), l.params.HonestThreshold, err)
		}
		included := c10CheckPartition(t, "signing", l.n, refExcluded)
		for _, m := range included {
			if !readySet[m] {
				t.Fatalf("member %d is included in the attempt but did not announce readiness; ops=%v ready=%v attempt=%d excluded=%v",
					m, l.letters, ready, attempt, refExcluded)
			}
		}
		if len(included) != l.params.HonestThreshold {
			t.Fatalf("attempt includes %d members %v, the honest threshold is %d; ops=%v ready=%v attempt=%d",
				len(included), included, l.params.HonestThreshold, l.letters, ready, attempt)
		}

		// a member whose loop object already went through earlier attempts
		// with other ready sets
		histMember := rapid.IntRange(1, l.n).Draw(t, "historyMember")
		histLen := 0
		if attempt > 1 {
			histLen = rapid.IntRange(1, min(int(attempt)-1, 4)).Draw(t, "historyLen")
		}
		for member := 1; member <= l.n; member++ {
			loop := newLoop(member)
			if member == histMember {
				for k := 0; k < histLen; k++ {
					loop.attemptCounter = attempt - uint(histLen) + uint(k)
					other := c10GenReady(t, l.n, l.params.HonestThreshold, "historyReady")
					if _, err := loop.performMembersSelection(other); err != nil {
						t.Fatalf("history selection failed: %v", err)
					}
				}
			}
			loop.attemptCounter = attempt
			order := rapid.Permutation(ready).Draw(t, "readyOrder")
			got, err := loop.performMembersSelection(append([]group.MemberIndex{}, order...))
			if err != nil {
				t.Fatalf("member %d: selection failed: %v", member, err)
			}
			if !c10SameList(got, refExcluded) {
				t.Fatalf("members disagree: member 1 (ready list %v) excludes %v, member %d (ready list %v, %d earlier attempts on its loop) excludes %v; ops=%v h=%d attempt=%d message=%v",
					ready, refExcluded, member, order, map[bool]int{true: histLen}[member == histMember], got, l.letters, l.params.HonestThreshold, attempt, message)
			}
		}

		trimmed := len(ready) > l.params.HonestThreshold
		st.Case(c10NonTrivial(l, ready),
			fmt.Sprintf("n=%d h=%d ops=%s ready=%v att=%d msg=%v -> excl=%v", l.n, l.params.HonestThreshold, strings.Join(l.letters, ""), ready, attempt, message, refExcluded),
			fmt.Sprintf("surplus-ready:%v", trimmed), fmt.Sprintf("all-ready:%v", len(ready) == l.n), c10OpsLabel(l))
	})
}

func c10OpsLabel(l c10Layout) string {
	seats := map[chain.Address]int{}
	mx := 0
	for _, o := range l.operators {
		seats[o]++
		mx = max(mx, seats[o])
	}
	switch {
	case mx == 1:
		return "max-seats:1"
	case mx <= 3:
		return "max-seats:2-3"
	default:
		return "max-seats:>3"
	}
}

// TestVerif_C10_DkgSelection: same agreement relation for the key generation
// loop. Included members are ready members, whole operators are kept or
// dropped (a ready member is included iff its operator is qualified), at
// least the quorum is included whenever the selection succeeds, attempt 1
// includes exactly the ready members; when the retry selection fails it fails
// for every member.
func TestVerif_C10_DkgSelection(t *testing.T) {
	st := verifkit.New("C10", "TestVerif_C10_DkgSelection")
	defer st.Flush()
	rapid.Check(t, func(t *rapid.T) {
		l := c10GenLayout(t)
		seed := c10Message(t, "seed")
		// the quorum of the layout is re-drawn as n - slack so that the slack
		// (how many seats the retry selection may drop) is drawn directly
		slack := max(rapid.IntRange(0, l.n-l.params.HonestThreshold).Draw(t, "quorumSlackSeats"),
			rapid.IntRange(0, l.n-l.params.HonestThreshold).Draw(t, "quorumSlackSeats2"))
		l.params.GroupQuorum = l.n - slack
		ready := c10GenReady(t, l.n, l.params.GroupQuorum, "ready")
		// Attempt number: 1 (one case in five) or biased to the range where the
		// retry selection can still succeed. The bound is computed here from
		// the layout: an operator can be dropped alone if the ready set keeps
		// the quorum without its ready seats; pairs and triplets are at most
		// the combinations of those operators.
		readySeats := map[chain.Address]int{}
		for _, m := range ready {
			readySeats[l.operators[m-1]]++
		}
		droppable := 0
		for _, c := range readySeats {
			if len(ready)-c >= l.params.GroupQuorum {
				droppable++
			}
		}
		bound := droppable + droppable*(droppable-1)/2
		attempt := uint(1)
		mode := rapid.IntRange(0, 9).Draw(t, "attemptMode")
		switch {
		case bound >= 2 && mode <= 6:
			attempt = uint(rapid.IntRange(2, min(bound, 60)).Draw(t, "attemptInRange"))
		case bound >= 2 && mode == 7, bound < 2 && mode >= 7:
			attempt = uint(rapid.IntRange(2, 40).Draw(t, "attempt"))
		}
		readySet := c10Set(ready)

		newLoop := func(member int) *dkgRetryLoop {
			return newDkgRetryLoop(&testutils.MockLogger{}, new(big.Int).Set(seed), 100,
				group.MemberIndex(member), append(chain.Addresses{}, l.operators...),
				&GroupParameters{GroupSize: l.n, GroupQuorum: l.params.GroupQuorum, HonestThreshold: l.params.HonestThreshold},
				nil, 0)
		}
		ref := newLoop(1)
		ref.attemptCounter = attempt
		refExcluded, refErr := ref.performMembersSelection(append([]group.MemberIndex{}, ready...))

		if refErr == nil {
			included := c10CheckPartition(t, "dkg", l.n, refExcluded)
			inc := c10Set(included)
			for _, m := range included {
				if !readySet[m] {
					t.Fatalf("member %d is included in the attempt but did not announce readiness; ops=%v ready=%v attempt=%d excluded=%v",
						m, l.letters, ready, attempt, refExcluded)
				}
			}
			// ready members of one operator are kept or dropped together
			state := map[chain.Address]int{} // 1 kept, 2 dropped
			for _, m := range ready {
				op := l.operators[m-1]
				s := 2
				if inc[m] {
					s = 1
				}
				if state[op] != 0 && state[op] != s {
					t.Fatalf("operator %s (seats %v) has ready members both inside and outside the attempt; ops=%v ready=%v attempt=%d excluded=%v",
						op, l.letters, l.letters, ready, attempt, refExcluded)
				}
				state[op] = s
			}
			if len(included) < l.params.GroupQuorum {
				t.Fatalf("attempt includes %d members %v, fewer than the quorum %d; ops=%v ready=%v attempt=%d",
					len(included), included, l.params.GroupQuorum, l.letters, ready, attempt)
			}
			if attempt == 1 && !c10SameList(included, ready) {
				t.Fatalf("attempt 1 includes %v, the ready members are %v; ops=%v", included, ready, l.letters)
			}
		} else if attempt == 1 {
			t.Fatalf("attempt 1 selection failed: %v", refErr)
		}

		histMember := rapid.IntRange(1, l.n).Draw(t, "historyMember")
		histLen := 0
		if attempt > 1 {
			histLen = rapid.IntRange(1, min(int(attempt)-1, 4)).Draw(t, "historyLen")
		}
		for member := 1; member <= l.n; member++ {
			loop := newLoop(member)
			if member == histMember {
				for k := 0; k < histLen; k++ {
					loop.attemptCounter = attempt - uint(histLen) + uint(k)
					other := c10GenReady(t, l.n, l.params.GroupQuorum, "historyReady")
					_, _ = loop.performMembersSelection(other)
				}
			}
			loop.attemptCounter = attempt
			order := rapid.Permutation(ready).Draw(t, "readyOrder")
			got, err := loop.performMembersSelection(append([]group.MemberIndex{}, order...))
			if (err == nil) != (refErr == nil) {
				t.Fatalf("members disagree: member 1 error=%v, member %d (ready list %v) error=%v; ops=%v q=%d attempt=%d",
					refErr, member, order, err, l.letters, l.params.GroupQuorum, attempt)
			}
			if err == nil && !c10SameList(got, refExcluded) {
				t.Fatalf("members disagree: member 1 (ready list %v) excludes %v, member %d (ready list %v) excludes %v; ops=%v q=%d attempt=%d seed=%v",
					ready, refExcluded, member, order, got, l.letters, l.params.GroupQuorum, attempt, seed)
			}
		}

		outcome := "selected"
		if refErr != nil {
			outcome = "retries-exhausted"
		}
		droppedReady := 0
		if refErr == nil {
			ex := c10Set(refExcluded)
			for _, m := range ready {
				if ex[m] {
					droppedReady++
				}
			}
		}
		st.Case(refErr == nil && c10NonTrivial(l, ready),
			fmt.Sprintf("n=%d q=%d ops=%s ready=%v att=%d seed=%v -> excl=%v err=%v", l.n, l.params.GroupQuorum, strings.Join(l.letters, ""), ready, attempt, seed, refExcluded, refErr != nil),
			"outcome:"+outcome, fmt.Sprintf("droppable-operators:%s", c10Bucket(droppable)), fmt.Sprintf("first-attempt:%v", attempt == 1), fmt.Sprintf("ready-members-dropped:%s", c10Bucket(droppedReady)), c10OpsLabel(l))
	})
}

func c10Bucket(n int) string {
	switch {
	case n == 0:
		return "0"
	case n <= 2:
		return "1-2"
	default:
		return ">2"
	}
}
