//go:build go1.23

package tbtc

// C12, wallet coordination (follower routine) and signing completion (done
// check listener): the real routines run against a fake channel; generated
// messages (claimed index, sender network key, window/attempt identity) are
// delivered and the outcome - the proposal and faults returned by the
// follower, the set of confirmed signers kept by the done check - is compared
// with the admission model.

import (
	"context"
	"crypto/ecdsa"
	"fmt"
	"math/big"
	"testing"
	"time"

	"github.com/keep-network/keep-core/internal/testutils"
	"github.com/keep-network/keep-core/internal/verifkit"
	"github.com/keep-network/keep-core/pkg/bitcoin"
	"github.com/keep-network/keep-core/pkg/chain"
	"github.com/keep-network/keep-core/pkg/protocol/group"
	"github.com/keep-network/keep-core/pkg/tecdsa"
	"pgregory.net/rapid"
)

type c12Foreign struct{ senderID group.MemberIndex }

func (f *c12Foreign) Type() string { return "c12/foreign" }

const c12WaitLimit = 60 * time.Second

// the follower only asks its chain handle for the signing scheme
type c12Chain struct {
	Chain
	signing chain.Signing
}

func (c *c12Chain) Signing() chain.Signing { return c.signing }

// at least two operators hold seats (a follower needs a leader)
func c12TwoOperators(t *rapid.T, sc *c12Scenario) {
	if len(sc.inGroup) >= 2 {
		return
	}
	var seat int
	for {
		seat = rapid.IntRange(1, sc.n).Draw(t, "reassignedSeat")
		if group.MemberIndex(seat) != sc.receiver {
			break
		}
	}
	other := sc.outGroup[0]
	sc.seats[seat-1] = other
	sc.inGroup = append(sc.inGroup, other)
	sc.outGroup = sc.outGroup[1:]
}

func c12Inconclusive(t *rapid.T, why string) {
	fmt.Println("VERIF-INCONCLUSIVE: " + why)
	t.Fatalf("inconclusive: %s", why)
}

func TestVerif_C12_CoordinationFollower(t *testing.T) {
	st := verifkit.New("C12", "TestVerif_C12_CoordinationFollower")
	defer st.Flush()
	pool, signing := c12Pool(t)
	logger := &testutils.MockLogger{}
	x, y := tecdsa.Curve.ScalarBaseMult(big.NewInt(1212).Bytes())
	walletKey := &ecdsa.PublicKey{Curve: tecdsa.Curve, X: x, Y: y}
	walletHash := bitcoin.PublicKeyHash(walletKey)
	otherHash := walletHash
	otherHash[7] ^= 0x40
	const block = uint64(90900)

	rapid.Check(t, func(t *rapid.T) {
		sc := c12GenScenario(t)
		// wallet coordination knows no member status
		sc.ia, sc.dq = map[group.MemberIndex]bool{}, map[group.MemberIndex]bool{}
		c12TwoOperators(t, sc)
		followerOp := sc.seats[int(sc.receiver)-1]
		var leaderOps []int
		for _, op := range sc.inGroup {
			if op != followerOp {
				leaderOps = append(leaderOps, op)
			}
		}
		leaderOp := rapid.SampledFrom(leaderOps).Draw(t, "leader")
		ownSeats := map[group.MemberIndex]bool{}
		var ownList []group.MemberIndex
		allowed := map[group.MemberIndex]bool{}
		leaderID := group.MemberIndex(0)
		sc.favoured = nil
		for i := 1; i <= sc.n; i++ {
			idx := group.MemberIndex(i)
			allowed[idx] = true
			if sc.seats[i-1] == followerOp {
				ownSeats[idx] = true
				ownList = append(ownList, idx)
			}
			if sc.seats[i-1] == leaderOp {
				if leaderID == 0 {
					leaderID = idx // the leader speaks as its first seat
				}
				sc.favoured = append(sc.favoured, idx)
			}
		}
		actionsAllowed := []WalletActionType{ActionHeartbeat, ActionNoop}
		if rapid.IntRange(0, 3).Draw(t, "heartbeatNotAllowed") == 0 {
			actionsAllowed = []WalletActionType{ActionNoop}
		}

		channel := &c12Channel{}
		ce := &coordinationExecutor{
			chain:               &c12Chain{signing: signing},
			coordinatedWallet:   wallet{publicKey: walletKey, signingGroupOperators: sc.addresses(pool)},
			membersIndexes:      ownList,
			operatorAddress:     pool[followerOp].addr,
			broadcastChannel:    channel,
			membershipValidator: group.NewMembershipValidator(logger, sc.addresses(pool), signing),
		}

		r := &c12Receiver{
			name: "followerRoutine", kindNames: []string{"coordinationMessage", "foreign"}, ownKinds: []int{0},
			allowed: allowed, ownSeats: ownSeats,
			note: fmt.Sprintf(" leader=%s(seat %d) allowed=%v", pool[leaderOp].name, leaderID, actionsAllowed),
			build: func(t *rapid.T, m c12Msg, _ []byte) (interface{}, string, bool, string) {
				if m.kind == 1 {
					p := &c12Foreign{senderID: m.idx}
					return p, p.Type(), true, ""
				}
				p := &coordinationMessage{senderID: m.idx, coordinationBlock: block, walletPublicKeyHash: walletHash}
				if m.session != c12Session {
					// a message of another window or another wallet
					switch rapid.IntRange(0, 2).Draw(t, "otherWindow") {
					case 0:
						p.coordinationBlock = block + 900
					case 1:
						p.coordinationBlock = block - 1
					default:
						p.walletPublicKeyHash = otherHash
					}
				}
				if rapid.Bool().Draw(t, "heartbeat") {
					p.proposal = &HeartbeatProposal{Message: [16]byte{byte(m.idx), 12}}
				} else {
					p.proposal = &NoopProposal{}
				}
				return p, p.Type(), true, fmt.Sprintf("proposes %s", p.proposal.ActionType())
			},
		}
		nMsgs := rapid.IntRange(1, 8).Draw(t, "messages")
		var plan []*c12Planned
		// the model of the routine over the admitted messages
		var wantProposal CoordinationProposal
		var wantFaults []string
		for i := 0; i < nMsgs; i++ {
			p := c12Plan(t, sc, pool, r)
			plan = append(plan, p)
			if !p.want || wantProposal != nil {
				continue
			}
			cm := p.payload.(*coordinationMessage)
			actionOK := false
			for _, a := range actionsAllowed {
				if a == cm.proposal.ActionType() {
					actionOK = true
				}
			}
			switch {
			case p.msg.idx != leaderID:
				wantFaults = append(wantFaults, fmt.Sprintf("%s:%v", pool[p.msg.op].addr, FaultLeaderImpersonation))
			case !actionOK:
				wantFaults = append(wantFaults, fmt.Sprintf("%s:%v", pool[leaderOp].addr, FaultLeaderMistake))
			default:
				wantProposal = cm.proposal
			}
		}
		if wantProposal == nil {
			wantFaults = append(wantFaults, fmt.Sprintf("%s:%v", pool[leaderOp].addr, FaultLeaderIdleness))
		}

		ctx, cancel := context.WithCancel(context.Background())
		defer cancel()
		type outcome struct {
			proposal CoordinationProposal
			faults   []*coordinationFault
			err      error
		}
		result := make(chan outcome, 1)
		go func() {
			p, f, err := ce.executeFollowerRoutine(ctx, pool[leaderOp].addr, block, actionsAllowed)
			result <- outcome{p, f, err}
		}()
		if !verifkit.Eventually(c12WaitLimit, func() bool { return channel.registered() == 1 }) {
			cancel()
			<-result
			c12Inconclusive(t, "the follower did not register its receiver in time")
		}
		for _, p := range plan {
			channel.deliver(p.netMessage(pool))
		}
		// once the routine asks for the payload of this last message every
		// earlier one has been processed completely
		drained := make(chan struct{})
		channel.deliver(&c12NetMessage{key: pool[0].key, payload: &c12Foreign{}, typ: "c12/foreign",
			onPayload: func() { close(drained) }})
		var out outcome
		returned := false
		select {
		case out = <-result:
			returned = true
		case <-drained:
		case <-time.After(c12WaitLimit):
			cancel()
			<-result
			c12Inconclusive(t, "the follower did not drain its buffer in time")
		}
		cancel()
		if !returned {
			select {
			case out = <-result:
			case <-time.After(c12WaitLimit):
				c12Inconclusive(t, "the follower did not return after its context was cancelled")
			}
		}

		where := fmt.Sprintf("group %s (follower runs the seats of *'s operator)%s: after %s",
			sc.render(pool), r.note, c12Texts(plan))
		if out.proposal != wantProposal {
			t.Fatalf("%s the follower returned proposal %v, the admission rule gives %v", where, out.proposal, wantProposal)
		}
		if (out.err == nil) != (wantProposal != nil) {
			t.Fatalf("%s error=%v but expected proposal=%v", where, out.err, wantProposal)
		}
		var gotFaults []string
		for _, f := range out.faults {
			gotFaults = append(gotFaults, fmt.Sprintf("%s:%v", f.culprit, f.faultType))
		}
		if fmt.Sprint(gotFaults) != fmt.Sprint(wantFaults) {
			t.Fatalf("%s the follower recorded faults %v, the admission rule gives %v", where, gotFaults, wantFaults)
		}
		tags := map[string]bool{}
		if wantProposal != nil {
			tags["follower:proposal-accepted"] = true
		} else {
			tags["follower:leader-idle"] = true
		}
		if len(wantFaults) > 1 || (len(wantFaults) == 1 && wantProposal != nil) {
			tags["follower:fault-recorded"] = true
		}
		c12Record(st, sc, pool, r, plan, tags)
	})
}

func TestVerif_C12_SigningDoneListener(t *testing.T) {
	st := verifkit.New("C12", "TestVerif_C12_SigningDoneListener")
	defer st.Flush()
	pool, signing := c12Pool(t)
	logger := &testutils.MockLogger{}
	const attempt = uint64(3)
	const timeoutBlock = uint64(5000)
	signedMessage := big.NewInt(121212)

	rapid.Check(t, func(t *rapid.T) {
		sc := c12GenScenario(t)
		// members left out of the attempt: the ones the scenario marks
		attemptMembers := []group.MemberIndex{}
		allowed := map[group.MemberIndex]bool{}
		receiverIncluded := rapid.Bool().Draw(t, "receiverInAttempt")
		for i := 1; i <= sc.n; i++ {
			idx := group.MemberIndex(i)
			if sc.ia[idx] || sc.dq[idx] || (idx == sc.receiver && !receiverIncluded) {
				continue
			}
			allowed[idx] = true
			attemptMembers = append(attemptMembers, idx)
		}
		channel := &c12Channel{}
		sdc := newSigningDoneCheck(sc.n, channel, group.NewMembershipValidator(logger, sc.addresses(pool), signing))

		r := &c12Receiver{
			name: "signingDoneListener", kindNames: []string{"signingDone", "foreign"}, ownKinds: []int{0},
			allowed: allowed, selfAllowed: true,
			note: fmt.Sprintf(" attemptMembers=%v", attemptMembers),
			build: func(t *rapid.T, m c12Msg, _ []byte) (interface{}, string, bool, string) {
				if m.kind == 1 {
					p := &c12Foreign{senderID: m.idx}
					return p, p.Type(), true, ""
				}
				p := &signingDoneMessage{senderID: m.idx, message: new(big.Int).Set(signedMessage), attemptNumber: attempt,
					signature: &tecdsa.Signature{R: big.NewInt(int64(m.idx) + 1), S: big.NewInt(2)},
					endBlock:  uint64(rapid.IntRange(4000, 5000).Draw(t, "endBlock"))}
				if m.session != c12Session {
					// a confirmation of another message / attempt, or one
					// that ended after the attempt's timeout
					switch rapid.IntRange(0, 3).Draw(t, "otherAttempt") {
					case 0:
						p.message = big.NewInt(121213)
					case 1:
						p.attemptNumber = attempt + 1
					case 2:
						p.attemptNumber = attempt - 1
					default:
						p.endBlock = timeoutBlock + 1
					}
				}
				if rapid.IntRange(0, 7).Draw(t, "noSignature") == 0 {
					p.signature = nil
					return p, p.Type(), false, "no-signature"
				}
				return p, p.Type(), true, ""
			},
		}
		nMsgs := rapid.IntRange(1, 10).Draw(t, "messages")
		var plan []*c12Planned
		want := map[group.MemberIndex]interface{}{}
		for i := 0; i < nMsgs; i++ {
			p := c12Plan(t, sc, pool, r)
			if _, dup := want[p.msg.idx]; dup && p.want {
				// only the first confirmation of a member counts
				p.want = false
				p.extraOK, p.extraTag = false, "second-confirmation"
				p.text += "(second)"
			}
			plan = append(plan, p)
			if p.want {
				want[p.msg.idx] = p.payload
			}
		}

		ctx, cancel := context.WithCancel(context.Background())
		defer cancel()
		sdc.listen(ctx, signedMessage, attempt, timeoutBlock, attemptMembers)
		defer sdc.cancelReceiveCtx()
		if channel.registered() != 1 {
			t.Fatalf("listen did not register a receiver")
		}
		for _, p := range plan {
			channel.deliver(p.netMessage(pool))
		}
		drained := make(chan struct{})
		channel.deliver(&c12NetMessage{key: pool[0].key, payload: &c12Foreign{}, typ: "c12/foreign",
			onPayload: func() { close(drained) }})
		select {
		case <-drained:
		case <-time.After(c12WaitLimit):
			c12Inconclusive(t, "the done check listener did not drain its buffer in time")
		}

		sdc.doneSignersMutex.Lock()
		got := map[group.MemberIndex]interface{}{}
		for idx, m := range sdc.doneSigners {
			got[idx] = m
		}
		sdc.doneSignersMutex.Unlock()
		for idx := 0; idx <= 255; idx++ {
			m := group.MemberIndex(idx)
			g, gok := got[m]
			w, wok := want[m]
			if gok != wok || (gok && g != w) {
				t.Fatalf("group %s (receiver *, i/d left out of the attempt)%s: after %s member %d confirmed=%v, the admission rule gives %v (or another message of the member was kept)",
					sc.render(pool), r.note, c12Texts(plan), m, gok, wok)
			}
		}
		// the completion verdict follows the confirmed set
		_, _, done, _ := sdc.checkAllDone()
		if done != (len(want) == len(attemptMembers)) {
			t.Fatalf("group %s%s: after %s all-done=%v with %d of %d confirmations", sc.render(pool), r.note,
				c12Texts(plan), done, len(want), len(attemptMembers))
		}
		tags := map[string]bool{}
		if done {
			tags["done:all-confirmed"] = true
		}
		if !receiverIncluded {
			tags["done:receiver-not-in-attempt"] = true
		}
		c12Record(st, sc, pool, r, plan, tags)
	})
}
