//go:build go1.23

package tbtc

import (
	"crypto/ecdsa"
	"crypto/elliptic"
	"fmt"
	"math/big"
	"reflect"
	"runtime"
	"sort"
	"strings"
	"sync"
	"sync/atomic"
	"testing"
	"time"

	golog "github.com/ipfs/go-log/v2"
	"github.com/keep-network/keep-core/internal/verifkit"
	"github.com/keep-network/keep-core/pkg/chain"
	"github.com/keep-network/keep-core/pkg/tecdsa"
	"pgregory.net/rapid"
)

const c25Wallets = 3

// c25Probe watches what really executes: per wallet the number of execute()
// calls in flight, and whether two were ever in flight together.
type c25Probe struct {
	running   [c25Wallets]atomic.Int32
	overlap   atomic.Value // string, first overlap seen
	executed  atomic.Int32
	completed atomic.Int32
}

// c25Action is a wallet action whose execute() blocks until the harness opens
// its gate and then ends with the drawn outcome.
type c25Action struct {
	id      int
	wi      int
	w       wallet
	typ     WalletActionType
	outcome error
	gate    chan struct{}
	started chan struct{}
	ran     atomic.Bool
	probe   *c25Probe
}

func (a *c25Action) execute() error {
	a.ran.Store(true)
	a.probe.executed.Add(1)
	if n := a.probe.running[a.wi].Add(1); n > 1 {
		a.probe.overlap.CompareAndSwap(nil, fmt.Sprintf("action #%d started on wallet %d while %d other action(s) of that wallet were executing", a.id, a.wi, n-1))
	}
	close(a.started)
	<-a.gate
	a.probe.running[a.wi].Add(-1)
	a.probe.completed.Add(1)
	return a.outcome
}

func (a *c25Action) wallet() wallet               { return a.w }
func (a *c25Action) actionType() WalletActionType { return a.typ }

type c25Harness struct {
	t       *rapid.T
	wd      *walletDispatcher
	probe   *c25Probe
	points  [c25Wallets][2]*big.Int // the wallets' public key coordinates
	current [c25Wallets]*c25Action  // model: the action the wallet is busy with
	all     []*c25Action
	refused []*c25Action
	log     []string
}

func c25Inconclusive(t *rapid.T, why string) {
	fmt.Println("VERIF-INCONCLUSIVE: " + why)
	t.Fatalf("VERIF-INCONCLUSIVE: %s", why)
}

// The wallet's identity is its public key, not an object: the wallet value an
// action carries comes from a drawn origin - the very key object other actions
// of that wallet use (one signer's wallet reused), a fresh copy of the
// coordinates, or a key unmarshalled from the wallet's bytes (another signer,
// a registry reload, a wallet rebuilt from chain data).
func (h *c25Harness) newAction(wi int, typ WalletActionType, outcome error) *c25Action {
	var pub *ecdsa.PublicKey
	switch rapid.SampledFrom([]string{"shared", "copy", "copy", "bytes", "bytes"}).Draw(h.t, "keyOrigin") {
	case "shared":
		pub = &ecdsa.PublicKey{Curve: tecdsa.Curve, X: h.points[wi][0], Y: h.points[wi][1]}
	case "copy":
		pub = &ecdsa.PublicKey{Curve: tecdsa.Curve, X: new(big.Int).Set(h.points[wi][0]), Y: new(big.Int).Set(h.points[wi][1])}
	default:
		pub = unmarshalPublicKey(elliptic.Marshal(tecdsa.Curve, h.points[wi][0], h.points[wi][1]))
	}
	a := &c25Action{
		id: len(h.all), wi: wi, typ: typ, outcome: outcome, probe: h.probe,
		w: wallet{
			publicKey:             pub,
			signingGroupOperators: []chain.Address{chain.Address(fmt.Sprintf("op-%d", len(h.all)))},
		},
		gate: make(chan struct{}), started: make(chan struct{}),
	}
	h.all = append(h.all, a)
	return a
}

// ---------------------------------------------------------------------------
// a dispatcher that stops answering
//
// Every interaction with the dispatcher goes through await/lockTable. When one
// does not come back promptly the harness does not let a clock decide: it
// looks at the goroutines. The dispatcher mutex is only ever held by a
// goroutine that is inside dispatch() (or inside the deferred release of a
// dispatched action). If the mutex is locked, and every goroutine that is
// inside those functions is either parked on that very mutex or executing its
// action (execute() runs without the lock), nobody is left who could ever
// unlock it: all later dispatches - for any wallet - and all releases block
// for good. That is a violation ("actions for different wallets do not block
// each other", "available again as soon as its action ends"), not a timeout.

// c25Patience: how long an interaction may take before the goroutines are
// consulted (VERIF_C25_PATIENCE_US forces that path to test the harness itself).
var c25Patience = time.Duration(verifkit.EnvInt("VERIF_C25_PATIENCE_US", 200_000)) * time.Microsecond

// c25DispatchGoroutines classifies (waiters, executing, inTransit) the goroutines that
// are inside walletDispatcher.dispatch frames.
func c25DispatchGoroutines() (waiters, executing, inTransit int, dump string) {
	buf := make([]byte, 4<<20)
	buf = buf[:runtime.Stack(buf, true)]
	dump = string(buf)
	for _, g := range strings.Split(dump, "\n\n") {
		if !strings.Contains(g, "(*walletDispatcher).dispatch") {
			continue
		}
		header, _, _ := strings.Cut(g, "\n")
		parked := !strings.Contains(header, "[running") && !strings.Contains(header, "[runnable")
		switch {
		case strings.Contains(g, "sync.(*Mutex).Lock") && parked:
			waiters++
		case strings.Contains(g, "(*c25Action).execute") && parked:
			executing++
		default:
			inTransit++
		}
	}
	return
}

// stuck decides whether the dispatcher mutex is locked with nobody left to
// unlock it. Two identical observations in a row are required.
func (h *c25Harness) stuck() (bool, string) {
	var last string
	for round := 0; round < 2; round++ {
		if h.wd.actionsMutex.TryLock() {
			h.wd.actionsMutex.Unlock()
			return false, ""
		}
		w, e, transit, _ := c25DispatchGoroutines()
		if transit != 0 {
			return false, ""
		}
		now := fmt.Sprintf("%d goroutine(s) parked on the dispatcher mutex, %d executing their action, none inside a critical section", w, e)
		if round == 1 && now != last {
			return false, ""
		}
		last = now
		runtime.Gosched()
	}
	return true, last
}

func (h *c25Harness) failStuck(what, why string) {
	h.releaseAll()
	h.t.Fatalf("%s does not return: the dispatcher mutex is locked and nobody is left to unlock it (%s) - every dispatch for any wallet and every release now blocks forever\nhistory: %s", what, why, h.history())
}

// await waits for done; when it takes long the goroutines decide.
func (h *c25Harness) await(done <-chan struct{}, what string) {
	select {
	case <-done:
		return
	case <-time.After(c25Patience):
	}
	deadline := time.Now().Add(30 * time.Second)
	for {
		select {
		case <-done:
			return
		case <-time.After(5 * time.Millisecond):
		}
		if is, why := h.stuck(); is {
			h.failStuck(what, why)
		}
		if time.Now().After(deadline) {
			h.releaseAll()
			c25Inconclusive(h.t, what+" did not return within 30s")
		}
	}
}

// lockTable takes the dispatcher mutex for the harness' own reads.
func (h *c25Harness) lockTable() {
	start := time.Now()
	for !h.wd.actionsMutex.TryLock() {
		runtime.Gosched()
		if time.Since(start) < c25Patience {
			continue
		}
		if is, why := h.stuck(); is {
			h.failStuck("reading the dispatcher table", why)
		}
		if time.Since(start) > 30*time.Second {
			h.releaseAll()
			c25Inconclusive(h.t, "dispatcher table not readable within 30s")
		}
		time.Sleep(time.Millisecond)
	}
}

// guardedDispatch calls dispatch in its own goroutine so that a dispatch that
// never returns cannot hang the harness.
func (h *c25Harness) guardedDispatch(a walletAction, what string) error {
	var err error
	done := make(chan struct{})
	go func() {
		defer close(done)
		err = h.wd.dispatch(a)
	}()
	h.await(done, what)
	return err
}

// snapshot reads the dispatcher's table of running actions: how many wallets
// it holds as busy and with which action types. The table is read through
// reflection and its keys are ignored, so the check does not depend on how the
// dispatcher identifies a wallet internally (which wallet is busy is judged by
// behaviour: refusals, acceptances, executions).
func (h *c25Harness) snapshot() (int, string) {
	h.lockTable()
	defer h.wd.actionsMutex.Unlock()
	table := reflect.ValueOf(h.wd.actions)
	var types []string
	for it := table.MapRange(); it.Next(); {
		types = append(types, fmt.Sprint(it.Value().Interface()))
	}
	sort.Strings(types)
	return table.Len(), strings.Join(types, ",")
}

func (h *c25Harness) history() string { return strings.Join(h.log, " ") }

// invariants that must hold whenever the harness is not in the middle of a
// completion: no overlap was ever seen, and the dispatcher's table holds
// exactly the busy wallets with the type of the action they run.
func (h *c25Harness) check(where string) {
	if v := h.probe.overlap.Load(); v != nil {
		h.t.Fatalf("%s: %s\nhistory: %s", where, v, h.history())
	}
	var want []string
	for _, a := range h.current {
		if a != nil {
			want = append(want, fmt.Sprint(a.typ))
		}
	}
	sort.Strings(want)
	size, types := h.snapshot()
	if size != len(want) {
		h.t.Fatalf("%s: dispatcher holds %d busy wallets, expected %d\nhistory: %s", where, size, len(want), h.history())
	}
	if types != strings.Join(want, ",") {
		h.t.Fatalf("%s: dispatcher holds running actions [%s], expected [%s]\nhistory: %s", where, types, strings.Join(want, ","), h.history())
	}
}

func (h *c25Harness) awaitStart(a *c25Action) {
	select {
	case <-a.started:
	case <-time.After(30 * time.Second):
		// release everything so that no goroutine stays behind
		h.releaseAll()
		c25Inconclusive(h.t, fmt.Sprintf("accepted action #%d did not start executing within 30s", a.id))
	}
}

func (h *c25Harness) releaseAll() {
	for _, a := range h.all {
		select {
		case <-a.gate:
		default:
			close(a.gate)
		}
	}
}

func (h *c25Harness) dispatch(wi int, typ WalletActionType, outcome error) {
	a := h.newAction(wi, typ, outcome)
	err := h.guardedDispatch(a, fmt.Sprintf("dispatch #%d for wallet %d", a.id, wi))
	busy := h.current[wi] != nil
	h.log = append(h.log, fmt.Sprintf("D%d:%s%s", wi, typ, map[bool]string{true: "!", false: ""}[outcome != nil]))
	switch {
	case busy && err == nil:
		h.awaitStart(a)
		h.t.Fatalf("dispatch for busy wallet %d was accepted (running #%d, new #%d)\nhistory: %s", wi, h.current[wi].id, a.id, h.history())
	case busy && err != errWalletBusy:
		h.t.Fatalf("dispatch for busy wallet %d refused with %v, expected errWalletBusy", wi, err)
	case busy:
		h.refused = append(h.refused, a)
	case err != nil:
		h.t.Fatalf("dispatch for idle wallet %d refused: %v\nhistory: %s", wi, err, h.history())
	default:
		h.current[wi] = a
		// the action must really start although other wallets are busy
		h.awaitStart(a)
	}
	h.check("after dispatch")
}

func (h *c25Harness) complete(wi int) {
	a := h.current[wi]
	h.log = append(h.log, fmt.Sprintf("C%d", wi))
	close(a.gate)
	// "available again as soon as its action ends": the release happens right
	// after execute() returns, in the dispatcher's goroutine. Only liveness
	// within a generous bound is observable; a bound hit is inconclusive.
	busyBefore := 0
	for _, c := range h.current {
		if c != nil {
			busyBefore++
		}
	}
	released := func() bool { size, _ := h.snapshot(); return size < busyBefore }
	for i := 0; i < 500 && !released(); i++ {
		runtime.Gosched() // usually a matter of microseconds: do not sleep for it
	}
	if !verifkit.Eventually(30*time.Second, released) {
		h.releaseAll()
		c25Inconclusive(h.t, fmt.Sprintf("wallet %d still registered as busy 30s after its action ended", wi))
	}
	if a.probe.running[wi].Load() != 0 {
		h.t.Fatalf("wallet %d released while its action is still executing\nhistory: %s", wi, h.history())
	}
	h.current[wi] = nil
	h.check("after completion")
}

// unmarshalable dispatches an action for a wallet whose public key cannot be
// marshalled (a key on another curve): it must be refused with an error, must
// never run, must leave the table alone - and must not disturb anybody else.
func (h *c25Harness) unmarshalable(curve elliptic.Curve, scalar int64, typ WalletActionType) {
	x, y := curve.ScalarBaseMult(big.NewInt(scalar).Bytes())
	a := &c25Action{
		id: len(h.all), wi: 0, typ: typ, probe: h.probe,
		w:    wallet{publicKey: &ecdsa.PublicKey{Curve: curve, X: x, Y: y}},
		gate: make(chan struct{}), started: make(chan struct{}),
	}
	h.all = append(h.all, a)
	h.log = append(h.log, "X:"+curve.Params().Name)
	err := h.guardedDispatch(a, fmt.Sprintf("dispatch #%d for a wallet with a %s key", a.id, curve.Params().Name))
	if err == nil {
		h.t.Fatalf("dispatch for a wallet whose key cannot be marshalled was accepted\nhistory: %s", h.history())
	}
	h.refused = append(h.refused, a)
	h.check("after the dispatch for an unmarshalable wallet")
}

func (h *c25Harness) burst(wi, k int, typs []WalletActionType) {
	actions := make([]*c25Action, k)
	errs := make([]error, k)
	for i := range actions {
		actions[i] = h.newAction(wi, typs[i], nil)
	}
	busy := h.current[wi] != nil
	h.log = append(h.log, fmt.Sprintf("B%dx%d", wi, k))
	var wg sync.WaitGroup
	start := make(chan struct{})
	for i := range actions {
		wg.Add(1)
		go func(i int) {
			defer wg.Done()
			<-start
			errs[i] = h.wd.dispatch(actions[i])
		}(i)
	}
	close(start)
	burstDone := make(chan struct{})
	go func() { wg.Wait(); close(burstDone) }()
	h.await(burstDone, fmt.Sprintf("burst of %d dispatches for wallet %d", k, wi))
	var accepted []*c25Action
	for i, err := range errs {
		switch err {
		case nil:
			accepted = append(accepted, actions[i])
		case errWalletBusy:
			h.refused = append(h.refused, actions[i])
		default:
			h.t.Fatalf("burst dispatch returned %v", err)
		}
	}
	for _, a := range accepted {
		h.awaitStart(a)
	}
	if busy && len(accepted) != 0 {
		h.t.Fatalf("burst of %d on busy wallet %d: %d dispatches accepted\nhistory: %s", k, wi, len(accepted), h.history())
	}
	if !busy && len(accepted) != 1 {
		h.t.Fatalf("burst of %d on idle wallet %d: %d dispatches accepted, expected exactly one\nhistory: %s", k, wi, len(accepted), h.history())
	}
	if !busy {
		h.current[wi] = accepted[0]
	}
	h.check("after burst")
}

func TestVerif_C25_OneActionPerWallet(t *testing.T) {
	_ = golog.SetLogLevel("*", "fatal")
	st := verifkit.New("C25", "TestVerif_C25_OneActionPerWallet")
	defer st.Flush()
	types := []WalletActionType{ActionHeartbeat, ActionDepositSweep, ActionRedemption, ActionMovingFunds, ActionMovedFundsSweep}
	rapid.Check(t, func(t *rapid.T) {
		h := &c25Harness{t: t, wd: newWalletDispatcher(), probe: &c25Probe{}}
		base := rapid.Int64Range(2, 1<<40).Draw(t, "walletBase")
		for wi := 0; wi < c25Wallets; wi++ {
			x, y := tecdsa.Curve.ScalarBaseMult(big.NewInt(base + int64(wi)).Bytes())
			h.points[wi] = [2]*big.Int{x, y}
		}
		defer h.releaseAll()

		steps := rapid.IntRange(1, 30).Draw(t, "steps")
		burstOnBusy, crossWallet, reuse, afterBadKey := false, false, false, false
		everDone := [c25Wallets]bool{}
		for s := 0; s < steps; s++ {
			var busyList []int
			for wi, a := range h.current {
				if a != nil {
					busyList = append(busyList, wi)
				}
			}
			op := rapid.SampledFrom([]string{"dispatch", "dispatch", "dispatch", "dispatch", "complete", "complete", "complete", "burst", "burst", "unmarshalable"}).Draw(t, "op")
			if op == "complete" && len(busyList) == 0 {
				op = "dispatch"
			}
			switch op {
			case "dispatch":
				wi := rapid.IntRange(0, c25Wallets-1).Draw(t, "wallet")
				var outcome error
				if rapid.Bool().Draw(t, "fails") {
					outcome = fmt.Errorf("drawn failure")
				}
				if h.current[wi] == nil && len(busyList) > 0 {
					crossWallet = true
				}
				if h.current[wi] == nil && everDone[wi] {
					reuse = true
				}
				h.dispatch(wi, rapid.SampledFrom(types).Draw(t, "type"), outcome)
			case "complete":
				wi := rapid.SampledFrom(busyList).Draw(t, "busyWallet")
				h.complete(wi)
				everDone[wi] = true
			case "unmarshalable":
				curve := rapid.SampledFrom([]elliptic.Curve{elliptic.P256(), elliptic.P224(), elliptic.P384()}).Draw(t, "curve")
				h.unmarshalable(curve, rapid.Int64Range(1, 1<<30).Draw(t, "scalar"), rapid.SampledFrom(types).Draw(t, "type"))
				afterBadKey = true
			case "burst":
				wi := rapid.IntRange(0, c25Wallets-1).Draw(t, "wallet")
				k := rapid.IntRange(2, 6).Draw(t, "burst")
				typs := make([]WalletActionType, k)
				for i := range typs {
					typs[i] = rapid.SampledFrom(types).Draw(t, "type")
				}
				if h.current[wi] != nil {
					burstOnBusy = true
				} else if everDone[wi] {
					reuse = true
				}
				h.burst(wi, k, typs)
			}
		}
		// wind down: every busy wallet completes and becomes available
		for wi, a := range h.current {
			if a != nil {
				h.complete(wi)
			}
		}
		accepted := 0
		for _, a := range h.all {
			if a.ran.Load() {
				accepted++
			}
		}
		for _, a := range h.refused {
			if a.ran.Load() {
				t.Fatalf("refused action #%d was executed\nhistory: %s", a.id, h.history())
			}
		}
		if accepted+len(h.refused) != len(h.all) || int(h.probe.completed.Load()) != accepted {
			t.Fatalf("%d actions: %d executed, %d completed, %d refused\nhistory: %s", len(h.all), accepted, h.probe.completed.Load(), len(h.refused), h.history())
		}
		kinds := map[string]bool{}
		for _, l := range h.log {
			kinds["op:"+l[:1]] = true
		}
		labels := []string{fmt.Sprintf("burst-on-busy:%v", burstOnBusy), fmt.Sprintf("cross-wallet:%v", crossWallet), fmt.Sprintf("reuse-after-completion:%v", reuse), fmt.Sprintf("bad-key-dispatch:%v", afterBadKey)}
		for k := range kinds {
			labels = append(labels, k)
		}
		sort.Strings(labels)
		st.Case(burstOnBusy, h.history(), labels...)
	})
}
