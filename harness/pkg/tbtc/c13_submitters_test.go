//go:build go1.23

package tbtc

import (
	"bytes"
	"context"
	"fmt"
	"math/big"
	"sort"
	"sync"
	"testing"

	"github.com/keep-network/keep-core/internal/c13sig"
	"github.com/keep-network/keep-core/internal/testutils"
	"github.com/keep-network/keep-core/internal/verifkit"
	"github.com/keep-network/keep-core/pkg/chain"
	"github.com/keep-network/keep-core/pkg/internal/tecdsatest"
	"github.com/keep-network/keep-core/pkg/protocol/group"
	"github.com/keep-network/keep-core/pkg/protocol/inactivity"
	"github.com/keep-network/keep-core/pkg/tecdsa"
	"github.com/keep-network/keep-core/pkg/tecdsa/dkg"
	"pgregory.net/rapid"
)

// ---------------------------------------------------------------------------
// C13 (tbtc part) - the real result/claim signers and the real submitters.
//
// The histories of pkg/tecdsa/dkg and pkg/protocol/inactivity (same generator,
// same model) are signed and verified with the real dkgResultSigner /
// inactivityClaimSigner, and the set of supporting signatures the states hand
// over is given to the real dkgResultSubmitter / inactivityClaimSubmitter in
// front of a recording chain.
// ---------------------------------------------------------------------------

var (
	c13Once       sync.Once
	c13LocalChain *localChain
	c13Share      *tecdsa.PrivateKeyShare
)

func c13Shared(t *testing.T) (*localChain, *tecdsa.PrivateKeyShare) {
	c13Once.Do(func() {
		c13LocalChain = Connect()
		data, err := tecdsatest.LoadPrivateKeyShareTestFixtures(1)
		if err != nil {
			fmt.Printf("VERIF-INCONCLUSIVE: cannot load key share fixtures: %v\n", err)
			t.Fatalf("fixtures: %v", err)
		}
		c13Share = tecdsa.NewPrivateKeyShare(data[0])
	})
	return c13LocalChain, c13Share
}

// c13Chain is the chain seen by one operator: the stateless helpers (hashes,
// assembling) are the package's local chain, the state and the submissions are
// the harness's.
type c13Chain struct {
	Chain
	signing  chain.Signing
	blocks   *verifkit.FakeBlockCounter
	walletID [32]byte
	nonce    int64

	dkgSubmits   []*DKGChainResult
	claimSubmits []*InactivityClaim
	claimNonces  []*big.Int
}

func (c *c13Chain) Signing() chain.Signing                         { return c.signing }
func (c *c13Chain) GetDKGState() (DKGState, error)                 { return AwaitingResult, nil }
func (c *c13Chain) IsDKGResultValid(*DKGChainResult) (bool, error) { return true, nil }
func (c *c13Chain) BlockCounter() (chain.BlockCounter, error)      { return c.blocks, nil }
func (c *c13Chain) SubmitDKGResult(r *DKGChainResult) error {
	c.dkgSubmits = append(c.dkgSubmits, r)
	return nil
}
func (c *c13Chain) GetWallet([20]byte) (*WalletChainData, error) {
	return &WalletChainData{EcdsaWalletID: c.walletID}, nil
}
func (c *c13Chain) GetInactivityClaimNonce([32]byte) (*big.Int, error) {
	return big.NewInt(c.nonce), nil
}
func (c *c13Chain) SubmitInactivityClaim(claim *InactivityClaim, nonce *big.Int, _ []uint32) error {
	c.claimSubmits = append(c.claimSubmits, claim)
	c.claimNonces = append(c.claimNonces, nonce)
	return nil
}

// c13CheckAssembled compares what reached the chain with the set: same
// members, and the concatenation holds each member's signature at its place.
func c13CheckAssembled(members []group.MemberIndex, concat []byte, set map[group.MemberIndex][]byte) error {
	if len(members) != len(set) {
		return fmt.Errorf("%d signing members submitted for a set of %d", len(members), len(set))
	}
	seen := map[group.MemberIndex]bool{}
	var want []byte
	for _, m := range members {
		sig, ok := set[m]
		if !ok || seen[m] {
			return fmt.Errorf("signing member %d submitted but not (or twice) in the set", m)
		}
		seen[m] = true
		want = append(want, sig...)
	}
	if !bytes.Equal(want, concat) {
		return fmt.Errorf("submitted signature bytes are not the set's signatures in signing member order")
	}
	return nil
}

func c13PickGate(t *rapid.T, label string, n, count int) int {
	delta := rapid.SampledFrom([]int{0, 0, 1, 1, -1, 99}).Draw(t, label+"Delta")
	g := count + delta
	if delta == 99 {
		g = rapid.IntRange(1, n).Draw(t, label)
	}
	if g < 1 {
		g = 1
	}
	if g > n {
		g = n
	}
	return g
}

func c13Keys(set map[group.MemberIndex][]byte) []int {
	var out []int
	for m := range set {
		out = append(out, int(m))
	}
	sort.Ints(out)
	return out
}

func TestVerif_C13_TbtcDkgSubmit(t *testing.T) {
	st := verifkit.New("C13", "TestVerif_C13_TbtcDkgSubmit")
	defer st.Flush()
	lc, share := c13Shared(t)
	logger := &testutils.MockLogger{}
	rapid.Check(t, func(t *rapid.T) {
		sc := c13sig.Gen(t, c13sig.Options{
			AllowExcluded: true,
			Participation: []int{100, 100, 100, 90, 75},
		})
		self := sc.SelfKey()
		stub := &c13Chain{Chain: lc, signing: self.Signing, blocks: verifkit.NewFakeBlockCounter(500)}

		dkgGroup := group.NewGroup(sc.N/2, sc.N)
		for m := 1; m <= sc.N; m++ {
			switch sc.Excluded[group.MemberIndex(m)] {
			case "inactive":
				dkgGroup.MarkMemberAsInactive(group.MemberIndex(m))
			case "disqualified":
				dkgGroup.MarkMemberAsDisqualified(group.MemberIndex(m))
			}
		}
		result := &dkg.Result{Group: dkgGroup, PrivateKeyShare: share}
		startBlock := uint64(rapid.IntRange(1, 1000).Draw(t, "dkgStartBlock"))

		// the real signer of the member under test
		signer := newDkgResultSigner(stub, startBlock)
		signed, err := signer.SignResult(result)
		if err != nil {
			t.Fatalf("SignResult: %v", err)
		}
		if !bytes.Equal(signed.PublicKey, self.Pub) {
			t.Fatalf("SignResult names key %x, the operator's network key is %x", signed.PublicKey, self.Pub)
		}
		if ok, err := self.Signing.VerifyWithPublicKey(signed.ResultHash[:], signed.Signature, self.Pub); err != nil || !ok {
			t.Fatalf("own result signature does not verify under the operator key: %v", err)
		}
		// conflicting results: another DKG start block, other misbehaved members
		other, err := newDkgResultSigner(stub, startBlock+1).SignResult(result)
		if err != nil {
			t.Fatalf("SignResult: %v", err)
		}
		group3 := group.NewGroup(sc.N/2, sc.N)
		group3.MarkMemberAsDisqualified(sc.Self)
		third, err := signer.SignResult(&dkg.Result{Group: group3, PrivateKeyShare: share})
		if err != nil {
			t.Fatalf("SignResult: %v", err)
		}
		hashes := [3][32]byte{signed.ResultHash, other.ResultHash, third.ResultHash}
		if err := sc.Materialize(hashes); err != nil {
			fmt.Printf("VERIF-INCONCLUSIVE: %v\n", err)
			t.Fatalf("harness: %v", err)
		}

		// the real verifier agrees with the chain verifier on every message,
		// whoever's key is named (accepted iff it verifies)
		for _, e := range sc.Events {
			ok, err := signer.VerifySignature(&dkg.SignedResult{
				ResultHash: dkg.ResultSignatureHash(e.Hash),
				Signature:  e.Signature,
				PublicKey:  e.Msg.Pub,
			})
			if (ok && err == nil) != e.Verifies {
				t.Fatalf("VerifySignature=%v/%v but the signature of %d:%s/%s verifies=%v\ncase: %s",
					ok, err, e.Sender, e.Kind, e.SigKind, e.Verifies, sc.Describe())
			}
		}

		// the set the result signing states hand over (model checked against
		// the real states in pkg/tecdsa/dkg)
		set := sc.Expect(c13sig.KeepFirst, signed.Signature)
		quorum := c13PickGate(t, "groupQuorum", sc.N, len(set))
		params := &GroupParameters{GroupSize: sc.N, GroupQuorum: quorum, HonestThreshold: sc.N/2 + 1}
		if params.HonestThreshold > quorum {
			params.HonestThreshold = quorum
		}
		ids := make(chain.OperatorIDs, sc.N)
		for i := range ids {
			ids[i] = chain.OperatorID(100 + i)
		}
		submitter := newDkgResultSubmitter(logger, stub, params,
			&GroupSelectionResult{OperatorsIDs: ids, OperatorsAddresses: sc.Addresses()},
			func(context.Context, uint64) error { return nil },
		)
		given := map[group.MemberIndex][]byte{}
		for m, s := range set {
			given[m] = s
		}
		err = submitter.SubmitResult(context.Background(), sc.Self, result, given)

		desc := fmt.Sprintf("%s quorum=%d set=%v", sc.Describe(), quorum, c13Keys(set))
		gate := "gate:below"
		if len(set) >= quorum {
			gate = "gate:above"
			if len(set) == quorum {
				gate = "gate:at"
			}
			if err != nil {
				t.Fatalf("%d signatures reach the quorum %d but SubmitResult failed: %v\ncase: %s", len(set), quorum, err, desc)
			}
			if len(stub.dkgSubmits) != 1 {
				t.Fatalf("%d signatures reach the quorum %d but the chain saw %d submissions\ncase: %s", len(set), quorum, len(stub.dkgSubmits), desc)
			}
			r := stub.dkgSubmits[0]
			if r.SubmitterMemberIndex != sc.Self {
				t.Fatalf("submitted as member %d\ncase: %s", r.SubmitterMemberIndex, desc)
			}
			if err := c13CheckAssembled(r.SigningMembersIndexes, r.Signatures, set); err != nil {
				t.Fatalf("%v\ncase: %s", err, desc)
			}
		} else {
			if len(set) == quorum-1 {
				gate = "gate:just-below"
			}
			if len(stub.dkgSubmits) != 0 {
				t.Fatalf("submitted with %d signatures below the quorum %d\ncase: %s", len(set), quorum, desc)
			}
			if err == nil {
				t.Fatalf("no error with %d signatures below the quorum %d\ncase: %s", len(set), quorum, desc)
			}
		}
		st.Case(sc.NonTrivial(), desc, append(sc.Labels(set), gate)...)
	})
}

func TestVerif_C13_TbtcInactivitySubmit(t *testing.T) {
	st := verifkit.New("C13", "TestVerif_C13_TbtcInactivitySubmit")
	defer st.Flush()
	lc, share := c13Shared(t)
	logger := &testutils.MockLogger{}
	walletPublicKey := share.PublicKey()
	rapid.Check(t, func(t *rapid.T) {
		sc := c13sig.Gen(t, c13sig.Options{Participation: []int{100, 90, 75, 60, 50}})
		self := sc.SelfKey()
		stub := &c13Chain{Chain: lc, signing: self.Signing, blocks: verifkit.NewFakeBlockCounter(500)}
		stub.walletID = [32]byte{byte(rapid.IntRange(1, 200).Draw(t, "walletID"))}
		stub.nonce = int64(rapid.IntRange(0, 5).Draw(t, "nonce"))

		inactive := []group.MemberIndex{group.MemberIndex(rapid.IntRange(1, sc.N).Draw(t, "inactiveMember"))}
		heartbeatFailed := rapid.Bool().Draw(t, "heartbeatFailed")
		claim := inactivity.NewClaimPreimage(big.NewInt(stub.nonce), walletPublicKey, inactive, heartbeatFailed)

		signer := newInactivityClaimSigner(stub)
		signed, err := signer.SignClaim(claim)
		if err != nil {
			t.Fatalf("SignClaim: %v", err)
		}
		if !bytes.Equal(signed.PublicKey, self.Pub) {
			t.Fatalf("SignClaim names key %x, the operator's network key is %x", signed.PublicKey, self.Pub)
		}
		if ok, err := self.Signing.VerifyWithPublicKey(signed.ClaimHash[:], signed.Signature, self.Pub); err != nil || !ok {
			t.Fatalf("own claim signature does not verify under the operator key: %v", err)
		}
		other, err := signer.SignClaim(inactivity.NewClaimPreimage(big.NewInt(stub.nonce+1), walletPublicKey, inactive, heartbeatFailed))
		if err != nil {
			t.Fatalf("SignClaim: %v", err)
		}
		third, err := signer.SignClaim(inactivity.NewClaimPreimage(big.NewInt(stub.nonce), walletPublicKey, inactive, !heartbeatFailed))
		if err != nil {
			t.Fatalf("SignClaim: %v", err)
		}
		hashes := [3][32]byte{signed.ClaimHash, other.ClaimHash, third.ClaimHash}
		if err := sc.Materialize(hashes); err != nil {
			fmt.Printf("VERIF-INCONCLUSIVE: %v\n", err)
			t.Fatalf("harness: %v", err)
		}
		for _, e := range sc.Events {
			ok, err := signer.VerifySignature(&inactivity.SignedClaimHash{
				ClaimHash: inactivity.ClaimHash(e.Hash),
				Signature: e.Signature,
				PublicKey: e.Msg.Pub,
			})
			if (ok && err == nil) != e.Verifies {
				t.Fatalf("VerifySignature=%v/%v but the signature of %d:%s/%s verifies=%v\ncase: %s",
					ok, err, e.Sender, e.Kind, e.SigKind, e.Verifies, sc.Describe())
			}
		}

		set := sc.Expect(c13sig.KeepFirst, signed.Signature)
		honest := c13PickGate(t, "honestThreshold", sc.N, len(set))
		params := &GroupParameters{GroupSize: sc.N, GroupQuorum: sc.N, HonestThreshold: honest}
		members := make([]uint32, sc.N)
		for i := range members {
			members[i] = uint32(100 + i)
		}
		submitter := newInactivityClaimSubmitter(logger, stub, params, members,
			func(context.Context, uint64) error { return nil },
		)
		given := map[group.MemberIndex][]byte{}
		for m, s := range set {
			given[m] = s
		}
		err = submitter.SubmitClaim(context.Background(), sc.Self, claim, given)

		desc := fmt.Sprintf("%s honest=%d set=%v", sc.Describe(), honest, c13Keys(set))
		gate := "gate:below"
		if len(set) >= honest {
			gate = "gate:above"
			if len(set) == honest {
				gate = "gate:at"
			}
			if err != nil {
				t.Fatalf("%d signatures reach the honest threshold %d but SubmitClaim failed: %v\ncase: %s", len(set), honest, err, desc)
			}
			if len(stub.claimSubmits) != 1 {
				t.Fatalf("%d signatures reach the honest threshold %d but the chain saw %d submissions\ncase: %s", len(set), honest, len(stub.claimSubmits), desc)
			}
			c := stub.claimSubmits[0]
			if err := c13CheckAssembled(c.SigningMembersIndices, c.Signatures, set); err != nil {
				t.Fatalf("%v\ncase: %s", err, desc)
			}
			if c.WalletID != stub.walletID || stub.claimNonces[0].Int64() != stub.nonce || c.HeartbeatFailed != heartbeatFailed {
				t.Fatalf("submitted claim wallet %x nonce %v heartbeat %v\ncase: %s", c.WalletID[:2], stub.claimNonces[0], c.HeartbeatFailed, desc)
			}
		} else {
			if len(set) == honest-1 {
				gate = "gate:just-below"
			}
			if len(stub.claimSubmits) != 0 {
				t.Fatalf("submitted with %d signatures below the honest threshold %d\ncase: %s", len(set), honest, desc)
			}
			if err == nil {
				t.Fatalf("no error with %d signatures below the honest threshold %d\ncase: %s", len(set), honest, desc)
			}
		}
		st.Case(sc.NonTrivial(), desc, append(sc.Labels(set), gate)...)
	})
}
