//go:build go1.23

package tbtc

// C22, concurrent wallets: a node coordinates every wallet it controls on its
// own goroutine per window, so several executors are inside getLeader /
// getActionsChecklist at the same time. The results must be those of the
// sequential model (added after seeded change C22_2a: a shared, re-seeded RNG).

import (
	"crypto/sha256"
	"encoding/binary"
	"fmt"
	"sync"
	"testing"

	"github.com/keep-network/keep-core/internal/verifkit"
	"github.com/keep-network/keep-core/pkg/chain"
	"pgregory.net/rapid"
)

func TestVerif_C22_ConcurrentWallets(t *testing.T) {
	st := verifkit.New("C22", "TestVerif_C22_ConcurrentWallets")
	defer st.Flush()
	rapid.Check(t, func(t *rapid.T) {
		nWallets := rapid.IntRange(2, 8).Draw(t, "wallets")
		rounds := rapid.IntRange(20, 120).Draw(t, "windows")
		base := rapid.Uint64().Draw(t, "seedBase")
		type job struct {
			ce   *coordinationExecutor
			view []chain.Address
		}
		jobs := make([]job, nWallets)
		for w := range jobs {
			ops := c22GenOperators(t)
			view := c22GenView(t, ops, fmt.Sprintf("view%d", w))
			jobs[w] = job{
				ce:   &coordinationExecutor{coordinatedWallet: wallet{publicKey: c22GenWalletKey(t), signingGroupOperators: append([]chain.Address{}, view...)}},
				view: view,
			}
		}
		seedFor := func(w, r int) [32]byte {
			var b [16]byte
			binary.BigEndian.PutUint64(b[:8], base+uint64(w)*7919)
			binary.BigEndian.PutUint64(b[8:], uint64(r))
			return sha256.Sum256(b[:])
		}
		type res struct {
			leader chain.Address
			list   string
		}
		got := make([][]res, nWallets)
		var start, wg sync.WaitGroup
		start.Add(1)
		for w := range jobs {
			got[w] = make([]res, rounds)
			wg.Add(1)
			go func(w int) {
				defer wg.Done()
				start.Wait()
				for r := 0; r < rounds; r++ {
					seed := seedFor(w, r)
					got[w][r] = res{jobs[w].ce.getLeader(seed), c22Actions(jobs[w].ce.getActionsChecklist(uint64(r+1), seed))}
				}
			}(w)
		}
		start.Done()
		wg.Wait()
		for w := range jobs {
			for r := 0; r < rounds; r++ {
				seed := seedFor(w, r)
				if want := c22ModelLeader(jobs[w].view, seed); got[w][r].leader != want {
					t.Fatalf("wallet %d window %d: leader %s computed while %d wallets were coordinated concurrently, the other members (sequential model) elect %s",
						w, r+1, got[w][r].leader, nWallets, want)
				}
				if want := c22Actions(c22ModelChecklist(uint64(r+1), seed)); got[w][r].list != want {
					t.Fatalf("wallet %d window %d: checklist %s computed concurrently, model %s", w, r+1, got[w][r].list, want)
				}
			}
		}
		st.Case(true, fmt.Sprintf("wallets=%d windows=%d base=%d", nWallets, rounds, base), fmt.Sprintf("wallets:%d", nWallets))
	})
}
