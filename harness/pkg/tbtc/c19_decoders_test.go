//go:build go1.23

package tbtc

import (
	"crypto/ecdsa"
	"fmt"
	"math/big"
	"testing"

	"github.com/keep-network/keep-core/internal/c19gen"
	"github.com/keep-network/keep-core/internal/c19wire"
	"github.com/keep-network/keep-core/pkg/bitcoin"
	"github.com/keep-network/keep-core/pkg/chain"
	"github.com/keep-network/keep-core/pkg/tecdsa"
	"pgregory.net/rapid"
)

// C19 - pkg/tbtc: the persisted wallet signer record and the tbtc network
// messages (signing done, coordination message and every proposal payload).

func c19GenFee(t *rapid.T, label string) *big.Int {
	if rapid.IntRange(0, 3).Draw(t, label+".kind") == 0 {
		return c19wire.GenBig(t, label)
	}
	return big.NewInt(int64(rapid.IntRange(0, 1_000_000).Draw(t, label)))
}

func c19GenSigner(t *rapid.T) c19wire.Msg {
	x, y := c19gen.GenSecpPoint(t, "walletKey")
	n := rapid.IntRange(0, 5).Draw(t, "operators")
	// nil and empty operator lists are the same record
	var ops []chain.Address
	for i := 0; i < n; i++ {
		ops = append(ops, chain.Address(c19wire.GenText(t, "operator")))
	}
	return &signer{
		wallet: wallet{
			publicKey:             &ecdsa.PublicKey{Curve: tecdsa.Curve, X: x, Y: y},
			signingGroupOperators: ops,
		},
		signingGroupMemberIndex: c19wire.GenIndex(t, "memberIndex"),
		privateKeyShare:         tecdsa.NewPrivateKeyShare(c19gen.GenSaveData(t)),
	}
}

func c19GenSignature(t *rapid.T) *tecdsa.Signature {
	return &tecdsa.Signature{
		R:          c19wire.GenBig(t, "r"),
		S:          c19wire.GenBig(t, "s"),
		RecoveryID: int8(rapid.IntRange(-128, 127).Draw(t, "recoveryID")),
	}
}

func c19GenSigningDone(t *rapid.T) c19wire.Msg {
	return &signingDoneMessage{
		senderID:      c19wire.GenIndex(t, "sender"),
		message:       c19wire.GenBig(t, "message"),
		attemptNumber: rapid.Uint64().Draw(t, "attempt"),
		signature:     c19GenSignature(t),
		endBlock:      rapid.Uint64().Draw(t, "endBlock"),
	}
}

func c19GenHeartbeat(t *rapid.T) c19wire.Msg {
	p := &HeartbeatProposal{}
	copy(p.Message[:], c19wire.GenFixed(t, "heartbeat", 16))
	return p
}

func c19GenDepositSweep(t *rapid.T) c19wire.Msg {
	p := &DepositSweepProposal{SweepTxFee: c19GenFee(t, "fee")}
	for i, n := 0, rapid.IntRange(0, 4).Draw(t, "deposits"); i < n; i++ {
		var h bitcoin.Hash
		copy(h[:], c19wire.GenFixed(t, "fundingTx", 32))
		p.DepositsKeys = append(p.DepositsKeys, struct {
			FundingTxHash      bitcoin.Hash
			FundingOutputIndex uint32
		}{h, rapid.Uint32().Draw(t, "outputIndex")})
	}
	// reveal blocks are host chain block numbers (documented domain: they fit
	// int64; the list length is independent of the deposit list in the type)
	for i, n := 0, rapid.IntRange(0, 4).Draw(t, "revealBlocks"); i < n; i++ {
		p.DepositsRevealBlocks = append(p.DepositsRevealBlocks,
			new(big.Int).SetUint64(rapid.Uint64Range(0, 1<<63-1).Draw(t, "revealBlock")))
	}
	return p
}

func c19GenRedemption(t *rapid.T) c19wire.Msg {
	p := &RedemptionProposal{RedemptionTxFee: c19GenFee(t, "fee")}
	for i, n := 0, rapid.IntRange(0, 4).Draw(t, "scripts"); i < n; i++ {
		p.RedeemersOutputScripts = append(p.RedeemersOutputScripts, bitcoin.Script(c19wire.GenPayload(t, "script")))
	}
	return p
}

func c19GenMovingFunds(t *rapid.T) c19wire.Msg {
	p := &MovingFundsProposal{MovingFundsTxFee: c19GenFee(t, "fee")}
	for i, n := 0, rapid.IntRange(0, 4).Draw(t, "targets"); i < n; i++ {
		var w [20]byte
		copy(w[:], c19wire.GenFixed(t, "target", 20))
		p.TargetWallets = append(p.TargetWallets, w)
	}
	return p
}

func c19GenMovedFundsSweep(t *rapid.T) c19wire.Msg {
	p := &MovedFundsSweepProposal{
		MovingFundsTxOutputIndex: rapid.Uint32().Draw(t, "outputIndex"),
		SweepTxFee:               c19GenFee(t, "fee"),
	}
	copy(p.MovingFundsTxHash[:], c19wire.GenFixed(t, "movingFundsTx", 32))
	return p
}

func c19GenCoordination(t *rapid.T) c19wire.Msg {
	gens := []func(*rapid.T) c19wire.Msg{
		func(*rapid.T) c19wire.Msg { return &NoopProposal{} },
		c19GenHeartbeat, c19GenDepositSweep, c19GenRedemption, c19GenMovingFunds, c19GenMovedFundsSweep,
	}
	m := &coordinationMessage{
		senderID:          c19wire.GenIndex(t, "sender"),
		coordinationBlock: rapid.Uint64().Draw(t, "block"),
		proposal:          gens[rapid.IntRange(0, len(gens)-1).Draw(t, "action")](t).(CoordinationProposal),
	}
	copy(m.walletPublicKeyHash[:], c19wire.GenFixed(t, "walletPKH", 20))
	return m
}

func c19Codecs() []c19wire.Codec {
	sender := []c19wire.Step{{Num: 1}}
	return []c19wire.Codec{
		{
			Name: "tbtc.signer", Storage: true,
			New: func() c19wire.Msg { return &signer{} },
			Gen: c19GenSigner,
			Touch: func(m c19wire.Msg) {
				s := m.(*signer)
				_ = s.String()
				_ = s.wallet.String()
				_ = s.privateKeyShare.PublicKey()
			},
			Valid: func(m c19wire.Msg) error {
				s := m.(*signer)
				k := s.wallet.publicKey
				if k == nil || k.X == nil || k.Y == nil || !tecdsa.Curve.IsOnCurve(k.X, k.Y) {
					return fmt.Errorf("wallet public key is not a point of the curve")
				}
				data := s.privateKeyShare.Data()
				if data.ECDSAPub == nil || !data.ECDSAPub.IsOnCurve() {
					return fmt.Errorf("group public key of the share is not a point of the curve")
				}
				for i, p := range data.BigXj {
					if p == nil || !p.IsOnCurve() {
						return fmt.Errorf("public share %d is not a point of the curve", i)
					}
				}
				return nil
			},
		},
		{
			Name: "tbtc.signingDoneMessage",
			New:  func() c19wire.Msg { return &signingDoneMessage{} },
			Gen:  c19GenSigningDone,
			Rules: []c19wire.Rule{
				{Name: "senderID", Kind: c19wire.MaxVarint, Path: sender, Max: 255},
				{Name: "signature.recoveryID", Kind: c19wire.Int32Range, Path: []c19wire.Step{{Num: 4, Blob: true}, {Num: 3}}, Min: -128, Maxi: 127},
			},
			SenderPath: sender,
			Sender:     func(m c19wire.Msg) uint64 { return uint64(m.(*signingDoneMessage).senderID) },
			Touch:      func(m c19wire.Msg) { _ = m.(*signingDoneMessage).Type() },
		},
		{
			Name: "tbtc.coordinationMessage",
			New:  func() c19wire.Msg { return &coordinationMessage{} },
			Gen:  c19GenCoordination,
			Rules: []c19wire.Rule{
				{Name: "senderID", Kind: c19wire.MaxVarint, Path: sender, Max: 255},
				{Name: "walletPublicKeyHash", Kind: c19wire.FixedLen, Path: []c19wire.Step{{Num: 3}}, Len: 20},
				{Name: "proposal.actionType", Kind: c19wire.MaxVarint, Path: []c19wire.Step{{Num: 4}, {Num: 1}}, Max: 5},
			},
			SenderPath: sender,
			Sender:     func(m c19wire.Msg) uint64 { return uint64(m.(*coordinationMessage).senderID) },
			Touch: func(m c19wire.Msg) {
				cm := m.(*coordinationMessage)
				_ = cm.Type()
				_ = cm.proposal.ActionType().String()
			},
		},
		{
			Name: "tbtc.NoopProposal",
			New:  func() c19wire.Msg { return &NoopProposal{} },
			Gen:  func(*rapid.T) c19wire.Msg { return &NoopProposal{} },
		},
		{
			Name:  "tbtc.HeartbeatProposal",
			New:   func() c19wire.Msg { return &HeartbeatProposal{} },
			Gen:   c19GenHeartbeat,
			Rules: []c19wire.Rule{{Name: "message", Kind: c19wire.FixedLen, Path: []c19wire.Step{{Num: 1}}, Len: 16}},
		},
		{
			Name: "tbtc.DepositSweepProposal",
			New:  func() c19wire.Msg { return &DepositSweepProposal{} },
			Gen:  c19GenDepositSweep,
			Rules: []c19wire.Rule{{Name: "depositKey.fundingTxHash", Kind: c19wire.FixedLen,
				Path: []c19wire.Step{{Num: 1, Rep: true}, {Num: 1}}, Len: 32}},
		},
		{
			Name: "tbtc.RedemptionProposal",
			New:  func() c19wire.Msg { return &RedemptionProposal{} },
			Gen:  c19GenRedemption,
		},
		{
			Name: "tbtc.MovingFundsProposal",
			New:  func() c19wire.Msg { return &MovingFundsProposal{} },
			Gen:  c19GenMovingFunds,
			Rules: []c19wire.Rule{{Name: "targetWallet", Kind: c19wire.FixedLen,
				Path: []c19wire.Step{{Num: 1, Rep: true}}, Len: 20}},
		},
		{
			Name:  "tbtc.MovedFundsSweepProposal",
			New:   func() c19wire.Msg { return &MovedFundsSweepProposal{} },
			Gen:   c19GenMovedFundsSweep,
			Rules: []c19wire.Rule{{Name: "movingFundsTxHash", Kind: c19wire.FixedLen, Path: []c19wire.Step{{Num: 1}}, Len: 32}},
		},
	}
}

func TestVerif_C19_TbtcRoundTrip(t *testing.T) {
	c19wire.RunRoundTrip(t, "TestVerif_C19_TbtcRoundTrip", c19Codecs())
}

func TestVerif_C19_TbtcHostile(t *testing.T) {
	c19wire.RunHostile(t, "TestVerif_C19_TbtcHostile", c19Codecs())
}

// c19Loaders: the wallet registry constructor (start-up) which loads every
// stored signer through walletStorage.loadSigners, the production caller of
// signer.Unmarshal.
func c19Loaders() []c19wire.Loader {
	codecs := c19Codecs()
	return []c19wire.Loader{{
		Name:   "tbtc.newWalletRegistry",
		Codecs: codecs, Record: 0, // tbtc.signer
		Load: func(h *c19wire.MemHandle) ([]string, error) {
			wr, err := newWalletRegistry(h, func(*ecdsa.PublicKey) ([32]byte, error) { return [32]byte{}, nil })
			if err != nil {
				return nil, err
			}
			var out []string
			for _, v := range wr.walletCache {
				for _, s := range v.signers {
					out = append(out, c19wire.Render(s))
				}
			}
			_ = wr.getWalletsPublicKeys()
			return out, nil
		},
		Expect: func(f c19wire.File) (string, bool) {
			v, ok := c19wire.Decode(&codecs[0], f.Content)
			if !ok {
				return "", false
			}
			return c19wire.Render(v), true
		},
	}}
}

func TestVerif_C19_TbtcLoaders(t *testing.T) {
	c19wire.RunLoaders(t, "TestVerif_C19_TbtcLoaders", c19Loaders())
}

func FuzzVerif_C19_Tbtc(f *testing.F) { c19wire.RunFuzz(f, c19Codecs()) }
