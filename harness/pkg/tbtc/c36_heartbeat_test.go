//go:build go1.23

package tbtc

import (
	"context"
	"crypto/ecdsa"
	"fmt"
	"math/big"
	"sort"
	"strings"
	"testing"

	golog "github.com/ipfs/go-log/v2"
	"github.com/keep-network/keep-core/internal/testutils"
	"github.com/keep-network/keep-core/internal/verifkit"
	"github.com/keep-network/keep-core/pkg/chain"
	"github.com/keep-network/keep-core/pkg/protocol/group"
	"github.com/keep-network/keep-core/pkg/tecdsa"
	"pgregory.net/rapid"
)

const (
	c36GroupSize      = 100
	c36RequiredActive = 70 // "fewer active members than required"
	c36RunLength      = 3  // "a run of at least three consecutive such outcomes"
)

// c36Signer plays the signing executor: fails, or returns the drawn activity
// report.
type c36Signer struct {
	fail     bool
	active   []group.MemberIndex
	inactive []group.MemberIndex
	calls    int
}

func (s *c36Signer) sign(ctx context.Context, message *big.Int, startBlock uint64) (*tecdsa.Signature, *signingActivityReport, uint64, error) {
	s.calls++
	if s.fail {
		return nil, nil, 0, fmt.Errorf("drawn signing failure")
	}
	return &tecdsa.Signature{R: big.NewInt(1), S: big.NewInt(2)}, &signingActivityReport{
		activeMembers:   append([]group.MemberIndex{}, s.active...),
		inactiveMembers: append([]group.MemberIndex{}, s.inactive...),
	}, startBlock + 1, nil
}

type c36Claim struct {
	members         []group.MemberIndex
	heartbeatFailed bool
}

// c36Claimer records every claimInactivity invocation.
type c36Claimer struct {
	fail   bool
	claims []c36Claim
}

func (c *c36Claimer) claimInactivity(ctx context.Context, inactive []group.MemberIndex, heartbeatFailed bool, sessionID *big.Int) error {
	c.claims = append(c.claims, c36Claim{append([]group.MemberIndex{}, inactive...), heartbeatFailed})
	if c.fail {
		return fmt.Errorf("drawn claim failure")
	}
	return nil
}

// c36Chain is the chain handle of the heartbeat action with fault injection on
// the two lookups isOperatorUnstaking() makes; everything else is the
// package's local chain.
type c36Chain struct {
	*localChain
	fault string // "", "provider-error", "not-registered", "stake-error"
}

func (c *c36Chain) OperatorToStakingProvider() (chain.Address, bool, error) {
	switch c.fault {
	case "provider-error":
		return "", false, fmt.Errorf("drawn staking provider lookup failure")
	case "not-registered":
		return "", false, nil
	}
	return c.localChain.OperatorToStakingProvider()
}

func (c *c36Chain) EligibleStake(stakingProvider chain.Address) (*big.Int, error) {
	if c.fault == "stake-error" {
		return nil, fmt.Errorf("drawn eligible stake lookup failure")
	}
	return c.localChain.EligibleStake(stakingProvider)
}

func c36SortedSet(m []group.MemberIndex) string {
	c := append([]group.MemberIndex{}, m...)
	sort.Slice(c, func(i, j int) bool { return c[i] < c[j] })
	return fmt.Sprint(c)
}

func TestVerif_C36_HeartbeatEscalation(t *testing.T) {
	_ = golog.SetLogLevel("*", "fatal")
	st := verifkit.New("C36", "TestVerif_C36_HeartbeatEscalation")
	defer st.Flush()
	hostChain := &c36Chain{localChain: Connect()}
	var serial uint64 // makes every proposal message unique on the shared chain
	strides := []int{1, 3, 7, 9, 11, 13, 17, 19, 21, 23, 27, 29, 31, 33, 37, 39, 41, 43, 47, 49}
	rapid.Check(t, func(t *rapid.T) {
		nWallets := rapid.IntRange(1, 3).Draw(t, "wallets")
		base := rapid.Int64Range(2, 1<<40).Draw(t, "walletBase")
		wallets := make([]wallet, nWallets)
		for i := range wallets {
			x, y := tecdsa.Curve.ScalarBaseMult(big.NewInt(base + int64(i)).Bytes())
			wallets[i] = wallet{publicKey: &ecdsa.PublicKey{Curve: tecdsa.Curve, X: x, Y: y}}
		}
		counter := newHeartbeatFailureCounter() // the node's counter, shared by all heartbeats

		// model: per wallet, the length of the current run of low-activity heartbeats
		run := make([]int, nWallets)
		// bookkeeping for the non-trivial rule
		interrupted := make([]bool, nWallets) // a non-counting outcome happened inside the current run
		interleaved := make([]bool, nWallets) // another wallet's heartbeat happened inside the current run
		nt := false
		claimsTotal, repeatClaims := 0, 0
		var history []string
		seen := map[string]bool{}

		steps := rapid.IntRange(1, 24).Draw(t, "steps")
		for s := 0; s < steps; s++ {
			wi := rapid.IntRange(0, nWallets-1).Draw(t, "wallet")
			outcome := rapid.SampledFrom([]string{"low", "low", "low", "low", "low", "low", "success", "sign-error", "unstaking", "invalid", "lookup-error", "lookup-error"}).Draw(t, "outcome")
			seen[outcome] = true

			serial++
			proposal := &HeartbeatProposal{}
			for b := 0; b < 8; b++ {
				proposal.Message[8+b] = byte(serial >> (8 * uint(7-b)))
			}
			proposal.Message[0] = 0xff
			hostChain.setHeartbeatProposalValidationResult(proposal, outcome != "invalid")
			// lookup-error: the staking state cannot be determined (one of the
			// two lookups fails) - with the operator really unstaking or not;
			// the signing, if it happened, would report low activity.
			hostChain.fault = ""
			reallyUnstaking := outcome == "unstaking"
			if outcome == "lookup-error" {
				hostChain.fault = rapid.SampledFrom([]string{"stake-error", "stake-error", "provider-error", "not-registered"}).Draw(t, "fault")
				reallyUnstaking = rapid.Bool().Draw(t, "reallyUnstaking")
			}
			if reallyUnstaking {
				hostChain.setOperatorsEligibleStake(big.NewInt(0))
			} else {
				hostChain.setOperatorsEligibleStake(big.NewInt(int64(rapid.IntRange(1, 1_000_000).Draw(t, "stake"))))
			}

			signer := &c36Signer{fail: outcome == "sign-error"}
			claimer := &c36Claimer{}
			desc := fmt.Sprintf("w%d:%s", wi, outcome)
			if outcome == "lookup-error" {
				desc += fmt.Sprintf("[%s,unstaking=%v]", hostChain.fault, reallyUnstaking)
			}
			if outcome == "low" || outcome == "success" || outcome == "lookup-error" {
				active := rapid.IntRange(c36RequiredActive, c36GroupSize).Draw(t, "activeCount")
				if outcome != "success" {
					// biased to the boundary: 69 active is still a failure
					active = rapid.SampledFrom([]int{0, 1, 35, 51, 60, 68, 69, 69, 69}).Draw(t, "lowActiveCount")
				} else if rapid.Bool().Draw(t, "exactlyRequired") {
					active = c36RequiredActive
				}
				offset := rapid.IntRange(0, c36GroupSize-1).Draw(t, "offset")
				stride := rapid.SampledFrom(strides).Draw(t, "stride")
				for i := 0; i < c36GroupSize; i++ {
					m := group.MemberIndex((offset+i*stride)%c36GroupSize + 1)
					if i < active {
						signer.active = append(signer.active, m)
					} else {
						signer.inactive = append(signer.inactive, m)
					}
				}
				claimer.fail = outcome != "success" && rapid.IntRange(0, 3).Draw(t, "claimFails") == 3
				desc += fmt.Sprintf("(%d@%d/%d%s)", active, offset, stride, map[bool]string{true: ",claim-err", false: ""}[claimer.fail])
			}
			history = append(history, desc)

			startBlock := uint64(rapid.IntRange(1, 1_000_000).Draw(t, "startBlock"))
			action := newHeartbeatAction(
				&testutils.MockLogger{}, hostChain, wallets[wi], signer, proposal, counter, claimer,
				startBlock, startBlock+heartbeatTotalProposalValidityBlocks,
				func(ctx context.Context, blockHeight uint64) error { return nil },
			)
			err := action.execute()

			// model
			expectClaim := false
			switch outcome {
			case "low":
				run[wi]++
				expectClaim = run[wi] >= c36RunLength
			case "success":
				run[wi] = 0
				interrupted[wi], interleaved[wi] = false, false
			default:
				if run[wi] > 0 {
					interrupted[wi] = true
				}
			}
			for other := range run {
				if other != wi && run[other] > 0 {
					interleaved[other] = true
				}
			}

			where := fmt.Sprintf("step %d (%s) of %s", s, desc, strings.Join(history, " "))
			if len(claimer.claims) > 1 {
				t.Fatalf("%d inactivity claims by one heartbeat; %s", len(claimer.claims), where)
			}
			if expectClaim && len(claimer.claims) == 0 {
				t.Fatalf("low-activity heartbeat number %d in a row made no inactivity claim (err=%v); %s", run[wi], err, where)
			}
			if !expectClaim && len(claimer.claims) == 1 {
				t.Fatalf("inactivity claimed although the run of low-activity heartbeats of wallet %d has length %d (outcome %s); %s", wi, run[wi], outcome, where)
			}
			if outcome == "lookup-error" {
				// the staking state is unknown: the heartbeat must not go on
				// (documented contract of execute: "failed to check if the
				// operator is unstaking"), in particular it must not sign
				if signer.calls != 0 {
					t.Fatalf("heartbeat signed although the staking state could not be determined (%s, really unstaking: %v); %s", hostChain.fault, reallyUnstaking, where)
				}
				if err == nil {
					t.Fatalf("heartbeat returned no error although the staking state could not be determined (%s); %s", hostChain.fault, where)
				}
			}
			if expectClaim {
				c := claimer.claims[0]
				if !c.heartbeatFailed {
					t.Fatalf("inactivity claim not marked as heartbeat failure; %s", where)
				}
				if got, want := c36SortedSet(c.members), c36SortedSet(signer.inactive); got != want {
					t.Fatalf("claim names %s, the members that did not announce readiness are %s; %s", got, want, where)
				}
				claimsTotal++
				if run[wi] > c36RunLength {
					repeatClaims++
				}
				if interrupted[wi] || interleaved[wi] {
					nt = true
				}
			}
		}
		labels := []string{fmt.Sprintf("wallets:%d", nWallets), fmt.Sprintf("claims:%d", min(claimsTotal, 4)), fmt.Sprintf("repeat-claims:%v", repeatClaims > 0)}
		for k := range seen {
			labels = append(labels, "outcome:"+k)
		}
		sort.Strings(labels)
		st.Case(nt, strings.Join(history, " "), labels...)
	})
}
