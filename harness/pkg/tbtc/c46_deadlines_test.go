//go:build go1.23

package tbtc

import (
	"context"
	"crypto/ecdsa"
	"crypto/sha256"
	"encoding/binary"
	"encoding/hex"
	"fmt"
	"math/big"
	"runtime"
	"strings"
	"sync"
	"testing"
	"time"

	"github.com/btcsuite/btcd/btcec"
	"github.com/btcsuite/btcutil"
	golog "github.com/ipfs/go-log/v2"
	"github.com/keep-network/keep-core/internal/verifkit"
	"github.com/keep-network/keep-core/pkg/bitcoin"
	"github.com/keep-network/keep-core/pkg/chain"
	"github.com/keep-network/keep-core/pkg/generator"
	"github.com/keep-network/keep-core/pkg/protocol/group"
	"github.com/keep-network/keep-core/pkg/tecdsa"
	"pgregory.net/rapid"
)

// Documented numbers (doc comments of the timing constants); the harness
// states them on its own so that a changed constant shows up as a violation.
const (
	// "safety margin that must be preserved between the signing timeout and
	// the timeout of the entire ... action ... The value of 300 blocks"
	c46DocumentedSigningMargin = 300
	// heartbeat: "duration that needs to be preserved for the optional
	// notification about operator inactivity that follows a failed
	// heartbeat signing" (300) and "safety margin ... between the timeout of
	// operator inactivity notification and the timeout of the entire
	// heartbeat action ... 25 blocks"
	c46DocumentedClaimValidity = 300
	c46DocumentedClaimMargin   = 25
	// "assuming 12 seconds per block"
	c46NominalBlockTime = 12 * time.Second

	c46Patience = 60 * time.Second
)

// Documented proposal validity per action type (doc comments of the
// *ProposalValidityBlocks constants: "the worst-case time ... during which the
// wallet is busy and cannot take another actions"), counted from the action
// start. Stated here independently of the code: the expiry the production code
// derives for an action is judged against this table.
var c46DocumentedValidity = map[WalletActionType]uint64{
	ActionHeartbeat:       600,  // "The value of 600 blocks is roughly 2 hours"
	ActionDepositSweep:    1200, // "The value of 1200 blocks is roughly 4 hours"
	ActionRedemption:      600,  // "The value of 600 blocks is roughly 2 hours"
	ActionMovingFunds:     650,  // "The value of 650 blocks is roughly 2 hours and 10 minutes"
	ActionMovedFundsSweep: 600,  // "The value of 600 blocks is roughly 2 hours"
}

var c46Actions = []WalletActionType{ActionHeartbeat, ActionDepositSweep, ActionRedemption, ActionMovingFunds, ActionMovedFundsSweep}

// --- logical block clock and observation of the blocks the real code waits for ---
//
// Every wait of the real code goes through the stubs below. Timers (context
// deadlines registered through withCancelOnBlock) are passive; the retry
// loop's attempt-level waits drive the logical clock: an attempt wait for
// block b either elapses (clock = b, the attempt is made to fail so the loop
// moves on) or - when a registered deadline is due first - the clock stops at
// that deadline, the timer fires and the simulation waits for its EFFECT (the
// cancellation of the context it guards) before going on. All verdicts are
// read from this logical clock; wall-clock patience only guards the hand-over
// between goroutines and maps to INCONCLUSIVE.

type c46Timer struct {
	block uint64
	kind  string // "action" (deadline of the action's signing / claim context) or "loop"
	fire  chan struct{}
	fired bool
}

type c46SignCall struct {
	start       uint64
	loopTimeout uint64
	hasLoop     bool
	waits       []uint64 // attempt-level waits that elapsed
	returnedAt  uint64   // logical clock when sign() returned
}

type c46Obs struct {
	mu         sync.Mutex
	clock      uint64
	signingCtx context.Context
	signStart  uint64
	signCalls  int
	calls      []*c46SignCall
	timers     []*c46Timer
	loopRegs   int
	actionCh   chan uint64 // blocks requested through the ACTION's waitForBlockFn
	release    chan struct{}
	relOnce    sync.Once
	active     c46Active
	confirm    []uint64 // heights waited for through the chain's block counter
	timedOut   bool
	overrun    string // logical-clock evidence: retry loop alive after the signing deadline
	current    uint64
	// fault plan: which action-level block waits (0 = first = signing
	// deadline, 1 = second = claim deadline) fail when the deadline is armed
	failActionWait  map[int]bool
	actionWaitCalls int
	lastWaitFailed  bool
	unarmed         string // evidence: a context left without any deadline
	// glue mode (processCoordinationResult): plain recording
	glueDeadlines []uint64
	glueWaiters   []chan uint64
	glueExecWaits []uint64
}

var errC46BlockWait = fmt.Errorf("c46: injected fault: cannot get block counter / block height waiter")

// number of goroutines that are inside withCancelOnBlock's helper goroutine
// but NOT blocked in one of the harness' stubs, i.e. that still have to act
// on the outcome of their block wait (or have not started yet).
func c46ArmingGoroutines() int {
	buf := make([]byte, 1<<18)
	for {
		n := runtime.Stack(buf, true)
		if n < len(buf) {
			buf = buf[:n]
			break
		}
		buf = make([]byte, 2*len(buf))
	}
	count := 0
	for _, g := range strings.Split(string(buf), "\n\n") {
		if !strings.Contains(g, "withCancelOnBlock.func1") {
			continue
		}
		// parked in the select of a harness stub = waiting for its block. A
		// goroutine that is inside a stub but not parked there (the stub is
		// about to return, e.g. with the injected error) still has to act.
		header := g
		if i := strings.Index(g, "\n"); i >= 0 {
			header = g[:i]
		}
		inStub := strings.Contains(g, "(*c46Obs).") || strings.Contains(g, "(*c46Counter).")
		if inStub && strings.Contains(header, "[select") {
			continue
		}
		count++
	}
	return count
}

// checkArmed: called by the executor stand-ins right after they learnt the
// deadline block of the context they were handed. If arming that deadline
// failed (injected fault) the context must nevertheless be bounded: already
// cancelled, or guarded by a deadline that was armed on a retry. The check
// first waits until every arming goroutine has finished acting on the outcome
// of its wait (an event that always arrives), so absence of a cancellation is
// not a matter of timing.
func (o *c46Obs) checkArmed(ctx context.Context, deadline uint64, what string) {
	o.mu.Lock()
	failed := o.lastWaitFailed
	o.mu.Unlock()
	if !failed {
		return
	}
	if !verifkit.Eventually(c46Patience, func() bool { return c46ArmingGoroutines() == 0 }) {
		o.noteTimeout()
		return
	}
	if ctx.Err() != nil {
		return
	}
	o.mu.Lock()
	defer o.mu.Unlock()
	for _, tm := range o.timers {
		if tm.kind == "action" && !tm.fired && tm.block <= deadline {
			return
		}
	}
	if o.unarmed == "" {
		o.unarmed = fmt.Sprintf("the block wait arming the %s deadline (block %d) failed and the context was left alive without any deadline", what, deadline)
	}
}

var errC46AttemptFailed = fmt.Errorf("c46: attempt made to fail by the harness")

// marker value put on the context handed to the real sign()/signBatch():
// contexts derived from it carry the value, contexts built from
// context.Background() do not.
type c46MarkKey struct{}

func c46NewObs(current uint64) *c46Obs {
	return &c46Obs{actionCh: make(chan uint64, 8), release: make(chan struct{}), current: current, clock: current}
}

func (o *c46Obs) releaseAll() { o.relOnce.Do(func() { close(o.release) }) }

func (o *c46Obs) noteTimeout() {
	o.mu.Lock()
	o.timedOut = true
	o.mu.Unlock()
}

func (o *c46Obs) addTimer(b uint64, kind string) *c46Timer {
	tm := &c46Timer{block: b, kind: kind, fire: make(chan struct{})}
	o.mu.Lock()
	o.timers = append(o.timers, tm)
	if kind == "loop" {
		o.loopRegs++
		if n := len(o.calls); n > 0 && !o.calls[n-1].hasLoop {
			o.calls[n-1].hasLoop, o.calls[n-1].loopTimeout = true, b
		}
	}
	o.mu.Unlock()
	return tm
}

// waitForBlockFn handed to the action constructors.
func (o *c46Obs) actionWait(ctx context.Context, b uint64) error {
	o.active.Add(1)
	defer o.active.Done()
	o.mu.Lock()
	n := o.actionWaitCalls
	o.actionWaitCalls++
	fail := o.failActionWait[n]
	o.lastWaitFailed = fail
	o.mu.Unlock()
	if fail {
		// like node.waitForBlockHeight when chain.BlockCounter() or
		// BlockHeightWaiter() fails: an error, at once
		o.actionCh <- b
		return errC46BlockWait
	}
	tm := o.addTimer(b, "action")
	o.actionCh <- b
	select {
	case <-tm.fire:
	case <-o.release:
	case <-ctx.Done():
	}
	return nil
}

// waitForBlockFn handed to the real signing executor.
func (o *c46Obs) execWait(ctx context.Context, b uint64) error {
	o.active.Add(1)
	defer o.active.Done()
	o.mu.Lock()
	parent := o.signingCtx
	o.mu.Unlock()
	if ctx == parent || ctx.Done() == nil {
		// a deadline registration (withCancelOnBlock calls the function with
		// the context it DERIVES from): the loop timeout of sign()
		tm := o.addTimer(b, "loop")
		select {
		case <-tm.fire:
		case <-o.release:
		case <-ctx.Done():
		}
		return nil
	}
	return o.attemptWait(ctx, parent, b)
}

func (o *c46Obs) nextTimer() *c46Timer {
	o.mu.Lock()
	defer o.mu.Unlock()
	var best *c46Timer
	for _, tm := range o.timers {
		if !tm.fired && (best == nil || tm.block < best.block) {
			best = tm
		}
	}
	return best
}

func (o *c46Obs) giveUp(ctx context.Context) error {
	o.noteTimeout()
	o.releaseAll()
	select {
	case <-ctx.Done():
	case <-time.After(c46Patience):
	}
	return errC46AttemptFailed
}

// attempt-level wait of the real retry loop (ctx is the loop context).
func (o *c46Obs) attemptWait(ctx context.Context, parent context.Context, b uint64) error {
	// the loop timeout of the running sign() call is registered by a
	// goroutine started before the loop: wait for it so that the set of
	// deadlines is complete
	if !verifkit.Eventually(c46Patience, func() bool {
		o.mu.Lock()
		defer o.mu.Unlock()
		return o.loopRegs >= o.signCalls
	}) {
		return o.giveUp(ctx)
	}
	for {
		if ctx.Err() != nil {
			return ctx.Err()
		}
		tm := o.nextTimer()
		if tm == nil || b < tm.block {
			o.mu.Lock()
			if b > o.clock {
				o.clock = b
			}
			if n := len(o.calls); n > 0 {
				o.calls[n-1].waits = append(o.calls[n-1].waits, b)
			}
			o.mu.Unlock()
			return errC46AttemptFailed
		}
		// a deadline is due no later than the awaited block
		o.mu.Lock()
		if tm.block > o.clock {
			o.clock = tm.block
		}
		tm.fired = true
		o.mu.Unlock()
		close(tm.fire)
		effect := ctx.Done()
		if tm.kind == "action" {
			effect = parent.Done()
		}
		select {
		case <-effect:
		case <-time.After(c46Patience):
			return o.giveUp(ctx)
		}
		if ctx.Err() != nil {
			return ctx.Err()
		}
		if tm.kind == "action" && ctx.Value(c46MarkKey{}) == o {
			// the loop context descends from the context handed down by the
			// action (it carries the harness' marker value): the
			// cancellation is on its way (a parent's Done channel closes
			// just before its children are cancelled)
			select {
			case <-ctx.Done():
				return ctx.Err()
			case <-time.After(c46Patience):
				return o.giveUp(ctx)
			}
		}
		if tm.kind == "action" {
			// logical-clock evidence: the deadline block has been reached,
			// the context the action handed down IS cancelled, the loop
			// context does not descend from it, and the retry loop is still
			// alive and asking for a later block
			o.mu.Lock()
			if o.overrun == "" {
				o.overrun = fmt.Sprintf("signing deadline block %d reached and the signing context cancelled, but the retry loop keeps running and waits for block %d", tm.block, b)
			}
			o.mu.Unlock()
		}
	}
}

func (o *c46Obs) currentBlock() (uint64, error) {
	o.mu.Lock()
	defer o.mu.Unlock()
	return o.clock, nil
}

func (o *c46Obs) recv(ch chan uint64) (uint64, bool) {
	select {
	case v := <-ch:
		return v, true
	case <-time.After(c46Patience):
		o.noteTimeout()
		return 0, false
	}
}

func (o *c46Obs) setSigning(ctx context.Context, start uint64) {
	o.mu.Lock()
	o.signingCtx = ctx
	if o.signCalls == 0 {
		o.signStart = start
	}
	o.signCalls++
	o.calls = append(o.calls, &c46SignCall{start: start})
	o.mu.Unlock()
}

func (o *c46Obs) signReturned() {
	o.mu.Lock()
	if n := len(o.calls); n > 0 {
		o.calls[n-1].returnedAt = o.clock
	}
	o.mu.Unlock()
}

// c46Active counts the stub invocations in progress. Not a sync.WaitGroup:
// production goroutines may enter a stub while join is already waiting at
// zero, which a WaitGroup answers with a panic ("reused before previous Wait
// has returned").
type c46Active struct {
	mu sync.Mutex
	n  int
}

func (a *c46Active) Add(d int) { a.mu.Lock(); a.n += d; a.mu.Unlock() }
func (a *c46Active) Done()     { a.Add(-1) }
func (a *c46Active) idle() bool {
	a.mu.Lock()
	defer a.mu.Unlock()
	return a.n == 0
}

// join waits until every stub invocation has returned.
func (o *c46Obs) join() bool {
	o.releaseAll()
	return verifkit.Eventually(c46Patience, o.active.idle)
}

// block counter of the host chain stub (moving funds commitment wait)
type c46Counter struct{ o *c46Obs }

func (c *c46Counter) WaitForBlockHeight(h uint64) error {
	c.o.mu.Lock()
	c.o.confirm = append(c.o.confirm, h)
	c.o.mu.Unlock()
	return nil
}
func (c *c46Counter) BlockHeightWaiter(h uint64) (<-chan uint64, error) {
	// used by node.waitForBlockHeight (glue mode): recorded, fired by the harness
	ch := make(chan uint64, 1)
	c.o.mu.Lock()
	c.o.glueDeadlines = append(c.o.glueDeadlines, h)
	c.o.glueWaiters = append(c.o.glueWaiters, ch)
	c.o.mu.Unlock()
	return ch, nil
}
func (c *c46Counter) CurrentBlock() (uint64, error)             { return c.o.current, nil }
func (c *c46Counter) WatchBlocks(context.Context) <-chan uint64 { return make(chan uint64) }

// --- executors ---------------------------------------------------------------

// wrapper around the REAL signing executor: records the start block and the
// context the action passes, takes the action-level deadline first (so the
// order of observations is forced) and delegates. For batches (transaction
// actions) it then makes the call signBatch makes for a LATER message of the
// batch - same context, later start block - so that the deadline handed
// down by the action arrives while a retry loop is in progress.
type c46Exec struct {
	real      *signingExecutor
	o         *c46Obs
	timeout   uint64
	gotDL     bool
	lateClass string
	lateRaw   uint64
	lateStart uint64
	lateRun   bool
}

func (e *c46Exec) signBatch(ctx context.Context, messages []*big.Int, startBlock uint64) ([]*tecdsa.Signature, error) {
	e.timeout, e.gotDL = e.o.recv(e.o.actionCh)
	e.o.checkArmed(ctx, e.timeout, "signing")
	ctx = context.WithValue(ctx, c46MarkKey{}, e.o)
	e.o.setSigning(ctx, startBlock)
	sigs, err := e.real.signBatch(ctx, messages, startBlock)
	e.o.signReturned()
	if err == nil || !e.gotDL || e.lateClass == "" {
		return sigs, err
	}
	// later message of the batch
	clock, _ := e.o.currentBlock()
	earliest := clock + signingBatchInterludeBlocks
	switch {
	case e.lateClass == "at-or-after" || earliest >= e.timeout:
		e.lateStart = e.timeout + e.lateRaw%10
	case e.lateClass == "binding":
		back := 1 + e.lateRaw%min(204, e.timeout-earliest)
		e.lateStart = e.timeout - back
	default:
		e.lateStart = earliest + e.lateRaw%(e.timeout-earliest)
	}
	e.lateRun = true
	e.o.setSigning(ctx, e.lateStart)
	_, _, _, _ = e.real.sign(ctx, messages[len(messages)-1], e.lateStart)
	e.o.signReturned()
	return sigs, err
}

func (e *c46Exec) sign(ctx context.Context, message *big.Int, startBlock uint64) (*tecdsa.Signature, *signingActivityReport, uint64, error) {
	e.timeout, e.gotDL = e.o.recv(e.o.actionCh)
	e.o.checkArmed(ctx, e.timeout, "signing")
	ctx = context.WithValue(ctx, c46MarkKey{}, e.o)
	e.o.setSigning(ctx, startBlock)
	sig, report, end, err := e.real.sign(ctx, message, startBlock)
	e.o.signReturned()
	return sig, report, end, err
}

// stub heartbeat executor: a signature with too few active members.
type c46LowActivityExec struct {
	o       *c46Obs
	active  int
	total   int
	timeout uint64
	gotDL   bool
}

func (e *c46LowActivityExec) sign(ctx context.Context, message *big.Int, startBlock uint64) (*tecdsa.Signature, *signingActivityReport, uint64, error) {
	e.timeout, e.gotDL = e.o.recv(e.o.actionCh)
	e.o.checkArmed(ctx, e.timeout, "heartbeat signing")
	e.o.setSigning(ctx, startBlock)
	report := &signingActivityReport{}
	for i := 1; i <= e.total; i++ {
		if i <= e.active {
			report.activeMembers = append(report.activeMembers, group.MemberIndex(i))
		} else {
			report.inactiveMembers = append(report.inactiveMembers, group.MemberIndex(i))
		}
	}
	return &tecdsa.Signature{R: big.NewInt(1), S: big.NewInt(1)}, report, startBlock + 20, nil
}

type c46ClaimExec struct {
	o       *c46Obs
	calls   int
	timeout uint64
	gotDL   bool
}

func (e *c46ClaimExec) claimInactivity(ctx context.Context, inactive []group.MemberIndex, heartbeatFailed bool, sessionID *big.Int) error {
	e.calls++
	e.timeout, e.gotDL = e.o.recv(e.o.actionCh)
	e.o.checkArmed(ctx, e.timeout, "inactivity claim")
	return nil
}

// --- minimal world that lets every action reach its signing step ------------------

type c46Host struct {
	Chain
	o          *c46Obs
	pkh        [20]byte
	mainHash   [32]byte
	deposit    *Deposit
	revealedAt uint64
	request    *RedemptionRequest
}

func c46UtxoHash(u *bitcoin.UnspentTransactionOutput) [32]byte {
	buf := append([]byte("c46"), u.Outpoint.TransactionHash[:]...)
	buf = binary.LittleEndian.AppendUint32(buf, u.Outpoint.OutputIndex)
	buf = binary.LittleEndian.AppendUint64(buf, uint64(u.Value))
	return sha256.Sum256(buf)
}

func (h *c46Host) BlockCounter() (chain.BlockCounter, error) { return &c46Counter{h.o}, nil }
func (h *c46Host) OperatorToStakingProvider() (chain.Address, bool, error) {
	return chain.Address("0xc46"), true, nil
}
func (h *c46Host) EligibleStake(chain.Address) (*big.Int, error)                { return big.NewInt(40_000), nil }
func (h *c46Host) ValidateHeartbeatProposal([20]byte, *HeartbeatProposal) error { return nil }
func (h *c46Host) GetWallet([20]byte) (*WalletChainData, error) {
	return &WalletChainData{MainUtxoHash: h.mainHash, State: StateMovingFunds, MovingFundsTargetWalletsCommitmentHash: [32]byte{1}}, nil
}
func (h *c46Host) ComputeMainUtxoHash(u *bitcoin.UnspentTransactionOutput) [32]byte {
	return c46UtxoHash(u)
}
func (h *c46Host) PastDepositRevealedEvents(f *DepositRevealedEventFilter) ([]*DepositRevealedEvent, error) {
	d := h.deposit
	return []*DepositRevealedEvent{{
		FundingTxHash: d.Utxo.Outpoint.TransactionHash, FundingOutputIndex: d.Utxo.Outpoint.OutputIndex,
		Depositor: d.Depositor, Amount: uint64(d.Utxo.Value), BlindingFactor: d.BlindingFactor,
		WalletPublicKeyHash: d.WalletPublicKeyHash, RefundPublicKeyHash: d.RefundPublicKeyHash,
		RefundLocktime: d.RefundLocktime, BlockNumber: h.revealedAt,
	}}, nil
}
func (h *c46Host) GetDepositRequest(bitcoin.Hash, uint32) (*DepositChainRequest, bool, error) {
	return &DepositChainRequest{Depositor: h.deposit.Depositor, Amount: uint64(h.deposit.Utxo.Value)}, true, nil
}
func (h *c46Host) ValidateDepositSweepProposal([20]byte, *DepositSweepProposal, []struct {
	*Deposit
	FundingTx *bitcoin.Transaction
}) error {
	return nil
}
func (h *c46Host) GetMovedFundsSweepRequest(bitcoin.Hash, uint32) (*MovedFundsSweepRequest, bool, error) {
	return nil, false, nil
}
func (h *c46Host) ValidateRedemptionProposal([20]byte, *RedemptionProposal) error { return nil }
func (h *c46Host) GetPendingRedemptionRequest([20]byte, bitcoin.Script) (*RedemptionRequest, bool, error) {
	return h.request, true, nil
}
func (h *c46Host) GetMovingFundsParameters() (uint64, uint64, uint32, uint32, *big.Int, uint32, uint16, uint64, uint32, *big.Int, uint32, error) {
	return 0, 0, 0, 604800, big.NewInt(0), 0, 0, 0, 0, big.NewInt(0), 0, nil
}
func (h *c46Host) PastMovingFundsCommitmentSubmittedEvents(*MovingFundsCommitmentSubmittedEventFilter) ([]*MovingFundsCommitmentSubmittedEvent, error) {
	return nil, nil
}
func (h *c46Host) ValidateMovingFundsProposal([20]byte, *bitcoin.UnspentTransactionOutput, *MovingFundsProposal) error {
	return nil
}
func (h *c46Host) ValidateMovedFundsSweepProposal([20]byte, *MovedFundsSweepProposal) error {
	return nil
}

type c46Btc struct {
	bitcoin.Chain
	txs     map[bitcoin.Hash]*bitcoin.Transaction
	history []bitcoin.Hash
	utxos   []*bitcoin.UnspentTransactionOutput
}

func (b *c46Btc) GetTransaction(h bitcoin.Hash) (*bitcoin.Transaction, error) {
	if tx, ok := b.txs[h]; ok {
		return tx, nil
	}
	return nil, fmt.Errorf("c46: transaction not found")
}
func (b *c46Btc) GetTransactionConfirmations(bitcoin.Hash) (uint, error) { return 12, nil }
func (b *c46Btc) GetTxHashesForPublicKeyHash([20]byte) ([]bitcoin.Hash, error) {
	return b.history, nil
}
func (b *c46Btc) GetUtxosForPublicKeyHash([20]byte) ([]*bitcoin.UnspentTransactionOutput, error) {
	return b.utxos, nil
}
func (b *c46Btc) GetMempoolUtxosForPublicKeyHash([20]byte) ([]*bitcoin.UnspentTransactionOutput, error) {
	return nil, nil
}

func (b *c46Btc) fund(script []byte, value int64, n uint32) *bitcoin.UnspentTransactionOutput {
	var prev bitcoin.Hash
	binary.LittleEndian.PutUint32(prev[:], n)
	prev[31] = 0x46
	tx := &bitcoin.Transaction{
		Version: 1,
		Inputs: []*bitcoin.TransactionInput{{
			Outpoint: &bitcoin.TransactionOutpoint{TransactionHash: prev, OutputIndex: n}, Sequence: 0xffffffff,
		}},
		Outputs: []*bitcoin.TransactionOutput{{Value: value, PublicKeyScript: script}},
	}
	h := tx.Hash()
	b.txs[h] = tx
	return &bitcoin.UnspentTransactionOutput{Outpoint: &bitcoin.TransactionOutpoint{TransactionHash: h, OutputIndex: 0}, Value: value}
}

type c46Run struct {
	action      WalletActionType
	start       uint64
	expiry      uint64
	signStart   uint64
	signTimeout uint64
	loopEnd     uint64
	firstWait   uint64
	confirm     []uint64
	broadcast   time.Duration
	err         error
	// later message of the batch (transaction actions)
	late       *c46SignCall
	lateClass  string
	overrun    string
	clockAtEnd uint64
	faulted    bool
	unarmed    string
	calls      []*c46SignCall
}

var c46Key = func() *btcec.PrivateKey {
	k, _ := btcec.PrivKeyFromBytes(btcec.S256(), []byte{0x46, 0x01, 0x02, 0x03, 0x04, 0x05, 0x06, 0x07, 0x08, 0x09, 0x0a, 0x0b, 0x0c, 0x0d, 0x0e, 0x0f, 0x10, 0x11, 0x12, 0x13, 0x14, 0x15, 0x16, 0x17, 0x18, 0x19, 0x1a, 0x1b, 0x1c, 0x1d, 0x1e, 0x1f})
	return k
}()

type c46Scenario struct {
	o        *c46Obs
	w        wallet
	pkh      [20]byte
	host     *c46Host
	btc      *c46Btc
	real     *signingExecutor
	proposal CoordinationProposal
}

// c46NewScenario: minimal world in which execute() of the given action type
// reaches its signing step, the proposal, and the REAL signing executor with
// the given block functions.
func c46NewScenario(t *rapid.T, action WalletActionType, o *c46Obs, waitFn waitForBlockFn) *c46Scenario {
	sc := &c46Scenario{o: o}
	pub := (*ecdsa.PublicKey)(&c46Key.PublicKey)
	copy(sc.pkh[:], btcutil.Hash160(c46Key.PubKey().SerializeCompressed()))
	pkh := sc.pkh
	sc.w = wallet{publicKey: pub, signingGroupOperators: []chain.Address{"0xa", "0xb", "0xc"}}
	walletScript := append([]byte{0x00, 0x14}, pkh[:]...)
	sc.real = newSigningExecutor(
		[]*signer{{wallet: sc.w, signingGroupMemberIndex: 1}},
		nil, nil,
		&GroupParameters{GroupSize: 3, GroupQuorum: 2, HonestThreshold: 2},
		generator.NewProtocolLatch(),
		o.currentBlock, waitFn,
		signingAttemptsLimit,
	)
	btc := &c46Btc{txs: map[bitcoin.Hash]*bitcoin.Transaction{}}
	host := &c46Host{o: o, pkh: pkh}
	sc.btc, sc.host = btc, host
	registerMain := func() {
		main := btc.fund(walletScript, 50_000_000, 1)
		btc.history = []bitcoin.Hash{main.Outpoint.TransactionHash}
		btc.utxos = []*bitcoin.UnspentTransactionOutput{main}
		host.mainHash = c46UtxoHash(main)
	}
	switch action {
	case ActionHeartbeat:
		sc.proposal = &HeartbeatProposal{Message: [16]byte{0xff, 0xff, 0xff, 0xff, 0xff, 0xff, 0xff, 0xff, 1}}
	case ActionDepositSweep:
		d := &Deposit{Depositor: chain.Address("0x" + hex.EncodeToString(pkh[:])), WalletPublicKeyHash: pkh, RefundPublicKeyHash: [20]byte{9}, RefundLocktime: [4]byte{0, 0xf1, 0x53, 0x65}}
		script, err := d.Script()
		if err != nil {
			t.Fatalf("deposit script: %v", err)
		}
		sh := sha256.Sum256(script)
		d.Utxo = btc.fund(append([]byte{0x00, 0x20}, sh[:]...), 1_000_000, 2)
		host.deposit, host.revealedAt = d, 77
		p := &DepositSweepProposal{SweepTxFee: big.NewInt(1000), DepositsRevealBlocks: []*big.Int{big.NewInt(77)}}
		p.DepositsKeys = append(p.DepositsKeys, struct {
			FundingTxHash      bitcoin.Hash
			FundingOutputIndex uint32
		}{d.Utxo.Outpoint.TransactionHash, 0})
		sc.proposal = p
	case ActionRedemption:
		registerMain()
		script := append([]byte{0x00, 0x14}, make([]byte, 20)...)
		host.request = &RedemptionRequest{RedeemerOutputScript: script, RequestedAmount: 1_000_000, TreasuryFee: 500, TxMaxFee: 10_000}
		sc.proposal = &RedemptionProposal{RedeemersOutputScripts: []bitcoin.Script{script}, RedemptionTxFee: big.NewInt(900)}
	case ActionMovingFunds:
		registerMain()
		sc.proposal = &MovingFundsProposal{TargetWallets: [][20]byte{{1}, {2}}, MovingFundsTxFee: big.NewInt(700)}
	case ActionMovedFundsSweep:
		registerMain()
		moved := btc.fund(walletScript, 7_000_000, 3)
		sc.proposal = &MovedFundsSweepProposal{MovingFundsTxHash: moved.Outpoint.TransactionHash, MovingFundsTxOutputIndex: 0, SweepTxFee: big.NewInt(600)}
	}
	if sc.proposal.ActionType() != action {
		t.Fatalf("proposal of type %v for %v", sc.proposal.ActionType(), action)
	}
	return sc
}

// c46Drive builds the action with the real constructor, plugs the REAL signing
// executor (with observing block functions) in and runs execute() until the
// signing phase gives up. failArming: the block wait that arms the action's
// signing deadline fails.
func c46Drive(t *rapid.T, action WalletActionType, start uint64, lateClass string, lateRaw uint64, failArming bool) (*c46Run, bool) {
	o := c46NewObs(start)
	if failArming {
		o.failActionWait = map[int]bool{0: true}
	}
	sc := c46NewScenario(t, action, o, o.execWait)
	exec := &c46Exec{real: sc.real, o: o, lateClass: lateClass, lateRaw: lateRaw}
	host, btc, w := sc.host, sc.btc, sc.w
	log := logger.With()
	run := &c46Run{action: action, start: start, faulted: failArming}
	run.expiry = start + sc.proposal.ValidityBlocks()
	var act walletAction
	switch p := sc.proposal.(type) {
	case *HeartbeatProposal:
		act = newHeartbeatAction(log, host, w, exec, p, newHeartbeatFailureCounter(), &c46ClaimExec{o: o}, start, run.expiry, o.actionWait)
	case *DepositSweepProposal:
		a := newDepositSweepAction(log, host, btc, w, exec, p, start, run.expiry, o.actionWait)
		run.broadcast = a.broadcastTimeout
		act = a
	case *RedemptionProposal:
		a := newRedemptionAction(log, host, btc, w, exec, p, start, run.expiry, o.actionWait)
		run.broadcast = a.broadcastTimeout
		act = a
	case *MovingFundsProposal:
		a := newMovingFundsAction(log, host, btc, w, exec, p, start, run.expiry, o.actionWait)
		run.broadcast = a.broadcastTimeout
		act = a
	case *MovedFundsSweepProposal:
		a := newMovedFundsSweepAction(log, host, btc, w, exec, p, start, run.expiry, o.actionWait)
		run.broadcast = a.broadcastTimeout
		act = a
	}
	if act.actionType() != action {
		t.Fatalf("constructor built a %v action for %v", act.actionType(), action)
	}
	run.err = act.execute()
	joined := o.join()
	o.mu.Lock()
	defer o.mu.Unlock()
	run.overrun = o.overrun
	run.unarmed = o.unarmed
	run.clockAtEnd = o.clock
	if run.overrun == "" && run.unarmed == "" && (!joined || o.timedOut) {
		// no logical-clock evidence and the hand-over between goroutines did
		// not settle: machinery trouble
		return nil, false
	}
	if len(o.calls) < 1 || !exec.gotDL {
		t.Fatalf("%v: the action did not reach its signing step (execute: %v)", action, run.err)
	}
	first := o.calls[0]
	run.signStart, run.signTimeout = o.signStart, exec.timeout
	for _, c := range o.calls {
		run.calls = append(run.calls, c)
	}
	if failArming {
		// the signing phase is over at once (or the deadline was re-armed):
		// nothing else to read
		return run, true
	}
	if !first.hasLoop {
		t.Fatalf("%v: the signing executor did not register a loop timeout (execute: %v)", action, run.err)
	}
	run.loopEnd = first.loopTimeout
	if len(first.waits) == 0 {
		t.Fatalf("%v: the retry loop did not start (execute: %v)", action, run.err)
	}
	run.firstWait = first.waits[0]
	if exec.lateRun && len(o.calls) >= 2 {
		run.late = o.calls[1]
		run.lateClass = lateClass
	}
	run.confirm = append(run.confirm, o.confirm...)
	return run, true
}

// --- the deadlines as computed by the node's glue ------------------------------

type c46GlueRun struct {
	deadlines []uint64 // block heights the ACTION waits for through the node's block counter
	execWaits []uint64 // block heights the real signing executor waits for
	confirm   []uint64
}

// plain recording wait function for the executor in glue mode
func (o *c46Obs) glueExecWait(ctx context.Context, b uint64) error {
	o.active.Add(1)
	defer o.active.Done()
	o.mu.Lock()
	o.glueExecWaits = append(o.glueExecWaits, b)
	o.mu.Unlock()
	select {
	case <-ctx.Done():
		return ctx.Err()
	case <-o.release:
		return errC46AttemptFailed
	}
}

// c46DriveGlue hands a coordination result to the REAL processCoordinationResult
// of a node that holds the instrumented real signing executor; the action is
// created, given its start and expiry blocks and dispatched by the production
// code. Current block = end of the coordination window.
func c46DriveGlue(t *rapid.T, action WalletActionType, coordinationBlock uint64) (*c46GlueRun, bool) {
	window := &coordinationWindow{coordinationBlock: coordinationBlock}
	o := c46NewObs(window.endBlock())
	sc := c46NewScenario(t, action, o, o.glueExecWait)
	keyBytes, err := marshalPublicKey(sc.w.publicKey)
	if err != nil {
		t.Fatalf("marshal: %v", err)
	}
	key := hex.EncodeToString(keyBytes)
	n := &node{
		groupParameters:          &GroupParameters{GroupSize: 3, GroupQuorum: 2, HonestThreshold: 2},
		chain:                    sc.host,
		btcChain:                 sc.btc,
		walletDispatcher:         newWalletDispatcher(),
		protocolLatch:            generator.NewProtocolLatch(),
		heartbeatFailureCounter:  newHeartbeatFailureCounter(),
		signingExecutors:         map[string]*signingExecutor{key: sc.real},
		inactivityClaimExecutors: map[string]*inactivityClaimExecutor{key: {}},
	}
	processCoordinationResult(n, &coordinationResult{wallet: sc.w, window: window, proposal: sc.proposal})

	idle := func() bool {
		n.walletDispatcher.actionsMutex.Lock()
		defer n.walletDispatcher.actionsMutex.Unlock()
		return len(n.walletDispatcher.actions) == 0
	}
	// the action registers its signing deadline, the executor its loop
	// timeout and the first attempt wait - or the action ends early
	reached := verifkit.Eventually(c46Patience, func() bool {
		o.mu.Lock()
		defer o.mu.Unlock()
		return len(o.glueDeadlines) >= 1 && len(o.glueExecWaits) >= 2
	})
	early := !reached && idle()
	// end of the signing phase: the awaited deadline blocks arrive
	o.mu.Lock()
	for i, ch := range o.glueWaiters {
		ch <- o.glueDeadlines[i]
	}
	o.mu.Unlock()
	finished := verifkit.Eventually(c46Patience, idle)
	joined := o.join()
	if early {
		t.Fatalf("%v dispatched by processCoordinationResult ended before its signing step", action)
	}
	if !reached || !finished || !joined {
		return nil, false
	}
	o.mu.Lock()
	defer o.mu.Unlock()
	return &c46GlueRun{
		deadlines: append([]uint64{}, o.glueDeadlines...),
		execWaits: append([]uint64{}, o.glueExecWaits...),
		confirm:   append([]uint64{}, o.confirm...),
	}, true
}

func c46GenStart(t *rapid.T) (uint64, string) {
	switch rapid.IntRange(0, 6).Draw(t, "startClass") {
	case 0:
		return 0, "zero"
	case 1:
		return uint64(rapid.IntRange(1, 299).Draw(t, "start")), "below-margin"
	case 2:
		return uint64(rapid.IntRange(300, 1300).Draw(t, "start")), "around-validity"
	case 3, 4:
		return uint64(rapid.IntRange(15_000_000, 30_000_000).Draw(t, "start")), "mainnet"
	case 5:
		return uint64(rapid.Int64Range(1<<32-700, 1<<32+700).Draw(t, "start")), "32-bit-edge"
	default:
		return uint64(rapid.Int64Range(0, 1<<48).Draw(t, "start")), "any"
	}
}

func c46Inconclusive(t *rapid.T, why string) {
	fmt.Println("VERIF-INCONCLUSIVE: " + why)
	t.Fatalf("VERIF-INCONCLUSIVE: %s", why)
}

func c46Silence() {
	_ = golog.SetLogLevel("*", "fatal")
}

// Signing phase of every action type: starts no earlier than the action
// start, ends at least the documented margin before expiry, and one complete
// retry loop of the REAL signing executor for a single message fits into it;
// the broadcast step ends before expiry at the nominal block time.
func TestVerif_C46_SigningWindow(t *testing.T) {
	c46Silence()
	st := verifkit.New("C46", "TestVerif_C46_SigningWindow")
	defer st.Flush()
	rapid.Check(t, func(t *rapid.T) {
		action := rapid.SampledFrom(c46Actions).Draw(t, "action")
		start, startClass := c46GenStart(t)
		lateClass := ""
		var lateRaw uint64
		if action != ActionHeartbeat {
			lateClass = rapid.SampledFrom([]string{"binding", "binding", "any", "at-or-after"}).Draw(t, "laterMessageStart")
			lateRaw = uint64(rapid.IntRange(0, 1<<20).Draw(t, "laterMessageOffset"))
		}
		// chain-client fault at the moment the action arms its signing
		// deadline (node.waitForBlockHeight returns the error of
		// BlockCounter()/BlockHeightWaiter()): the signing phase must still
		// be bounded by that deadline
		failArming := rapid.IntRange(0, 5).Draw(t, "blockWaitFailsWhenArmingTheDeadline") == 0
		run, ok := c46Drive(t, action, start, lateClass, lateRaw, failArming)
		if !ok {
			c46Inconclusive(t, "stubbed block waits did not settle in time")
		}
		if run.unarmed != "" {
			t.Fatalf("%v start=%d expiry=%d signing timeout=%d: the signing phase is not bounded: %s", action, start, run.expiry, run.signTimeout, run.unarmed)
		}
		if failArming {
			if run.overrun != "" {
				t.Fatalf("%v start=%d: %s", action, start, run.overrun)
			}
			margin := uint64(c46DocumentedSigningMargin)
			if run.signTimeout > run.expiry || run.expiry-run.signTimeout < margin {
				t.Fatalf("%v start=%d expiry=%d: signing deadline %d is less than the documented %d blocks before expiry", action, start, run.expiry, run.signTimeout, margin)
			}
			for i, c := range run.calls {
				if c.returnedAt > run.signTimeout {
					t.Fatalf("%v start=%d: sign() call %d returned at block %d, after the signing timeout %d whose arming failed", action, start, i+1, c.returnedAt, run.signTimeout)
				}
			}
			st.Case(true, fmt.Sprintf("%v start=%d expiry=%d signing-timeout=%d arming-fault sign-calls=%d", action, start, run.expiry, run.signTimeout, len(run.calls)),
				"action:"+action.String(), "start:"+startClass, "fault:arming-the-signing-deadline")
			return
		}
		desc := fmt.Sprintf("%v start=%d expiry=%d signing=[%d,%d] loop-end=%d broadcast=%v confirm-waits=%v", action, start, run.expiry, run.signStart, run.signTimeout, run.loopEnd, run.broadcast, run.confirm)
		if run.late != nil {
			desc += fmt.Sprintf(" later-message: start=%d loop-timeout=%d returned-at=%d", run.late.start, run.late.loopTimeout, run.late.returnedAt)
		}
		if run.overrun != "" {
			t.Fatalf("%s: the signing phase does not end at the signing timeout: %s", desc, run.overrun)
		}
		if run.expiry <= start {
			t.Fatalf("%s: proposal validity is empty", desc)
		}
		if run.signStart < start {
			t.Fatalf("%s: signing starts before the action start", desc)
		}
		margin := uint64(c46DocumentedSigningMargin)
		if action == ActionHeartbeat {
			margin = c46DocumentedClaimValidity
		}
		if run.signTimeout > run.expiry || run.expiry-run.signTimeout < margin {
			t.Fatalf("%s: signing may run until block %d, less than the documented %d blocks before expiry %d", desc, run.signTimeout, margin, run.expiry)
		}
		if documentedExpiry := start + c46DocumentedValidity[action]; run.signTimeout+margin > documentedExpiry {
			t.Fatalf("%s: signing may run until block %d, less than the documented %d blocks before the documented expiry %d (start + %d blocks of validity for %v)", desc, run.signTimeout, margin, documentedExpiry, c46DocumentedValidity[action], action)
		}
		if run.loopEnd <= run.signStart {
			t.Fatalf("%s: empty retry loop", desc)
		}
		if run.loopEnd > run.signTimeout {
			t.Fatalf("%s: one complete signing retry loop of a single message ends at block %d, after the signing timeout %d", desc, run.loopEnd, run.signTimeout)
		}
		if run.firstWait < run.signStart || run.firstWait >= run.loopEnd {
			t.Fatalf("%s: first attempt waits for block %d outside the loop", desc, run.firstWait)
		}
		lateLabel := "later-message:n/a"
		if run.late != nil {
			// a message of the batch that starts less than one retry loop
			// before the signing timeout: the real sign() must be back, on
			// the logical clock, no later than the timeout block and must
			// not have waited for any later block
			if run.late.returnedAt > run.signTimeout {
				t.Fatalf("%s: sign() for a later message of the batch returned at block %d, after the signing timeout %d handed down by the action", desc, run.late.returnedAt, run.signTimeout)
			}
			for _, w := range run.late.waits {
				if w >= run.signTimeout {
					t.Fatalf("%s: the retry loop of a later message waited for block %d, at/after the signing timeout %d", desc, w, run.signTimeout)
				}
			}
			switch {
			case run.late.start >= run.signTimeout:
				lateLabel = "later-message:starts-at-or-after-deadline"
			case run.late.hasLoop && run.late.loopTimeout > run.signTimeout:
				lateLabel = "later-message:cut-by-deadline"
			default:
				lateLabel = "later-message:loop-fits"
			}
		}
		if action != ActionHeartbeat {
			// post-signing: broadcast bounded to end before expiry even when
			// signing ends at the last permitted block
			room := time.Duration(run.expiry-run.signTimeout) * c46NominalBlockTime
			if run.broadcast <= 0 || run.broadcast > room {
				t.Fatalf("%s: broadcast may take %v but only %v (at 12 s blocks) remain after the signing timeout", desc, run.broadcast, room)
			}
		}
		st.Case(true, desc, "action:"+action.String(), "start:"+startClass,
			fmt.Sprintf("slack-blocks:%d", run.signTimeout-run.loopEnd), fmt.Sprintf("signing-offset:%d", run.signStart-start), lateLabel)
	})
}

// Heartbeat post-signing step: the inactivity claim window opens after the
// signing phase and ends the documented margin before expiry.
func TestVerif_C46_HeartbeatClaimWindow(t *testing.T) {
	c46Silence()
	st := verifkit.New("C46", "TestVerif_C46_HeartbeatClaimWindow")
	defer st.Flush()
	rapid.Check(t, func(t *rapid.T) {
		start, startClass := c46GenStart(t)
		activeMembers := rapid.IntRange(0, heartbeatSigningMinimumActiveMembers-1).Draw(t, "activeMembers")
		o := c46NewObs(start)
		fault := rapid.SampledFrom([]string{"none", "none", "none", "signing-deadline", "claim-deadline"}).Draw(t, "blockWaitFailsWhenArming")
		switch fault {
		case "signing-deadline":
			o.failActionWait = map[int]bool{0: true}
		case "claim-deadline":
			o.failActionWait = map[int]bool{1: true}
		}
		pub := (*ecdsa.PublicKey)(&c46Key.PublicKey)
		w := wallet{publicKey: pub}
		host := &c46Host{o: o}
		p := &HeartbeatProposal{Message: [16]byte{0xff, 0xff, 0xff, 0xff, 0xff, 0xff, 0xff, 0xff, 2}}
		expiry := start + p.ValidityBlocks()
		counter := newHeartbeatFailureCounter()
		keyBytes, err := marshalPublicKey(pub)
		if err != nil {
			t.Fatalf("marshal: %v", err)
		}
		for i := uint(1); i < heartbeatConsecutiveFailureThreshold; i++ {
			counter.increment(hex.EncodeToString(keyBytes))
		}
		exec := &c46LowActivityExec{o: o, active: activeMembers, total: 100}
		claim := &c46ClaimExec{o: o}
		act := newHeartbeatAction(logger.With(), host, w, exec, p, counter, claim, start, expiry, o.actionWait)
		execErr := act.execute()
		joined := o.join()
		o.mu.Lock()
		timedOut := o.timedOut
		unarmed := o.unarmed
		o.mu.Unlock()
		if unarmed != "" {
			t.Fatalf("heartbeat start=%d expiry=%d: %s", start, expiry, unarmed)
		}
		if !joined || timedOut {
			c46Inconclusive(t, "stubbed block waits did not settle in time")
		}
		if execErr != nil || claim.calls != 1 || !claim.gotDL || !exec.gotDL {
			t.Fatalf("heartbeat with %d active members after %d failures did not reach the inactivity claim: %v", activeMembers, heartbeatConsecutiveFailureThreshold-1, execErr)
		}
		desc := fmt.Sprintf("start=%d expiry=%d signing-until=%d claim-until=%d active=%d", start, expiry, exec.timeout, claim.timeout, activeMembers)
		if exec.timeout > expiry || expiry-exec.timeout < c46DocumentedClaimValidity {
			t.Fatalf("%s: less than the documented %d blocks are left for the claim", desc, c46DocumentedClaimValidity)
		}
		if claim.timeout <= exec.timeout {
			t.Fatalf("%s: the claim window closes before the signing phase ends", desc)
		}
		if claim.timeout > expiry || expiry-claim.timeout < c46DocumentedClaimMargin {
			t.Fatalf("%s: the inactivity claim may run until block %d, less than the documented %d blocks before expiry", desc, claim.timeout, c46DocumentedClaimMargin)
		}
		st.Case(true, desc+" fault="+fault, "start:"+startClass, fmt.Sprintf("claim-window-blocks:%d", claim.timeout-exec.timeout), "fault:"+fault)
	})
}

// The deadline relation for the (start, expiry) pair the node REALLY hands to
// the actions: a coordination result goes through processCoordinationResult
// (start = end of the coordination window, expiry as computed there) into the
// production handlers, constructors and dispatcher; the harness only reads
// which block heights the dispatched action and the real signing executor wait
// for.
func TestVerif_C46_CoordinationGlue(t *testing.T) {
	c46Silence()
	st := verifkit.New("C46", "TestVerif_C46_CoordinationGlue")
	defer st.Flush()
	rapid.Check(t, func(t *rapid.T) {
		action := rapid.SampledFrom(c46Actions).Draw(t, "action")
		var index uint64
		indexClass := ""
		switch rapid.IntRange(0, 3).Draw(t, "windowClass") {
		case 0:
			index, indexClass = uint64(rapid.IntRange(0, 3).Draw(t, "window")), "first-windows"
		case 1:
			index, indexClass = uint64(rapid.IntRange(15_000, 35_000).Draw(t, "window")), "mainnet"
		case 2:
			index, indexClass = uint64(rapid.Int64Range((1<<32)/900-2, (1<<32)/900+2).Draw(t, "window")), "32-bit-edge"
		default:
			index, indexClass = uint64(rapid.Int64Range(0, 1<<38).Draw(t, "window")), "any"
		}
		coordinationBlock := index * coordinationFrequencyBlocks
		window := &coordinationWindow{coordinationBlock: coordinationBlock}
		actionStart := window.endBlock()
		run, ok := c46DriveGlue(t, action, coordinationBlock)
		if !ok {
			c46Inconclusive(t, "the dispatched action did not settle in time")
		}
		desc := fmt.Sprintf("%v coordination-block=%d window-end=%d action-waits=%v executor-waits=%v confirm-waits=%v", action, coordinationBlock, actionStart, run.deadlines, run.execWaits, run.confirm)
		if len(run.deadlines) < 1 || len(run.execWaits) < 2 {
			t.Fatalf("%s: expected the signing deadline of the action, the loop timeout and the first attempt wait of the executor", desc)
		}
		signingTimeout := run.deadlines[0]
		firstWait, loopEnd := run.execWaits[0], run.execWaits[0]
		for _, w := range run.execWaits {
			firstWait, loopEnd = min(firstWait, w), max(loopEnd, w)
		}
		if firstWait < actionStart {
			t.Fatalf("%s: the signing executor waits for block %d, before the action start (end of the coordination window) %d", desc, firstWait, actionStart)
		}
		if signingTimeout <= actionStart {
			t.Fatalf("%s: the signing deadline %d is not after the action start %d", desc, signingTimeout, actionStart)
		}
		if loopEnd > signingTimeout {
			t.Fatalf("%s: one complete signing retry loop of a single message ends at block %d, after the signing deadline %d the node's glue gives the action", desc, loopEnd, signingTimeout)
		}
		// the expiry the glue derives for this proposal type, judged against
		// the documented validity of the action type: the signing phase ends
		// at least the documented margin before the DOCUMENTED expiry
		margin := uint64(c46DocumentedSigningMargin)
		if action == ActionHeartbeat {
			margin = c46DocumentedClaimValidity
		}
		documentedExpiry := actionStart + c46DocumentedValidity[action]
		if signingTimeout+margin > documentedExpiry {
			t.Fatalf("%s: signing may run until block %d; the %v proposal is documented to expire at block %d (action start + %d), which leaves %d of the documented %d margin blocks", desc, signingTimeout, action, documentedExpiry, c46DocumentedValidity[action], int64(documentedExpiry)-int64(signingTimeout), margin)
		}
		st.Case(true, desc, "action:"+action.String(), "window:"+indexClass, fmt.Sprintf("slack-blocks:%d", signingTimeout-loopEnd), fmt.Sprintf("blocks-before-documented-expiry:%d", documentedExpiry-signingTimeout))
	})
}
