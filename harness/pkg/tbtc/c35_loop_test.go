//go:build go1.23

package tbtc

import (
	"bytes"
	"context"
	"errors"
	"fmt"
	"math/big"
	"runtime"
	"strconv"
	"strings"
	"sync"
	"testing"
	"time"

	"github.com/keep-network/keep-core/internal/testutils"
	"github.com/keep-network/keep-core/internal/verifkit"
	"github.com/keep-network/keep-core/pkg/chain"
	"github.com/keep-network/keep-core/pkg/net"
	"github.com/keep-network/keep-core/pkg/protocol/group"
	"github.com/keep-network/keep-core/pkg/tecdsa/signing"
	"pgregory.net/rapid"
)

// ---------------------------------------------------------------------------
// C35, loop integration: the REAL signingRetryLoop.start drives the REAL
// signingDoneCheck (one object for all attempts of the signing, as in
// signing.go) over the fake channel of c35_done_test.go, with a scripted
// announcer, a scripted attempt function and a logical block clock.
//
// History: attempt 1 fails for this member (inside the signing protocol, so
// its done-check phase is never reached - or, variant, after a done-check
// phase that times out); attempt 2 is executed; while its done check is open
// the other members' confirmations arrive - of attempt 2, or LATE ones of
// attempt 1. What the loop reports is compared with the model of the attempt
// that is actually being checked (attempt 2).
//
// The process runs with GORACE=report_bugs=0 (props env of this test): two
// consecutive listen() calls on one object are formally racy with the exiting
// receiver goroutine of the earlier attempt on every tree (see notes), which
// is outside this property; the other C35 tests keep the detector on.
// ---------------------------------------------------------------------------

const c35LStaleWait = 10 * time.Second

func c35LGoid() int64 {
	var buf [64]byte
	n := runtime.Stack(buf[:], false)
	f := bytes.Fields(buf[:n])
	id, _ := strconv.ParseInt(string(f[1]), 10, 64)
	return id
}

type c35LCase struct {
	n, h        int
	self        group.MemberIndex
	start       uint64
	message     int64
	ready1      []group.MemberIndex
	ready2      []group.MemberIndex
	att1Waited  bool                // attempt 1 reached its done-check phase (and timed out) instead of failing in the protocol
	att1Confirm []group.MemberIndex // members of attempt 1 whose confirmation arrived in time (never all)
	modes       map[group.MemberIndex]string
	order       []group.MemberIndex // delivery order of the other members of attempt 2
	afterSelf   int                 // how many of them deliver after this member's own confirmation
	selfEndOff  uint64
	lateSig     int
}

func (c c35LCase) String() string {
	var parts []string
	for _, m := range c.order {
		parts = append(parts, fmt.Sprintf("%d:%s", m, c.modes[m]))
	}
	first := "fails-in-protocol"
	if c.att1Waited {
		first = "done-check-times-out"
	}
	return fmt.Sprintf("n=%d h=%d self=%d start=%d msg=%d | attempt1 members=%v %s confirmed-in-time=%v | attempt2 members=%v deliveries=[%s] after-own-confirmation=%d late-sig=%d",
		c.n, c.h, c.self, c.start, c.message, c.ready1, first, c.att1Confirm, c.ready2, strings.Join(parts, " "), c.afterSelf, c.lateSig)
}

func c35LGen(t *rapid.T) c35LCase {
	c := c35LCase{modes: map[group.MemberIndex]string{}}
	c.n = rapid.IntRange(3, 7).Draw(t, "groupSize")
	c.h = rapid.IntRange(c.n/2+1, c.n).Draw(t, "honestThreshold")
	c.self = group.MemberIndex(rapid.IntRange(1, c.n).Draw(t, "self"))
	c.start = rapid.Uint64Range(1, 10_000_000).Draw(t, "startBlock")
	c.message = int64(rapid.IntRange(1, 100000).Draw(t, "message"))
	var others []group.MemberIndex
	for i := 1; i <= c.n; i++ {
		if group.MemberIndex(i) != c.self {
			others = append(others, group.MemberIndex(i))
		}
	}
	// exactly h ready members including this one: with one seat per operator
	// the selection then includes exactly the ready members
	pick := func(label string) []group.MemberIndex {
		p := rapid.Permutation(others).Draw(t, label)
		return append([]group.MemberIndex{c.self}, p[:c.h-1]...)
	}
	c.ready1 = pick("ready1")
	if rapid.IntRange(0, 2).Draw(t, "sameMembers") > 0 {
		c.ready2 = append([]group.MemberIndex{}, c.ready1...)
	} else {
		c.ready2 = pick("ready2")
	}
	c.att1Waited = rapid.IntRange(0, 3).Draw(t, "attempt1ReachedDoneCheck") == 0
	// confirmations of attempt 1 that arrive in time: a strict subset of the others
	k := rapid.IntRange(0, max(0, c.h-2)).Draw(t, "attempt1Confirmed")
	c.att1Confirm = append(c.att1Confirm, rapid.Permutation(c.ready1[1:]).Draw(t, "attempt1Confirmers")[:k]...)
	in1 := map[group.MemberIndex]bool{}
	for _, m := range c.ready1 {
		in1[m] = true
	}
	plan := rapid.SampledFrom([]string{"complete", "late-instead", "late-instead", "mixed"}).Draw(t, "plan")
	for _, m := range c.ready2[1:] {
		var mode string
		switch plan {
		case "complete":
			mode = rapid.SampledFrom([]string{"confirm2", "confirm2", "late1+confirm2"}).Draw(t, "mode")
		case "late-instead":
			mode = rapid.SampledFrom([]string{"confirm2", "confirm2", "late1"}).Draw(t, "mode")
		default:
			mode = rapid.SampledFrom([]string{"confirm2", "late1", "late1+confirm2", "silent", "confirm2-other-signature", "confirm2-end-after-timeout"}).Draw(t, "mode")
		}
		c.modes[m] = mode
	}
	if plan == "late-instead" && len(c.ready2) > 1 {
		// make sure at least one member only sends its late attempt-1 confirmation
		m := c.ready2[1+rapid.IntRange(0, len(c.ready2)-2).Draw(t, "lateMember")]
		c.modes[m] = "late1"
	}
	c.order = rapid.Permutation(c.ready2[1:]).Draw(t, "deliveryOrder")
	c.afterSelf = rapid.IntRange(0, len(c.order)).Draw(t, "afterOwnConfirmation")
	// the member's own signing ends at start+offset: within the protocol
	// window (<= timeout) or, one case in four, after the timeout block
	c.selfEndOff = uint64(rapid.IntRange(0, int(signingAttemptMaximumProtocolBlocks)).Draw(t, "ownEndBlock"))
	if rapid.IntRange(0, 3).Draw(t, "ownEndAfterTimeout") == 0 {
		c.selfEndOff = uint64(signingAttemptMaximumProtocolBlocks) + uint64(rapid.IntRange(1, 8).Draw(t, "ownEndLateBy"))
	}
	c.lateSig = rapid.SampledFrom([]int{1, 1, 3}).Draw(t, "lateSignature")
	return c
}

type c35LExpect struct {
	success  bool
	endBlock uint64
	missing  []group.MemberIndex
	lateFrom []group.MemberIndex // included members whose only/extra message is a late attempt-1 confirmation
}

// model of attempt 2: only confirmations tagged with attempt 2, end block
// within attempt 2's timeout, count; all members of attempt 2 must have one
// with the same signature.
func c35LModel(c c35LCase, start2, timeout2 uint64) c35LExpect {
	exp := c35LExpect{endBlock: start2 + c.selfEndOff} // this member's own confirmation
	mismatch := false
	if start2+c.selfEndOff > timeout2 {
		// its own signing ended after the attempt timed out: not a valid confirmation
		exp.missing = append(exp.missing, c.self)
		exp.endBlock = 0
	}
	for _, m := range c.ready2[1:] {
		switch c.modes[m] {
		case "confirm2", "late1+confirm2":
			exp.endBlock = max(exp.endBlock, start2+1)
		case "confirm2-other-signature":
			mismatch = true
		default:
			exp.missing = append(exp.missing, m)
		}
		if strings.HasPrefix(c.modes[m], "late1") {
			exp.lateFrom = append(exp.lateFrom, m)
		}
	}
	exp.success = len(exp.missing) == 0 && !mismatch
	return exp
}

type c35LOutcome struct {
	violation, inconclusive string
	staleReceiver           bool
}

func c35LRun(c c35LCase) (out c35LOutcome) {
	pool := c35Operators
	var operators chain.Addresses
	for i := 0; i < c.n; i++ {
		operators = append(operators, pool[i].address)
	}
	ch := &c35Channel{}
	validator := group.NewMembershipValidator(&testutils.MockLogger{}, operators, c35Signing)
	dc := newSigningDoneCheck(c.n, ch, validator)
	bc := verifkit.NewFakeBlockCounter(c.start)
	ctx, cancel := context.WithCancel(context.Background())
	defer cancel()

	var mu sync.Mutex
	var loopGoid int64
	var curCalls int
	var currentAttempt uint
	var start2, timeout2 uint64
	var inconcl string
	stale := false
	signalled2 := make(chan struct{})

	done := func(m group.MemberIndex, attempt uint64, endBlock uint64, sig int) *c35Msg {
		return &c35Msg{pub: pool[m-1].pub, payload: &signingDoneMessage{
			senderID: m, message: big.NewInt(c.message), attemptNumber: attempt, signature: c35Sig(sig), endBlock: endBlock}}
	}
	// every live receiver gets its own sentinel; returns when all of them
	// have processed everything delivered so far
	flush := func() bool {
		type pending struct {
			done chan struct{}
			ctx  context.Context
		}
		var waits []pending
		for _, r := range ch.live() {
			d := make(chan struct{})
			var once sync.Once
			r.handler(&c35Msg{pub: pool[11].pub, payload: &c35OtherPayload{}, onPayload: func() { once.Do(func() { close(d) }) }})
			waits = append(waits, pending{d, r.ctx})
		}
		deadline := time.After(c35Wait)
		for _, w := range waits {
			select {
			case <-w.done:
			case <-w.ctx.Done(): // the receiver ended meanwhile
			case <-deadline:
				return false
			}
		}
		return true
	}
	deliverFor := func(m group.MemberIndex, timeout1 uint64) {
		mode := c.modes[m]
		if strings.HasPrefix(mode, "late1") {
			// a confirmation of attempt 1, valid for attempt 1, arriving late
			ch.deliver(done(m, 1, timeout1, c.lateSig))
		}
		switch mode {
		case "confirm2", "late1+confirm2":
			ch.deliver(done(m, 2, start2+1, 1))
		case "confirm2-other-signature":
			ch.deliver(done(m, 2, start2+1, 3))
		case "confirm2-end-after-timeout":
			ch.deliver(done(m, 2, timeout2+1, 1))
		}
	}
	var timeout1 uint64

	ch.onSend = func(m net.TaggedMarshaler) {
		// the member's own confirmation comes back to its receivers
		ch.deliver(&c35Msg{pub: pool[c.self-1].pub, payload: m})
		mu.Lock()
		n := currentAttempt
		t1 := timeout1
		mu.Unlock()
		switch n {
		case 1:
			// The receiver of attempt 1 has processed everything it was sent
			// before the attempt times out: in production many blocks (minutes)
			// lie between a message's arrival and the next attempt, the logical
			// clock must not compress that into a schedule where a buffered
			// attempt-1 message is still unprocessed when attempt 2 listens.
			if !flush() {
				mu.Lock()
				inconcl = "receiver of attempt 1 did not process its messages"
				mu.Unlock()
			}
			bc.AdvanceTo(t1) // nobody else completes attempt 1: it times out
		case 2:
			close(signalled2)
		}
	}
	waitForBlock := func(wctx context.Context, block uint64) error {
		if c35LGoid() == loopGoid {
			if block > bc.Height() {
				bc.AdvanceTo(block)
			}
			return nil
		}
		w, _ := bc.BlockHeightWaiter(block)
		select {
		case <-w:
		case <-wctx.Done():
		}
		return nil
	}
	currentBlock := func() (uint64, error) {
		mu.Lock()
		curCalls++
		n := curCalls
		mu.Unlock()
		if n > 2 {
			cancel() // the history ends after attempt 2
		}
		return bc.Height(), nil
	}
	announcer := c35LAnnouncer(func(sessionID string) ([]group.MemberIndex, error) {
		n, _ := strconv.Atoi(sessionID[strings.LastIndex(sessionID, "-")+1:])
		mu.Lock()
		currentAttempt = uint(n)
		mu.Unlock()
		end := c.start + uint64(n-1)*uint64(signingAttemptMaximumBlocks()) + signingAttemptAnnouncementDelayBlocks + signingAttemptAnnouncementActiveBlocks
		if end > bc.Height() {
			bc.AdvanceTo(end)
		}
		switch n {
		case 1:
			return append([]group.MemberIndex{}, c.ready1...), nil
		case 2:
			return append([]group.MemberIndex{}, c.ready2...), nil
		}
		return nil, errors.New("scripted: over")
	})
	attemptFn := func(p *signingAttemptParams) (*signing.Result, uint64, error) {
		if len(p.excludedMembersIndexes) != c.n-c.h {
			mu.Lock()
			inconcl = fmt.Sprintf("selection excluded %v, expected exactly the %d members that are not ready", p.excludedMembersIndexes, c.n-c.h)
			mu.Unlock()
			cancel()
			return nil, 0, errors.New("stop")
		}
		switch p.number {
		case 1:
			mu.Lock()
			timeout1 = p.timeoutBlock
			mu.Unlock()
			for _, m := range c.att1Confirm {
				ch.deliver(done(m, 1, p.startBlock+1, 1))
			}
			if !flush() {
				mu.Lock()
				inconcl = "receiver of attempt 1 did not process its messages"
				mu.Unlock()
			}
			if !c.att1Waited {
				return nil, 0, errors.New("scripted: signing protocol failed")
			}
			return &signing.Result{Signature: c35Sig(1)}, p.startBlock + 1, nil
		case 2:
			mu.Lock()
			start2, timeout2 = p.startBlock, p.timeoutBlock
			t1 := timeout1
			mu.Unlock()
			// Attempt 1 timed out many blocks ago: the receivers registered for
			// it are gone (the channel drops a handler whose context is done).
			// The hand-over is asynchronous, so wait for it - bounded: a
			// receiver that is still registered afterwards keeps getting
			// messages, exactly as on the real channel.
			deadline := time.Now().Add(c35LStaleWait)
			for len(ch.live()) > 1 && time.Now().Before(deadline) {
				time.Sleep(time.Millisecond)
			}
			if len(ch.live()) > 1 {
				mu.Lock()
				stale = true
				mu.Unlock()
			}
			for _, m := range c.order[:len(c.order)-c.afterSelf] {
				deliverFor(m, t1)
			}
			return &signing.Result{Signature: c35Sig(1)}, p.startBlock + c.selfEndOff, nil
		}
		return nil, 0, errors.New("scripted: over")
	}

	loop := newSigningRetryLoop(&testutils.MockLogger{}, big.NewInt(c.message), c.start, c.self, operators,
		&GroupParameters{GroupSize: c.n, GroupQuorum: c.n, HonestThreshold: c.h}, announcer, dc)
	type ret struct {
		res *signingRetryLoopResult
		err error
	}
	retCh := make(chan ret, 1)
	go func() {
		loopGoid = c35LGoid()
		r, err := loop.start(ctx, waitForBlock, currentBlock, attemptFn)
		retCh <- ret{r, err}
	}()

	var got *ret
	select {
	case <-signalled2:
	case r := <-retCh:
		got = &r
	case <-time.After(c35Wait):
		return c35LOutcome{inconclusive: "the loop did not reach the done check of attempt 2"}
	}
	mu.Lock()
	s2, t2, t1, why := start2, timeout2, timeout1, inconcl
	out.staleReceiver = stale
	mu.Unlock()
	if why != "" {
		out.inconclusive = why
		return
	}
	if got != nil {
		out.inconclusive = fmt.Sprintf("the loop ended before attempt 2 was signalled: %v", got.err)
		return
	}
	exp := c35LModel(c, s2, t2)
	for _, m := range c.order[len(c.order)-c.afterSelf:] {
		deliverFor(m, t1)
	}
	flush()
	if exp.success {
		select {
		case r := <-retCh:
			got = &r
		case <-time.After(c35Wait):
			out.inconclusive = "attempt 2 is complete but the loop did not return"
			return
		}
	} else {
		// give the poll loop a few ticks to (wrongly) report, then let the
		// attempt time out; the next iteration ends the history
		select {
		case r := <-retCh:
			got = &r
		case <-time.After(4 * signingDoneCheckInterval):
			bc.AdvanceTo(t2 + uint64(signingAttemptMaximumBlocks()))
			select {
			case r := <-retCh:
				got = &r
			case <-time.After(c35Wait):
				out.inconclusive = "the loop did not return after attempt 2 timed out"
				return
			}
		}
	}
	reported := got.err == nil && got.res != nil
	switch {
	case reported && !exp.success:
		out.violation = fmt.Sprintf("the loop reported a signature for attempt 2 (latest end block %d) although members %v never confirmed attempt 2; late confirmations of attempt 1 arrived from %v",
			got.res.latestEndBlock, exp.missing, exp.lateFrom)
	case !reported && exp.success:
		out.violation = fmt.Sprintf("every member of attempt 2 confirmed it with the same signature, but the loop ended with: %v", got.err)
	case reported:
		if !got.res.result.Signature.Equals(c35Sig(1)) {
			out.violation = fmt.Sprintf("reported signature %v is not the confirmed one", got.res.result.Signature)
		} else if got.res.latestEndBlock != exp.endBlock {
			out.violation = fmt.Sprintf("reported latest end block %d, the latest end block confirmed for attempt 2 is %d (attempt 2 runs from block %d to %d; late attempt-1 confirmations from %v carry end block %d)",
				got.res.latestEndBlock, exp.endBlock, s2, t2, exp.lateFrom, t1)
		} else if got.res.attemptTimeoutBlock != t2 {
			out.violation = fmt.Sprintf("result names timeout block %d, attempt 2 times out at %d", got.res.attemptTimeoutBlock, t2)
		}
	}
	return
}

type c35LAnnouncer func(sessionID string) ([]group.MemberIndex, error)

func (a c35LAnnouncer) Announce(ctx context.Context, memberIndex group.MemberIndex, sessionID string) ([]group.MemberIndex, error) {
	return a(sessionID)
}

// TestVerif_C35_LoopIntegration - see the header of this file.
func TestVerif_C35_LoopIntegration(t *testing.T) {
	st := verifkit.New("C35", "TestVerif_C35_LoopIntegration")
	defer st.Flush()
	rapid.Check(t, func(t *rapid.T) {
		c35Pool(t)
		cases := make([]c35LCase, c35Batch)
		for i := range cases {
			cases[i] = c35LGen(t)
		}
		outs := make([]c35LOutcome, len(cases))
		var wg sync.WaitGroup
		for i := range cases {
			wg.Add(1)
			go func(i int) {
				defer wg.Done()
				outs[i] = c35LRun(cases[i])
			}(i)
		}
		wg.Wait()
		for i, o := range outs {
			if o.inconclusive != "" {
				t.Fatalf("VERIF-INCONCLUSIVE: %s; history: %v", o.inconclusive, cases[i])
			}
		}
		for i, o := range outs {
			if o.violation != "" {
				extra := ""
				if o.staleReceiver {
					extra = " (the receiver registered for attempt 1 was still registered during attempt 2)"
				}
				t.Fatalf("%s%s\nhistory: %v", o.violation, extra, cases[i])
			}
		}
		for _, c := range cases {
			late, completeModes := false, true
			for _, m := range c.ready2[1:] {
				if strings.HasPrefix(c.modes[m], "late1") {
					late = true
				}
				if c.modes[m] != "confirm2" && c.modes[m] != "late1+confirm2" {
					completeModes = false
				}
			}
			st.Case(late && !c.att1Waited, c.String(),
				fmt.Sprintf("attempt1:%s", map[bool]string{true: "done-check-timed-out", false: "failed-in-protocol"}[c.att1Waited]),
				fmt.Sprintf("late-attempt1-confirmation:%v", late), fmt.Sprintf("attempt2-complete:%v", completeModes))
		}
	})
}
