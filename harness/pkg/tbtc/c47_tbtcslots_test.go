//go:build go1.23

package tbtc

import (
	"context"
	"crypto/ecdsa"
	"fmt"
	"math/big"
	"sort"
	"sync"
	"sync/atomic"
	"testing"
	"time"

	"github.com/keep-network/keep-core/internal/testutils"
	"github.com/keep-network/keep-core/internal/verifkit"
	"github.com/keep-network/keep-core/pkg/bitcoin"
	"github.com/keep-network/keep-core/pkg/chain"
	"github.com/keep-network/keep-core/pkg/internal/tecdsatest"
	"github.com/keep-network/keep-core/pkg/protocol/group"
	"github.com/keep-network/keep-core/pkg/protocol/inactivity"
	"github.com/keep-network/keep-core/pkg/tecdsa"
	"github.com/keep-network/keep-core/pkg/tecdsa/dkg"
	"pgregory.net/rapid"
)

const c47Wait = 20 * time.Second

// step constants as stated by the design (not read from the implementation)
const (
	c47DkgSubmitStep  = 3
	c47ApproveStep    = 15
	c47InactivityStep = 2
)

// c47Chain wraps the package's local chain: the block counter is the harness's
// fake counter, DKG parameters are drawn, and every on-chain submission is
// recorded with the block it happens at.
type c47Chain struct {
	*localChain
	bc     *verifkit.FakeBlockCounter
	params *DKGParameters

	mu           sync.Mutex
	dkgSubmits   []uint64
	claimSubmits []uint64
	approvals    []uint64 // blocks of the approval attempts of the node under test
	rejectFirst  int      // the chain refuses this many of them

	// onQuery is called while the named chain query of the submitter is in
	// flight: the answer has been computed and is on its way back.
	onQuery     func(name string)
	onWaitEnter func(count int)
	lastResult  *DKGChainResult
}

func (c *c47Chain) query(name string) {
	if c.onQuery != nil {
		c.onQuery(name)
	}
}

func (c *c47Chain) GetDKGState() (DKGState, error) {
	st, err := c.localChain.GetDKGState()
	c.query("GetDKGState")
	return st, err
}

func (c *c47Chain) IsDKGResultValid(r *DKGChainResult) (bool, error) {
	ok, err := c.localChain.IsDKGResultValid(r)
	c.query("IsDKGResultValid")
	return ok, err
}

func (c *c47Chain) AssembleDKGResult(
	submitterMemberIndex group.MemberIndex,
	groupPublicKey *ecdsa.PublicKey,
	operatingMembersIndexes []group.MemberIndex,
	misbehavedMembersIndexes []group.MemberIndex,
	signatures map[group.MemberIndex][]byte,
	groupSelectionResult *GroupSelectionResult,
) (*DKGChainResult, error) {
	r, err := c.localChain.AssembleDKGResult(submitterMemberIndex, groupPublicKey, operatingMembersIndexes, misbehavedMembersIndexes, signatures, groupSelectionResult)
	c.query("AssembleDKGResult")
	return r, err
}

func (c *c47Chain) GetWallet(pkh [20]byte) (*WalletChainData, error) {
	w, err := c.localChain.GetWallet(pkh)
	c.query("GetWallet")
	return w, err
}

func (c *c47Chain) GetInactivityClaimNonce(walletID [32]byte) (*big.Int, error) {
	n, err := c.localChain.GetInactivityClaimNonce(walletID)
	c.query("GetInactivityClaimNonce")
	return n, err
}

func (c *c47Chain) AssembleInactivityClaim(walletID [32]byte, inactive []group.MemberIndex, signatures map[group.MemberIndex][]byte, heartbeatFailed bool) (*InactivityClaim, error) {
	r, err := c.localChain.AssembleInactivityClaim(walletID, inactive, signatures, heartbeatFailed)
	c.query("AssembleInactivityClaim")
	return r, err
}

// ApproveDKGResult records every attempt of the node under test (also the
// ones the chain would refuse because the result is already approved).
func (c *c47Chain) ApproveDKGResult(r *DKGChainResult) error {
	c.mu.Lock()
	c.approvals = append(c.approvals, c.bc.Height())
	refuse := len(c.approvals) <= c.rejectFirst
	c.mu.Unlock()
	if refuse {
		return fmt.Errorf("c47: approval transaction reverted")
	}
	return c.localChain.ApproveDKGResult(r)
}

func (c *c47Chain) approvalAttempts() []uint64 {
	c.mu.Lock()
	defer c.mu.Unlock()
	return append([]uint64{}, c.approvals...)
}

// liveApprovalSubscriptions: every approval goroutine of executeDkgValidation
// holds one subscription from before it waits until it returns.
func (c *c47Chain) liveApprovalSubscriptions() int {
	c.localChain.dkgResultApprovalHandlersMutex.Lock()
	defer c.localChain.dkgResultApprovalHandlersMutex.Unlock()
	return len(c.localChain.dkgResultApprovalHandlers)
}

func (c *c47Chain) BlockCounter() (chain.BlockCounter, error) {
	c.query("BlockCounter")
	return c.bc, nil
}

func (c *c47Chain) DKGParameters() (*DKGParameters, error) { return c.params, nil }

func (c *c47Chain) SubmitDKGResult(r *DKGChainResult) error {
	c.mu.Lock()
	c.dkgSubmits = append(c.dkgSubmits, c.bc.Height())
	c.mu.Unlock()
	return c.localChain.SubmitDKGResult(r)
}

func (c *c47Chain) SubmitInactivityClaim(claim *InactivityClaim, nonce *big.Int, members []uint32) error {
	c.mu.Lock()
	c.claimSubmits = append(c.claimSubmits, c.bc.Height())
	c.mu.Unlock()
	return c.localChain.SubmitInactivityClaim(claim, nonce, members)
}

// c47NewChain resets the shared local chain for one case.
func c47NewChain(base *localChain, start uint64) *c47Chain {
	bc := verifkit.NewFakeBlockCounter(start)
	base.dkgMutex.Lock()
	base.dkgState = Idle
	base.dkgResult = nil
	base.dkgResultValid = true
	base.dkgMutex.Unlock()
	base.dkgResultSubmissionHandlers = map[int]func(*DKGResultSubmittedEvent){}
	base.dkgResultApprovalHandlers = map[int]func(*DKGResultApprovedEvent){}
	base.dkgResultChallengeHandlers = map[int]func(*DKGResultChallengedEvent){}
	base.inactivityClaimedHandlers = map[int]func(*InactivityClaimedEvent){}
	base.inactivityNonces = map[[32]byte]uint64{}
	base.dkgResultApprovalGuard = nil
	base.blockCounter = bc
	return &c47Chain{localChain: base, bc: bc, params: &DKGParameters{SubmissionTimeoutBlocks: 10, ChallengePeriodBlocks: 15, ApprovePrecedencePeriodBlocks: 5}}
}

// c47Waits is a waitForBlockFn over the fake counter with the semantics of
// node.waitForBlockHeight (returns when the block is reached or the context
// is done); it records which blocks were waited for and how the waits ended.
type c47Waits struct {
	bc *verifkit.FakeBlockCounter

	mu    sync.Mutex
	waits []*c47WaitRec

	// onEnter is called when a routine starts a wait (before the waiter is
	// registered) with the number of waits started so far
	onEnter func(count int)
	entered atomic.Int32
}

type c47WaitRec struct {
	block uint64
	ctx   context.Context
	state string // waiting | fired | cancelled
}

func (w *c47Waits) fn(ctx context.Context, block uint64) error {
	count := int(w.entered.Add(1))
	if w.onEnter != nil {
		w.onEnter(count)
	}
	ch, _ := w.bc.BlockHeightWaiter(block)
	rec := &c47WaitRec{block: block, ctx: ctx, state: "waiting"}
	w.mu.Lock()
	w.waits = append(w.waits, rec)
	w.mu.Unlock()
	select {
	case <-ch:
		w.mu.Lock()
		rec.state = "fired"
		w.mu.Unlock()
	case <-ctx.Done():
		w.mu.Lock()
		rec.state = "cancelled"
		w.mu.Unlock()
	}
	return nil
}

func (w *c47Waits) snapshot() (requested []uint64, fired, cancelled int) {
	w.mu.Lock()
	defer w.mu.Unlock()
	for _, r := range w.waits {
		requested = append(requested, r.block)
		switch r.state {
		case "fired":
			fired++
		case "cancelled":
			cancelled++
		}
	}
	return
}

// settled: at block height h, no wait that should have ended (block reached
// or context cancelled) is still registered as waiting; returns the number of
// waits still waiting.
func (w *c47Waits) settled(h uint64) (stillWaiting int, ok bool) {
	w.mu.Lock()
	defer w.mu.Unlock()
	for _, r := range w.waits {
		if r.state == "waiting" {
			if r.block <= h || r.ctx.Err() != nil {
				return 0, false
			}
			stillWaiting++
		}
	}
	return stillWaiting, true
}

// c47RecordOnly is a waitForBlockFn that records the block and returns at
// once: used to read the slot of every member of a large group cheaply.
func c47RecordOnly(rec *[]uint64) waitForBlockFn {
	return func(ctx context.Context, block uint64) error {
		*rec = append(*rec, block)
		return nil
	}
}

type c47Fixture struct {
	share *tecdsa.PrivateKeyShare
	base  *localChain
	opID  chain.OperatorID
	addr  chain.Address
}

func c47LoadFixture(t *testing.T) *c47Fixture {
	data, err := tecdsatest.LoadPrivateKeyShareTestFixtures(1)
	if err != nil {
		t.Fatalf("VERIF-INCONCLUSIVE: cannot load key share fixtures: %v", err)
	}
	base := Connect()
	addr, err := base.operatorAddress()
	if err != nil {
		t.Fatal(err)
	}
	id, err := base.GetOperatorID(addr)
	if err != nil {
		t.Fatal(err)
	}
	return &c47Fixture{share: tecdsa.NewPrivateKeyShare(data[0]), base: base, opID: id, addr: addr}
}

func c47GroupParams(t *rapid.T) *GroupParameters {
	n := rapid.SampledFrom([]int{1, 2, 3, 5, 8, 20, 100}).Draw(t, "groupSize")
	honest := n/2 + 1
	quorum := honest + (n-honest)/2
	if quorum > n {
		quorum = n
	}
	return &GroupParameters{GroupSize: n, GroupQuorum: quorum, HonestThreshold: honest}
}

func c47Sigs(n int) map[group.MemberIndex][]byte {
	m := map[group.MemberIndex][]byte{}
	for i := 1; i <= n; i++ {
		m[group.MemberIndex(i)] = []byte{byte(i)}
	}
	return m
}

func c47Selection(f *c47Fixture, n int) *GroupSelectionResult {
	ids := make(chain.OperatorIDs, n)
	addrs := make(chain.Addresses, n)
	for i := range ids {
		ids[i] = f.opID
		addrs[i] = f.addr
	}
	return &GroupSelectionResult{OperatorsIDs: ids, OperatorsAddresses: addrs}
}

func c47CheckSlotTable(t *rapid.T, what string, slots []uint64, ref uint64, step uint64, desc string) {
	owner := map[uint64]int{}
	for i, s := range slots {
		idx := i + 1
		if s < ref {
			t.Fatalf("%s: member %d waits for block %d, before the reference block %d; %s", what, idx, s, ref, desc)
		}
		if j, dup := owner[s]; dup {
			t.Fatalf("%s: members %d and %d share the slot at block %d; %s", what, j, idx, s, desc)
		}
		owner[s] = idx
		if want := ref + uint64(idx-1)*step; s != want {
			t.Fatalf("%s: member %d waits for block %d, expected reference + (index-1)*%d = %d; %s", what, idx, s, step, want, desc)
		}
	}
}

// TestVerif_C47_TbtcSlotTables: for one reference block the slots of all
// members are pairwise distinct, for the tECDSA DKG result submission
// (step 3), the inactivity claim (step 2) and the result approval (submitter
// at the start of the precedence period, member i at approve start +
// (i-1)*15).
func TestVerif_C47_TbtcSlotTables(t *testing.T) {
	st := verifkit.New("C47", "TestVerif_C47_TbtcSlotTables")
	defer st.Flush()
	f := c47LoadFixture(t)
	rapid.Check(t, func(t *rapid.T) {
		gp := c47GroupParams(t)
		n := gp.GroupSize
		ref := uint64(rapid.IntRange(1, 5_000_000).Draw(t, "referenceBlock"))
		desc := fmt.Sprintf("N=%d reference=%d", n, ref)

		// --- tECDSA DKG result submission
		ch := c47NewChain(f.base, ref)
		if err := ch.startDKG(); err != nil {
			t.Fatal(err)
		}
		var rec []uint64
		result := &dkg.Result{Group: group.NewGroup(gp.DishonestThreshold(), n), PrivateKeyShare: f.share}
		for i := 1; i <= n; i++ {
			// each member asks from the same reference block; its submission
			// is let through and the chain is put back to "awaiting result"
			sub := newDkgResultSubmitter(&testutils.MockLogger{}, ch, gp, c47Selection(f, n), c47RecordOnly(&rec))
			if err := sub.SubmitResult(context.Background(), group.MemberIndex(i), result, c47Sigs(n)); err != nil {
				t.Fatalf("SubmitResult member %d: %v; %s", i, err, desc)
			}
			ch.dkgMutex.Lock()
			ch.dkgState = AwaitingResult
			ch.dkgMutex.Unlock()
		}
		if len(rec) != n {
			t.Fatalf("DKG result: %d waits recorded for %d members; %s", len(rec), n, desc)
		}
		c47CheckSlotTable(t, "tECDSA DKG result", rec, ref, c47DkgSubmitStep, desc)

		// --- inactivity claim
		ch = c47NewChain(f.base, ref)
		pub := f.share.PublicKey()
		walletID := [32]byte{1, 2, 3}
		ch.setWallet(bitcoin.PublicKeyHash(pub), &WalletChainData{EcdsaWalletID: walletID})
		rec = nil
		members := make([]uint32, n)
		for i := 1; i <= n; i++ {
			sub := newInactivityClaimSubmitter(&testutils.MockLogger{}, ch, gp, members, c47RecordOnly(&rec))
			nonce, _ := ch.GetInactivityClaimNonce(walletID)
			claim := inactivity.NewClaimPreimage(nonce, pub, []group.MemberIndex{1}, true)
			if err := sub.SubmitClaim(context.Background(), group.MemberIndex(i), claim, c47Sigs(n)); err != nil {
				t.Fatalf("SubmitClaim member %d: %v; %s", i, err, desc)
			}
		}
		if len(rec) != n {
			t.Fatalf("inactivity claim: %d waits recorded for %d members; %s", len(rec), n, desc)
		}
		c47CheckSlotTable(t, "inactivity claim", rec, ref, c47InactivityStep, desc)

		// --- result approval: every member is controlled by this operator
		challenge := uint64(rapid.IntRange(0, 30).Draw(t, "challengePeriod"))
		precedence := uint64(rapid.IntRange(1, 10).Draw(t, "precedencePeriod"))
		submitter := group.MemberIndex(rapid.IntRange(1, n).Draw(t, "submitter"))
		ch = c47NewChain(f.base, ref)
		ch.params = &DKGParameters{SubmissionTimeoutBlocks: 10, ChallengePeriodBlocks: challenge, ApprovePrecedencePeriodBlocks: precedence}
		slots := c47ApprovalSlots(t, f, ch, gp, submitter, ref, nil)
		desc2 := fmt.Sprintf("%s challenge=%d precedence=%d submitter=%d", desc, challenge, precedence, submitter)
		owner := map[uint64]int{}
		for i := 1; i <= n; i++ {
			s, ok := slots[group.MemberIndex(i)]
			if !ok {
				t.Fatalf("approval: member %d never waited for a block; %s", i, desc2)
			}
			if j, dup := owner[s]; dup {
				t.Fatalf("approval: members %d and %d share the slot at block %d; %s", j, i, s, desc2)
			}
			owner[s] = i
			want := ref + challenge + 1
			if group.MemberIndex(i) != submitter {
				want += precedence + uint64(i-1)*c47ApproveStep
			}
			if s != want {
				t.Fatalf("approval: member %d waits for block %d, expected %d; %s", i, s, want, desc2)
			}
		}
		st.Case(n > 1, desc2, fmt.Sprintf("size:%d", n), fmt.Sprintf("submitter-first:%v", submitter == 1))
	})
}

// c47ApprovalSlots runs executeDkgValidation for a valid result in which the
// members `mine` (nil = all) belong to this operator and reports the block
// each of them waits for. The waits are then cancelled by an approval issued
// by the harness (an approval of "somebody else").
func c47ApprovalSlots(t *rapid.T, f *c47Fixture, ch *c47Chain, gp *GroupParameters, submitter group.MemberIndex, submissionBlock uint64, mine []group.MemberIndex) map[group.MemberIndex]uint64 {
	n := gp.GroupSize
	run := c47StartApproval(t, f, ch, gp, submitter, submissionBlock, mine)
	expected := n
	if mine != nil {
		expected = len(mine)
	}
	run.quiesce(t, ch, expected, "scheduling")
	// somebody else approves: everybody leaves
	if err := ch.localChain.ApproveDKGResult(run.result); err != nil {
		t.Fatalf("harness approval failed: %v", err)
	}
	run.quiesce(t, ch, expected, "the approval of somebody else")
	slots := run.slotByMember(t)
	// nobody approves afterwards, whatever block is reached
	var last uint64
	for _, b := range slots {
		if b > last {
			last = b
		}
	}
	ch.bc.AdvanceTo(last + 1)
	run.quiesce(t, ch, expected, "the last slot")
	if a := ch.approvalAttempts(); len(a) != 0 {
		t.Fatalf("approval attempts at blocks %v although the result was approved by somebody else at block %d, before every slot", a, submissionBlock)
	}
	return slots
}

// quiesce waits until every approval routine of the node is either parked in
// a wait for a future block or has returned.
func (r *c47ApprovalRun) quiesce(t *rapid.T, ch *c47Chain, routines int, after string) {
	if !verifkit.Eventually(c47Wait, func() bool {
		req, _, _ := r.waits.snapshot()
		if len(req) < routines {
			return false
		}
		waiting, ok := r.waits.settled(ch.bc.Height())
		return ok && ch.liveApprovalSubscriptions() == waiting
	}) {
		fmt.Println("VERIF-INCONCLUSIVE: approval routines did not settle after " + after)
		t.Fatalf("VERIF-INCONCLUSIVE: approval routines did not settle after %s", after)
	}
}

type c47ApprovalRun struct {
	waits     *c47Waits
	result    *DKGChainResult
	mine      []group.MemberIndex
	submitter group.MemberIndex
	params    *DKGParameters
	subBlock  uint64
}

// slotByMember maps the recorded waits to members: the goroutines are started
// in member order but run concurrently, so the mapping is by the model-free
// rule "the submitter is the only one inside the precedence period, everybody
// else is ordered by index" - it only needs the recorded blocks to be distinct.
func (r *c47ApprovalRun) slotByMember(t *rapid.T) map[group.MemberIndex]uint64 {
	req, _, _ := r.waits.snapshot()
	sort.Slice(req, func(i, j int) bool { return req[i] < req[j] })
	out := map[group.MemberIndex]uint64{}
	if len(req) != len(r.mine) {
		t.Fatalf("approval: %d waits recorded for %d controlled members", len(req), len(r.mine))
	}
	precedenceEnd := r.subBlock + r.params.ChallengePeriodBlocks + 1 + r.params.ApprovePrecedencePeriodBlocks
	var others []group.MemberIndex
	hasSubmitter := false
	for _, m := range r.mine {
		if m == r.submitter {
			hasSubmitter = true
		} else {
			others = append(others, m)
		}
	}
	sort.Slice(others, func(i, j int) bool { return others[i] < others[j] })
	rest := req
	if hasSubmitter {
		// the submitter's wait: the one before the end of the precedence
		// period if there is one, else (a violation reported by the caller
		// through the expected value) the smallest
		if req[0] < precedenceEnd {
			out[r.submitter] = req[0]
			rest = req[1:]
		} else {
			t.Fatalf("approval: the submitter (member %d) does not wait for a block inside the precedence period [%d,%d); waits: %v", r.submitter, precedenceEnd-r.params.ApprovePrecedencePeriodBlocks, precedenceEnd, req)
		}
	}
	for i, m := range others {
		out[m] = rest[i]
	}
	return out
}

func c47StartApproval(t *rapid.T, f *c47Fixture, ch *c47Chain, gp *GroupParameters, submitter group.MemberIndex, submissionBlock uint64, mine []group.MemberIndex) *c47ApprovalRun {
	n := gp.GroupSize
	sel := c47Selection(f, n)
	if mine == nil {
		for i := 1; i <= n; i++ {
			mine = append(mine, group.MemberIndex(i))
		}
	} else {
		other := f.opID + 1000
		isMine := map[group.MemberIndex]bool{}
		for _, m := range mine {
			isMine[m] = true
		}
		for i := 1; i <= n; i++ {
			if !isMine[group.MemberIndex(i)] {
				sel.OperatorsIDs[i-1] = other
			}
		}
	}
	if err := ch.startDKG(); err != nil {
		t.Fatal(err)
	}
	result := &dkg.Result{Group: group.NewGroup(gp.DishonestThreshold(), n), PrivateKeyShare: f.share}
	pk, err := result.GroupPublicKey()
	if err != nil {
		t.Fatal(err)
	}
	chainResult, err := ch.AssembleDKGResult(submitter, pk, result.Group.OperatingMemberIndexes(), result.MisbehavedMembersIndexes(), c47Sigs(n), sel)
	if err != nil {
		t.Fatal(err)
	}
	if err := ch.localChain.SubmitDKGResult(chainResult); err != nil {
		t.Fatal(err)
	}
	ch.lastResult = chainResult
	waits := &c47Waits{bc: ch.bc, onEnter: ch.onWaitEnter}
	de := &dkgExecutor{
		groupParameters: gp,
		operatorIDFn:    func() (chain.OperatorID, error) { return f.opID, nil },
		operatorAddress: f.addr,
		chain:           ch,
		waitForBlockFn:  waits.fn,
	}
	de.executeDkgValidation(big.NewInt(1), submissionBlock, chainResult, computeDkgChainResultHash(chainResult))
	return &c47ApprovalRun{waits: waits, result: chainResult, mine: mine, submitter: submitter, params: ch.params, subBlock: submissionBlock}
}

// c47DriveSubmit runs one tBTC submitter call (DKG result or inactivity claim)
// with a competing history and returns (blocks of on-chain submissions, error).
type c47SubmitPlan struct {
	kind       string // none | before | just-before | superseded-at-start
	eventBlock uint64
}

// TestVerif_C47_TbtcSubmitHistory: a member of a tECDSA group submitting a DKG
// result or an inactivity claim waits for reference + (index-1)*step, submits
// exactly once at that block and not at all when, before that block, its
// context was cancelled (result submitted / claim made by somebody else) or
// when the chain state already moved on when it starts.
func TestVerif_C47_TbtcSubmitHistory(t *testing.T) {
	st := verifkit.New("C47", "TestVerif_C47_TbtcSubmitHistory")
	defer st.Flush()
	f := c47LoadFixture(t)
	rapid.Check(t, func(t *rapid.T) {
		gp := c47GroupParams(t)
		n := gp.GroupSize
		what := rapid.SampledFrom([]string{"dkg-result", "inactivity-claim"}).Draw(t, "what")
		step := uint64(c47DkgSubmitStep)
		if what == "inactivity-claim" {
			step = c47InactivityStep
		}
		index := group.MemberIndex(rapid.IntRange(1, n).Draw(t, "member"))
		if n > 8 && rapid.Bool().Draw(t, "earlyMember") {
			index = group.MemberIndex(rapid.IntRange(1, 6).Draw(t, "memberEarly"))
		}
		ref := uint64(rapid.IntRange(1, 1_000_000).Draw(t, "referenceBlock"))
		slot := ref + uint64(index-1)*step
		kinds := []string{"none", "none", "superseded-at-start"}
		if slot > ref {
			kinds = append(kinds, "before", "before", "just-before", "just-before")
		}
		kinds = append(kinds, "during-query", "during-query")
		plan := c47SubmitPlan{kind: rapid.SampledFrom(kinds).Draw(t, "competing")}
		// the chain query of the submitter during which somebody else's
		// submission lands ("wait" = while it starts waiting for its block)
		landQuery := ""
		switch plan.kind {
		case "during-query":
			plan.eventBlock = ref
			if what == "dkg-result" {
				landQuery = rapid.SampledFrom([]string{"GetDKGState", "AssembleDKGResult", "IsDKGResultValid", "BlockCounter", "wait"}).Draw(t, "landsDuring")
			} else {
				landQuery = rapid.SampledFrom([]string{"GetWallet", "GetInactivityClaimNonce", "AssembleInactivityClaim", "BlockCounter", "wait"}).Draw(t, "landsDuring")
			}
		case "before":
			plan.eventBlock = uint64(rapid.IntRange(int(ref), int(slot)-1).Draw(t, "eventBlock"))
		case "just-before":
			plan.eventBlock = slot - 1
		}
		desc := fmt.Sprintf("%s N=%d member=%d reference=%d slot=%d competing=%s@%d", what, n, index, ref, slot, plan.kind, plan.eventBlock)
		if landQuery != "" {
			desc += " lands-during=" + landQuery
		}

		ch := c47NewChain(f.base, ref)
		waits := &c47Waits{bc: ch.bc}
		ctx, cancel := context.WithCancel(context.Background())
		defer cancel()
		done := make(chan error, 1)
		inactivityWallet := [32]byte{9, 9}
		var landed atomic.Bool
		land := func(name string) {
			if name != landQuery || landed.Swap(true) {
				return
			}
			// somebody else's submission is accepted and announced: the chain
			// state moves on and the upstream cancels the member's context
			if what == "dkg-result" {
				ch.dkgMutex.Lock()
				ch.dkgState = Challenge
				ch.dkgMutex.Unlock()
			} else {
				ch.inactivityNonceMutex.Lock()
				ch.inactivityNonces[inactivityWallet]++
				ch.inactivityNonceMutex.Unlock()
			}
			cancel()
		}
		if landQuery != "" {
			ch.onQuery = land
			waits.onEnter = func(int) { land("wait") }
		}
		switch what {
		case "dkg-result":
			if plan.kind != "superseded-at-start" {
				if err := ch.startDKG(); err != nil {
					t.Fatal(err)
				}
			}
			result := &dkg.Result{Group: group.NewGroup(gp.DishonestThreshold(), n), PrivateKeyShare: f.share}
			sub := newDkgResultSubmitter(&testutils.MockLogger{}, ch, gp, c47Selection(f, n), waits.fn)
			go func() { done <- sub.SubmitResult(ctx, index, result, c47Sigs(n)) }()
		default:
			pub := f.share.PublicKey()
			walletID := inactivityWallet
			ch.setWallet(bitcoin.PublicKeyHash(pub), &WalletChainData{EcdsaWalletID: walletID})
			if plan.kind == "superseded-at-start" {
				ch.inactivityNonces[walletID] = 1 // somebody's claim already went through
			}
			claim := inactivity.NewClaimPreimage(big.NewInt(0), pub, []group.MemberIndex{1}, true)
			sub := newInactivityClaimSubmitter(&testutils.MockLogger{}, ch, gp, make([]uint32, n), waits.fn)
			go func() { done <- sub.SubmitClaim(ctx, index, claim, c47Sigs(n)) }()
		}
		defer ch.bc.AdvanceTo(slot + 1)

		var result error
		finished := false
		waitDone := func(why string) {
			select {
			case result = <-done:
				finished = true
			case <-time.After(c47Wait):
				fmt.Println("VERIF-INCONCLUSIVE: tBTC submitter did not return after " + why)
				t.Fatalf("VERIF-INCONCLUSIVE: submitter did not return after %s; %s", why, desc)
			}
		}
		// the member either returns at once (state moved on / slot == reference)
		// or starts waiting for a block
		if !verifkit.Eventually(c47Wait, func() bool { r, _, _ := waits.snapshot(); return len(r) > 0 || len(done) > 0 }) {
			fmt.Println("VERIF-INCONCLUSIVE: tBTC submitter neither waits nor returns")
			t.Fatalf("VERIF-INCONCLUSIVE: submitter stuck; %s", desc)
		}
		if plan.kind == "during-query" {
			if !landed.Load() {
				t.Fatalf("the member never made the chain query %q; %s", landQuery, desc)
			}
			// cancelled while it was still preparing: it leaves by itself
			waitDone("somebody else's submission landing during " + landQuery)
		}
		for !finished {
			select {
			case result = <-done:
				finished = true
				continue
			default:
			}
			h := ch.bc.Height()
			if (plan.kind == "before" || plan.kind == "just-before") && h == plan.eventBlock {
				cancel() // the upstream cancels the context on the event
				waitDone("its context was cancelled")
				continue
			}
			if h > slot+1 {
				t.Fatalf("member still running at block %d, after its slot %d; %s", h, slot, desc)
			}
			before, _ := ch.bc.Pending()
			if before == 0 {
				// waiting for a block that is already there: it returns by itself
				waitDone("a wait for a block already reached")
				continue
			}
			ch.bc.Advance(1)
			if after, _ := ch.bc.Pending(); after < before {
				waitDone(fmt.Sprintf("block %d", h+1))
			}
		}
		ch.mu.Lock()
		blocks := append([]uint64{}, ch.dkgSubmits...)
		if what == "inactivity-claim" {
			blocks = append([]uint64{}, ch.claimSubmits...)
		}
		ch.mu.Unlock()
		requested, _, _ := waits.snapshot()
		full := fmt.Sprintf("%s -> waited for %v, submitted at %v, result %v", desc, requested, blocks, result)
		if result != nil {
			t.Fatalf("unexpected error %v; %s", result, full)
		}
		for _, b := range blocks {
			if b < slot {
				t.Fatalf("member submitted at block %d, before its slot %d; %s", b, slot, full)
			}
		}
		switch plan.kind {
		case "none":
			if len(blocks) != 1 || blocks[0] != slot {
				t.Fatalf("expected exactly one submission at block %d; %s", slot, full)
			}
		case "superseded-at-start":
			if len(blocks) != 0 {
				t.Fatalf("member submitted although the chain had already moved on when it started; %s", full)
			}
		default:
			if len(blocks) != 0 {
				t.Fatalf("member submitted although it learnt at block %d, before its slot %d, that somebody else had submitted; %s", plan.eventBlock, slot, full)
			}
		}
		st.Case(plan.kind == "just-before" || plan.kind == "before" || plan.kind == "during-query", full, "what:"+what, "competing:"+plan.kind, fmt.Sprintf("size:%d", n))
	})
}

// TestVerif_C47_TbtcApprovalHistory: the members of one operator approve a
// valid DKG result. Approval attempts happen exactly at the members' slots, in
// slot order, one per slot, and stop with the first approval that goes through
// (their own, after a drawn number of rejected attempts, or somebody else's at
// a drawn block); nobody approves before its slot.
func TestVerif_C47_TbtcApprovalHistory(t *testing.T) {
	st := verifkit.New("C47", "TestVerif_C47_TbtcApprovalHistory")
	defer st.Flush()
	f := c47LoadFixture(t)
	rapid.Check(t, func(t *rapid.T) {
		n := rapid.SampledFrom([]int{2, 3, 5, 8, 12, 3, 5, 1}).Draw(t, "groupSize")
		honest := n/2 + 1
		gp := &GroupParameters{GroupSize: n, GroupQuorum: honest + (n-honest)/2, HonestThreshold: honest}
		all := make([]group.MemberIndex, n)
		for i := range all {
			all[i] = group.MemberIndex(i + 1)
		}
		k := rapid.IntRange(1, n).Draw(t, "controlled")
		if n >= 2 && rapid.Bool().Draw(t, "severalControlled") {
			k = rapid.IntRange(2, min(n, 5)).Draw(t, "controlledSeveral")
		}
		mine := append([]group.MemberIndex{}, rapid.Permutation(all).Draw(t, "controlledMembers")[:k]...)
		sort.Slice(mine, func(i, j int) bool { return mine[i] < mine[j] })
		submitter := group.MemberIndex(rapid.IntRange(1, n).Draw(t, "submitter"))
		if rapid.Bool().Draw(t, "submitterIsMine") {
			submitter = mine[rapid.IntRange(0, k-1).Draw(t, "submitterOfMine")]
		}
		subBlock := uint64(rapid.IntRange(1, 1_000_000).Draw(t, "submissionBlock"))
		challenge := uint64(rapid.IntRange(0, 12).Draw(t, "challengePeriod"))
		precedence := uint64(rapid.IntRange(1, 6).Draw(t, "precedencePeriod"))
		// expected slots of my members (design formula), in slot order
		type slotOf struct {
			m group.MemberIndex
			b uint64
		}
		var exp []slotOf
		for _, m := range mine {
			b := subBlock + challenge + 1
			if m != submitter {
				b += precedence + uint64(m-1)*c47ApproveStep
			}
			exp = append(exp, slotOf{m, b})
		}
		sort.Slice(exp, func(i, j int) bool { return exp[i].b < exp[j].b })
		// history: the first `rejected` attempts of my members are refused by
		// the chain; optionally somebody else approves at a drawn block
		rejected := rapid.IntRange(0, k).Draw(t, "rejectedAttempts")
		if rapid.SampledFrom([]bool{false, false, true}).Draw(t, "firstGoesThrough") {
			rejected = 0
		}
		// "during-wait": somebody else's approval lands while the last of the
		// operator's routines is starting its wait (all are subscribed then)
		external := rapid.SampledFrom([]string{"none", "none", "between", "just-before", "during-wait"}).Draw(t, "externalApproval")
		var externalBlock uint64
		last := exp[len(exp)-1].b
		switch external {
		case "between":
			externalBlock = uint64(rapid.IntRange(int(subBlock), int(last)).Draw(t, "externalBlock"))
		case "just-before":
			externalBlock = exp[rapid.IntRange(0, len(exp)-1).Draw(t, "externalBeforeSlotOf")].b - 1
		case "during-wait":
			externalBlock = subBlock
		}
		desc := fmt.Sprintf("N=%d mine=%v submitter=%d submission=%d challenge=%d precedence=%d rejected=%d external=%s@%d",
			n, mine, submitter, subBlock, challenge, precedence, rejected, external, externalBlock)

		ch := c47NewChain(f.base, subBlock)
		ch.params = &DKGParameters{SubmissionTimeoutBlocks: 10, ChallengePeriodBlocks: challenge, ApprovePrecedencePeriodBlocks: precedence}
		ch.rejectFirst = rejected
		externalDone := false
		var landErr error
		if external == "during-wait" {
			externalDone = true
			ch.onWaitEnter = func(count int) {
				if count == k {
					landErr = ch.localChain.ApproveDKGResult(ch.lastResult)
				}
			}
		}
		run := c47StartApproval(t, f, ch, gp, submitter, subBlock, mine)
		run.quiesce(t, ch, k, "scheduling")
		if landErr != nil {
			t.Fatalf("harness approval failed: %v; %s", landErr, desc)
		}
		for h := subBlock; h <= last+1; h++ {
			ch.bc.AdvanceTo(h)
			run.quiesce(t, ch, k, fmt.Sprintf("block %d", h))
			if external != "none" && !externalDone && h == externalBlock {
				if state, _ := ch.GetDKGState(); state == Challenge {
					if err := ch.localChain.ApproveDKGResult(run.result); err != nil {
						t.Fatalf("harness approval failed: %v; %s", err, desc)
					}
					externalDone = true
					run.quiesce(t, ch, k, "the approval of somebody else")
				}
			}
		}
		if live := ch.liveApprovalSubscriptions(); live != 0 {
			t.Fatalf("%d approval routines still alive one block after the last slot %d; %s", live, last, desc)
		}
		got := ch.approvalAttempts()

		// expected attempts: my members in slot order until one goes through
		// or somebody else's approval is seen before the slot
		var want []uint64
		for i, e := range exp {
			if externalDone && externalBlock < e.b {
				break
			}
			want = append(want, e.b)
			if i+1 > rejected {
				break
			}
		}
		full := fmt.Sprintf("%s -> attempts at %v", desc, got)
		if fmt.Sprint(got) != fmt.Sprint(want) {
			t.Fatalf("approval attempts at blocks %v, expected %v (slots %v); %s", got, want, exp, full)
		}
		nt := rejected > 0 || external == "just-before"
		st.Case(nt, full, fmt.Sprintf("rejected:%d", min(rejected, 3)), "external:"+external, fmt.Sprintf("submitter-mine:%v", c47Contains(mine, submitter)), fmt.Sprintf("controlled:%d", min(k, 4)))
	})
}

func c47Contains(l []group.MemberIndex, m group.MemberIndex) bool {
	for _, x := range l {
		if x == m {
			return true
		}
	}
	return false
}
