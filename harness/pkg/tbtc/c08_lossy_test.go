//go:build go1.23

package tbtc

// C08, production path over an imperfect network: the real signingExecutor.sign
// (see c08_executor_test.go) with a wrapper around the wallet broadcast channel
// that loses the FIRST transmissions of drawn messages. A lost message gets
// through with a later retransmission - after a drawn number of further
// messages on the channel, when its sender announces that it is done, or when
// the channel falls silent - provided the context it was sent with is still
// alive at that moment: that is exactly what the real network layer does
// (it retransmits a message for as long as the sender's context lives).
// All signers are honest and online, so the quorum must still sign.

import (
	"context"
	"crypto/ecdsa"
	"fmt"
	"math/big"
	"sort"
	"strings"
	"sync"
	"testing"
	"time"

	"github.com/keep-network/keep-core/internal/verifkit"
	"github.com/keep-network/keep-core/pkg/net"
	"github.com/keep-network/keep-core/pkg/protocol/group"
	"github.com/keep-network/keep-core/pkg/tecdsa"
	"github.com/keep-network/keep-core/pkg/tecdsa/signing"
	"pgregory.net/rapid"
)

const c08DonePhase = c08SigningPhases // the signing done message comes after the ten protocol phases

type c08LossRule struct {
	trigger string // "sender-done" | "silence" | "sends"
	sends   int    // for "sends": further messages on the channel until a retransmission gets through
	twice   bool   // two retransmissions get through
}

func (r c08LossRule) String() string {
	s := r.trigger
	if r.trigger == "sends" {
		s = fmt.Sprintf("after-%d-sends", r.sends)
	}
	if r.twice {
		s += "+dup"
	}
	return s
}

type c08LostMessage struct {
	ctx      context.Context
	sender   group.MemberIndex
	msg      net.TaggedMarshaler
	strategy []net.RetransmissionStrategy
	rule     c08LossRule
	dueAt    int // value of the send counter at which a retransmission gets through ("sends")
}

type c08LossyChannel struct {
	net.BroadcastChannel

	// "k/phase" -> how the first transmissions of the phase's message of the
	// k-th signer to send it in a signing session are lost (the pattern does
	// not depend on who the signers of an attempt are, so it repeats in
	// every attempt of the retry loop)
	plan   map[string]c08LossRule
	order  map[string][]group.MemberIndex // "session/phase" -> senders in order of first transmission
	phases map[string]int                 // message type -> phase

	mu       sync.Mutex
	lost     []*c08LostMessage
	sends    int
	lastSend time.Time
	stats    map[string]int
	stop     chan struct{}
	stopped  sync.WaitGroup
}

var (
	c08PhasesOnce sync.Once
	c08PhaseOf    map[string]int
)

// c08SigningPhaseMap lists the signing protocol's message types in protocol
// order, as the protocol itself registers them.
func c08SigningPhaseMap() map[string]int {
	c08PhasesOnce.Do(func() {
		hub := c08NewHub(nil, nil, nil)
		signing.RegisterUnmarshallers(&c08Chan{hub, 0})
		c08PhaseOf = map[string]int{}
		for typ, i := range hub.typeOrder {
			c08PhaseOf[typ] = i
		}
		c08PhaseOf[(&signingDoneMessage{}).Type()] = c08DonePhase
	})
	return c08PhaseOf
}

func c08NewLossyChannel(under net.BroadcastChannel, plan map[string]c08LossRule) *c08LossyChannel {
	lc := &c08LossyChannel{BroadcastChannel: under, plan: plan, phases: c08SigningPhaseMap(),
		order: map[string][]group.MemberIndex{}, stats: map[string]int{}, lastSend: time.Now(), stop: make(chan struct{})}
	lc.stopped.Add(1)
	go func() {
		defer lc.stopped.Done()
		tick := time.NewTicker(50 * time.Millisecond)
		defer tick.Stop()
		for {
			select {
			case <-lc.stop:
				return
			case <-tick.C:
				// the channel fell silent: whoever waits for a lost message gets
				// it with the next retransmission (schedule shaping only)
				lc.mu.Lock()
				var due, keep []*c08LostMessage
				silence := time.Since(lc.lastSend)
				for _, l := range lc.lost {
					// a message waiting for its sender to finish is given up
					// waiting for only when nothing moves any more (two signers
					// waiting for each other's last message)
					if (l.rule.trigger != "sender-done" && silence > 300*time.Millisecond) || silence > 1500*time.Millisecond {
						due = append(due, l)
					} else {
						keep = append(keep, l)
					}
				}
				lc.lost = keep
				lc.mu.Unlock()
				lc.retransmit(due)
			}
		}
	}()
	return lc
}

func (lc *c08LossyChannel) close() {
	close(lc.stop)
	lc.stopped.Wait()
}

// retransmit lets one later transmission of each message through - if its
// sender still retransmits it.
func (lc *c08LossyChannel) retransmit(list []*c08LostMessage) {
	for _, l := range list {
		if l.ctx.Err() != nil {
			lc.mu.Lock()
			lc.stats["no-longer-retransmitted"]++
			lc.mu.Unlock()
			continue
		}
		n := 1
		if l.rule.twice {
			n = 2
		}
		for i := 0; i < n; i++ {
			_ = lc.BroadcastChannel.Send(l.ctx, l.msg, l.strategy...)
		}
		lc.mu.Lock()
		lc.stats["retransmission-got-through"]++
		lc.mu.Unlock()
	}
}

func (lc *c08LossyChannel) Send(ctx context.Context, m net.TaggedMarshaler, strategy ...net.RetransmissionStrategy) error {
	phase, known := lc.phases[m.Type()]
	var sender group.MemberIndex
	var session string
	if done, ok := m.(*signingDoneMessage); ok {
		sender, session = done.senderID, fmt.Sprintf("%v-%v", done.message.Text(16), done.attemptNumber)
	} else if pm, ok := m.(interface {
		SenderID() group.MemberIndex
		SessionID() string
	}); ok {
		sender, session = pm.SenderID(), pm.SessionID()
	} else {
		known = false
	}
	if !known {
		// announcements etc. are not touched
		return lc.BroadcastChannel.Send(ctx, m, strategy...)
	}
	lc.mu.Lock()
	orderKey := fmt.Sprintf("%s/%d", session, phase)
	k := 0
	for i, s := range lc.order[orderKey] {
		if s == sender {
			k = i + 1
		}
	}
	if k == 0 {
		lc.order[orderKey] = append(lc.order[orderKey], sender)
		k = len(lc.order[orderKey])
	}
	rule, lose := lc.plan[fmt.Sprintf("%d/%d", k, phase)]
	lc.sends++
	lc.lastSend = time.Now()
	var before, after, keep []*c08LostMessage
	for _, l := range lc.lost {
		switch {
		case phase == c08DonePhase && l.sender == sender && l.rule.trigger == "sender-done":
			before = append(before, l)
		case l.rule.trigger == "sends" && lc.sends >= l.dueAt:
			after = append(after, l)
		default:
			keep = append(keep, l)
		}
	}
	lc.lost = keep
	if lose {
		lc.lost = append(lc.lost, &c08LostMessage{ctx: ctx, sender: sender, msg: m, strategy: strategy, rule: rule, dueAt: lc.sends + rule.sends})
		lc.stats["first-transmissions-lost"]++
		if phase == c08SigningPhases-1 {
			lc.stats["last-protocol-message-lost"]++
		}
	}
	lc.mu.Unlock()

	lc.retransmit(before)
	var err error
	if !lose {
		err = lc.BroadcastChannel.Send(ctx, m, strategy...)
	}
	lc.retransmit(after)
	return err
}

func c08DrawLossPlan(t *rapid.T) map[string]c08LossRule {
	plan := map[string]c08LossRule{}
	if rapid.IntRange(0, 9).Draw(t, "lossless") == 5 {
		return plan
	}
	draw := func(k, phase int, triggers []string) {
		r := c08LossRule{trigger: rapid.SampledFrom(triggers).Draw(t, fmt.Sprintf("trigger-%d/%d", k, phase))}
		if r.trigger == "sends" {
			r.sends = rapid.IntRange(1, 4).Draw(t, fmt.Sprintf("sends-%d/%d", k, phase))
		}
		r.twice = rapid.IntRange(0, 9).Draw(t, fmt.Sprintf("twice-%d/%d", k, phase)) == 0
		plan[fmt.Sprintf("%d/%d", k, phase)] = r
	}
	last := c08SigningPhases - 1
	for k := 1; k <= 5; k++ {
		for phase := 0; phase <= c08DonePhase; phase++ {
			if phase == last {
				continue
			}
			v := rapid.IntRange(0, 11).Draw(t, fmt.Sprintf("lose-%d/%d", k, phase))
			if v < 2 && phase < last || v < 1 {
				// a signer cannot be done before the others have these
				draw(k, phase, []string{"silence", "sends"})
			}
		}
	}
	// The last protocol message is the one its sender needs no answer to: the
	// sender finishes without knowing whether it arrived. Mostly exactly one
	// signer's last message arrives only with a retransmission after that
	// signer finished; sometimes none or two (two wait for each other).
	late := rapid.SampledFrom([]int{1, 1, 1, 2, 0}).Draw(t, "lateLastMessages")
	pos := rapid.Permutation([]int{1, 2, 3}).Draw(t, "lateLastMessagePositions")
	for i, k := range pos {
		switch {
		case i < late:
			draw(k, last, []string{"sender-done", "sender-done", "silence"})
		case rapid.IntRange(0, 3).Draw(t, fmt.Sprintf("lose-%d/%d", k, last)) == 0:
			draw(k, last, []string{"silence", "sends"})
		}
	}
	return plan
}

func c08DescribeLossPlan(plan map[string]c08LossRule) string {
	var l []string
	for k, r := range plan {
		l = append(l, k+":"+r.String())
	}
	sort.Strings(l)
	return "lost-first-transmissions(k-th-sender/phase:retransmission)=[" + strings.Join(l, " ") + "]"
}

func TestVerif_C08_SigningExecutorLossy(t *testing.T) {
	st := verifkit.New("C08", "TestVerif_C08_SigningExecutorLossy")
	defer st.Flush()
	rapid.Check(t, func(t *rapid.T) {
		k := rapid.SampledFrom([]int{0, 1, 1, 2}).Draw(t, "excludedCount")
		perm := rapid.Permutation([]int{1, 2, 3, 4, 5}).Draw(t, "excludedPerm")
		excluded := map[group.MemberIndex]bool{}
		for _, p := range perm[:k] {
			excluded[group.MemberIndex(p)] = true
		}
		message, kind := c08DrawMessage(t, "message")
		plan := c08DrawLossPlan(t)
		desc := fmt.Sprintf("executor path: excluded=%v message=%s %s", c08xKeys(excluded), message.Text(16), c08DescribeLossPlan(plan))

		run := func(plan map[string]c08LossRule, attempts uint) (*tecdsa.Signature, *ecdsa.PublicKey, error, map[string]int) {
			var lc *c08LossyChannel
			sig, pub, err := c08xSignWith(t, excluded, message, attempts, func(ch net.BroadcastChannel) net.BroadcastChannel {
				lc = c08NewLossyChannel(ch, plan)
				return lc
			})
			stats := map[string]int{}
			if lc != nil {
				lc.close()
				lc.mu.Lock()
				for k, v := range lc.stats {
					stats[k] = v
				}
				lc.mu.Unlock()
			}
			return sig, pub, err, stats
		}

		sig, pub, err, stats := run(plan, 3)
		labels := []string{fmt.Sprintf("excluded:%d", len(excluded)), "msg:" + kind}
		if err != nil {
			// Honest and online signers could not sign. Slow machine or a
			// defect? The same wallet and message over the same wrapper
			// without any loss, then the lossy plan once more.
			_, _, cerr, _ := run(map[string]c08LossRule{}, 6)
			if cerr != nil {
				fmt.Printf("VERIF-INCONCLUSIVE: C08 lossy executor signing and its lossless control both failed (%v / %v)\n", err, cerr)
				t.Fatalf("VERIF-INCONCLUSIVE: machine too slow")
			}
			sig2, pub2, err2, stats2 := run(plan, 3)
			if err2 != nil {
				t.Fatalf("honest and online signers could not sign through the signing executor when the first transmissions of some messages are lost and a later retransmission gets through (twice: %v / %v; channel %v / %v) while the same wallet signs the same message over a lossless channel; %s",
					err, err2, stats, stats2, desc)
			}
			st.Note("a lossy run failed once (%v, channel %v) and passed when repeated after a passing control: attributed to machine load; %s", err, stats, desc)
			labels = append(labels, "failed-once-then-passed")
			sig, pub, stats = sig2, pub2, stats2
		}
		hash := make([]byte, 32)
		message.FillBytes(hash)
		if !ecdsa.Verify(pub, hash, sig.R, sig.S) {
			t.Fatalf("signature produced by the signing executor does not verify under the wallet public key; %s", desc)
		}
		if sig.S.Cmp(new(big.Int).Rsh(tecdsa.Curve.Params().N, 1)) > 0 {
			t.Fatalf("signature produced by the signing executor has a high S value; %s", desc)
		}
		for k, v := range stats {
			if v > 0 {
				labels = append(labels, "channel:"+k)
			}
		}
		if len(plan) == 0 {
			labels = append(labels, "lossless")
		}
		st.Case(len(plan) > 0, desc, labels...)
	})
}
