//go:build go1.23

package tbtc

import (
	"crypto/sha256"
	"encoding/binary"
	"fmt"
	"strings"
	"testing"

	"github.com/keep-network/keep-core/internal/verifkit"
	"github.com/keep-network/keep-core/pkg/bitcoin"
	"pgregory.net/rapid"
)

// ---------------------------------------------------------------------------
// generated world: confirmed transactions (in block order) and mempool
// transactions with explicit spend relations; the Bitcoin and Bridge stubs
// answer from it following the documented semantics of bitcoin.Chain.

const (
	c34WalletP2PKH  = iota // pays the wallet, legacy
	c34WalletP2WPKH        // pays the wallet, witness
	c34OtherP2WPKH         // pays somebody else (same script shape)
	c34OtherP2PKH          // pays somebody else, legacy
	c34EmbedsPKH           // P2SH whose hash bytes equal the wallet PKH
)

type c34Op struct {
	hash  bitcoin.Hash
	index uint32
}

type c34OutInfo struct {
	kind    int
	value   int64
	spentBy int // index into world.txs of the spender, -1 unspent
}

type c34Tx struct {
	tx      *bitcoin.Transaction
	hash    bitcoin.Hash
	mempool bool
	outs    []*c34OutInfo
	touches bool // pays the wallet or spends from it (is part of its history)
	tag     string
}

type c34World struct {
	pkh        [20]byte
	other      [20]byte
	txs        []*c34Tx
	byHash     map[bitcoin.Hash]*c34Tx
	deposits   map[c34Op]bool
	movedReqs  map[c34Op]bool
	registered [32]byte
	counter    uint32
	// observations made by the stubs
	wrongPkh bool
	// fault plan: the n-th chain query (counted over both chains) fails,
	// once (transient) or from then on (outage); -1 = healthy chains
	faultAt     int
	faultSticky bool
	queries     int
	faulted     string
}

var errC34Fault = fmt.Errorf("c34: injected chain fault (request timed out)")

// query counts one chain query and says whether it is to fail.
func (w *c34World) query(name string) error {
	n := w.queries
	w.queries++
	if w.faultAt >= 0 && (n == w.faultAt || (w.faultSticky && n > w.faultAt)) {
		if w.faulted == "" {
			w.faulted = name
		}
		return errC34Fault
	}
	return nil
}

// c34ArmFault: after a healthy run that made n chain queries, draw which of
// them fails when the same flow is run again (transient or persistent).
func c34ArmFault(t *rapid.T, w *c34World) bool {
	n := w.queries
	if n == 0 || !rapid.Bool().Draw(t, "rerunWithChainFault") {
		return false
	}
	w.queries, w.faulted = 0, ""
	w.faultAt = rapid.IntRange(0, n-1).Draw(t, "faultAtQuery")
	w.faultSticky = rapid.Bool().Draw(t, "faultPersists")
	return true
}

func (o *c34OutInfo) isWallet() bool { return o.kind == c34WalletP2PKH || o.kind == c34WalletP2WPKH }

func c34Script(kind int, pkh, other [20]byte) bitcoin.Script {
	switch kind {
	case c34WalletP2PKH:
		return append(append([]byte{0x76, 0xa9, 0x14}, pkh[:]...), 0x88, 0xac)
	case c34WalletP2WPKH:
		return append([]byte{0x00, 0x14}, pkh[:]...)
	case c34OtherP2WPKH:
		return append([]byte{0x00, 0x14}, other[:]...)
	case c34OtherP2PKH:
		return append(append([]byte{0x76, 0xa9, 0x14}, other[:]...), 0x88, 0xac)
	default:
		return append(append([]byte{0xa9, 0x14}, pkh[:]...), 0x87)
	}
}

func c34MainUtxoHash(h bitcoin.Hash, index uint32, value int64) [32]byte {
	buf := make([]byte, 0, 64)
	buf = append(buf, "c34-main-utxo"...)
	buf = append(buf, h[:]...)
	buf = binary.LittleEndian.AppendUint32(buf, index)
	buf = binary.LittleEndian.AppendUint64(buf, uint64(value))
	return sha256.Sum256(buf)
}

func c34NewWorld(t *rapid.T) *c34World {
	w := &c34World{byHash: map[bitcoin.Hash]*c34Tx{}, deposits: map[c34Op]bool{}, movedReqs: map[c34Op]bool{}, faultAt: -1}
	copy(w.pkh[:], rapid.SliceOfN(rapid.Byte(), 20, 20).Draw(t, "walletPkh"))
	copy(w.other[:], rapid.SliceOfN(rapid.Byte(), 20, 20).Draw(t, "otherPkh"))
	if w.other == w.pkh {
		w.other[0] ^= 0xff
	}
	return w
}

func (w *c34World) externalOutpoint() c34Op {
	w.counter++
	var h bitcoin.Hash
	binary.LittleEndian.PutUint32(h[:], w.counter)
	h[31] = 0x34
	return c34Op{h, w.counter % 3}
}

// add records a transaction. inputs: outpoints; kinds/values: outputs.
func (w *c34World) add(mempool bool, inputs []c34Op, kinds []int, values []int64, tag string) *c34Tx {
	tx := &bitcoin.Transaction{Version: 1}
	for _, in := range inputs {
		tx.Inputs = append(tx.Inputs, &bitcoin.TransactionInput{
			Outpoint: &bitcoin.TransactionOutpoint{TransactionHash: in.hash, OutputIndex: in.index},
			Sequence: 0xffffffff,
		})
	}
	rec := &c34Tx{tx: tx, mempool: mempool, tag: tag}
	for i, k := range kinds {
		tx.Outputs = append(tx.Outputs, &bitcoin.TransactionOutput{Value: values[i], PublicKeyScript: c34Script(k, w.pkh, w.other)})
		info := &c34OutInfo{kind: k, value: values[i], spentBy: -1}
		rec.outs = append(rec.outs, info)
		if info.isWallet() {
			rec.touches = true
		}
	}
	rec.hash = tx.Hash()
	self := len(w.txs)
	for _, in := range inputs {
		if prev, ok := w.byHash[in.hash]; ok && int(in.index) < len(prev.outs) {
			prev.outs[in.index].spentBy = self
			if prev.outs[in.index].isWallet() {
				rec.touches = true
			}
		}
	}
	w.txs = append(w.txs, rec)
	w.byHash[rec.hash] = rec
	return rec
}

type c34Ref struct {
	tx  *c34Tx
	idx int
}

func (r c34Ref) utxo() *bitcoin.UnspentTransactionOutput {
	return &bitcoin.UnspentTransactionOutput{
		Outpoint: &bitcoin.TransactionOutpoint{TransactionHash: r.tx.hash, OutputIndex: uint32(r.idx)},
		Value:    r.tx.outs[r.idx].value,
	}
}

func (r c34Ref) String() string {
	return fmt.Sprintf("%s#%d", r.tx.tag, r.idx)
}

// wallet outputs, optionally filtered
func (w *c34World) walletOutputs(filter func(*c34Tx, *c34OutInfo) bool) []c34Ref {
	var out []c34Ref
	for _, tx := range w.txs {
		for i, o := range tx.outs {
			if o.isWallet() && (filter == nil || filter(tx, o)) {
				out = append(out, c34Ref{tx, i})
			}
		}
	}
	return out
}

func (w *c34World) render() string {
	var sb strings.Builder
	for _, tx := range w.txs {
		sb.WriteString(tx.tag)
		if tx.mempool {
			sb.WriteString("(mem)")
		}
		sb.WriteString("[")
		for i, o := range tx.outs {
			if i > 0 {
				sb.WriteString(" ")
			}
			sb.WriteString([]string{"Wl", "Ww", "o", "ol", "sh"}[o.kind])
			if o.spentBy >= 0 {
				fmt.Fprintf(&sb, ">%s", w.txs[o.spentBy].tag)
			}
		}
		sb.WriteString("] ")
	}
	return sb.String()
}

// --- stubs ------------------------------------------------------------------

type c34Btc struct {
	bitcoin.Chain
	w *c34World
}

func (b *c34Btc) GetTransaction(h bitcoin.Hash) (*bitcoin.Transaction, error) {
	if err := b.w.query("GetTransaction"); err != nil {
		return nil, err
	}
	if tx, ok := b.w.byHash[h]; ok {
		return tx.tx, nil
	}
	return nil, fmt.Errorf("c34: transaction not found")
}

// confirmed transactions that pay the wallet or spend from it, in block
// order; like the Electrum implementation (P2PKH history + P2WPKH history,
// stable-sorted by height) a transaction touching both scripts is listed twice.
func (b *c34Btc) GetTxHashesForPublicKeyHash(pkh [20]byte) ([]bitcoin.Hash, error) {
	if err := b.w.query("GetTxHashesForPublicKeyHash"); err != nil {
		return nil, err
	}
	if pkh != b.w.pkh {
		b.w.wrongPkh = true
	}
	var out []bitcoin.Hash
	for _, tx := range b.w.txs {
		if tx.mempool || !tx.touches {
			continue
		}
		out = append(out, tx.hash)
		legacy, witness := false, false
		for _, o := range tx.outs {
			legacy = legacy || o.kind == c34WalletP2PKH
			witness = witness || o.kind == c34WalletP2WPKH
		}
		if legacy && witness {
			out = append(out, tx.hash)
		}
	}
	return out, nil
}

func (b *c34Btc) utxos(pkh [20]byte, mempool bool) []*bitcoin.UnspentTransactionOutput {
	if pkh != b.w.pkh {
		b.w.wrongPkh = true
	}
	out := []*bitcoin.UnspentTransactionOutput{}
	for _, tx := range b.w.txs {
		if tx.mempool != mempool {
			continue
		}
		for i, o := range tx.outs {
			if o.isWallet() && o.spentBy < 0 {
				out = append(out, c34Ref{tx, i}.utxo())
			}
		}
	}
	return out
}

func (b *c34Btc) GetUtxosForPublicKeyHash(pkh [20]byte) ([]*bitcoin.UnspentTransactionOutput, error) {
	if err := b.w.query("GetUtxosForPublicKeyHash"); err != nil {
		return nil, err
	}
	return b.utxos(pkh, false), nil
}

func (b *c34Btc) GetMempoolUtxosForPublicKeyHash(pkh [20]byte) ([]*bitcoin.UnspentTransactionOutput, error) {
	if err := b.w.query("GetMempoolUtxosForPublicKeyHash"); err != nil {
		return nil, err
	}
	return b.utxos(pkh, true), nil
}

type c34Bridge struct {
	BridgeChain
	w *c34World
}

func (b *c34Bridge) GetWallet(pkh [20]byte) (*WalletChainData, error) {
	if err := b.w.query("GetWallet"); err != nil {
		return nil, err
	}
	if pkh != b.w.pkh {
		b.w.wrongPkh = true
	}
	return &WalletChainData{MainUtxoHash: b.w.registered, State: StateLive}, nil
}

func (b *c34Bridge) ComputeMainUtxoHash(u *bitcoin.UnspentTransactionOutput) [32]byte {
	return c34MainUtxoHash(u.Outpoint.TransactionHash, u.Outpoint.OutputIndex, u.Value)
}

func (b *c34Bridge) GetDepositRequest(h bitcoin.Hash, index uint32) (*DepositChainRequest, bool, error) {
	if err := b.w.query("GetDepositRequest"); err != nil {
		return nil, false, err
	}
	if b.w.deposits[c34Op{h, index}] {
		return &DepositChainRequest{Amount: 1}, true, nil
	}
	return nil, false, nil
}

func (b *c34Bridge) GetMovedFundsSweepRequest(h bitcoin.Hash, index uint32) (*MovedFundsSweepRequest, bool, error) {
	if err := b.w.query("GetMovedFundsSweepRequest"); err != nil {
		return nil, false, err
	}
	if b.w.movedReqs[c34Op{h, index}] {
		return &MovedFundsSweepRequest{WalletPublicKeyHash: b.w.pkh, Value: 1, State: MovedFundsStatePending}, true, nil
	}
	return nil, false, nil
}

// --- generators --------------------------------------------------------------

func c34Value(t *rapid.T) int64 {
	if rapid.IntRange(0, 5).Draw(t, "valueClass") == 0 {
		return int64(rapid.IntRange(1, 1000).Draw(t, "value"))
	}
	return rapid.Int64Range(1000, 2_100_000_000_000_000).Draw(t, "value")
}

// history of a wallet that has been operating: a mix of transactions that
// spend earlier wallet outputs (the wallet's own transactions) and spam.
func c34GenHistory(t *rapid.T, w *c34World) {
	nConf := rapid.IntRange(1, 8).Draw(t, "confirmedTxs")
	nMem := rapid.IntRange(0, 2).Draw(t, "mempoolTxs")
	for n := 0; n < nConf+nMem; n++ {
		mempool := n >= nConf
		tag := fmt.Sprintf("t%d", n)
		var inputs []c34Op
		unspent := w.walletOutputs(func(_ *c34Tx, o *c34OutInfo) bool { return o.spentBy < 0 })
		spends := 0
		if len(unspent) > 0 && rapid.IntRange(0, 2).Draw(t, "spendsWalletOutput") > 0 {
			spends = 1
			if len(unspent) > 1 && rapid.IntRange(0, 3).Draw(t, "spendsTwo") == 0 {
				spends = 2
			}
		}
		picked := map[int]bool{}
		for s := 0; s < spends; s++ {
			// bias to the latest unspent output (what the wallet itself does)
			k := len(unspent) - 1
			if rapid.Bool().Draw(t, "spendAny") {
				k = rapid.IntRange(0, len(unspent)-1).Draw(t, "spendWhich")
			}
			if picked[k] {
				continue
			}
			picked[k] = true
			inputs = append(inputs, c34Op{unspent[k].tx.hash, uint32(unspent[k].idx)})
		}
		for len(inputs) == 0 || rapid.IntRange(0, 3).Draw(t, "moreInputs") == 0 {
			inputs = append(inputs, w.externalOutpoint())
		}
		nOut := rapid.IntRange(1, 4).Draw(t, "outputs")
		kinds := make([]int, nOut)
		values := make([]int64, nOut)
		for i := range kinds {
			kinds[i] = rapid.SampledFrom([]int{c34WalletP2PKH, c34WalletP2WPKH, c34WalletP2WPKH, c34OtherP2WPKH, c34OtherP2PKH, c34EmbedsPKH}).Draw(t, "outKind")
			values[i] = c34Value(t)
		}
		w.add(mempool, inputs, kinds, values, tag)
	}
}

// ---------------------------------------------------------------------------

func c34SameUtxo(a *bitcoin.UnspentTransactionOutput, r c34Ref) bool {
	return a != nil && a.Outpoint != nil && a.Outpoint.TransactionHash == r.tx.hash &&
		a.Outpoint.OutputIndex == uint32(r.idx) && a.Value == r.tx.outs[r.idx].value
}

func TestVerif_C34_DetermineMainUtxo(t *testing.T) {
	st := verifkit.New("C34", "TestVerif_C34_DetermineMainUtxo")
	defer st.Flush()
	rapid.Check(t, func(t *rapid.T) {
		w := c34NewWorld(t)
		c34GenHistory(t, w)
		confirmedWallet := w.walletOutputs(func(tx *c34Tx, _ *c34OutInfo) bool { return !tx.mempool })
		mempoolWallet := w.walletOutputs(func(tx *c34Tx, _ *c34OutInfo) bool { return tx.mempool })

		var expect *c34Ref
		expectErr := false
		class := rapid.SampledFrom([]string{"registered", "registered", "registered", "registered", "none", "unknown", "non-wallet-output", "wrong-value", "wrong-index", "mempool-output"}).Draw(t, "registeredClass")
		switch class {
		case "registered":
			if len(confirmedWallet) == 0 {
				class = "none"
				break
			}
			r := confirmedWallet[rapid.IntRange(0, len(confirmedWallet)-1).Draw(t, "which")]
			expect = &r
			w.registered = c34MainUtxoHash(r.tx.hash, uint32(r.idx), r.tx.outs[r.idx].value)
		case "unknown":
			copy(w.registered[:], rapid.SliceOfN(rapid.Byte(), 32, 32).Draw(t, "unknownHash"))
			w.registered[0] |= 1
			expectErr = true
		case "non-wallet-output":
			// an output of a history transaction that does not pay the wallet
			var cands []c34Ref
			for _, tx := range w.txs {
				if tx.mempool || !tx.touches {
					continue
				}
				for i, o := range tx.outs {
					if !o.isWallet() {
						cands = append(cands, c34Ref{tx, i})
					}
				}
			}
			if len(cands) == 0 {
				class = "none"
				break
			}
			r := cands[rapid.IntRange(0, len(cands)-1).Draw(t, "which")]
			w.registered = c34MainUtxoHash(r.tx.hash, uint32(r.idx), r.tx.outs[r.idx].value)
			expectErr = true
		case "wrong-value", "wrong-index":
			if len(confirmedWallet) == 0 {
				class = "none"
				break
			}
			r := confirmedWallet[rapid.IntRange(0, len(confirmedWallet)-1).Draw(t, "which")]
			if class == "wrong-value" {
				w.registered = c34MainUtxoHash(r.tx.hash, uint32(r.idx), r.tx.outs[r.idx].value+1)
			} else {
				w.registered = c34MainUtxoHash(r.tx.hash, uint32(len(r.tx.outs)), r.tx.outs[r.idx].value)
			}
			expectErr = true
		case "mempool-output":
			if len(mempoolWallet) == 0 {
				class = "none"
				break
			}
			r := mempoolWallet[rapid.IntRange(0, len(mempoolWallet)-1).Draw(t, "which")]
			w.registered = c34MainUtxoHash(r.tx.hash, uint32(r.idx), r.tx.outs[r.idx].value)
			expectErr = true
		}
		if class == "none" {
			w.registered = [32]byte{}
		}

		got, err := DetermineWalletMainUtxo(w.pkh, &c34Bridge{w: w}, &c34Btc{w: w})
		if w.wrongPkh {
			t.Fatalf("a chain was queried for a different public key hash than the wallet's")
		}
		switch {
		case expectErr:
			if err == nil {
				t.Fatalf("registered hash (%s) matches no wallet output of the history but %v was returned; world %s", class, got, w.render())
			}
			if got != nil {
				t.Fatalf("error together with a UTXO")
			}
		case expect == nil:
			if err != nil || got != nil {
				t.Fatalf("nothing registered: expected (nil, nil), got (%v, %v)", got, err)
			}
		default:
			if err != nil {
				t.Fatalf("registered hash is the hash of wallet output %v but lookup failed: %v; world %s", *expect, err, w.render())
			}
			if !c34SameUtxo(got, *expect) {
				t.Fatalf("lookup returned %x:%d value %d, registered is %x:%d value %d; world %s",
					got.Outpoint.TransactionHash[:6], got.Outpoint.OutputIndex, got.Value,
					expect.tx.hash[:6], expect.idx, expect.tx.outs[expect.idx].value, w.render())
			}
		}
		// the same lookup over chains on which one query fails: an error is
		// fine, a wrong answer is not
		faultLabel := "fault:none"
		if c34ArmFault(t, w) {
			got, err := DetermineWalletMainUtxo(w.pkh, &c34Bridge{w: w}, &c34Btc{w: w})
			faultLabel = "fault:" + w.faulted
			switch {
			case err != nil:
				if got != nil {
					t.Fatalf("error together with a UTXO")
				}
			case expectErr:
				t.Fatalf("query %d (%s) failed and the lookup returned %v for a registered hash (%s) that matches no wallet output; world %s", w.faultAt, w.faulted, got, class, w.render())
			case expect == nil:
				if got != nil {
					t.Fatalf("query %d (%s) failed and the lookup returned %v although nothing is registered", w.faultAt, w.faulted, got)
				}
			default:
				if !c34SameUtxo(got, *expect) {
					t.Fatalf("query %d (%s) failed and the lookup returned %v, registered is %v; world %s", w.faultAt, w.faulted, got, *expect, w.render())
				}
			}
		}
		nt := expect != nil && len(confirmedWallet) >= 2
		exp := "nil"
		if expect != nil {
			exp = expect.String()
		} else if expectErr {
			exp = "error"
		}
		st.Case(nt, fmt.Sprintf("%s| %s -> %s", w.render(), class, exp),
			"registered:"+class, fmt.Sprintf("wallet-outputs:%d", min(len(confirmedWallet), 5)), faultLabel)
	})
}

func TestVerif_C34_SyncWithMainUtxo(t *testing.T) {
	st := verifkit.New("C34", "TestVerif_C34_SyncWithMainUtxo")
	defer st.Flush()
	rapid.Check(t, func(t *rapid.T) {
		w := c34NewWorld(t)
		c34GenHistory(t, w)
		confirmedWallet := w.walletOutputs(func(tx *c34Tx, _ *c34OutInfo) bool { return !tx.mempool })
		if len(confirmedWallet) == 0 {
			// make sure there is something to register
			w.add(false, []c34Op{w.externalOutpoint()}, []int{c34WalletP2WPKH}, []int64{c34Value(t)}, "tx")
			confirmedWallet = w.walletOutputs(func(tx *c34Tx, _ *c34OutInfo) bool { return !tx.mempool })
		}
		// pick by spend class so that all three classes are frequent
		want := rapid.SampledFrom([]string{"unspent", "spent-confirmed", "spent-mempool"}).Draw(t, "spendClass")
		classOf := func(r c34Ref) string {
			sb := r.tx.outs[r.idx].spentBy
			switch {
			case sb < 0:
				return "unspent"
			case w.txs[sb].mempool:
				return "spent-mempool"
			default:
				return "spent-confirmed"
			}
		}
		var cands []c34Ref
		for _, r := range confirmedWallet {
			if classOf(r) == want {
				cands = append(cands, r)
			}
		}
		if len(cands) == 0 {
			cands = confirmedWallet
		}
		r := cands[rapid.IntRange(0, len(cands)-1).Draw(t, "which")]
		class := classOf(r)
		w.registered = c34MainUtxoHash(r.tx.hash, uint32(r.idx), r.tx.outs[r.idx].value)

		bridge, btc := &c34Bridge{w: w}, &c34Btc{w: w}
		main, err := DetermineWalletMainUtxo(w.pkh, bridge, btc)
		if err != nil || !c34SameUtxo(main, r) {
			t.Fatalf("main UTXO lookup failed: %v %v", main, err)
		}
		err = EnsureWalletSyncedBetweenChains(w.pkh, main, bridge, btc)
		if w.wrongPkh {
			t.Fatalf("a chain was queried for a different public key hash than the wallet's")
		}
		if class == "unspent" && err != nil {
			t.Fatalf("main UTXO %v is unspent but the sync check failed: %v; world %s", r, err, w.render())
		}
		if class != "unspent" && err == nil {
			t.Fatalf("main UTXO %v is %s but the sync check passed; world %s", r, class, w.render())
		}
		// the same flow with one failing chain query: the check may refuse,
		// it must never pass for a spent main UTXO
		faultLabel := "fault:none"
		if c34ArmFault(t, w) {
			main, err := DetermineWalletMainUtxo(w.pkh, bridge, btc)
			if err == nil {
				if !c34SameUtxo(main, r) {
					t.Fatalf("query %d (%s) failed and the lookup returned %v instead of %v", w.faultAt, w.faulted, main, r)
				}
				err = EnsureWalletSyncedBetweenChains(w.pkh, main, bridge, btc)
				if class != "unspent" && err == nil {
					t.Fatalf("query %d (%s) failed and the sync check PASSED although main UTXO %v is %s; world %s", w.faultAt, w.faulted, r, class, w.render())
				}
			}
			faultLabel = "fault:" + w.faulted
		}
		others := len(btc.utxos(w.pkh, false))
		st.Case(class != "unspent" || others >= 2, fmt.Sprintf("%s| main=%v %s", w.render(), r, class),
			"main:"+class, fmt.Sprintf("confirmed-utxos:%d", min(others, 4)), faultLabel)
	})
}

// fresh wallet: nothing registered on the host chain. The check must fail
// exactly when one of the wallet's unspent outputs (confirmed or mempool) is
// produced by its own first sweep.
func TestVerif_C34_SyncFreshWallet(t *testing.T) {
	st := verifkit.New("C34", "TestVerif_C34_SyncFreshWallet")
	defer st.Flush()
	rapid.Check(t, func(t *rapid.T) {
		w := c34NewWorld(t)
		nTx := rapid.IntRange(0, 6).Draw(t, "txs")
		ownAt := -1
		ownKind := "none"
		if nTx > 0 && rapid.Bool().Draw(t, "hasOwnSweep") {
			ownAt = rapid.IntRange(0, nTx-1).Draw(t, "ownSweepPosition")
			ownKind = rapid.SampledFrom([]string{"deposit-sweep", "moved-funds-sweep"}).Draw(t, "ownSweepKind")
		}
		nMem := 0
		if nTx > 0 {
			nMem = rapid.IntRange(0, min(2, nTx)).Draw(t, "mempoolTxs")
		}
		ownMempool := false
		spamKinds := map[string]bool{}
		for n := 0; n < nTx; n++ {
			mempool := n >= nTx-nMem
			if n == ownAt {
				ownMempool = mempool
				walletKind := rapid.SampledFrom([]int{c34WalletP2WPKH, c34WalletP2WPKH, c34WalletP2PKH}).Draw(t, "ownOutKind")
				var inputs []c34Op
				if ownKind == "deposit-sweep" {
					for i := rapid.IntRange(1, 3).Draw(t, "sweptDeposits"); i > 0; i-- {
						op := w.externalOutpoint()
						w.deposits[op] = true
						inputs = append(inputs, op)
					}
				} else {
					op := w.externalOutpoint()
					w.movedReqs[op] = true
					inputs = append(inputs, op)
				}
				w.add(mempool, inputs, []int{walletKind}, []int64{c34Value(t)}, "OWN-"+ownKind)
				continue
			}
			// spam: never a single-output transaction whose FIRST input is a
			// revealed deposit / moved funds request (indistinguishable from
			// an own sweep by design of the check).
			kind := rapid.SampledFrom([]string{"plain", "plain", "refund-like", "deposit-not-first", "deposit-other-index", "no-wallet-output"}).Draw(t, "spamKind")
			nOut := rapid.IntRange(1, 4).Draw(t, "outputs")
			inputs := []c34Op{w.externalOutpoint()}
			walletAt := rapid.IntRange(0, nOut-1).Draw(t, "walletOutputAt")
			switch kind {
			case "refund-like":
				// first input IS a revealed deposit, but the wallet is paid at
				// an index other than 0 (the wallet's own sweeps have exactly
				// one output)
				nOut = rapid.IntRange(2, 4).Draw(t, "outputsRefund")
				walletAt = rapid.IntRange(1, nOut-1).Draw(t, "walletOutputAtRefund")
				w.deposits[inputs[0]] = true
			case "deposit-not-first":
				op := w.externalOutpoint()
				w.deposits[op] = true
				inputs = append(inputs, op)
			case "deposit-other-index":
				w.deposits[c34Op{inputs[0].hash, inputs[0].index + 1}] = true
				w.movedReqs[c34Op{inputs[0].hash, inputs[0].index + 2}] = true
			}
			kinds := make([]int, nOut)
			values := make([]int64, nOut)
			for i := range kinds {
				kinds[i] = rapid.SampledFrom([]int{c34OtherP2WPKH, c34OtherP2PKH, c34EmbedsPKH}).Draw(t, "spamOutKind")
				if kind == "refund-like" && i != walletAt {
					// keep index 0 free of wallet outputs for refund-like spam
				} else if i != walletAt && rapid.IntRange(0, 3).Draw(t, "extraWalletOutput") == 0 {
					kinds[i] = c34WalletP2WPKH
				}
				values[i] = c34Value(t)
			}
			if kind != "no-wallet-output" {
				kinds[walletAt] = rapid.SampledFrom([]int{c34WalletP2WPKH, c34WalletP2PKH}).Draw(t, "spamWalletKind")
			}
			spamKinds[kind] = true
			w.add(mempool, inputs, kinds, values, "spam-"+kind)
		}

		bridge, btc := &c34Bridge{w: w}, &c34Btc{w: w}
		main, err := DetermineWalletMainUtxo(w.pkh, bridge, btc)
		if err != nil || main != nil {
			t.Fatalf("nothing registered: expected (nil, nil), got (%v, %v)", main, err)
		}
		err = EnsureWalletSyncedBetweenChains(w.pkh, main, bridge, btc)
		if w.wrongPkh {
			t.Fatalf("a chain was queried for a different public key hash than the wallet's")
		}
		if ownAt >= 0 && err == nil {
			t.Fatalf("the wallet's first %s (mempool=%v) is among its unspent outputs but the sync check passed; world %s", ownKind, ownMempool, w.render())
		}
		if ownAt < 0 && err != nil {
			t.Fatalf("no own transaction among the wallet's outputs but the sync check failed: %v; world %s", err, w.render())
		}
		// the same flow with one failing chain query (time-out, rate limit):
		// the check may refuse, it must never pass while the wallet's own
		// sweep is among its unspent outputs
		faultLabel := "fault:none"
		if c34ArmFault(t, w) {
			main, err := DetermineWalletMainUtxo(w.pkh, bridge, btc)
			if err == nil {
				if main != nil {
					t.Fatalf("query %d (%s) failed and the lookup returned %v although nothing is registered", w.faultAt, w.faulted, main)
				}
				err = EnsureWalletSyncedBetweenChains(w.pkh, nil, bridge, btc)
				if ownAt >= 0 && err == nil {
					t.Fatalf("query %d (%s) failed and the sync check PASSED although the wallet's first %s (mempool=%v) is among its unspent outputs; world %s", w.faultAt, w.faulted, ownKind, ownMempool, w.render())
				}
			}
			faultLabel = "fault:" + w.faulted
		}
		utxos := len(btc.utxos(w.pkh, false)) + len(btc.utxos(w.pkh, true))
		where := "none"
		if ownAt >= 0 {
			where = "confirmed"
			if ownMempool {
				where = "mempool"
			}
		}
		var sk []string
		for _, k := range []string{"plain", "refund-like", "deposit-not-first", "deposit-other-index", "no-wallet-output"} {
			if spamKinds[k] {
				sk = append(sk, "spam:"+k)
			}
		}
		labels := append([]string{"own-sweep:" + ownKind, "own-sweep-in:" + where, fmt.Sprintf("utxos:%d", min(utxos, 4)), faultLabel}, sk...)
		st.Case(utxos >= 1 && len(spamKinds) > 0, fmt.Sprintf("%s| own=%s/%s", w.render(), ownKind, where), labels...)
	})
}
