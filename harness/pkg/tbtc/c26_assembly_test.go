//go:build go1.23

package tbtc

import (
	"bytes"
	"crypto/ecdsa"
	"crypto/sha256"
	"encoding/binary"
	"encoding/hex"
	"fmt"
	"math/big"
	"strings"
	"testing"

	"github.com/btcsuite/btcd/btcec"
	"github.com/btcsuite/btcutil"
	"github.com/keep-network/keep-core/internal/verifkit"
	"github.com/keep-network/keep-core/pkg/bitcoin"
	"github.com/keep-network/keep-core/pkg/chain"
	"pgregory.net/rapid"
)

// ---------------------------------------------------------------------------
// stub bitcoin chain: only GetTransaction is backed; the assemblers have no
// business calling anything else (the embedded nil interface would panic).

type c26Chain struct {
	bitcoin.Chain
	txs     map[bitcoin.Hash]*bitcoin.Transaction
	counter uint32
	pending []*c26Pending
}

func c26NewChain() *c26Chain {
	return &c26Chain{txs: map[bitcoin.Hash]*bitcoin.Transaction{}}
}

func (c *c26Chain) GetTransaction(h bitcoin.Hash) (*bitcoin.Transaction, error) {
	tx, ok := c.txs[h]
	if !ok {
		return nil, fmt.Errorf("c26: transaction not found")
	}
	return tx, nil
}

// independent script templates (written out byte by byte)
func c26P2PKH(h [20]byte) bitcoin.Script {
	return append(append([]byte{0x76, 0xa9, 0x14}, h[:]...), 0x88, 0xac)
}
func c26P2WPKH(h [20]byte) bitcoin.Script { return append([]byte{0x00, 0x14}, h[:]...) }
func c26P2SH(h [20]byte) bitcoin.Script {
	return append(append([]byte{0xa9, 0x14}, h[:]...), 0x87)
}
func c26P2WSH(h [32]byte) bitcoin.Script { return append([]byte{0x00, 0x20}, h[:]...) }

func c26Hash160(b []byte) (out [20]byte) {
	copy(out[:], btcutil.Hash160(b))
	return
}

func c26Bytes20(t *rapid.T, label string) (out [20]byte) {
	copy(out[:], rapid.SliceOfN(rapid.Byte(), 20, 20).Draw(t, label))
	return
}

func c26Bytes32(t *rapid.T, label string) (out [32]byte) {
	copy(out[:], rapid.SliceOfN(rapid.Byte(), 32, 32).Draw(t, label))
	return
}

// wallet key drawn from rapid (scalar in [1, 2^255)).
func c26Key(t *rapid.T, label string) *btcec.PrivateKey {
	b := rapid.SliceOfN(rapid.Byte(), 32, 32).Draw(t, label)
	b[0] &= 0x7f
	b[31] |= 1
	priv, _ := btcec.PrivKeyFromBytes(btcec.S256(), b)
	return priv
}

// value classes: dust, typical, close to the whole BTC supply.
func c26Value(t *rapid.T, label string) int64 {
	switch rapid.IntRange(0, 9).Draw(t, label+"Class") {
	case 0:
		return int64(rapid.IntRange(1, 600).Draw(t, label))
	case 1:
		return 2_100_000_000_000_000 - int64(rapid.IntRange(0, 1000).Draw(t, label))
	case 2:
		return int64(rapid.IntRange(601, 100_000).Draw(t, label))
	default:
		return rapid.Int64Range(100_000, 10_000_000_000).Draw(t, label)
	}
}

// fund registers an intended previous output; the previous transactions are
// built by seal(): outputs registered under the same non-empty group may end
// up as different outputs of ONE funding transaction (a depositor batching
// deposits), next to spam outputs. The returned UTXO's outpoint is filled in
// by seal().
type c26Pending struct {
	script bitcoin.Script
	value  int64
	utxo   *bitcoin.UnspentTransactionOutput
	group  string
}

func (c *c26Chain) fund(t *rapid.T, script bitcoin.Script, value int64, label string) *bitcoin.UnspentTransactionOutput {
	return c.fundGroup(script, value, "")
}

func (c *c26Chain) fundGroup(script bitcoin.Script, value int64, group string) *bitcoin.UnspentTransactionOutput {
	u := &bitcoin.UnspentTransactionOutput{Outpoint: &bitcoin.TransactionOutpoint{}, Value: value}
	c.pending = append(c.pending, &c26Pending{script, value, u, group})
	return u
}

// seal builds the previous transactions; returns the largest number of
// intended outputs sharing one transaction.
func (c *c26Chain) seal(t *rapid.T) int {
	maxShared := 0
	pending := c.pending
	c.pending = nil
	for len(pending) > 0 {
		chunk := []*c26Pending{pending[0]}
		rest := pending[1:]
		if g := pending[0].group; g != "" {
			// pull up to 3 more outputs of the same group into this transaction
			var keep []*c26Pending
			for _, p := range rest {
				if p.group == g && len(chunk) < 4 && rapid.IntRange(0, 2).Draw(t, "sharesFundingTx") > 0 {
					chunk = append(chunk, p)
				} else {
					keep = append(keep, p)
				}
			}
			rest = keep
		}
		pending = rest
		maxShared = max(maxShared, len(chunk))
		chunk = rapid.Permutation(chunk).Draw(t, "fundingOutputOrder")
		c.counter++
		var prev bitcoin.Hash
		binary.LittleEndian.PutUint32(prev[:], c.counter)
		prev[31] = 0xc2
		tx := &bitcoin.Transaction{
			Version: 1,
			Inputs: []*bitcoin.TransactionInput{{
				Outpoint:        &bitcoin.TransactionOutpoint{TransactionHash: prev, OutputIndex: c.counter},
				SignatureScript: []byte{0x51},
				Sequence:        0xffffffff,
			}},
		}
		indexes := make([]uint32, len(chunk))
		for i, p := range chunk {
			for spam := rapid.IntRange(0, 1).Draw(t, "spamOutputsBefore"); spam > 0; spam-- {
				tx.Outputs = append(tx.Outputs, &bitcoin.TransactionOutput{
					Value:           p.value/2 + int64(len(tx.Outputs)) + 7,
					PublicKeyScript: c26P2WPKH(c26Bytes20(t, "spamHash")),
				})
			}
			indexes[i] = uint32(len(tx.Outputs))
			tx.Outputs = append(tx.Outputs, &bitcoin.TransactionOutput{Value: p.value, PublicKeyScript: p.script})
		}
		if rapid.Bool().Draw(t, "spamOutputAfter") {
			tx.Outputs = append(tx.Outputs, &bitcoin.TransactionOutput{Value: 4242, PublicKeyScript: c26P2WPKH(c26Bytes20(t, "spamHash"))})
		}
		h := tx.Hash()
		c.txs[h] = tx
		for i, p := range chunk {
			p.utxo.Outpoint.TransactionHash = h
			p.utxo.Outpoint.OutputIndex = indexes[i]
		}
	}
	return maxShared
}

// sign signs every input sighash with the given key (nonce 1: a valid ECDSA
// signature, which is all AddSignatures checks) and returns the transaction
// the wallet would broadcast.
func c26Finish(builder *bitcoin.TransactionBuilder, key *btcec.PrivateKey) (*bitcoin.Transaction, error) {
	sigHashes, err := builder.ComputeSignatureHashes()
	if err != nil {
		return nil, err
	}
	n := btcec.S256().N
	r := new(big.Int).Mod(btcec.S256().Gx, n)
	sigs := make([]*bitcoin.SignatureContainer, len(sigHashes))
	for i, z := range sigHashes {
		s := new(big.Int).Mul(r, key.D)
		s.Add(s, z)
		s.Mod(s, n)
		if s.Sign() == 0 {
			return nil, fmt.Errorf("c26: degenerate signature")
		}
		sigs[i] = &bitcoin.SignatureContainer{R: r, S: s, PublicKey: (*ecdsa.PublicKey)(&key.PublicKey)}
	}
	return builder.AddSignatures(sigs)
}

type c26Outpoint struct {
	hash  bitcoin.Hash
	index uint32
}

func c26OutpointOf(u *bitcoin.UnspentTransactionOutput) c26Outpoint {
	return c26Outpoint{u.Outpoint.TransactionHash, u.Outpoint.OutputIndex}
}

// c26CheckInputs: the transaction spends exactly the intended outpoints in
// the documented order.
func c26CheckInputs(t *rapid.T, tx *bitcoin.Transaction, want []c26Outpoint) {
	if len(tx.Inputs) != len(want) {
		t.Fatalf("transaction has %d inputs, intended %d", len(tx.Inputs), len(want))
	}
	for i, in := range tx.Inputs {
		got := c26Outpoint{in.Outpoint.TransactionHash, in.Outpoint.OutputIndex}
		if got != want[i] {
			t.Fatalf("input %d spends %x:%d, intended %x:%d", i, got.hash[:6], got.index, want[i].hash[:6], want[i].index)
		}
	}
}

type c26Out struct {
	value  int64
	script bitcoin.Script
}

func c26CheckOutputs(t *rapid.T, tx *bitcoin.Transaction, want []c26Out) {
	if len(tx.Outputs) != len(want) {
		t.Fatalf("transaction has %d outputs, intended %d: got %s want %s", len(tx.Outputs), len(want), c26RenderOuts(tx), c26RenderWant(want))
	}
	for i, o := range tx.Outputs {
		if !bytes.Equal(o.PublicKeyScript, want[i].script) {
			t.Fatalf("output %d pays script %x, intended %x", i, o.PublicKeyScript, want[i].script)
		}
		if o.Value != want[i].value {
			t.Fatalf("output %d pays %d, intended %d (got %s want %s)", i, o.Value, want[i].value, c26RenderOuts(tx), c26RenderWant(want))
		}
	}
}

func c26RenderOuts(tx *bitcoin.Transaction) string {
	var sb strings.Builder
	for _, o := range tx.Outputs {
		fmt.Fprintf(&sb, "[%d %x]", o.Value, o.PublicKeyScript[:min(4, len(o.PublicKeyScript))])
	}
	return sb.String()
}

func c26RenderWant(w []c26Out) string {
	var sb strings.Builder
	for _, o := range w {
		fmt.Fprintf(&sb, "[%d %x]", o.value, o.script[:min(4, len(o.script))])
	}
	return sb.String()
}

// real input total (from the recorded previous transactions, not from the
// UTXO structs) minus output total.
func c26PaidFee(t *rapid.T, c *c26Chain, tx *bitcoin.Transaction) int64 {
	var in, out int64
	for _, i := range tx.Inputs {
		prev, ok := c.txs[i.Outpoint.TransactionHash]
		if !ok || int(i.Outpoint.OutputIndex) >= len(prev.Outputs) {
			t.Fatalf("input spends an output that does not exist")
		}
		in += prev.Outputs[i.Outpoint.OutputIndex].Value
	}
	for _, o := range tx.Outputs {
		if o.Value < 0 {
			t.Fatalf("negative output value %d", o.Value)
		}
		out += o.Value
	}
	return in - out
}

// optional wallet main UTXO: none / P2PKH / P2WPKH.
func c26MainUtxo(t *rapid.T, c *c26Chain, pkh [20]byte, allowNone bool) (*bitcoin.UnspentTransactionOutput, string) {
	lo := 0
	if !allowNone {
		lo = 1
	}
	switch rapid.IntRange(lo, 2).Draw(t, "mainKind") {
	case 0:
		return nil, "none"
	case 1:
		return c.fund(t, c26P2PKH(pkh), c26Value(t, "mainValue"), "main"), "p2pkh"
	default:
		return c.fund(t, c26P2WPKH(pkh), c26Value(t, "mainValue"), "main"), "p2wpkh"
	}
}

func c26Address(t *rapid.T, label string) chain.Address {
	b := c26Bytes20(t, label)
	s := hex.EncodeToString(b[:])
	if rapid.Bool().Draw(t, label+"Upper") {
		s = strings.ToUpper(s)
	}
	return chain.Address("0x" + s)
}

func c26Bucket(n int) string {
	switch {
	case n <= 1:
		return fmt.Sprint(n)
	case n <= 4:
		return "2-4"
	case n <= 10:
		return "5-10"
	default:
		return "11-20"
	}
}

// fee in [0, total] with the edges over-represented.
func c26Fee(t *rapid.T, total int64, label string) (int64, string) {
	switch rapid.IntRange(0, 9).Draw(t, label+"Class") {
	case 0:
		return 0, "zero"
	case 1:
		return total, "everything"
	case 2:
		return total - int64(rapid.IntRange(0, int(min(total, 20))).Draw(t, label)), "near-everything"
	default:
		return rapid.Int64Range(0, min(total, 5_000_000)).Draw(t, label), "typical"
	}
}

// ---------------------------------------------------------------------------

func TestVerif_C26_DepositSweep(t *testing.T) {
	st := verifkit.New("C26", "TestVerif_C26_DepositSweep")
	defer st.Flush()
	rapid.Check(t, func(t *rapid.T) {
		c := c26NewChain()
		key := c26Key(t, "walletKey")
		pub := (*ecdsa.PublicKey)(&key.PublicKey)
		pkh := c26Hash160(key.PubKey().SerializeCompressed())

		main, mainKind := c26MainUtxo(t, c, pkh, true)
		var total int64
		if main != nil {
			total += main.Value
		}
		nDep := rapid.IntRange(1, 20).Draw(t, "deposits")
		if rapid.IntRange(0, 3).Draw(t, "fewDeposits") > 0 {
			nDep = rapid.IntRange(1, 5).Draw(t, "depositsFew")
		}
		deposits := make([]*Deposit, nDep)
		kinds := map[string]bool{}
		var desc strings.Builder
		// The assembler takes the deposits as given: a deposit revealed for
		// ANOTHER wallet (first or elsewhere in the batch) must not change
		// who is paid - the output belongs to the key of the sweeping wallet.
		foreignMode := rapid.SampledFrom([]string{"none", "none", "first", "some", "all"}).Draw(t, "foreignWalletDeposits")
		for i := range deposits {
			depositWallet := pkh
			if foreignMode == "all" || (foreignMode == "first" && i == 0) ||
				(foreignMode == "some" && rapid.Bool().Draw(t, "foreignDeposit")) {
				depositWallet = c26Bytes20(t, "foreignWalletPkh")
				if depositWallet == pkh {
					depositWallet[0] ^= 0xff
				}
			}
			d := &Deposit{
				Depositor:           c26Address(t, "depositor"),
				WalletPublicKeyHash: depositWallet,
				RefundPublicKeyHash: c26Bytes20(t, "refund"),
			}
			if rapid.IntRange(0, 3).Draw(t, "hasVault") == 0 {
				v := c26Address(t, "vault")
				d.Vault = &v
			}
			copy(d.BlindingFactor[:], rapid.SliceOfN(rapid.Byte(), 8, 8).Draw(t, "blinding"))
			copy(d.RefundLocktime[:], rapid.SliceOfN(rapid.Byte(), 4, 4).Draw(t, "locktime"))
			kind := "p2"
			if rapid.Bool().Draw(t, "extraData") {
				e := c26Bytes32(t, "extra")
				d.ExtraData = &e
				kind = "x-p2"
			}
			script, err := d.Script()
			if err != nil {
				t.Fatalf("deposit script: %v", err)
			}
			var lock bitcoin.Script
			if rapid.Bool().Draw(t, "witnessDeposit") {
				lock = c26P2WSH(sha256.Sum256(script))
				kind += "wsh"
			} else {
				lock = c26P2SH(c26Hash160(script))
				kind += "sh"
			}
			kinds[kind] = true
			d.Utxo = c.fundGroup(lock, c26Value(t, "depositValue"), "deposits")
			deposits[i] = d
			total += d.Utxo.Value
			fmt.Fprintf(&desc, " %s:%d", kind, d.Utxo.Value)
			if depositWallet != pkh {
				desc.WriteString("(foreign)")
			}
		}
		fee, feeClass := c26Fee(t, total, "fee")
		shared := c.seal(t)
		var want []c26Outpoint
		if main != nil {
			want = append(want, c26OutpointOf(main))
		}
		for _, d := range deposits {
			want = append(want, c26OutpointOf(d.Utxo))
		}

		builder, err := assembleDepositSweepTransaction(c, pub, main, deposits, fee)
		if err != nil {
			t.Fatalf("assembly failed: %v", err)
		}
		if got := builder.TotalInputsValue(); got != total {
			t.Fatalf("builder reports inputs total %d, the spent outputs hold %d", got, total)
		}
		tx, err := c26Finish(builder, key)
		if err != nil {
			t.Fatalf("signing the assembled transaction failed: %v", err)
		}
		c26CheckInputs(t, tx, want)
		c26CheckOutputs(t, tx, []c26Out{{total - fee, c26P2WPKH(pkh)}})
		if paid := c26PaidFee(t, c, tx); paid != fee {
			t.Fatalf("transaction pays fee %d, proposed %d", paid, fee)
		}

		mainVal := int64(-1)
		if main != nil {
			mainVal = main.Value
		}
		nt := main != nil && len(kinds) >= 2
		st.Case(nt, fmt.Sprintf("main=%s:%d deps=[%s] fee=%d max-per-funding-tx=%d", mainKind, mainVal, strings.TrimSpace(desc.String()), fee, shared),
			"main:"+mainKind, "deposits:"+c26Bucket(nDep), "fee:"+feeClass, fmt.Sprintf("deposit-kinds:%d", len(kinds)),
			"foreign-wallet-deposits:"+foreignMode, fmt.Sprintf("deposits-sharing-a-funding-tx:%d", shared))
	})
}

func c26RedeemerScript(t *rapid.T) (bitcoin.Script, string) {
	switch rapid.IntRange(0, 3).Draw(t, "redeemerScriptType") {
	case 0:
		return c26P2PKH(c26Bytes20(t, "redeemerHash")), "p2pkh"
	case 1:
		return c26P2WPKH(c26Bytes20(t, "redeemerHash")), "p2wpkh"
	case 2:
		return c26P2SH(c26Bytes20(t, "redeemerHash")), "p2sh"
	default:
		return c26P2WSH(c26Bytes32(t, "redeemerHash")), "p2wsh"
	}
}

func TestVerif_C26_Redemption(t *testing.T) {
	st := verifkit.New("C26", "TestVerif_C26_Redemption")
	defer st.Flush()
	rapid.Check(t, func(t *rapid.T) {
		c := c26NewChain()
		key := c26Key(t, "walletKey")
		pub := (*ecdsa.PublicKey)(&key.PublicKey)
		pkh := c26Hash160(key.PubKey().SerializeCompressed())

		n := rapid.IntRange(1, 20).Draw(t, "requests")
		if rapid.IntRange(0, 3).Draw(t, "fewRequests") > 0 {
			n = rapid.IntRange(1, 5).Draw(t, "requestsFew")
		}
		requests := make([]*RedemptionRequest, n)
		redeemable := make([]int64, n)
		var sumRedeemable int64
		minRedeemable := int64(-1)
		var desc strings.Builder
		for i := range requests {
			script, _ := c26RedeemerScript(t)
			var amount int64
			if rapid.IntRange(0, 5).Draw(t, "amountClass") == 0 {
				amount = int64(rapid.IntRange(1, 2000).Draw(t, "amount"))
			} else {
				amount = rapid.Int64Range(2000, 50_000_000_000).Draw(t, "amount")
			}
			// treasury fee in [0, amount): the redeemable amount stays positive
			var treasury int64
			if rapid.Bool().Draw(t, "hasTreasuryFee") {
				treasury = rapid.Int64Range(0, amount-1).Draw(t, "treasury")
				if rapid.Bool().Draw(t, "smallTreasury") {
					treasury = amount / 2000
				}
			}
			requests[i] = &RedemptionRequest{
				Redeemer:             c26Address(t, "redeemer"),
				RedeemerOutputScript: script,
				RequestedAmount:      uint64(amount),
				TreasuryFee:          uint64(treasury),
				TxMaxFee:             uint64(amount),
			}
			redeemable[i] = amount - treasury
			sumRedeemable += redeemable[i]
			if minRedeemable < 0 || redeemable[i] < minRedeemable {
				minRedeemable = redeemable[i]
			}
			fmt.Fprintf(&desc, " %d-%d", amount, treasury)
		}
		// fee by construction: every share fits into its request (the Bridge
		// enforces the per-request maximum): base share <= smallest
		// redeemable amount, remainder < n and it fits into the last request.
		base := rapid.Int64Range(0, min(minRedeemable, 2_000_000)).Draw(t, "baseShare")
		maxRem := min(int64(n-1), redeemable[n-1]-base)
		rem := rapid.Int64Range(0, maxRem).Draw(t, "feeRemainder")
		if maxRem > 0 && rapid.Bool().Draw(t, "forceRemainder") {
			rem = rapid.Int64Range(1, maxRem).Draw(t, "feeRemainderNonZero")
		}
		fee := base*int64(n) + rem
		// TxMaxFee is NOT an input of the assembly (the fee distribution
		// function alone decides the shares, the Bridge validates them):
		// draw it freely - above, equal to, just below the share, unset.
		maxFeeBelow := 0
		for i, r := range requests {
			share := base
			if i == n-1 {
				share += rem
			}
			class := rapid.SampledFrom([]string{"above", "equal", "equal-base", "below", "zero"}).Draw(t, "txMaxFeeClass")
			switch class {
			case "above":
				r.TxMaxFee = uint64(share + int64(rapid.IntRange(1, 1_000_000).Draw(t, "txMaxFeeAbove")))
			case "equal":
				r.TxMaxFee = uint64(share)
			case "equal-base":
				// what an even split would allow: the remainder put on the
				// last request exceeds it
				r.TxMaxFee = uint64(base)
			case "below":
				if share > 0 {
					r.TxMaxFee = uint64(rapid.Int64Range(0, share-1).Draw(t, "txMaxFeeBelow"))
				} else {
					r.TxMaxFee = 0
				}
			default:
				r.TxMaxFee = 0
			}
			if int64(r.TxMaxFee) < share {
				maxFeeBelow++
			}
		}

		// main UTXO covers all redeemable amounts; change class drawn.
		var change int64
		changeClass := ""
		switch rapid.IntRange(0, 4).Draw(t, "changeClass") {
		case 0, 1:
			change, changeClass = 0, "zero"
		case 2:
			change, changeClass = 1, "one"
		case 3:
			change, changeClass = int64(rapid.IntRange(2, 1000).Draw(t, "change")), "dust"
		default:
			change, changeClass = rapid.Int64Range(1001, 1_000_000_000_000_000).Draw(t, "change"), "large"
		}
		mainValue := sumRedeemable + change
		var main *bitcoin.UnspentTransactionOutput
		mainKind := "p2wpkh"
		if rapid.Bool().Draw(t, "legacyMain") {
			main, mainKind = c.fund(t, c26P2PKH(pkh), mainValue, "main"), "p2pkh"
		} else {
			main = c.fund(t, c26P2WPKH(pkh), mainValue, "main")
		}

		c.seal(t)
		// One fee distribution per proposal, as the redemption action keeps
		// it (a field set by the constructor): a function VALUE that may be
		// applied more than once - a second assembly of the same proposal
		// (another shape), shares computed for logging - and must give the
		// same shares every time.
		dist := withRedemptionTotalFee(fee)
		assemblies := rapid.IntRange(1, 3).Draw(t, "assemblies")
		shapeName := ""
		for attempt := 0; attempt < assemblies; attempt++ {
			shapeSel := rapid.IntRange(0, 2).Draw(t, "shape")
			var builder *bitcoin.TransactionBuilder
			var err error
			switch shapeSel {
			case 0:
				shapeName += "default "
				builder, err = assembleRedemptionTransaction(c, pub, main, requests, dist)
			case 1:
				shapeName += "change-first "
				builder, err = assembleRedemptionTransaction(c, pub, main, requests, dist, RedemptionChangeFirst)
			default:
				shapeName += "change-last "
				builder, err = assembleRedemptionTransaction(c, pub, main, requests, dist, RedemptionChangeLast)
			}
			if err != nil {
				t.Fatalf("assembly %d failed: %v", attempt+1, err)
			}
			tx, err := c26Finish(builder, key)
			if err != nil {
				t.Fatalf("signing the assembled transaction failed: %v", err)
			}

			// model
			var want []c26Out
			for i, r := range requests {
				share := fee / int64(n)
				if i == n-1 {
					share += fee % int64(n)
				}
				want = append(want, c26Out{redeemable[i] - share, r.RedeemerOutputScript})
			}
			if change > 0 {
				ch := c26Out{change, c26P2WPKH(pkh)}
				if shapeSel == 2 {
					want = append(want, ch)
				} else {
					want = append([]c26Out{ch}, want...)
				}
			}
			c26CheckInputs(t, tx, []c26Outpoint{c26OutpointOf(main)})
			c26CheckOutputs(t, tx, want)
			if paid := c26PaidFee(t, c, tx); paid != fee {
				t.Fatalf("assembly %d of the proposal: transaction pays fee %d, proposed %d", attempt+1, paid, fee)
			}
		}
		shapeName = strings.TrimSpace(shapeName)

		nt := change == 0 || rem != 0
		remClass := "fee-remainder:zero"
		if rem != 0 {
			remClass = "fee-remainder:nonzero"
		}
		st.Case(nt, fmt.Sprintf("main=%s:%d reqs(amount-treasury)=[%s] fee=%d shape=%s txmaxfee-below-share=%d", mainKind, mainValue, strings.TrimSpace(desc.String()), fee, shapeName, maxFeeBelow),
			"main:"+mainKind, "requests:"+c26Bucket(n), "change:"+changeClass, remClass, fmt.Sprintf("assemblies-per-distribution:%d", assemblies),
			fmt.Sprintf("requests-with-txmaxfee-below-share:%d", min(maxFeeBelow, 3)))
	})
}

// Fee shares always add up to the proposed total fee; even split, remainder
// on the last request.
func TestVerif_C26_FeeShares(t *testing.T) {
	st := verifkit.New("C26", "TestVerif_C26_FeeShares")
	defer st.Flush()
	rapid.Check(t, func(t *rapid.T) {
		n := rapid.IntRange(1, 100).Draw(t, "requests")
		var fee int64
		switch rapid.IntRange(0, 3).Draw(t, "feeClass") {
		case 0:
			fee = int64(rapid.IntRange(0, 2*n).Draw(t, "fee"))
		case 1:
			fee = int64(n) * rapid.Int64Range(0, 1_000_000).Draw(t, "feeMultiple")
		default:
			fee = rapid.Int64Range(0, 1<<50).Draw(t, "fee")
		}
		// the distribution for a total fee is a function value: apply it to
		// a short history of request lists (the same list again, other
		// lengths) - every application must add up to the total fee
		dist := withRedemptionTotalFee(fee)
		uses := rapid.IntRange(1, 3).Draw(t, "uses")
		lens := []int{n}
		for u := 1; u < uses; u++ {
			if rapid.Bool().Draw(t, "sameListAgain") {
				lens = append(lens, n)
			} else {
				lens = append(lens, rapid.IntRange(1, 100).Draw(t, "otherRequests"))
			}
		}
		anyRem := false
		for use, n := range lens {
			requests := make([]*RedemptionRequest, n)
			for i := range requests {
				requests[i] = &RedemptionRequest{RequestedAmount: uint64(i)}
			}
			shares := dist(requests)
			if len(shares) != n {
				t.Fatalf("use %d: %d shares for %d requests", use+1, len(shares), n)
			}
			var sum int64
			for i, s := range shares {
				sum += s
				want := fee / int64(n)
				if i == n-1 {
					want += fee % int64(n)
				}
				if s != want {
					t.Fatalf("use %d of the distribution: share %d of %d is %d, expected %d (fee %d)", use+1, i, n, s, want, fee)
				}
			}
			if sum != fee {
				t.Fatalf("use %d of the distribution: shares add up to %d, proposed fee %d (n=%d)", use+1, sum, fee, n)
			}
			anyRem = anyRem || fee%int64(n) != 0
		}
		st.Case(anyRem, fmt.Sprintf("fee=%d request-list-lengths=%v", fee, lens), fmt.Sprintf("remainder-nonzero:%v", anyRem), "requests:"+c26Bucket(min(n, 20)),
			fmt.Sprintf("uses-of-one-distribution:%d", uses))
	})
}

func TestVerif_C26_MovingFunds(t *testing.T) {
	st := verifkit.New("C26", "TestVerif_C26_MovingFunds")
	defer st.Flush()
	rapid.Check(t, func(t *rapid.T) {
		c := c26NewChain()
		key := c26Key(t, "walletKey")
		pkh := c26Hash160(key.PubKey().SerializeCompressed())
		main, mainKind := c26MainUtxo(t, c, pkh, false)

		n := rapid.IntRange(1, 20).Draw(t, "targets")
		if rapid.IntRange(0, 2).Draw(t, "fewTargets") > 0 {
			n = rapid.IntRange(1, 6).Draw(t, "targetsFew")
		}
		targets := make([][20]byte, n)
		for i := range targets {
			targets[i] = c26Bytes20(t, "target")
		}
		fee, feeClass := c26Fee(t, main.Value, "fee")
		// bias towards a non-zero remainder is not needed (n-1 of n values),
		// bias towards a ZERO remainder is: make the distributable amount a
		// multiple of n now and then.
		if n > 1 && rapid.IntRange(0, 4).Draw(t, "evenSplit") == 0 {
			fee += (main.Value - fee) % int64(n)
			feeClass = "even-split"
		}

		c.seal(t)
		builder, err := assembleMovingFundsTransaction(c, main, targets, fee)
		if err != nil {
			t.Fatalf("assembly failed: %v", err)
		}
		tx, err := c26Finish(builder, key)
		if err != nil {
			t.Fatalf("signing the assembled transaction failed: %v", err)
		}
		distributable := main.Value - fee
		var want []c26Out
		for i := range targets {
			v := distributable / int64(n)
			if i == n-1 {
				v += distributable % int64(n)
			}
			want = append(want, c26Out{v, c26P2WPKH(targets[i])})
		}
		c26CheckInputs(t, tx, []c26Outpoint{c26OutpointOf(main)})
		c26CheckOutputs(t, tx, want)
		if paid := c26PaidFee(t, c, tx); paid != fee {
			t.Fatalf("transaction pays fee %d, proposed %d", paid, fee)
		}
		rem := distributable % int64(n)
		st.Case(rem != 0, fmt.Sprintf("main=%s:%d targets=%d fee=%d", mainKind, main.Value, n, fee),
			"main:"+mainKind, "targets:"+c26Bucket(n), "fee:"+feeClass, fmt.Sprintf("remainder-nonzero:%v", rem != 0))
	})
}

func TestVerif_C26_MovedFundsSweep(t *testing.T) {
	st := verifkit.New("C26", "TestVerif_C26_MovedFundsSweep")
	defer st.Flush()
	rapid.Check(t, func(t *rapid.T) {
		c := c26NewChain()
		key := c26Key(t, "walletKey")
		pub := (*ecdsa.PublicKey)(&key.PublicKey)
		pkh := c26Hash160(key.PubKey().SerializeCompressed())

		movedKind := "p2wpkh"
		var moved *bitcoin.UnspentTransactionOutput
		if rapid.IntRange(0, 3).Draw(t, "legacyMoved") == 0 {
			moved, movedKind = c.fundGroup(c26P2PKH(pkh), c26Value(t, "movedValue"), "wallet"), "p2pkh"
		} else {
			moved = c.fundGroup(c26P2WPKH(pkh), c26Value(t, "movedValue"), "wallet")
		}
		main, mainKind := c26MainUtxo(t, c, pkh, true)
		if main != nil {
			// synthetic but accepted by the assembler: both wallet outputs may
			// come from one transaction (different output indexes)
			c.pending[len(c.pending)-1].group = "wallet"
		}
		shared := c.seal(t)
		want := []c26Outpoint{c26OutpointOf(moved)}
		total := moved.Value
		mainVal := int64(-1)
		if main != nil {
			want = append(want, c26OutpointOf(main))
			total += main.Value
			mainVal = main.Value
		}
		fee, feeClass := c26Fee(t, total, "fee")

		builder, err := assembleMovedFundsSweepTransaction(c, pub, moved, main, fee)
		if err != nil {
			t.Fatalf("assembly failed: %v", err)
		}
		tx, err := c26Finish(builder, key)
		if err != nil {
			t.Fatalf("signing the assembled transaction failed: %v", err)
		}
		c26CheckInputs(t, tx, want)
		c26CheckOutputs(t, tx, []c26Out{{total - fee, c26P2WPKH(pkh)}})
		if paid := c26PaidFee(t, c, tx); paid != fee {
			t.Fatalf("transaction pays fee %d, proposed %d", paid, fee)
		}
		st.Case(main != nil, fmt.Sprintf("moved=%s:%d main=%s:%d fee=%d", movedKind, moved.Value, mainKind, mainVal, fee),
			"moved:"+movedKind, "main:"+mainKind, "fee:"+feeClass, fmt.Sprintf("same-funding-tx:%v", shared > 1))
	})
}
