//go:build go1.23

package tbtc

import (
	"context"
	"crypto/ecdsa"
	"fmt"
	"math"
	"math/big"
	"runtime"
	"sort"
	"strings"
	"sync"
	"sync/atomic"
	"testing"
	"time"

	golog "github.com/ipfs/go-log/v2"
	"github.com/keep-network/keep-core/internal/verifkit"
	"github.com/keep-network/keep-core/pkg/tecdsa"
	"pgregory.net/rapid"
)

const c23Freq = 900 // the window frequency of the property statement, in blocks

// c23Model: a block starts a window iff it is a positive multiple of the
// frequency and lies after the last window started.
type c23Model struct {
	started []uint64
}

func (m *c23Model) observe(block uint64) bool {
	if block == 0 || block%c23Freq != 0 {
		return false
	}
	if n := len(m.started); n > 0 && block <= m.started[n-1] {
		return false
	}
	m.started = append(m.started, block)
	return true
}

// c23GenStream builds a block stream by construction out of moves that reach
// the interesting regions: next windows (with gaps), the same window block
// again, earlier windows, near misses around window starts, zeros, noise.
func c23GenStream(t *rapid.T) (stream []uint64, kinds []string) {
	n := rapid.IntRange(1, 40).Draw(t, "length")
	// base window: small, or close to the top of the uint64 range
	top := uint64(math.MaxUint64/c23Freq) - 600 // room for every move of a case and the offers after cancellation
	base := rapid.SampledFrom([]uint64{0, 0, 0, 1, 7, 1000, top}).Draw(t, "baseWindow")
	cur := base // highest window index visited so far (0 = none yet)
	var visited []uint64
	for i := 0; i < n; i++ {
		move := rapid.SampledFrom([]string{
			"next", "next", "next", "skip", "dup", "dup", "regress", "regress",
			"near", "near", "zero", "noise", "walk", "walk", "leap",
		}).Draw(t, "move")
		var b uint64
		switch move {
		case "next":
			cur++
			b = cur * c23Freq
			visited = append(visited, b)
		case "skip":
			cur += uint64(rapid.IntRange(2, 5).Draw(t, "gap"))
			b = cur * c23Freq
			visited = append(visited, b)
		case "leap": // from the low range to the top of the range (once)
			if cur < top {
				cur = top
			} else {
				cur++
			}
			b = cur * c23Freq
			visited = append(visited, b)
		case "dup":
			if len(stream) == 0 {
				b = 0
			} else {
				b = stream[len(stream)-1-rapid.IntRange(0, min(2, len(stream)-1)).Draw(t, "back")]
			}
		case "regress":
			if len(visited) == 0 {
				if cur > 0 {
					b = (cur - uint64(rapid.IntRange(0, int(min(cur, 3))).Draw(t, "down"))) * c23Freq
				}
			} else {
				b = rapid.SampledFrom(visited).Draw(t, "earlier")
			}
		case "near":
			w := cur + uint64(rapid.IntRange(0, 1).Draw(t, "ahead"))
			d := rapid.SampledFrom([]int64{-2, -1, 1, 2, 100, 899, -899, 450}).Draw(t, "delta")
			if d < 0 && w*c23Freq >= uint64(-d) {
				b = w*c23Freq - uint64(-d)
			} else if d < 0 {
				b = w*c23Freq + uint64(-d)
			} else {
				b = w*c23Freq + uint64(d)
			}
		case "zero":
			b = 0
		case "noise":
			b = rapid.Uint64().Draw(t, "any")
			if b%c23Freq == 0 { // keep noise off the window grid (by construction, no filtering)
				b++
			}
		case "walk": // a few consecutive blocks across a window start
			w := (cur + 1) * c23Freq
			cur++
			visited = append(visited, w)
			stream = append(stream, w-1, w)
			kinds = append(kinds, "walk", "walk")
			b = w + 1
		}
		stream = append(stream, b)
		kinds = append(kinds, move)
	}
	return
}

// c23Patience is how long a callback is awaited before the clock-free sentinel
// path decides. VERIF_C23_PATIENCE_US (microseconds) lets a run force that
// path (used once to test the harness itself; see notes).
func c23Patience() time.Duration {
	return time.Duration(verifkit.EnvInt("VERIF_C23_PATIENCE_US", 250_000)) * time.Microsecond
}

// c23PostCancelOffers: how many consecutive blocks offered after cancel() the
// watcher may take while still running before that is a violation. A correct
// watcher that has not yet noticed the cancellation takes a block on offer
// only by losing Go's fair select between the ready block and the closed
// Done channel, so taking all of them has probability 2^-64.
const c23PostCancelOffers = 64

// c23Ctx is the context handed to the watcher. It is a plain cancellable
// context until the harness has reached its verdict "the watcher never stops";
// mute() then makes Done() block so that the watcher goroutine that can no
// longer be stopped is at least parked instead of spinning.
type c23Ctx struct {
	context.Context
	muted atomic.Bool
}

func (c *c23Ctx) Done() <-chan struct{} {
	if c.muted.Load() {
		return nil
	}
	return c.Context.Done()
}

// c23Start is one observed start of coordination: for which window block, and
// for whom ("" for the bare watcher callback, the wallet key for the node).
type c23Start struct {
	block uint64
	who   string
}

type c23Recorder struct {
	mu     sync.Mutex
	starts []c23Start
	landed chan struct{} // wake-up tokens, one per start
}

func (r *c23Recorder) record(block uint64, who string) {
	r.mu.Lock()
	r.starts = append(r.starts, c23Start{block, who})
	r.mu.Unlock()
	select {
	case r.landed <- struct{}{}:
	default:
	}
}

func (r *c23Recorder) snapshot() []c23Start {
	r.mu.Lock()
	defer r.mu.Unlock()
	return append([]c23Start{}, r.starts...)
}

func (r *c23Recorder) count() int {
	r.mu.Lock()
	defer r.mu.Unlock()
	return len(r.starts)
}

func c23Inconclusive(t *rapid.T, why string) {
	fmt.Println("VERIF-INCONCLUSIVE: " + why)
	t.Fatalf("VERIF-INCONCLUSIVE: %s", why)
}

// c23Expected is what the model expects to have been started: the windows in
// order and, per window, who (sorted).
type c23Expected struct {
	windows []uint64
	who     [][]string
}

func (e *c23Expected) total() int {
	n := 0
	for _, w := range e.who {
		n += len(w)
	}
	return n
}

func c23WindowsOf(starts []c23Start) []uint64 {
	var out []uint64
	for _, s := range starts {
		if len(out) == 0 || out[len(out)-1] != s.block {
			out = append(out, s.block)
		}
	}
	return out
}

const c23NoTail = 1 << 60 // "the order of all starts is forced"

// c23Compare checks the observed starts against the expectation. Starts of
// one window are contiguous (the harness lets a window land before it offers
// the next window block); `from` is the index from which the order of starts
// is not forced (blocks taken while racing with the cancellation), there the
// starts are grouped by window first.
func c23Compare(starts []c23Start, from int, exp *c23Expected) string {
	if from < len(starts) {
		tailStarts := append([]c23Start{}, starts[from:]...)
		sort.SliceStable(tailStarts, func(i, j int) bool { return tailStarts[i].block < tailStarts[j].block })
		starts = append(append([]c23Start{}, starts[:from]...), tailStarts...)
	}
	// the clauses of the statement, one by one, for readable messages
	seen := map[uint64]map[string]int{}
	var order []uint64
	for _, s := range starts {
		if s.block == 0 || s.block%c23Freq != 0 {
			return fmt.Sprintf("coordination started for block %d which is not a positive multiple of %d", s.block, c23Freq)
		}
		if seen[s.block] == nil {
			if n := len(order); n > 0 && order[n-1] > s.block {
				return fmt.Sprintf("window %d started after the later window %d", s.block, order[n-1])
			}
			seen[s.block] = map[string]int{}
			order = append(order, s.block)
		} else if order[len(order)-1] != s.block {
			return fmt.Sprintf("window %d started again after window %d had been started", s.block, order[len(order)-1])
		}
		seen[s.block][s.who]++
		if seen[s.block][s.who] > 1 {
			return fmt.Sprintf("window %d: coordination%s started %d times", s.block, c23For(s.who), seen[s.block][s.who])
		}
	}
	// exactness, both directions
	if len(order) != len(exp.windows) {
		return fmt.Sprintf("windows started %v, expected %v", order, exp.windows)
	}
	for i, w := range exp.windows {
		if order[i] != w {
			return fmt.Sprintf("windows started %v, expected %v", order, exp.windows)
		}
		for _, who := range exp.who[i] {
			if seen[w][who] != 1 {
				return fmt.Sprintf("window %d: coordination%s not started", w, c23For(who))
			}
		}
		if len(seen[w]) != len(exp.who[i]) {
			return fmt.Sprintf("window %d: coordination started for %d parties, expected %d", w, len(seen[w]), len(exp.who[i]))
		}
	}
	return ""
}

func c23For(who string) string {
	if who == "" {
		return ""
	}
	return " of wallet " + who
}

// c23Subject is the thing that turns blocks into coordination starts: the
// bare window watcher, or the node's coordination layer built on it.
type c23Subject struct {
	// start launches the subject on the block source; it returns once the
	// subject's goroutines exist.
	start func(ctx context.Context, blocks chan uint64, record func(block uint64, who string))
	// running: goroutines the subject keeps while its context is alive
	running int
	// who is started for a window detected right now (sorted)
	who func() []string
	// between is called before every block with the position in the stream
	between func(t *rapid.T, i int) string
}

type c23Env struct {
	st       *verifkit.Stats
	baseline int // goroutines without any subject
	leaked   int // subjects that never stopped (only after a violation was reported)
}

func (env *c23Env) quiet(extra int) bool {
	return runtime.NumGoroutine() <= env.baseline+env.leaked+extra
}

// waitQuiet: usually a matter of microseconds, so yield first, sleep later.
func (env *c23Env) waitQuiet(extra int, d time.Duration) bool {
	for i := 0; i < 300; i++ {
		if env.quiet(extra) {
			return true
		}
		runtime.Gosched()
	}
	return verifkit.Eventually(d, func() bool { return env.quiet(extra) })
}

// c23Drive feeds the stream to the subject and judges what was started.
func c23Drive(t *rapid.T, env *c23Env, subj *c23Subject, stream []uint64, kinds []string, cancelAt int) (nontrivial bool, desc string, labels []string) {
	st := env.st
	if !env.waitQuiet(0, 20*time.Second) {
		c23Inconclusive(t, "goroutines of the previous case did not settle")
	}
	inner, cancel := context.WithCancel(context.Background())
	defer cancel()
	ctx := &c23Ctx{Context: inner}
	blocks := make(chan uint64) // unbuffered: a send returns once the watcher took the block
	rec := &c23Recorder{landed: make(chan struct{}, 4096)}
	subj.start(ctx, blocks, rec.record)

	model := &c23Model{}
	exp := &c23Expected{}
	observe := func(b uint64) bool {
		if !model.observe(b) {
			return false
		}
		exp.windows = append(exp.windows, b)
		exp.who = append(exp.who, subj.who())
		return true
	}
	var rendered []string
	render := func() string { return strings.Join(rendered, " ") }
	fail := func(msg string) {
		cancel()
		t.Fatalf("%s; stream: %s", msg, render())
	}
	// settle decides without the clock whether everything that was going to
	// be started has been started: an off-grid block is offered; once the
	// watcher took it, the `go` statements for the previous block have been
	// executed if they ever will be, and the goroutine count tells when the
	// started goroutines have finished.
	settle := func() {
		st.Label("sync:sentinel")
		select {
		case blocks <- 1:
			rendered = append(rendered, "1")
		case <-time.After(20 * time.Second):
			cancel()
			c23Inconclusive(t, "watcher did not take the sentinel block within 20s")
		}
		if !env.waitQuiet(subj.running, 20*time.Second) {
			cancel()
			c23Inconclusive(t, "callback goroutines did not settle within 20s")
		}
		if msg := c23Compare(rec.snapshot(), c23NoTail, exp); msg != "" {
			fail(msg)
		}
	}

	dupWindow, regression := false, false
	for i := 0; i < cancelAt; i++ {
		if subj.between != nil {
			if note := subj.between(t, i); note != "" {
				rendered = append(rendered, note)
			}
		}
		b := stream[i]
		if b != 0 && b%c23Freq == 0 && len(model.started) > 0 {
			last := model.started[len(model.started)-1]
			dupWindow = dupWindow || b == last
			regression = regression || b < last
		}
		select {
		case blocks <- b:
			rendered = append(rendered, fmt.Sprint(b))
		case <-time.After(20 * time.Second):
			cancel()
			c23Inconclusive(t, fmt.Sprintf("watcher did not take block %d (#%d) within 20s", b, i))
		}
		if observe(b) {
			// Starts run in their own goroutines: let those of this window
			// land before the next block is offered so that the order of the
			// observed starts is forced by the harness, not by the scheduler.
			// Tokens only wake the harness up; what counts is the number of
			// recorded starts. A missing start is never decided by this
			// bounded wait but by settle().
			want := exp.total()
			timeout := time.After(c23Patience())
			landed, expired := rec.count() >= want, false
			for !landed && !expired {
				select {
				case <-rec.landed:
				case <-timeout:
					expired = true
				}
				landed = rec.count() >= want
			}
			if !landed {
				settle()
			}
		}
	}

	// Cancellation. No block is on offer at this moment, so a correct watcher
	// sees the cancelled context and returns (normally within microseconds).
	beforeCancel := rec.count()
	cancel()
	stopped := env.waitQuiet(0, c23Patience())
	postConsumed := 0
	if !stopped {
		// Slow machine, or a watcher that ignores the cancellation. Decide
		// without the clock: the block source keeps emitting - further window
		// starts are offered. A correct watcher that is merely late returns at
		// its next select unless it loses the fair choice against a block on
		// offer (documented race; such a block belongs to the history and
		// goes into the model). A watcher that takes c23PostCancelOffers
		// offers in a row and is still running does not stop.
		st.Label("cancel:slow-path")
		next := uint64(1)
		if n := len(model.started); n > 0 {
			next = model.started[n-1]/c23Freq + 1
		}
		deadline := time.Now().Add(20 * time.Second)
		for postConsumed < c23PostCancelOffers && !stopped {
			select {
			case blocks <- next * c23Freq:
				postConsumed++
				rendered = append(rendered, fmt.Sprintf("(cancelled)%d", next*c23Freq))
				observe(next * c23Freq)
				next++
			case <-time.After(time.Millisecond):
			}
			stopped = env.quiet(0)
			if !stopped && time.Now().After(deadline) {
				c23Inconclusive(t, "watcher neither stopped nor took a block within 20s after cancellation")
			}
		}
		if !stopped {
			all := rec.snapshot()
			ctx.muted.Store(true) // park the goroutine that cannot be stopped
			env.leaked++
			t.Fatalf("the watcher is still running after its context was cancelled: it took all %d blocks offered after cancel() had returned and started coordination for windows %v after the cancellation (before: %v)",
				postConsumed, c23WindowsOf(all[beforeCancel:]), c23WindowsOf(all[:beforeCancel]))
		}
	}
	// The watcher has stopped: nobody may take blocks from the source any
	// more (non-blocking offers of the rest of the stream).
	for i := cancelAt; i < len(stream) && i < cancelAt+4; i++ {
		select {
		case blocks <- stream[i]:
			t.Fatalf("block %d offered after the cancelled watcher had stopped was consumed", stream[i])
		default:
		}
	}
	// Everything the watcher was ever going to start has been started and
	// has finished (goroutine count back at the baseline).
	from := c23NoTail
	if postConsumed > 0 {
		from = beforeCancel
	}
	if msg := c23Compare(rec.snapshot(), from, exp); msg != "" {
		t.Fatalf("%s; stream: %s", msg, render())
	}

	seenKinds := map[string]bool{}
	for i := 0; i < cancelAt; i++ {
		seenKinds[kinds[i]] = true
	}
	labels = []string{
		fmt.Sprintf("dup-window:%v", dupWindow), fmt.Sprintf("regression:%v", regression),
		fmt.Sprintf("cancelled-early:%v", cancelAt < len(stream)),
		fmt.Sprintf("windows:%d", min(len(model.started), 6)),
		fmt.Sprintf("top-of-range:%v", cancelAt > 0 && stream[0] > math.MaxUint64/2 || len(model.started) > 0 && model.started[0] > math.MaxUint64/2),
	}
	for _, k := range []string{"near", "zero", "walk", "skip", "leap"} {
		if seenKinds[k] {
			labels = append(labels, "has:"+k)
		}
	}
	return dupWindow && regression, fmt.Sprintf("%s -> %v", render(), model.started), labels
}

func c23DrawCancel(t *rapid.T, n int) int {
	if rapid.IntRange(0, 3).Draw(t, "cancelEarly") == 0 {
		return rapid.IntRange(0, n).Draw(t, "cancelAt")
	}
	return n
}

// ---------------------------------------------------------------------------
// the window watcher alone

func TestVerif_C23_WindowsOnceInOrder(t *testing.T) {
	st := verifkit.New("C23", "TestVerif_C23_WindowsOnceInOrder")
	defer st.Flush()
	env := &c23Env{st: st, baseline: runtime.NumGoroutine()}
	rapid.Check(t, func(t *rapid.T) {
		stream, kinds := c23GenStream(t)
		cancelAt := c23DrawCancel(t, len(stream))
		subj := &c23Subject{
			running: 1,
			who:     func() []string { return []string{""} },
			start: func(ctx context.Context, blocks chan uint64, record func(uint64, string)) {
				go watchCoordinationWindows(ctx, func(context.Context) <-chan uint64 { return blocks },
					func(w *coordinationWindow) { record(w.coordinationBlock, "") })
			},
		}
		nt, desc, labels := c23Drive(t, env, subj, stream, kinds, cancelAt)
		st.Case(nt, desc, labels...)
	})
}

// ---------------------------------------------------------------------------
// the node: what "the node starts coordination" means for an operator that
// controls several wallets - runCoordinationLayer on top of the watcher starts
// the coordination procedure of every controlled wallet, once per window.

// c23Counter is the block counter handed to the node: WatchBlocks returns the
// harness' block source.
type c23Counter struct {
	mu     sync.Mutex
	blocks chan uint64
}

func (c *c23Counter) WaitForBlockHeight(uint64) error { return nil }
func (c *c23Counter) BlockHeightWaiter(uint64) (<-chan uint64, error) {
	return make(chan uint64), nil
}
func (c *c23Counter) CurrentBlock() (uint64, error) { return 0, nil }
func (c *c23Counter) WatchBlocks(context.Context) <-chan uint64 {
	c.mu.Lock()
	defer c.mu.Unlock()
	return c.blocks
}

func c23WalletKey(scalar int64) (*ecdsa.PublicKey, string) {
	x, y := tecdsa.Curve.ScalarBaseMult(big.NewInt(scalar).Bytes())
	return &ecdsa.PublicKey{Curve: tecdsa.Curve, X: x, Y: y}, fmt.Sprintf("%x", x.Bytes()[:4])
}

func TestVerif_C23_NodeStartsEachWalletOnce(t *testing.T) {
	_ = golog.SetLogLevel("*", "fatal")
	st := verifkit.New("C23", "TestVerif_C23_NodeStartsEachWalletOnce")
	defer st.Flush()
	host := Connect()
	counter := &c23Counter{}
	host.blockCounter = counter
	env := &c23Env{st: st, baseline: runtime.NumGoroutine()}
	rapid.Check(t, func(t *rapid.T) {
		stream, kinds := c23GenStream(t)
		cancelAt := c23DrawCancel(t, len(stream))
		// the wallets the node controls: 1..5 now, possibly more later
		registry := &walletRegistry{walletCache: map[string]*walletCacheValue{}}
		var names []string
		base := rapid.Int64Range(2, 1<<40).Draw(t, "walletBase")
		addWallet := func() string {
			pub, name := c23WalletKey(base + int64(len(names)))
			registry.mutex.Lock()
			registry.walletCache[getWalletStorageKey(pub)] = &walletCacheValue{
				signers: []*signer{{wallet: wallet{publicKey: pub}}},
			}
			registry.mutex.Unlock()
			names = append(names, name)
			return name
		}
		for n := rapid.SampledFrom([]int{1, 2, 2, 3, 3, 4, 5}).Draw(t, "wallets"); n > 0; n-- {
			addWallet()
		}
		joinAt := -1
		if rapid.IntRange(0, 2).Draw(t, "walletJoins") == 0 && cancelAt > 0 {
			joinAt = rapid.IntRange(0, cancelAt-1).Draw(t, "joinAt")
		}
		n := &node{chain: host, walletRegistry: registry}
		subj := &c23Subject{
			running: 2, // the watcher and the result processor
			who: func() []string {
				out := append([]string{}, names...)
				sort.Strings(out)
				return out
			},
			between: func(_ *rapid.T, i int) string {
				if i == joinAt {
					return "+wallet:" + addWallet()
				}
				return ""
			},
			start: func(ctx context.Context, blocks chan uint64, record func(uint64, string)) {
				counter.mu.Lock()
				counter.blocks = blocks
				counter.mu.Unlock()
				err := n.runCoordinationLayer(ctx, &coordinationLayerSettings{
					executeCoordinationProcedureFn: func(_ *node, w *coordinationWindow, key *ecdsa.PublicKey) (*coordinationResult, bool) {
						record(w.coordinationBlock, fmt.Sprintf("%x", key.X.Bytes()[:4]))
						return nil, false
					},
					processCoordinationResultFn: func(*node, *coordinationResult) {},
				})
				if err != nil {
					t.Fatalf("runCoordinationLayer: %v", err)
				}
			},
		}
		nt, desc, labels := c23Drive(t, env, subj, stream, kinds, cancelAt)
		labels = append(labels, fmt.Sprintf("wallets:%d", min(len(names), 5)), fmt.Sprintf("wallet-joins:%v", joinAt >= 0))
		st.Case(nt && len(names) >= 2, fmt.Sprintf("wallets=%v %s", names, desc), labels...)
	})
}
