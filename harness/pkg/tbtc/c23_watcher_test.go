package tbtc

import (
	"context"
	"fmt"
	"math"
	"runtime"
	"sort"
	"strings"
	"sync"
	"sync/atomic"
	"testing"
	"time"

	"github.com/keep-network/keep-core/internal/verifkit"
	"pgregory.net/rapid"
)

const c23Freq = 900 // the window frequency of the property statement, in blocks

// c23Model: a block starts a window iff it is a positive multiple of the
// frequency and lies after the last window started.
type c23Model struct {
	started []uint64
}

func (m *c23Model) observe(block uint64) bool {
	if block == 0 || block%c23Freq != 0 {
		return false
	}
	if n := len(m.started); n > 0 && block <= m.started[n-1] {
		return false
	}
	m.started = append(m.started, block)
	return true
}

// c23GenStream builds a block stream by construction out of moves that reach
// the interesting regions: next windows (with gaps), the same window block
// again, earlier windows, near misses around window starts, zeros, noise.
func c23GenStream(t *rapid.T) (stream []uint64, kinds []string) {
	n := rapid.IntRange(1, 40).Draw(t, "length")
	// base window: small, or close to the top of the uint64 range
	top := uint64(math.MaxUint64/c23Freq) - 600 // room for every move of a case and the offers after cancellation
	base := rapid.SampledFrom([]uint64{0, 0, 0, 1, 7, 1000, top}).Draw(t, "baseWindow")
	cur := base // highest window index visited so far (0 = none yet)
	var visited []uint64
	for i := 0; i < n; i++ {
		move := rapid.SampledFrom([]string{
			"next", "next", "next", "skip", "dup", "dup", "regress", "regress",
			"near", "near", "zero", "noise", "walk", "walk", "leap",
		}).Draw(t, "move")
		var b uint64
		switch move {
		case "next":
			cur++
			b = cur * c23Freq
			visited = append(visited, b)
		case "skip":
			cur += uint64(rapid.IntRange(2, 5).Draw(t, "gap"))
			b = cur * c23Freq
			visited = append(visited, b)
		case "leap": // from the low range to the top of the range (once)
			if cur < top {
				cur = top
			} else {
				cur++
			}
			b = cur * c23Freq
			visited = append(visited, b)
		case "dup":
			if len(stream) == 0 {
				b = 0
			} else {
				b = stream[len(stream)-1-rapid.IntRange(0, min(2, len(stream)-1)).Draw(t, "back")]
			}
		case "regress":
			if len(visited) == 0 {
				if cur > 0 {
					b = (cur - uint64(rapid.IntRange(0, int(min(cur, 3))).Draw(t, "down"))) * c23Freq
				}
			} else {
				b = rapid.SampledFrom(visited).Draw(t, "earlier")
			}
		case "near":
			w := cur + uint64(rapid.IntRange(0, 1).Draw(t, "ahead"))
			d := rapid.SampledFrom([]int64{-2, -1, 1, 2, 100, 899, -899, 450}).Draw(t, "delta")
			if d < 0 && w*c23Freq >= uint64(-d) {
				b = w*c23Freq - uint64(-d)
			} else if d < 0 {
				b = w*c23Freq + uint64(-d)
			} else {
				b = w*c23Freq + uint64(d)
			}
		case "zero":
			b = 0
		case "noise":
			b = rapid.Uint64().Draw(t, "any")
			if b%c23Freq == 0 { // keep noise off the window grid (by construction, no filtering)
				b++
			}
		case "walk": // a few consecutive blocks across a window start
			w := (cur + 1) * c23Freq
			cur++
			visited = append(visited, w)
			stream = append(stream, w-1, w)
			kinds = append(kinds, "walk", "walk")
			b = w + 1
		}
		stream = append(stream, b)
		kinds = append(kinds, move)
	}
	return
}

// c23Patience is how long a callback is awaited before the clock-free sentinel
// path decides. VERIF_C23_PATIENCE_US (microseconds) lets a run force that
// path (used once to test the harness itself; see notes).
func c23Patience() time.Duration {
	return time.Duration(verifkit.EnvInt("VERIF_C23_PATIENCE_US", 250_000)) * time.Microsecond
}

// c23PostCancelOffers: how many consecutive blocks offered after cancel() the
// watcher may take while still running before that is a violation. A correct
// watcher that has not yet noticed the cancellation takes a block on offer
// only by losing Go's fair select between the ready block and the closed
// Done channel, so taking all of them has probability 2^-64.
const c23PostCancelOffers = 64

// c23Ctx is the context handed to the watcher. It is a plain cancellable
// context until the harness has reached its verdict "the watcher never stops";
// mute() then makes Done() block so that the watcher goroutine that can no
// longer be stopped is at least parked instead of spinning.
type c23Ctx struct {
	context.Context
	muted atomic.Bool
}

func (c *c23Ctx) Done() <-chan struct{} {
	if c.muted.Load() {
		return nil
	}
	return c.Context.Done()
}

type c23Recorder struct {
	mu      sync.Mutex
	windows []uint64
	landed  chan struct{} // one token per callback
}

func (r *c23Recorder) onWindow(w *coordinationWindow) {
	r.mu.Lock()
	defer r.mu.Unlock()
	r.windows = append(r.windows, w.coordinationBlock)
	select {
	case r.landed <- struct{}{}:
	default:
	}
}

func (r *c23Recorder) snapshot() []uint64 {
	r.mu.Lock()
	defer r.mu.Unlock()
	return append([]uint64{}, r.windows...)
}

func c23Inconclusive(t *rapid.T, why string) {
	fmt.Println("VERIF-INCONCLUSIVE: " + why)
	t.Fatalf("VERIF-INCONCLUSIVE: %s", why)
}

func c23Equal(a, b []uint64) bool {
	if len(a) != len(b) {
		return false
	}
	for i := range a {
		if a[i] != b[i] {
			return false
		}
	}
	return true
}

func TestVerif_C23_WindowsOnceInOrder(t *testing.T) {
	st := verifkit.New("C23", "TestVerif_C23_WindowsOnceInOrder")
	defer st.Flush()
	baseline := runtime.NumGoroutine() // no watcher, no callbacks
	leaked := 0                        // watchers that never returned (only after a violation was reported)
	rapid.Check(t, func(t *rapid.T) {
		stream, kinds := c23GenStream(t)
		cancelAt := len(stream)
		if rapid.IntRange(0, 3).Draw(t, "cancelEarly") == 0 {
			cancelAt = rapid.IntRange(0, len(stream)).Draw(t, "cancelAt")
		}

		if !verifkit.Eventually(20*time.Second, func() bool { return runtime.NumGoroutine() <= baseline+leaked }) {
			c23Inconclusive(t, "goroutines of the previous case did not settle")
		}
		inner, cancel := context.WithCancel(context.Background())
		defer cancel()
		ctx := &c23Ctx{Context: inner}
		blocks := make(chan uint64) // unbuffered: a send returns once the watcher took the block
		rec := &c23Recorder{landed: make(chan struct{}, 1024)}
		returned := make(chan struct{})
		go func() {
			defer close(returned)
			watchCoordinationWindows(ctx, func(context.Context) <-chan uint64 { return blocks }, rec.onWindow)
		}()

		model := &c23Model{}
		dupWindow, regression := false, false
		var extra []int // positions after which the off-grid sentinel block 1 was offered
		for i := 0; i < cancelAt; i++ {
			b := stream[i]
			if b != 0 && b%c23Freq == 0 && len(model.started) > 0 {
				last := model.started[len(model.started)-1]
				dupWindow = dupWindow || b == last
				regression = regression || b < last
			}
			select {
			case blocks <- b:
			case <-time.After(20 * time.Second):
				cancel()
				c23Inconclusive(t, fmt.Sprintf("watcher did not take block %d (#%d) within 20s", b, i))
			}
			if model.observe(b) {
				// Callbacks run in their own goroutines: let this one land
				// before the next block is offered so that the order of the
				// observed invocations is forced by the harness, not by the
				// scheduler. A missing callback is decided at the end of the
				// case (after quiescence), never by this bounded wait.
				// tokens only wake the harness up; what counts is the number of
				// recorded callbacks (a token may be left over from a callback
				// that landed late, after the sentinel path below)
				want := len(model.started)
				timeout := time.After(c23Patience())
				landed, expired := false, false
				for !landed && !expired {
					select {
					case <-rec.landed:
					case <-timeout:
						expired = true
					}
					landed = len(rec.snapshot()) >= want
				}
				if !landed {
					// Not landed yet (slow machine, or a callback that will
					// never come). Decide without the clock: an off-grid block
					// is offered; once the watcher took it, the `go` statement
					// for the previous block has been executed if it ever will
					// be, and the goroutine count tells when it has finished.
					st.Label("sync:sentinel")
					select {
					case blocks <- 1:
						extra = append(extra, i)
					case <-time.After(20 * time.Second):
						cancel()
						c23Inconclusive(t, "watcher did not take the sentinel block within 20s")
					}
					if !verifkit.Eventually(20*time.Second, func() bool { return runtime.NumGoroutine() <= baseline+leaked+1 }) {
						cancel()
						c23Inconclusive(t, "callback goroutines did not settle within 20s")
					}
					if got := rec.snapshot(); !c23Equal(got, model.started) {
						cancel()
						t.Fatalf("after block %d (#%d): windows started %v, expected %v", b, i, got, model.started)
					}
				}
			}
		}

		// Cancellation. No block is on offer at this moment, so a correct
		// watcher sees the cancelled context and returns (normally within
		// microseconds).
		beforeCancel := len(rec.snapshot())
		cancel()
		watcherReturned := false
		select {
		case <-returned:
			watcherReturned = true
		case <-time.After(c23Patience()):
		}
		postConsumed := 0
		if !watcherReturned {
			// Slow machine, or a watcher that ignores the cancellation. Decide
			// without the clock: the block source keeps emitting - further
			// window starts are offered. A correct watcher that is merely late
			// returns at its next select unless it loses the fair choice
			// against a block on offer (documented race; such a block belongs
			// to the history and goes into the model). A watcher that takes
			// c23PostCancelOffers offers in a row and is still running does not
			// stop.
			st.Label("cancel:slow-path")
			next := uint64(1)
			if n := len(model.started); n > 0 {
				next = model.started[n-1]/c23Freq + 1
			}
			bound := time.After(20 * time.Second)
			for postConsumed < c23PostCancelOffers && !watcherReturned {
				select {
				case blocks <- next * c23Freq:
					postConsumed++
					model.observe(next * c23Freq)
					next++
				case <-returned:
					watcherReturned = true
				case <-bound:
					c23Inconclusive(t, "watcher neither returned nor took a block within 20s after cancellation")
				}
			}
			if !watcherReturned {
				late := rec.snapshot()[beforeCancel:]
				ctx.muted.Store(true) // park the goroutine that cannot be stopped
				leaked++
				t.Fatalf("the watcher is still running after its context was cancelled: it took all %d blocks offered after cancel() had returned and started coordination for windows %v after the cancellation (before: %v)",
					postConsumed, late, rec.snapshot()[:beforeCancel])
			}
		}
		// The watcher has returned: nobody may take blocks from the source any
		// more (non-blocking offers of the rest of the stream).
		for i := cancelAt; i < len(stream) && i < cancelAt+4; i++ {
			select {
			case blocks <- stream[i]:
				t.Fatalf("block %d offered after the cancelled watcher had returned was consumed", stream[i])
			default:
			}
		}
		// every `go onWindowFn` the watcher was ever going to issue has been
		// issued; wait until those goroutines are gone.
		if !verifkit.Eventually(20*time.Second, func() bool { return runtime.NumGoroutine() <= baseline+leaked }) {
			c23Inconclusive(t, fmt.Sprintf("goroutines did not settle (%d > %d)", runtime.NumGoroutine(), baseline+leaked))
		}
		got := rec.snapshot()
		if postConsumed > 0 {
			// blocks taken while racing with the cancellation may have had
			// several callbacks in flight: their order is the scheduler's
			sort.Slice(got[beforeCancel:], func(i, j int) bool { return got[beforeCancel+i] < got[beforeCancel+j] })
		}
		render := func() string {
			var parts []string
			for i := 0; i < cancelAt; i++ {
				parts = append(parts, fmt.Sprint(stream[i]))
				for _, e := range extra {
					if e == i {
						parts = append(parts, "1")
					}
				}
			}
			return strings.Join(parts, " ")
		}
		// the clauses of the statement on the observed invocations
		for i, w := range got {
			if w == 0 || w%c23Freq != 0 {
				t.Fatalf("coordination started for block %d which is not a positive multiple of %d; stream: %s", w, c23Freq, render())
			}
			for j := 0; j < i; j++ {
				if got[j] == w {
					t.Fatalf("window %d started twice; started: %v; stream: %s", w, got, render())
				}
				if got[j] > w {
					t.Fatalf("window %d started after the later window %d; started: %v; stream: %s", w, got[j], got, render())
				}
			}
		}
		// and the exact set (also the other direction: every new window seen is started)
		if !c23Equal(got, model.started) {
			t.Fatalf("windows started %v, expected %v; stream: %s", got, model.started, render())
		}
		seenKinds := map[string]bool{}
		for i := 0; i < cancelAt; i++ {
			seenKinds[kinds[i]] = true
		}
		labels := []string{
			fmt.Sprintf("dup-window:%v", dupWindow), fmt.Sprintf("regression:%v", regression),
			fmt.Sprintf("cancelled-early:%v", cancelAt < len(stream)),
			fmt.Sprintf("windows:%d", min(len(model.started), 6)),
			fmt.Sprintf("top-of-range:%v", cancelAt > 0 && stream[0] > math.MaxUint64/2 || len(model.started) > 0 && model.started[0] > math.MaxUint64/2),
		}
		for _, k := range []string{"near", "zero", "walk", "skip", "leap"} {
			if seenKinds[k] {
				labels = append(labels, "has:"+k)
			}
		}
		st.Case(dupWindow && regression, fmt.Sprintf("%s -> %v", render(), model.started), labels...)
	})
}
