//go:build go1.23

package tbtc

// C08: tECDSA signing by any honest quorum of the FINAL signing group.
//
// Wallets come from two sources:
//   (a) the 3-of-5 key share fixtures of pkg/internal/tecdsatest, either as they
//       are or PROJECTED to the wallet a key generation with excluded members
//       would have produced (the shares of the remaining members restricted to
//       the remaining party keys - the same polynomial, fewer evaluation
//       points), and
//   (b) a real dkg.Executor.Execute run with excluded members.
// Every wallet goes through the real registerSigner/finalSigningGroup (index
// shift), the real wallet storage (Marshal/Unmarshal through a registry
// re-load) and then signing.Execute is called with exactly the arguments
// signingExecutor.sign builds from the stored signer, for generated
// honest-threshold subsets of the FINAL indices, over a harness-owned
// broadcast hub which holds/duplicates messages according to a drawn plan.

import (
	"context"
	"crypto/ecdsa"
	"crypto/elliptic"
	"crypto/sha256"
	"fmt"
	"math/big"
	"sort"
	"strings"
	"sync"
	"testing"
	"time"

	"github.com/bnb-chain/tss-lib/crypto"
	"github.com/bnb-chain/tss-lib/crypto/paillier"
	"github.com/bnb-chain/tss-lib/ecdsa/keygen"
	"github.com/btcsuite/btcd/btcec/v2"
	btcecdsa "github.com/btcsuite/btcd/btcec/v2/ecdsa"
	"github.com/keep-network/keep-common/pkg/persistence"
	"github.com/keep-network/keep-core/internal/testutils"
	"github.com/keep-network/keep-core/internal/verifkit"
	"github.com/keep-network/keep-core/pkg/chain"
	"github.com/keep-network/keep-core/pkg/chain/local_v1"
	"github.com/keep-network/keep-core/pkg/generator"
	"github.com/keep-network/keep-core/pkg/internal/tecdsatest"
	"github.com/keep-network/keep-core/pkg/net"
	"github.com/keep-network/keep-core/pkg/operator"
	"github.com/keep-network/keep-core/pkg/protocol/group"
	"github.com/keep-network/keep-core/pkg/tecdsa"
	"github.com/keep-network/keep-core/pkg/tecdsa/dkg"
	"github.com/keep-network/keep-core/pkg/tecdsa/dkg/gen/pb"
	"github.com/keep-network/keep-core/pkg/tecdsa/signing"
	signingpb "github.com/keep-network/keep-core/pkg/tecdsa/signing/gen/pb"
	"google.golang.org/protobuf/proto"
	"google.golang.org/protobuf/reflect/protoreflect"
	"google.golang.org/protobuf/types/known/timestamppb"
	"pgregory.net/rapid"
)

// ------------------------------------------------------------------ the hub

type c08Msg struct {
	sender  string
	pubKey  []byte
	payload interface{}
	typ     string
	seq     uint64
}

type c08TransportID string

func (t c08TransportID) String() string { return string(t) }

func (m *c08Msg) TransportSenderID() net.TransportIdentifier { return c08TransportID(m.sender) }
func (m *c08Msg) SenderPublicKey() []byte                    { return m.pubKey }
func (m *c08Msg) Payload() interface{}                       { return m.payload }
func (m *c08Msg) Type() string                               { return m.typ }
func (m *c08Msg) Seqno() uint64                              { return m.seq }

const (
	c08Normal = iota
	c08Dup
	c08Hold
)

type c08Handler struct {
	ctx context.Context
	fn  func(net.Message)
}

type c08Held struct {
	typeIdx int
	msg     *c08Msg
}

// c08Hub is a broadcast medium: everything a seat sends is handed to every
// attached seat (the sender included, as the real pubsub does), unless the plan
// says the copy for a receiver is duplicated or held back until that receiver
// has seen a message of a LATER protocol phase (or the protocol stalls).
type c08Hub struct {
	mu        sync.Mutex
	seats     []group.MemberIndex
	pubKeys   map[group.MemberIndex][]byte
	factories map[string]func() net.TaggedUnmarshaler
	typeOrder map[string]int
	handlers  map[group.MemberIndex][]*c08Handler
	plan      map[string]int // "sender/typeIdx/receiver" -> action
	held      map[group.MemberIndex][]c08Held
	backlog   map[group.MemberIndex][]*c08Msg // arrived before the seat started listening
	// messages of OTHER signing sessions claiming these (participating) senders
	// are mixed in: a re-crafted copy before every genuine message and a
	// periodic flood of recorded messages of all phases (see c08Foreign*)
	injectFrom    []group.MemberIndex
	injectSession string
	foreign       map[int][]byte // phase -> raw message recorded in another run
	recordFrom    group.MemberIndex
	recorded      map[int][]byte
	drip          *c08Drip
	quorum        map[group.MemberIndex]bool // the signers under test (nil: every seat); other seats only listen and talk
	// same-session messages claiming these members, which the attempt
	// excluded, accompany every genuine message (see onSend)
	outsiderClaims []group.MemberIndex
	dripWG         sync.WaitGroup
	seq            uint64
	stats          map[string]int
	lastSend       time.Time
}

func c08NewHub(seats []group.MemberIndex, pubKeys map[group.MemberIndex][]byte, plan map[string]int) *c08Hub {
	if plan == nil {
		plan = map[string]int{}
	}
	return &c08Hub{
		seats: seats, pubKeys: pubKeys, plan: plan,
		factories: map[string]func() net.TaggedUnmarshaler{}, typeOrder: map[string]int{},
		handlers: map[group.MemberIndex][]*c08Handler{}, held: map[group.MemberIndex][]c08Held{},
		backlog: map[group.MemberIndex][]*c08Msg{},
		stats:   map[string]int{}, lastSend: time.Now(),
	}
}

func (h *c08Hub) newPayload(typ string, raw []byte) interface{} {
	h.mu.Lock()
	f := h.factories[typ]
	h.mu.Unlock()
	if f == nil {
		return nil
	}
	p := f()
	if p.Unmarshal(raw) != nil {
		return nil
	}
	return p
}

// handOver gives a message to the receiver's handlers. A seat which has not
// started listening yet gets the message as soon as it does (the real network
// retransmits; nothing is ever lost here).
func (h *c08Hub) handOver(receiver group.MemberIndex, msg *c08Msg) {
	h.mu.Lock()
	hs := append([]*c08Handler{}, h.handlers[receiver]...)
	if len(hs) == 0 {
		h.backlog[receiver] = append(h.backlog[receiver], msg)
	}
	h.mu.Unlock()
	for _, hd := range hs {
		if hd.ctx.Err() == nil {
			hd.fn(msg)
		}
	}
}

func (h *c08Hub) deliver(receiver, sender group.MemberIndex, typ string, raw []byte) {
	payload := h.newPayload(typ, raw)
	if payload == nil {
		return
	}
	h.mu.Lock()
	h.seq++
	msg := &c08Msg{sender: fmt.Sprintf("seat-%d", sender), pubKey: h.pubKeys[sender], payload: payload, typ: typ, seq: h.seq}
	h.mu.Unlock()
	h.handOver(receiver, msg)
}

func (h *c08Hub) releaseHeld(receiver group.MemberIndex, belowType int) {
	h.mu.Lock()
	var keep, rel []c08Held
	for _, e := range h.held[receiver] {
		if e.typeIdx < belowType {
			rel = append(rel, e)
		} else {
			keep = append(keep, e)
		}
	}
	h.held[receiver] = keep
	h.mu.Unlock()
	for _, e := range rel {
		h.handOver(receiver, e.msg)
	}
}

// c08Drip makes one receiver lag at a state boundary and then hands it the
// messages of the NEXT phase one by one while it crosses the boundary: the
// phase-`boundary` message of lagSender for receiver is kept back until the
// phase-(boundary+1) messages of all other participants are waiting for the
// receiver; then the kept message is handed over and the waiting ones follow
// at the drawn offsets (ms). Every message is delivered exactly once (the
// production transport filters retransmissions of a delivered message, so a
// message a state drops is lost for good).
type c08Drip struct {
	receiver  group.MemberIndex
	lagSender group.MemberIndex
	boundary  int
	offsets   map[group.MemberIndex]int // sender of the next-phase message -> ms after the kept message

	lagMsg   *c08Msg
	next     map[group.MemberIndex]*c08Msg
	released bool
}

func (d *c08Drip) String() string {
	if d == nil {
		return "none"
	}
	var offs []string
	for s, o := range d.offsets {
		offs = append(offs, fmt.Sprintf("%d@+%dms", s, o))
	}
	sort.Strings(offs)
	return fmt.Sprintf("receiver %d lags on phase %d of %d, phase %d dripped %v", d.receiver, d.boundary, d.lagSender, d.boundary+1, offs)
}

// dripIntercept takes a message addressed to the drip receiver out of the
// normal flow if the drip plan covers it. Returns true when it did.
func (h *c08Hub) dripIntercept(r, sender group.MemberIndex, ti int, typ string, raw []byte) bool {
	d := h.drip
	if d == nil || r != d.receiver || sender == r || (h.quorum != nil && !h.quorum[sender]) {
		return false
	}
	isLag := ti == d.boundary && sender == d.lagSender
	isNext := ti == d.boundary+1
	if !isLag && !isNext {
		return false
	}
	payload := h.newPayload(typ, raw)
	if payload == nil {
		return false
	}
	h.mu.Lock()
	if d.released {
		h.mu.Unlock()
		return false
	}
	h.seq++
	msg := &c08Msg{sender: fmt.Sprintf("seat-%d", sender), pubKey: h.pubKeys[sender], payload: payload, typ: typ, seq: h.seq}
	if isLag {
		d.lagMsg = msg
	} else {
		d.next[sender] = msg
	}
	peers := len(h.seats) - 1
	if h.quorum != nil {
		peers = len(h.quorum) - 1
	}
	ready := d.lagMsg != nil && len(d.next) == peers
	if ready {
		d.released = true
		h.stats["drip-released"]++
	}
	h.mu.Unlock()
	if ready {
		h.dripRelease()
	}
	return true
}

// dripRelease hands over the kept message and then the waiting ones at their
// offsets. Timing only shapes the schedule.
func (h *c08Hub) dripRelease() {
	d := h.drip
	h.handOver(d.receiver, d.lagMsg)
	type item struct {
		at  int
		msg *c08Msg
	}
	var items []item
	for s, m := range d.next {
		items = append(items, item{d.offsets[s], m})
	}
	sort.Slice(items, func(i, j int) bool {
		if items[i].at != items[j].at {
			return items[i].at < items[j].at
		}
		return items[i].msg.seq < items[j].msg.seq
	})
	h.dripWG.Add(1)
	go func() {
		defer h.dripWG.Done()
		start := time.Now()
		for _, it := range items {
			if wait := time.Duration(it.at)*time.Millisecond - time.Since(start); wait > 0 {
				time.Sleep(wait)
			}
			h.handOver(d.receiver, it.msg)
		}
	}()
}

// dripAbandon releases whatever the drip plan keeps back (safety net for a
// plan whose condition cannot be met any more).
func (h *c08Hub) dripAbandon() {
	d := h.drip
	if d == nil {
		return
	}
	h.mu.Lock()
	if d.released || (d.lagMsg == nil && len(d.next) == 0) {
		h.mu.Unlock()
		return
	}
	d.released = true
	h.stats["drip-abandoned"]++
	var msgs []*c08Msg
	if d.lagMsg != nil {
		msgs = append(msgs, d.lagMsg)
	}
	for _, m := range d.next {
		msgs = append(msgs, m)
	}
	h.mu.Unlock()
	sort.Slice(msgs, func(i, j int) bool { return msgs[i].seq < msgs[j].seq })
	for _, m := range msgs {
		h.handOver(d.receiver, m)
	}
}

// deliverForeign hands over a message of another session; one the real
// unmarshaler rejects is counted, not delivered.
func (h *c08Hub) deliverForeign(receiver, claimed group.MemberIndex, typ string, raw []byte, kind string) {
	payload := h.newPayload(typ, raw)
	h.mu.Lock()
	if payload == nil {
		h.stats[kind+"-unparsable"]++
		h.mu.Unlock()
		return
	}
	h.seq++
	h.stats[kind]++
	msg := &c08Msg{sender: fmt.Sprintf("seat-%d", claimed), pubKey: h.pubKeys[claimed], payload: payload, typ: typ, seq: h.seq}
	h.mu.Unlock()
	h.handOver(receiver, msg)
}

// floodForeign delivers, for every injecting sender, the recorded messages of
// ALL phases of another signing session (sender id rewritten to that sender)
// to every other participant - what retransmissions of the previous message of
// a batch look like on the wallet channel.
func (h *c08Hub) floodForeign() {
	if len(h.injectFrom) == 0 || len(h.foreign) == 0 {
		return
	}
	h.mu.Lock()
	types := map[int]string{}
	for typ, ti := range h.typeOrder {
		types[ti] = typ
	}
	h.mu.Unlock()
	for _, from := range h.injectFrom {
		for ti := 0; ti < len(types); ti++ {
			raw := h.foreign[ti]
			if raw == nil {
				continue
			}
			crafted := c08Recraft(ti, raw, uint32(from), "", false)
			if crafted == nil {
				continue
			}
			for _, r := range h.seats {
				if r != from {
					h.deliverForeign(r, from, types[ti], crafted, "foreign-flood")
				}
			}
		}
	}
}

func c08SigningPb(phase int) proto.Message {
	switch phase {
	case 0:
		return &signingpb.EphemeralPublicKeyMessage{}
	case 1:
		return &signingpb.TSSRoundOneMessage{}
	case 2:
		return &signingpb.TSSRoundTwoMessage{}
	case 3:
		return &signingpb.TSSRoundThreeMessage{}
	case 4:
		return &signingpb.TSSRoundFourMessage{}
	case 5:
		return &signingpb.TSSRoundFiveMessage{}
	case 6:
		return &signingpb.TSSRoundSixMessage{}
	case 7:
		return &signingpb.TSSRoundSevenMessage{}
	case 8:
		return &signingpb.TSSRoundEightMessage{}
	case 9:
		return &signingpb.TSSRoundNineMessage{}
	}
	return nil
}

// c08Recraft rewrites a marshalled signing message of the given phase on the
// wire level: sender id (0 keeps it), session id ("" keeps it) and, if asked,
// the content (payload bytes altered, ephemeral keys rotated among receivers).
func c08Recraft(phase int, raw []byte, sender uint32, session string, alter bool) []byte {
	m := c08SigningPb(phase)
	if m == nil || proto.Unmarshal(raw, m) != nil {
		return nil
	}
	r := m.ProtoReflect()
	fields := r.Descriptor().Fields()
	if fd := fields.ByName("senderID"); fd != nil && sender != 0 {
		r.Set(fd, protoreflect.ValueOfUint32(sender))
	}
	if fd := fields.ByName("sessionID"); fd != nil && session != "" {
		r.Set(fd, protoreflect.ValueOfString(session))
	}
	flip := func(b []byte) []byte {
		c := append([]byte{}, b...)
		if len(c) > 0 {
			c[len(c)/2] ^= 0x5a
			c[len(c)-1] ^= 0x01
		}
		return c
	}
	if alter {
		if fd := fields.ByName("broadcastPayload"); fd != nil {
			r.Set(fd, protoreflect.ValueOfBytes(flip(r.Get(fd).Bytes())))
		}
		if fd := fields.ByName("peersPayload"); fd != nil {
			mp := r.Mutable(fd).Map()
			var keys []protoreflect.MapKey
			mp.Range(func(k protoreflect.MapKey, _ protoreflect.Value) bool { keys = append(keys, k); return true })
			for _, k := range keys {
				mp.Set(k, protoreflect.ValueOfBytes(flip(mp.Get(k).Bytes())))
			}
		}
		if fd := fields.ByName("ephemeralPublicKeys"); fd != nil {
			mp := r.Mutable(fd).Map()
			var keys []protoreflect.MapKey
			mp.Range(func(k protoreflect.MapKey, _ protoreflect.Value) bool { keys = append(keys, k); return true })
			sort.Slice(keys, func(i, j int) bool { return keys[i].Uint() < keys[j].Uint() })
			vals := make([][]byte, len(keys))
			for i, k := range keys {
				vals[i] = append([]byte{}, mp.Get(k).Bytes()...)
			}
			for i, k := range keys {
				mp.Set(k, protoreflect.ValueOfBytes(vals[(i+1)%len(keys)]))
			}
		}
	}
	out, err := proto.Marshal(m)
	if err != nil {
		return nil
	}
	return out
}

func (h *c08Hub) heldCount() int {
	h.mu.Lock()
	defer h.mu.Unlock()
	n := 0
	for _, l := range h.held {
		n += len(l)
	}
	return n
}

func (h *c08Hub) flushAllHeld() {
	for _, r := range h.seats {
		h.releaseHeld(r, 1<<30)
	}
}

func (h *c08Hub) onSend(sender group.MemberIndex, typ string, raw []byte) {
	h.mu.Lock()
	h.lastSend = time.Now()
	ti, ok := h.typeOrder[typ]
	h.stats["sent"]++
	h.mu.Unlock()
	if !ok {
		return
	}
	if h.recordFrom == sender && h.recorded != nil {
		h.mu.Lock()
		if _, have := h.recorded[ti]; !have {
			h.recorded[ti] = append([]byte{}, raw...)
		}
		h.mu.Unlock()
	}
	if h.quorum == nil || h.quorum[sender] {
		// a member the attempt excluded sends, in the SAME session, what the
		// genuine sender is about to send (content altered): phase by phase
		for _, claimed := range h.outsiderClaims {
			crafted := c08Recraft(ti, raw, uint32(claimed), "", true)
			for _, r := range h.seats {
				if r != claimed && crafted != nil {
					h.deliverForeign(r, claimed, typ, crafted, "excluded-member-message")
				}
			}
		}
	}
	for _, from := range h.injectFrom {
		if from != sender {
			continue
		}
		// what the same sender transmits in another session (another attempt
		// for the same message): same type, other session id, other content
		crafted := c08Recraft(ti, raw, 0, h.injectSession, true)
		for _, r := range h.seats {
			if r != sender && crafted != nil {
				h.deliverForeign(r, sender, typ, crafted, "foreign-before-genuine")
			}
		}
	}
	for _, r := range h.seats {
		if h.dripIntercept(r, sender, ti, typ, raw) {
			continue
		}
		action := c08Normal
		if r != sender {
			action = h.plan[fmt.Sprintf("%d/%d/%d", sender, ti, r)]
		}
		switch action {
		case c08Hold:
			payload := h.newPayload(typ, raw)
			if payload == nil {
				continue
			}
			h.mu.Lock()
			h.seq++
			h.held[r] = append(h.held[r], c08Held{ti, &c08Msg{sender: fmt.Sprintf("seat-%d", sender), pubKey: h.pubKeys[sender], payload: payload, typ: typ, seq: h.seq}})
			h.stats["held"]++
			h.mu.Unlock()
		case c08Dup:
			h.deliver(r, sender, typ, raw)
			h.deliver(r, sender, typ, raw)
			h.mu.Lock()
			h.stats["duplicated"]++
			h.mu.Unlock()
		default:
			h.deliver(r, sender, typ, raw)
		}
		// r has now seen a message of phase ti: release what was held for r
		// from earlier phases, so r got the later-phase message FIRST.
		h.releaseHeld(r, ti)
	}
}

type c08Chan struct {
	hub  *c08Hub
	seat group.MemberIndex
}

func (c *c08Chan) Name() string { return "c08" }
func (c *c08Chan) Send(_ context.Context, m net.TaggedMarshaler, _ ...net.RetransmissionStrategy) error {
	b, err := m.Marshal()
	if err != nil {
		return err
	}
	c.hub.onSend(c.seat, m.Type(), b)
	return nil
}
func (c *c08Chan) Recv(ctx context.Context, fn func(net.Message)) {
	c.hub.mu.Lock()
	c.hub.handlers[c.seat] = append(c.hub.handlers[c.seat], &c08Handler{ctx, fn})
	early := c.hub.backlog[c.seat]
	c.hub.backlog[c.seat] = nil
	c.hub.mu.Unlock()
	for _, msg := range early {
		fn(msg)
	}
}
func (c *c08Chan) SetUnmarshaler(f func() net.TaggedUnmarshaler) {
	typ := f().Type()
	c.hub.mu.Lock()
	if _, ok := c.hub.factories[typ]; !ok {
		c.hub.typeOrder[typ] = len(c.hub.typeOrder)
	}
	c.hub.factories[typ] = f
	c.hub.mu.Unlock()
}
func (c *c08Chan) SetFilter(net.BroadcastChannelFilter) error { return nil }

// pump waits for done; while waiting it releases held messages whenever the
// protocol stalls (this only shapes the schedule, it is never a verdict).
func (h *c08Hub) pump(done <-chan struct{}) {
	tick := time.NewTicker(50 * time.Millisecond)
	defer tick.Stop()
	for {
		select {
		case <-done:
			return
		case <-tick.C:
			h.floodForeign()
			h.mu.Lock()
			idle := time.Since(h.lastSend)
			h.mu.Unlock()
			if idle > 400*time.Millisecond && h.heldCount() > 0 {
				h.flushAllHeld()
				h.mu.Lock()
				h.stats["stall-flush"]++
				h.mu.Unlock()
			}
			if idle > 5*time.Second {
				h.dripAbandon()
			}
		}
	}
}

// ------------------------------------------------------- in-memory persistence

type c08Descriptor struct {
	name, dir string
	content   []byte
}

func (d *c08Descriptor) Name() string             { return d.name }
func (d *c08Descriptor) Directory() string        { return d.dir }
func (d *c08Descriptor) Content() ([]byte, error) { return d.content, nil }

// c08MemHandle satisfies persistence.BasicHandle and persistence.ProtectedHandle.
type c08MemHandle struct {
	mu    sync.Mutex
	saved []*c08Descriptor
}

func (m *c08MemHandle) Save(data []byte, directory string, name string) error {
	m.mu.Lock()
	defer m.mu.Unlock()
	m.saved = append(m.saved, &c08Descriptor{name: name, dir: directory, content: append([]byte{}, data...)})
	return nil
}
func (m *c08MemHandle) Snapshot([]byte, string, string) error { return nil }
func (m *c08MemHandle) Archive(string) error                  { return nil }
func (m *c08MemHandle) Delete(directory string, name string) error {
	m.mu.Lock()
	defer m.mu.Unlock()
	var keep []*c08Descriptor
	for _, d := range m.saved {
		if !(d.dir == directory && d.name == name) {
			keep = append(keep, d)
		}
	}
	m.saved = keep
	return nil
}
func (m *c08MemHandle) ReadAll() (<-chan persistence.DataDescriptor, <-chan error) {
	m.mu.Lock()
	defer m.mu.Unlock()
	out := make(chan persistence.DataDescriptor, len(m.saved))
	errs := make(chan error)
	for _, d := range m.saved {
		out <- d
	}
	close(out)
	close(errs)
	return out, errs
}

// ------------------------------------------------------------------ fixtures

var (
	c08FixturesOnce sync.Once
	c08Fixtures     []keygen.LocalPartySaveData
	c08FixtureBase  *big.Int // the key generation seed of the fixtures: Ks[i] = base + (i+1)
	c08FixturesErr  error
)

func c08LoadFixtures() ([]keygen.LocalPartySaveData, *big.Int, error) {
	c08FixturesOnce.Do(func() {
		fx, err := tecdsatest.LoadPrivateKeyShareTestFixtures(5)
		if err != nil {
			c08FixturesErr = err
			return
		}
		base := new(big.Int).Sub(fx[0].Ks[0], big.NewInt(1))
		for i := range fx {
			if len(fx[i].Ks) != 5 {
				c08FixturesErr = fmt.Errorf("fixture %d has %d party keys", i, len(fx[i].Ks))
				return
			}
			for j, k := range fx[i].Ks {
				if new(big.Int).Sub(k, base).Cmp(big.NewInt(int64(j+1))) != 0 {
					c08FixturesErr = fmt.Errorf("fixture %d party keys are not base+1..base+5", i)
					return
				}
			}
			if new(big.Int).Sub(fx[i].ShareID, base).Cmp(big.NewInt(int64(i+1))) != 0 {
				c08FixturesErr = fmt.Errorf("fixture %d does not belong to key generation member %d", i, i+1)
				return
			}
		}
		c08Fixtures, c08FixtureBase = fx, base
	})
	return c08Fixtures, c08FixtureBase, c08FixturesErr
}

// c08Project restricts a fixture share to the parties at the given positions
// (ascending): the share a key generation without the other members yields.
func c08Project(s keygen.LocalPartySaveData, keep []int) keygen.LocalPartySaveData {
	out := s
	out.Ks = make([]*big.Int, 0, len(keep))
	out.NTildej = make([]*big.Int, 0, len(keep))
	out.H1j = make([]*big.Int, 0, len(keep))
	out.H2j = make([]*big.Int, 0, len(keep))
	out.BigXj = make([]*crypto.ECPoint, 0, len(keep))
	out.PaillierPKs = make([]*paillier.PublicKey, 0, len(keep))
	for _, p := range keep {
		out.Ks = append(out.Ks, s.Ks[p])
		out.NTildej = append(out.NTildej, s.NTildej[p])
		out.H1j = append(out.H1j, s.H1j[p])
		out.H2j = append(out.H2j, s.H2j[p])
		out.BigXj = append(out.BigXj, s.BigXj[p])
		out.PaillierPKs = append(out.PaillierPKs, s.PaillierPKs[p])
	}
	return out
}

// ------------------------------------------------------------------ operators

type c08Operator struct {
	pubKeyBytes []byte
	address     chain.Address
}

var (
	c08OperatorsOnce sync.Once
	c08OperatorPool  []c08Operator
	c08ChainSigning  chain.Signing
	c08OperatorsErr  error
)

// Operator identities only feed the membership validator (address <-> public
// key of a seat); their key material is irrelevant to the property, so a fixed
// pool per process is enough.
func c08Operators() ([]c08Operator, chain.Signing, error) {
	c08OperatorsOnce.Do(func() {
		c08ChainSigning = local_v1.Connect(5, 3).Signing()
		for i := 0; i < 8; i++ {
			// fixed keys: the public key of the private scalar 0xC08000+i
			x, y := local_v1.DefaultCurve.ScalarBaseMult(big.NewInt(int64(0xC08000 + i)).Bytes())
			pk := &operator.PublicKey{Curve: operator.Secp256k1, X: x, Y: y}
			addr, err := c08ChainSigning.PublicKeyToAddress(pk)
			if err != nil {
				c08OperatorsErr = err
				return
			}
			c08OperatorPool = append(c08OperatorPool, c08Operator{operator.MarshalUncompressed(pk), addr})
		}
	})
	return c08OperatorPool, c08ChainSigning, c08OperatorsErr
}

// ------------------------------------------------------------ the wallet model

// c08Wallet describes one key generation outcome the harness knows completely:
// the selected group, who was left out, and each remaining member's result.
type c08Wallet struct {
	source    string // "fixture" | "dkg"
	n, quorum int
	honest    int
	seed      *big.Int            // key generation seed: party key of member d is seed+d
	excluded  []group.MemberIndex // ascending
	inactive  map[group.MemberIndex]bool
	operating []group.MemberIndex // ascending
	seatOp    []int               // seat (dkg index-1) -> operator number
	results   map[group.MemberIndex]*dkg.Result
	publicKey *ecdsa.PublicKey
}

func (w *c08Wallet) describe() string {
	return fmt.Sprintf("%s wallet %d-of-%d quorum=%d excluded=%v operating=%v seats->operators=%v",
		w.source, w.honest, w.n, w.quorum, w.excluded, w.operating, w.seatOp)
}

// shifted reports whether some remaining member's final index differs from the
// index it used during key generation.
func (w *c08Wallet) shifted() bool {
	for i, d := range w.operating {
		if int(d) != i+1 {
			return true
		}
	}
	return false
}

func c08CalculateWalletID(pk *ecdsa.PublicKey) ([32]byte, error) {
	return sha256.Sum256(elliptic.Marshal(pk.Curve, pk.X, pk.Y)), nil
}

type c08Fataler interface {
	Fatalf(format string, args ...any)
}

// c08CheckFinalGroup compares the real finalSigningGroup with the model for
// the wallet's selected group and remaining members (cheap, needs no shares).
func c08CheckFinalGroup(t c08Fataler, w *c08Wallet) {
	ops, _, err := c08Operators()
	if err != nil {
		t.Fatalf("harness: %v", err)
	}
	selected := make([]chain.Address, w.n)
	for i := range selected {
		selected[i] = ops[w.seatOp[i]].address
	}
	// hand the remaining members over in the order Group.OperatingMemberIndexes does
	g := group.NewGroup(w.n-w.honest, w.n)
	for _, e := range w.excluded {
		g.MarkMemberAsDisqualified(e)
	}
	finalOps, finalIdx, err := finalSigningGroup(
		append([]chain.Address{}, selected...), g.OperatingMemberIndexes(),
		&GroupParameters{GroupSize: w.n, GroupQuorum: w.quorum, HonestThreshold: w.honest},
	)
	if err != nil {
		t.Fatalf("finalSigningGroup rejected %d remaining members with quorum %d: %v; %s", len(w.operating), w.quorum, err, w.describe())
	}
	if len(finalOps) != len(w.operating) || len(finalIdx) != len(w.operating) {
		t.Fatalf("finalSigningGroup returned %d operators / %d indices for %d remaining members; %s", len(finalOps), len(finalIdx), len(w.operating), w.describe())
	}
	for i, d := range w.operating {
		if finalIdx[d] != group.MemberIndex(i+1) {
			t.Fatalf("finalSigningGroup maps key generation member %d to final index %d, expected %d; %s", d, finalIdx[d], i+1, w.describe())
		}
		if finalOps[i] != selected[d-1] {
			t.Fatalf("finalSigningGroup puts another operator at final index %d than the operator of key generation member %d; %s", i+1, d, w.describe())
		}
	}
}

// c08Register passes every remaining member's key generation result through
// the real registerSigner of its operator's node, compares what was stored
// with the model, optionally re-loads the signers from storage (node restart)
// and returns the signers keyed by FINAL member index.
func c08Register(t c08Fataler, w *c08Wallet, reload bool) map[group.MemberIndex]*signer {
	ops, _, err := c08Operators()
	if err != nil {
		t.Fatalf("harness: %v", err)
	}
	params := &GroupParameters{GroupSize: w.n, GroupQuorum: w.quorum, HonestThreshold: w.honest}
	selected := make([]chain.Address, w.n)
	for i := range selected {
		selected[i] = ops[w.seatOp[i]].address
	}
	// the model of the final group, written independently of finalSigningGroup
	var modelOperators []chain.Address
	modelFinal := map[group.MemberIndex]group.MemberIndex{}
	for d := 1; d <= w.n; d++ {
		isOperating := false
		for _, o := range w.operating {
			if int(o) == d {
				isOperating = true
			}
		}
		if isOperating {
			modelOperators = append(modelOperators, selected[d-1])
			modelFinal[group.MemberIndex(d)] = group.MemberIndex(len(modelOperators))
		}
	}

	handles := map[int]*c08MemHandle{}
	executors := map[int]*dkgExecutor{}
	for _, d := range w.operating {
		op := w.seatOp[d-1]
		if executors[op] == nil {
			handles[op] = &c08MemHandle{}
			registry, err := newWalletRegistry(handles[op], c08CalculateWalletID)
			if err != nil {
				t.Fatalf("harness: %v", err)
			}
			executors[op] = &dkgExecutor{groupParameters: params, walletRegistry: registry}
		}
	}

	signers := map[group.MemberIndex]*signer{}
	for _, d := range w.operating {
		op := w.seatOp[d-1]
		res := w.results[d]
		sg, err := executors[op].registerSigner(res, d, append([]chain.Address{}, selected...))
		if err != nil || sg == nil {
			t.Fatalf("registerSigner failed for key generation member %d: %v; %s", d, err, w.describe())
		}
		f := sg.signingGroupMemberIndex
		if f != modelFinal[d] {
			t.Fatalf("key generation member %d was stored with final member index %d, expected %d; %s", d, f, modelFinal[d], w.describe())
		}
		if fmt.Sprint(sg.wallet.signingGroupOperators) != fmt.Sprint(modelOperators) {
			t.Fatalf("key generation member %d was stored with a final group operator list which is not the operators of the remaining members in order; %s", d, w.describe())
		}
		if sg.wallet.publicKey.X.Cmp(w.publicKey.X) != 0 || sg.wallet.publicKey.Y.Cmp(w.publicKey.Y) != 0 {
			t.Fatalf("key generation member %d was stored with a different wallet public key; %s", d, w.describe())
		}
		signers[f] = sg
	}
	if len(signers) != len(w.operating) {
		t.Fatalf("%d remaining members were stored under %d distinct final indices; %s", len(w.operating), len(signers), w.describe())
	}

	if reload {
		loaded := map[group.MemberIndex]*signer{}
		for op, h := range handles {
			registry, err := newWalletRegistry(h, c08CalculateWalletID)
			if err != nil {
				t.Fatalf("harness: %v", err)
			}
			expect := 0
			for _, d := range w.operating {
				if w.seatOp[d-1] == op {
					expect++
				}
			}
			got := registry.getSigners(w.publicKey)
			if len(got) != expect {
				t.Fatalf("operator %d stored %d signers but %d were loaded back; %s", op, expect, len(got), w.describe())
			}
			for _, sg := range got {
				loaded[sg.signingGroupMemberIndex] = sg
			}
		}
		for f, sg := range signers {
			l := loaded[f]
			if l == nil {
				t.Fatalf("signer with final index %d is missing after re-loading the storage; %s", f, w.describe())
			}
			if fmt.Sprint(l.wallet.signingGroupOperators) != fmt.Sprint(sg.wallet.signingGroupOperators) {
				t.Fatalf("signer %d: operators changed by the storage round trip; %s", f, w.describe())
			}
		}
		signers = loaded
	}

	// Each member's stored index maps to the party identity it used during
	// key generation: party key of key generation member d is seed+d.
	for _, d := range w.operating {
		f := modelFinal[d]
		data := signers[f].privateKeyShare.Data()
		want := new(big.Int).Add(w.seed, big.NewInt(int64(d)))
		if len(data.Ks) != len(w.operating) {
			t.Fatalf("final member %d: key share lists %d party keys for a final group of %d; %s", f, len(data.Ks), len(w.operating), w.describe())
		}
		if data.Ks[f-1].Cmp(want) != 0 {
			t.Fatalf("final member %d (key generation member %d): party key at its stored index is %v, expected seed+%d = %v; %s", f, d, data.Ks[f-1], d, want, w.describe())
		}
		if data.ShareID.Cmp(want) != 0 {
			t.Fatalf("final member %d (key generation member %d): the share's own identity is %v but the stored index points at %v; %s", f, d, data.ShareID, data.Ks[f-1], w.describe())
		}
	}
	return signers
}

// ------------------------------------------------------------------ signing

type c08SignCase struct {
	subset  []group.MemberIndex // FINAL indices taking part, ascending
	message *big.Int
	plan    map[string]int
	chaos   int
	// participants whose messages of OTHER signing sessions are mixed in
	inject []group.MemberIndex
	record group.MemberIndex // harness: keep this sender's first message of every phase
	drip   *c08Drip
	// members of the final group which the attempt excluded but which run the
	// same session all the same (they saw the announcements differently and
	// believe the mapped quorum member is the excluded one)
	outsiders map[group.MemberIndex]group.MemberIndex
	// excluded members in whose name same-session messages of every phase are sent
	outsiderClaims []group.MemberIndex
}

func (c *c08SignCase) describe() string {
	var sched []string
	for k, v := range c.plan {
		if v == c08Hold {
			sched = append(sched, "hold:"+k)
		} else if v == c08Dup {
			sched = append(sched, "dup:"+k)
		}
	}
	sort.Strings(sched)
	if len(sched) > 12 {
		sched = append(sched[:12], fmt.Sprintf("...+%d", len(sched)-12))
	}
	return fmt.Sprintf("signers=%v msg=0x%s other-session-messages-of=%v drip=[%v] excluded-members-running-the-session=%v excluded-members-sending-every-phase=%v schedule=%v", c.subset, c.message.Text(16), c.inject, c.drip, c08OutsiderList(c.outsiders), c.outsiderClaims, sched)
}

func c08OutsiderList(m map[group.MemberIndex]group.MemberIndex) []string {
	var l []string
	for o, s := range m {
		l = append(l, fmt.Sprintf("%d(thinks %d is out)", o, s))
	}
	sort.Strings(l)
	return l
}

type c08SignOutcome struct {
	sigs     map[group.MemberIndex]*tecdsa.Signature
	errs     map[group.MemberIndex]error
	hard     map[group.MemberIndex]bool // the error came while the run was still live
	timeout  bool
	stats    map[string]int
	recorded map[int][]byte
}

var c08FullSignBudget = time.Duration(verifkit.EnvInt("VERIF_C08_SIGN_BUDGET_S", 240)) * time.Second

var (
	c08StallMu        sync.Mutex
	c08StallConfirmed bool          // a stuck run was confirmed against the full budget and a passing control
	c08ControlTook    time.Duration // how long that control needed
)

// c08SignBudget is how long a signing run may take before it is compared with
// a control run. The first stuck run of a process is established with the full
// budget; once that happened (the process is going to fail anyway and rapid is
// only minimising the example) the budget follows the measured speed of the
// machine: 8 times what the passing control needed, at least 45 s.
func c08SignBudget() time.Duration {
	c08StallMu.Lock()
	defer c08StallMu.Unlock()
	if !c08StallConfirmed {
		return c08FullSignBudget
	}
	b := 8 * c08ControlTook
	if b < 45*time.Second {
		b = 45 * time.Second
	}
	if b > c08FullSignBudget {
		b = c08FullSignBudget
	}
	return b
}

// c08Sign runs signing.Execute for every member of the subset with the
// arguments signingExecutor.sign derives from the stored signer.
func c08Sign(w *c08Wallet, signers map[group.MemberIndex]*signer, c *c08SignCase, budget time.Duration) (*c08SignOutcome, error) {
	ops, chainSigning, err := c08Operators()
	if err != nil {
		return nil, err
	}
	m := len(w.operating)
	in := map[group.MemberIndex]bool{}
	for _, f := range c.subset {
		in[f] = true
	}
	var excluded []group.MemberIndex
	for f := 1; f <= m; f++ {
		if !in[group.MemberIndex(f)] {
			excluded = append(excluded, group.MemberIndex(f))
		}
	}
	// the network knows a final seat by the operator key of the key
	// generation seat it came from (model, not the stored operator list)
	pubKeys := map[group.MemberIndex][]byte{}
	for i, d := range w.operating {
		pubKeys[group.MemberIndex(i+1)] = ops[w.seatOp[d-1]].pubKeyBytes
	}
	seats := append([]group.MemberIndex{}, c.subset...)
	for o := range c.outsiders {
		seats = append(seats, o)
	}
	sort.Slice(seats, func(i, j int) bool { return seats[i] < seats[j] })
	hub := c08NewHub(seats, pubKeys, c.plan)
	hub.quorum = in
	hub.outsiderClaims = c.outsiderClaims
	if len(c.inject) > 0 {
		foreign, err := c08ForeignSession()
		if err != nil {
			return nil, err
		}
		hub.injectFrom, hub.foreign = c.inject, foreign
		// another attempt for the same message
		hub.injectSession = fmt.Sprintf("%v-%v", c.message.Text(16), 2)
	}
	if c.record != 0 {
		hub.recordFrom, hub.recorded = c.record, map[int][]byte{}
	}
	if c.drip != nil {
		hub.drip = &c08Drip{receiver: c.drip.receiver, lagSender: c.drip.lagSender, boundary: c.drip.boundary,
			offsets: c.drip.offsets, next: map[group.MemberIndex]*c08Msg{}}
	}
	ctx, cancel := context.WithTimeout(context.Background(), budget)
	defer cancel()
	out := &c08SignOutcome{sigs: map[group.MemberIndex]*tecdsa.Signature{}, errs: map[group.MemberIndex]error{}, hard: map[group.MemberIndex]bool{}}
	sessionID := fmt.Sprintf("%v-%v", c.message.Text(16), 1)
	var mu sync.Mutex
	var wg sync.WaitGroup
	for _, f := range c.subset {
		sg := signers[f]
		ch := &c08Chan{hub, f}
		signing.RegisterUnmarshallers(ch)
		wg.Add(1)
		go func(f group.MemberIndex, sg *signer, ch *c08Chan) {
			defer wg.Done()
			var res *signing.Result
			var err error
			func() {
				defer func() {
					if r := recover(); r != nil {
						err = fmt.Errorf("PANIC: %v", r)
					}
				}()
				wallet := sg.wallet
				validator := group.NewMembershipValidator(&testutils.MockLogger{}, wallet.signingGroupOperators, chainSigning)
				res, err = signing.Execute(
					ctx, &testutils.MockLogger{}, c.message, sessionID,
					sg.signingGroupMemberIndex, sg.privateKeyShare,
					wallet.groupSize(), wallet.groupDishonestThreshold(w.honest),
					excluded, ch, validator,
				)
			}()
			live := ctx.Err() == nil
			mu.Lock()
			if res != nil {
				out.sigs[f] = res.Signature
			}
			out.errs[f] = err
			out.hard[f] = err != nil && live
			mu.Unlock()
			if err != nil && live {
				// a participant gave up for a reason of its own: the others
				// would only wait for the budget to run out
				cancel()
			}
		}(f, sg, ch)
	}
	// excluded members which run the session too: honest, but with another
	// idea of who is excluded. They cannot finish; whatever happens to them
	// is not under test.
	var outsiderWG sync.WaitGroup
	for o, swapped := range c.outsiders {
		sg := signers[o]
		if sg == nil {
			continue
		}
		var theirExcluded []group.MemberIndex
		for _, e := range excluded {
			if e != o {
				theirExcluded = append(theirExcluded, e)
			}
		}
		theirExcluded = append(theirExcluded, swapped)
		ch := &c08Chan{hub, o}
		signing.RegisterUnmarshallers(ch)
		outsiderWG.Add(1)
		go func(sg *signer, ch *c08Chan, theirExcluded []group.MemberIndex) {
			defer outsiderWG.Done()
			defer func() { _ = recover() }()
			wallet := sg.wallet
			validator := group.NewMembershipValidator(&testutils.MockLogger{}, wallet.signingGroupOperators, chainSigning)
			_, _ = signing.Execute(
				ctx, &testutils.MockLogger{}, c.message, sessionID,
				sg.signingGroupMemberIndex, sg.privateKeyShare,
				wallet.groupSize(), wallet.groupDishonestThreshold(w.honest),
				theirExcluded, ch, validator,
			)
		}(sg, ch, theirExcluded)
	}
	done := make(chan struct{})
	go func() { wg.Wait(); close(done) }()
	hub.pump(done)
	hub.dripWG.Wait()
	out.timeout = ctx.Err() == context.DeadlineExceeded
	cancel()
	outsiderWG.Wait()
	out.stats = hub.stats
	out.recorded = hub.recorded
	return out, nil
}

var (
	c08CurveN     = tecdsa.Curve.Params().N
	c08CurveHalfN = new(big.Int).Rsh(tecdsa.Curve.Params().N, 1)
)

// c08CheckOutcome is the oracle of one signing run.
func c08CheckOutcome(t c08Fataler, w *c08Wallet, signers map[group.MemberIndex]*signer, c *c08SignCase, out *c08SignOutcome) {
	where := func() string { return c.describe() + "; " + w.describe() }
	var hardErrs []string
	for _, f := range c.subset {
		if e := out.errs[f]; e != nil && out.hard[f] {
			hardErrs = append(hardErrs, fmt.Sprintf("member %d: %v", f, e))
		}
	}
	if len(hardErrs) > 0 {
		t.Fatalf("signing failed although every participant is honest and every message was delivered: %s; %s", strings.Join(hardErrs, "; "), where())
	}
	if len(out.sigs) < len(c.subset) {
		var errs []string
		for _, f := range c.subset {
			errs = append(errs, fmt.Sprintf("member %d: %v", f, out.errs[f]))
		}
		// nobody reported a reason of its own: the run hit the budget. Only a
		// control run on the plain fixture group tells a stuck protocol from a
		// slow machine.
		budget := c08SignBudget()
		controlStart := time.Now()
		ok, cerr := c08Control(budget)
		if cerr == nil && ok {
			c08StallMu.Lock()
			c08StallConfirmed, c08ControlTook = true, time.Since(controlStart)
			c08StallMu.Unlock()
		}
		if cerr == nil && ok {
			t.Fatalf("signing did not complete within %v (%s) while a plain signing of the contiguous fixture group completes: the protocol is stuck; %s", budget, strings.Join(errs, "; "), where())
		}
		c08StallMu.Lock()
		minimising := c08StallConfirmed
		c08StallMu.Unlock()
		if minimising {
			// rapid is minimising an established failure with the shorter
			// budget: a candidate that cannot be confirmed is simply not taken
			return
		}
		fmt.Printf("VERIF-INCONCLUSIVE: C08 signing and its control run did not complete within %v (%s; control error %v)\n", budget, strings.Join(errs, "; "), cerr)
		t.Fatalf("VERIF-INCONCLUSIVE: machine too slow")
	}
	ref := out.sigs[c.subset[0]]
	if ref == nil || ref.R == nil || ref.S == nil {
		t.Fatalf("member %d returned an empty signature; %s", c.subset[0], where())
	}
	for _, f := range c.subset[1:] {
		s := out.sigs[f]
		if s == nil || s.R == nil || s.S == nil || s.R.Cmp(ref.R) != 0 || s.S.Cmp(ref.S) != 0 || s.RecoveryID != ref.RecoveryID {
			t.Fatalf("members %d and %d returned different signatures: %v vs %v; %s", c.subset[0], f, ref, s, where())
		}
	}
	if ref.R.Sign() <= 0 || ref.R.Cmp(c08CurveN) >= 0 || ref.S.Sign() <= 0 || ref.S.Cmp(c08CurveN) >= 0 {
		t.Fatalf("signature components out of range: %v; %s", ref, where())
	}
	if ref.S.Cmp(c08CurveHalfN) > 0 {
		t.Fatalf("signature has a HIGH S value: %v; %s", ref, where())
	}
	hash := make([]byte, 32)
	c.message.FillBytes(hash)
	// verifier 1: the standard library over the wallet key the key generation reported
	if !ecdsa.Verify(&ecdsa.PublicKey{Curve: tecdsa.Curve, X: w.publicKey.X, Y: w.publicKey.Y}, hash, ref.R, ref.S) {
		t.Fatalf("signature does not verify under the wallet public key (crypto/ecdsa): %v; %s", ref, where())
	}
	// verifier 2: btcec, the library the Bitcoin side uses
	pk, err := btcec.ParsePubKey(elliptic.Marshal(tecdsa.Curve, w.publicKey.X, w.publicKey.Y))
	if err != nil {
		t.Fatalf("harness: wallet public key does not parse: %v", err)
	}
	var r, s btcec.ModNScalar
	r.SetByteSlice(ref.R.Bytes())
	s.SetByteSlice(ref.S.Bytes())
	if !btcecdsa.NewSignature(&r, &s).Verify(hash, pk) {
		t.Fatalf("signature does not verify under the wallet public key (btcec): %v; %s", ref, where())
	}
}

var (
	c08ForeignOnce sync.Once
	c08ForeignMsgs map[int][]byte
	c08ForeignErr  error
)

// c08ForeignSession returns member 1's messages of all ten phases of a complete
// signing session of the plain fixture group (message 0xD0): genuine messages
// of ANOTHER session, as they are still retransmitted on the wallet channel
// while the next message of a batch is signed. One run per process.
func c08ForeignSession() (map[int][]byte, error) {
	c08ForeignOnce.Do(func() {
		out, err := c08PlainFixtureSigning(&c08SignCase{subset: []group.MemberIndex{1, 2, 3}, message: big.NewInt(0xD0), record: 1}, c08FullSignBudget)
		if err != nil {
			c08ForeignErr = err
			return
		}
		if len(out.sigs) != 3 || len(out.recorded) != c08SigningPhases {
			c08ForeignErr = fmt.Errorf("VERIF-INCONCLUSIVE: the signing session to record foreign messages from did not complete (%d signatures, %d phases, errors %v)", len(out.sigs), len(out.recorded), out.errs)
			return
		}
		c08ForeignMsgs = out.recorded
	})
	return c08ForeignMsgs, c08ForeignErr
}

// c08Control signs with final members 1,2,3 of the untouched fixture group over
// an undisturbed hub, bypassing everything C08 is about.
func c08Control(budget time.Duration) (bool, error) {
	out, err := c08PlainFixtureSigning(&c08SignCase{subset: []group.MemberIndex{1, 2, 3}, message: big.NewInt(0xC08)}, budget)
	if err != nil {
		return false, err
	}
	return len(out.sigs) == 3, nil
}

func c08PlainFixtureSigning(c *c08SignCase, budget time.Duration) (*c08SignOutcome, error) {
	fx, base, err := c08LoadFixtures()
	if err != nil {
		return nil, err
	}
	w := &c08Wallet{source: "fixture", n: 5, quorum: 3, honest: 3, seed: base, operating: []group.MemberIndex{1, 2, 3, 4, 5}, seatOp: []int{0, 1, 2, 3, 4}}
	ops, _, err := c08Operators()
	if err != nil {
		return nil, err
	}
	var operators []chain.Address
	for i := 0; i < 5; i++ {
		operators = append(operators, ops[i].address)
	}
	signers := map[group.MemberIndex]*signer{}
	for i := 0; i < 5; i++ {
		share := tecdsa.NewPrivateKeyShare(fx[i])
		signers[group.MemberIndex(i+1)] = newSigner(share.PublicKey(), operators, group.MemberIndex(i+1), share)
	}
	return c08Sign(w, signers, c, budget)
}

func c08Debugf(format string, args ...any) {
	if verifkit.EnvInt("VERIF_DEBUG", 0) != 0 {
		fmt.Printf("%s C08 "+format+"\n", append([]any{time.Now().Format("15:04:05.000")}, args...)...)
	}
}

// ------------------------------------------------------------------ generators

func c08DrawMessage(t *rapid.T, label string) (*big.Int, string) {
	kind := rapid.SampledFrom([]string{"n-1", "high-bit", "zero", "short", "small", "low-bit-only", "random", "random", "random", "random"}).Draw(t, label+"Kind")
	var m *big.Int
	switch kind {
	case "small":
		m = big.NewInt(int64(rapid.IntRange(1, 255).Draw(t, label+"Small")))
	case "short":
		m = new(big.Int).SetBytes(rapid.SliceOfN(rapid.Byte(), 1, 31).Draw(t, label+"Short"))
	case "n-1":
		m = new(big.Int).Sub(c08CurveN, big.NewInt(int64(rapid.IntRange(1, 3).Draw(t, label+"Below"))))
	case "high-bit":
		m = new(big.Int).SetBytes(rapid.SliceOfN(rapid.Byte(), 32, 32).Draw(t, label+"Bytes"))
		m.SetBit(m, 255, 1)
	case "low-bit-only":
		m = new(big.Int).Lsh(big.NewInt(1), uint(rapid.IntRange(0, 255).Draw(t, label+"Bit")))
	case "zero":
		m = big.NewInt(0)
	default:
		m = new(big.Int).SetBytes(rapid.SliceOfN(rapid.Byte(), 32, 32).Draw(t, label+"Bytes"))
	}
	// the signing library takes digests below the curve order only (a SHA-256
	// digest is above it with probability 2^-128)
	if m.Cmp(c08CurveN) >= 0 {
		m.Sub(m, c08CurveN)
		kind += "-reduced"
	}
	return m, kind
}

// c08DrawSubset draws `size` of the final indices 1..m; half of the time (when
// possible) the subset avoids final index 1.
func c08DrawSubset(t *rapid.T, m, size int, label string) []group.MemberIndex {
	first := 1
	if m > size && rapid.Bool().Draw(t, label+"AvoidIndex1") {
		first = 2
	}
	var all []int
	for i := first; i <= m; i++ {
		all = append(all, i)
	}
	perm := rapid.Permutation(all).Draw(t, label)
	pick := append([]int{}, perm[:size]...)
	sort.Ints(pick)
	out := make([]group.MemberIndex, size)
	for i, p := range pick {
		out[i] = group.MemberIndex(p)
	}
	return out
}

const c08SigningPhases = 10

func c08DrawPlan(t *rapid.T, subset []group.MemberIndex, label string) (map[string]int, int) {
	chaos := rapid.SampledFrom([]int{0, 1, 1, 2, 2}).Draw(t, label+"Chaos")
	plan := map[string]int{}
	if chaos == 0 {
		return plan, chaos
	}
	for _, s := range subset {
		for ti := 0; ti < c08SigningPhases; ti++ {
			for _, r := range subset {
				if r == s {
					continue
				}
				v := rapid.IntRange(0, 19).Draw(t, fmt.Sprintf("%sAct-%d/%d/%d", label, s, ti, r))
				switch {
				case chaos == 1 && v < 2, chaos == 2 && v < 6:
					plan[fmt.Sprintf("%d/%d/%d", s, ti, r)] = c08Hold
				case chaos == 2 && v == 6:
					// rare: the production transport filters retransmissions, a
					// second copy must never be what rescues a run
					plan[fmt.Sprintf("%d/%d/%d", s, ti, r)] = c08Dup
				}
			}
		}
	}
	return plan, chaos
}

func c08DrawSeats(t *rapid.T, n int) []int {
	// as the sortition pool does: an operator may hold several seats
	k := rapid.IntRange(1, n).Draw(t, "operators")
	seats := make([]int, n)
	for i := range seats {
		if i < k {
			seats[i] = i // every operator holds at least one seat
		} else {
			seats[i] = rapid.IntRange(0, k-1).Draw(t, fmt.Sprintf("seat%d", i+1))
		}
	}
	perm := rapid.Permutation(seats).Draw(t, "seatOrder")
	return perm
}

func c08SignLabels(w *c08Wallet, c *c08SignCase, kind string, out *c08SignOutcome) (bool, []string) {
	hasOne, shiftedSigner := false, false
	for _, f := range c.subset {
		if f == 1 {
			hasOne = true
		}
		if w.operating[f-1] != f {
			shiftedSigner = true
		}
	}
	labels := []string{
		"wallet:" + w.source, fmt.Sprintf("group:%d-of-%d", w.honest, w.n), fmt.Sprintf("excluded:%d", len(w.excluded)),
		fmt.Sprintf("final-size:%d", len(w.operating)), fmt.Sprintf("signers:%d", len(c.subset)), "msg:" + kind,
		fmt.Sprintf("chaos:%d", c.chaos),
	}
	if w.shifted() {
		labels = append(labels, "wallet-shifted")
	}
	if shiftedSigner {
		labels = append(labels, "signer-with-shifted-index")
	}
	if !hasOne {
		labels = append(labels, "subset-without-index-1")
	}
	if len(c.subset) > w.honest {
		labels = append(labels, "more-than-threshold")
	}
	if len(c.inject) > 0 {
		labels = append(labels, fmt.Sprintf("other-session-messages-of:%d-signers", len(c.inject)))
	}
	if c.drip != nil {
		labels = append(labels, "drip", fmt.Sprintf("drip-boundary:%d", c.drip.boundary))
	}
	if len(c.outsiders) > 0 {
		labels = append(labels, "excluded-member-runs-the-session")
	}
	if len(c.outsiderClaims) > 0 {
		labels = append(labels, "excluded-member-sends-every-phase")
	}
	distinctOps := map[int]bool{}
	for _, d := range w.operating {
		distinctOps[w.seatOp[d-1]] = true
	}
	if len(distinctOps) < len(w.operating) {
		labels = append(labels, "operator-with-several-seats")
	}
	for k, v := range out.stats {
		if v > 0 && k != "sent" {
			labels = append(labels, "hub:"+k)
		}
	}
	if s := out.sigs[c.subset[0]]; s != nil {
		labels = append(labels, fmt.Sprintf("recovery-id:%d", s.RecoveryID))
	}
	return w.shifted() || !hasOne, labels
}

// ------------------------------------------------- (a) fixture-derived wallets

// c08DrawFixtureWallet draws a selected group of 5..7 seats whose key
// generation members 1..5 are the fixture members; every seat above 5 and a
// drawn subset of the first five were left out of the key generation.
func c08DrawFixtureWallet(t *rapid.T) *c08Wallet {
	fx, base, err := c08LoadFixtures()
	if err != nil {
		t.Fatalf("harness: %v", err)
	}
	n := rapid.SampledFrom([]int{5, 5, 5, 6, 7}).Draw(t, "groupSize")
	drop := rapid.SampledFrom([]int{0, 1, 1, 1, 2, 2, 2}).Draw(t, "excludedAmongFirstFive")
	perm := rapid.Permutation([]int{1, 2, 3, 4, 5}).Draw(t, "excludedPerm")
	ex := map[int]bool{}
	for _, p := range perm[:drop] {
		ex[p] = true
	}
	for d := 6; d <= n; d++ {
		ex[d] = true
	}
	w := &c08Wallet{source: "fixture", n: n, honest: 3, seed: base, inactive: map[group.MemberIndex]bool{}, results: map[group.MemberIndex]*dkg.Result{}}
	var keep []int
	for d := 1; d <= n; d++ {
		if ex[d] {
			w.excluded = append(w.excluded, group.MemberIndex(d))
		} else {
			w.operating = append(w.operating, group.MemberIndex(d))
			keep = append(keep, d-1)
		}
	}
	w.quorum = rapid.IntRange(3, len(w.operating)).Draw(t, "quorum")
	w.seatOp = c08DrawSeats(t, n)
	for _, e := range w.excluded {
		// left out before the protocol (disqualified) or found silent (inactive):
		// both are "not operating" for the final group
		if rapid.IntRange(0, 3).Draw(t, fmt.Sprintf("inactive%d", e)) == 0 {
			w.inactive[e] = true
		}
	}
	for _, d := range w.operating {
		g := group.NewGroup(n-w.honest, n)
		for _, e := range w.excluded {
			if w.inactive[e] {
				g.MarkMemberAsInactive(e)
			} else {
				g.MarkMemberAsDisqualified(e)
			}
		}
		share := tecdsa.NewPrivateKeyShare(c08Project(fx[d-1], keep))
		w.results[d] = &dkg.Result{Group: g, PrivateKeyShare: share}
		w.publicKey = share.PublicKey()
	}
	return w
}

func c08DrawSignCase(t *rapid.T, w *c08Wallet, label string, allowLarger bool) (*c08SignCase, string) {
	m := len(w.operating)
	size := w.honest
	if allowLarger && m > size && rapid.IntRange(0, 5).Draw(t, label+"Larger") == 0 {
		size = rapid.IntRange(w.honest+1, m).Draw(t, label+"Size")
	}
	c := &c08SignCase{subset: c08DrawSubset(t, m, size, label+"Subset")}
	var kind string
	c.message, kind = c08DrawMessage(t, label+"Msg")
	c.plan, c.chaos = c08DrawPlan(t, c.subset, label)
	c.inject = c08DrawInject(t, c.subset, label)
	c.drip = c08DrawDrip(t, c.subset, c.plan, label)
	c.outsiders, c.outsiderClaims = c08DrawOutsiders(t, m, c.subset, label)
	return c, kind
}

// c08DrawOutsiders draws, among the final members the attempt excludes, those
// which run the same session nevertheless (each believing a drawn quorum
// member is excluded instead of itself) and those in whose name same-session
// messages of every phase are sent.
func c08DrawOutsiders(t *rapid.T, m int, subset []group.MemberIndex, label string) (map[group.MemberIndex]group.MemberIndex, []group.MemberIndex) {
	in := map[group.MemberIndex]bool{}
	for _, f := range subset {
		in[f] = true
	}
	var excluded []group.MemberIndex
	for f := 1; f <= m; f++ {
		if !in[group.MemberIndex(f)] {
			excluded = append(excluded, group.MemberIndex(f))
		}
	}
	if len(excluded) == 0 {
		return nil, nil
	}
	outsiders := map[group.MemberIndex]group.MemberIndex{}
	var claims []group.MemberIndex
	for _, e := range excluded {
		switch rapid.SampledFrom([]string{"runs-session", "runs-session", "sends-every-phase", "silent", "both"}).Draw(t, fmt.Sprintf("%sExcluded%d", label, e)) {
		case "runs-session":
			outsiders[e] = rapid.SampledFrom(subset).Draw(t, fmt.Sprintf("%sExcluded%dThinksOut", label, e))
		case "sends-every-phase":
			claims = append(claims, e)
		case "both":
			outsiders[e] = rapid.SampledFrom(subset).Draw(t, fmt.Sprintf("%sExcluded%dThinksOut", label, e))
			claims = append(claims, e)
		}
	}
	return outsiders, claims
}

// c08DrawDrip draws (two thirds of the cases) a drip plan and clears the
// ordinary plan for its receiver: that receiver gets every message exactly
// once, no duplicates.
func c08DrawDrip(t *rapid.T, subset []group.MemberIndex, plan map[string]int, label string) *c08Drip {
	if rapid.SampledFrom([]int{1, 1, 0}).Draw(t, label+"Drip") == 0 {
		return nil
	}
	perm := rapid.Permutation(append([]group.MemberIndex{}, subset...)).Draw(t, label+"DripReceiverAndLagSender")
	d := &c08Drip{receiver: perm[0], lagSender: perm[1], offsets: map[group.MemberIndex]int{}}
	// boundary 0 is the one with a message-less state (symmetric keys) in between
	d.boundary = rapid.SampledFrom([]int{0, 0, 0, 0, 0, 1, 2, 3, 4, 5, 6, 7, 8}).Draw(t, label+"DripBoundary")
	// the receiver crosses the boundary on a 100 ms tick 0..100 ms after the
	// kept message and (boundary 0) stays 100 ms in the in-between state
	for i, s := range perm[1:] {
		switch i {
		case 0:
			d.offsets[s] = rapid.IntRange(90, 130).Draw(t, fmt.Sprintf("%sDripOffset%d", label, s))
		case 1:
			d.offsets[s] = rapid.IntRange(130, 250).Draw(t, fmt.Sprintf("%sDripOffset%d", label, s))
		default:
			d.offsets[s] = rapid.IntRange(0, 350).Draw(t, fmt.Sprintf("%sDripOffset%d", label, s))
		}
	}
	for k := range plan {
		var a, b, r int
		if _, err := fmt.Sscanf(k, "%d/%d/%d", &a, &b, &r); err == nil && group.MemberIndex(r) == d.receiver {
			delete(plan, k)
		}
	}
	return d
}

// c08DrawInject picks the participants (none in a third of the cases) whose
// messages of other signing sessions reach the others during the run.
func c08DrawInject(t *rapid.T, subset []group.MemberIndex, label string) []group.MemberIndex {
	k := rapid.SampledFrom([]int{1, 2, 0}).Draw(t, label+"OtherSessionSenders")
	if k == 0 {
		return nil
	}
	perm := rapid.Permutation(append([]group.MemberIndex{}, subset...)).Draw(t, label+"OtherSessionFrom")
	out := append([]group.MemberIndex{}, perm[:k]...)
	sort.Slice(out, func(i, j int) bool { return out[i] < out[j] })
	return out
}

func TestVerif_C08_FixtureWallets(t *testing.T) {
	st := verifkit.New("C08", "TestVerif_C08_FixtureWallets")
	defer st.Flush()
	rapid.Check(t, func(t *rapid.T) {
		w := c08DrawFixtureWallet(t)
		reload := rapid.Bool().Draw(t, "reloadFromStorage")
		c, kind := c08DrawSignCase(t, w, "sign", true)
		c08CheckFinalGroup(t, w)
		signers := c08Register(t, w, reload)
		c08Debugf("case: reload=%v %s; %s", reload, c.describe(), w.describe())
		out, err := c08Sign(w, signers, c, c08SignBudget())
		if err != nil {
			t.Fatalf("harness: %v", err)
		}
		c08Debugf("outcome: sigs=%d errs=%v stats=%v", len(out.sigs), out.errs, out.stats)
		c08CheckOutcome(t, w, signers, c, out)
		nt, labels := c08SignLabels(w, c, kind, out)
		if reload {
			labels = append(labels, "signers-reloaded-from-storage")
		}
		st.Case(nt, c.describe()+"; "+w.describe(), labels...)
	})
}

// TestVerif_C08_EverySubset enumerates, for the 5-seat fixture group, every
// exclusion set leaving at least 3 members and every 3-subset of the final
// group (40 combinations); messages and schedules are drawn.
func TestVerif_C08_EverySubset(t *testing.T) {
	st := verifkit.New("C08", "TestVerif_C08_EverySubset")
	defer st.Flush()
	fx, base, err := c08LoadFixtures()
	if err != nil {
		t.Fatalf("harness: %v", err)
	}
	rapid.Check(t, func(rt *rapid.T) {
		type job struct {
			w    *c08Wallet
			c    *c08SignCase
			kind string
		}
		var jobs []job
		for mask := 0; mask < 32; mask++ {
			var keep []int
			w := &c08Wallet{source: "fixture", n: 5, quorum: 3, honest: 3, seed: base, seatOp: []int{0, 1, 2, 3, 4},
				inactive: map[group.MemberIndex]bool{}, results: map[group.MemberIndex]*dkg.Result{}}
			for d := 1; d <= 5; d++ {
				if mask&(1<<(d-1)) != 0 {
					w.excluded = append(w.excluded, group.MemberIndex(d))
				} else {
					w.operating = append(w.operating, group.MemberIndex(d))
					keep = append(keep, d-1)
				}
			}
			if len(w.operating) < 3 {
				continue
			}
			for _, d := range w.operating {
				g := group.NewGroup(2, 5)
				for _, e := range w.excluded {
					g.MarkMemberAsDisqualified(e)
				}
				share := tecdsa.NewPrivateKeyShare(c08Project(fx[d-1], keep))
				w.results[d] = &dkg.Result{Group: g, PrivateKeyShare: share}
				w.publicKey = share.PublicKey()
			}
			m := len(w.operating)
			for a := 1; a <= m; a++ {
				for b := a + 1; b <= m; b++ {
					for c := b + 1; c <= m; c++ {
						sc := &c08SignCase{subset: []group.MemberIndex{group.MemberIndex(a), group.MemberIndex(b), group.MemberIndex(c)}}
						label := fmt.Sprintf("w%d-%d%d%d", mask, a, b, c)
						var kind string
						sc.message, kind = c08DrawMessage(rt, label+"Msg")
						sc.plan, sc.chaos = c08DrawPlan(rt, sc.subset, label)
						sc.inject = c08DrawInject(rt, sc.subset, label)
						sc.drip = c08DrawDrip(rt, sc.subset, sc.plan, label)
						sc.outsiders, sc.outsiderClaims = c08DrawOutsiders(rt, m, sc.subset, label)
						jobs = append(jobs, job{w, sc, kind})
					}
				}
			}
		}
		type result struct {
			out     *c08SignOutcome
			signers map[group.MemberIndex]*signer
			err     error
		}
		results := make([]result, len(jobs))
		sem := make(chan struct{}, 3)
		var wg sync.WaitGroup
		for i := range jobs {
			signers := c08Register(rt, jobs[i].w, i%2 == 0)
			results[i].signers = signers
			wg.Add(1)
			go func(i int) {
				defer wg.Done()
				sem <- struct{}{}
				defer func() { <-sem }()
				results[i].out, results[i].err = c08Sign(jobs[i].w, signers, jobs[i].c, c08SignBudget())
			}(i)
		}
		wg.Wait()
		for i, j := range jobs {
			if results[i].err != nil {
				rt.Fatalf("harness: %v", results[i].err)
			}
			c08CheckOutcome(rt, j.w, results[i].signers, j.c, results[i].out)
			nt, labels := c08SignLabels(j.w, j.c, j.kind, results[i].out)
			st.Case(nt, j.c.describe()+"; "+j.w.describe(), labels...)
		}
	})
}

// ------------------------------------------------- (b) wallets of a real DKG

var (
	c08SchedulerOnce sync.Once
	c08Scheduler     *generator.Scheduler
	c08SchedulerAt   time.Time
)

type c08BusyProtocol struct{}

func (c08BusyProtocol) IsExecuting() bool { return true }

// c08StoppedScheduler returns a scheduler in the state it has on a node while
// a protocol is executing (computations stopped), so the executors' pools do
// not generate pre-parameters in the background.
func c08StoppedScheduler() *generator.Scheduler {
	c08SchedulerOnce.Do(func() {
		c08Scheduler = generator.StartScheduler()
		c08Scheduler.RegisterProtocol(c08BusyProtocol{})
		c08SchedulerAt = time.Now()
	})
	// the scheduler looks at its protocols once a second
	if wait := 1300*time.Millisecond - time.Since(c08SchedulerAt); wait > 0 {
		time.Sleep(wait)
	}
	return c08Scheduler
}

// c08NewDkgExecutor builds a real dkg.Executor whose pre-parameters pool is
// loaded from (in-memory) storage holding one fixture pre-parameters set.
func c08NewDkgExecutor(pre *keygen.LocalPreParams) (*dkg.Executor, error) {
	raw, err := proto.Marshal(&pb.PreParams{
		Data: &pb.PreParams_LocalPreParams{
			PaillierSK: &pb.PreParams_PrivateKey{
				PublicKey: &pb.PreParams_PublicKey{N: pre.PaillierSK.N.Bytes()},
				LambdaN:   pre.PaillierSK.LambdaN.Bytes(),
				PhiN:      pre.PaillierSK.PhiN.Bytes(),
			},
			NTilde: pre.NTildei.Bytes(), H1I: pre.H1i.Bytes(), H2I: pre.H2i.Bytes(),
			Alpha: pre.Alpha.Bytes(), Beta: pre.Beta.Bytes(), P: pre.P.Bytes(), Q: pre.Q.Bytes(),
		},
		CreationTimestamp: timestamppb.New(time.Unix(1700000000, 0)),
	})
	if err != nil {
		return nil, err
	}
	handle := &c08MemHandle{}
	_ = handle.Save(raw, "preparams", "pp_1700000000000_fixture")
	e := dkg.NewExecutor(&testutils.MockLogger{}, c08StoppedScheduler(), handle, 1, time.Minute, time.Hour, 1, 1)
	if e.PreParamsCount() != 1 {
		return nil, fmt.Errorf("fixture pre-parameters were not accepted by the executor's pool")
	}
	return e, nil
}

const c08DkgBudget = 12 * time.Minute

// c08RunDkg runs the real key generation for the remaining members of w and
// fills w.results / w.publicKey. ok=false means the run did not complete.
func c08RunDkg(w *c08Wallet) (bool, string, error) {
	fx, _, err := c08LoadFixtures()
	if err != nil {
		return false, "", err
	}
	ops, chainSigning, err := c08Operators()
	if err != nil {
		return false, "", err
	}
	selected := make([]chain.Address, w.n)
	pubKeys := map[group.MemberIndex][]byte{}
	for i := range selected {
		selected[i] = ops[w.seatOp[i]].address
		pubKeys[group.MemberIndex(i+1)] = ops[w.seatOp[i]].pubKeyBytes
	}
	executors := make([]*dkg.Executor, len(w.operating))
	for k := range w.operating {
		pre := fx[k].LocalPreParams
		if executors[k], err = c08NewDkgExecutor(&pre); err != nil {
			return false, "", err
		}
	}
	hub := c08NewHub(w.operating, pubKeys, nil)
	ctx, cancel := context.WithTimeout(context.Background(), c08DkgBudget)
	defer cancel()
	sessionID := fmt.Sprintf("%v-%v", w.seed.Text(16), 1)
	errs := map[group.MemberIndex]error{}
	var mu sync.Mutex
	var wg sync.WaitGroup
	for k, d := range w.operating {
		ch := &c08Chan{hub, d}
		dkg.RegisterUnmarshallers(ch)
		wg.Add(1)
		go func(k int, d group.MemberIndex, ch *c08Chan) {
			defer wg.Done()
			validator := group.NewMembershipValidator(&testutils.MockLogger{}, selected, chainSigning)
			res, err := executors[k].Execute(ctx, &testutils.MockLogger{}, w.seed, sessionID, d, w.n, w.n-w.honest, w.excluded, ch, validator)
			mu.Lock()
			if res != nil {
				w.results[d] = res
			}
			errs[d] = err
			mu.Unlock()
			if err != nil && ctx.Err() == nil {
				cancel()
			}
		}(k, d, ch)
	}
	done := make(chan struct{})
	go func() { wg.Wait(); close(done) }()
	hub.pump(done)
	if len(w.results) < len(w.operating) {
		var l []string
		for _, d := range w.operating {
			l = append(l, fmt.Sprintf("member %d: %v", d, errs[d]))
		}
		return false, strings.Join(l, "; "), nil
	}
	return true, "", nil
}

func c08DrawDkgWallet(t *rapid.T) *c08Wallet {
	n := rapid.SampledFrom([]int{5, 5, 5, 6, 7}).Draw(t, "groupSize")
	h := n/2 + 1
	maxOperating := 5 // distinct pre-parameter sets available offline
	if n < maxOperating {
		maxOperating = n
	}
	minOperating := h
	// prefer wallets with more than one honest-threshold subset
	m := rapid.SampledFrom([]int{minOperating + 1, minOperating + 1, maxOperating, minOperating}).Draw(t, "operating")
	if m > maxOperating {
		m = maxOperating
	}
	w := &c08Wallet{source: "dkg", n: n, honest: h, inactive: map[group.MemberIndex]bool{}, results: map[group.MemberIndex]*dkg.Result{}}
	all := make([]int, n)
	for i := range all {
		all[i] = i + 1
	}
	perm := rapid.Permutation(all).Draw(t, "excludedPerm")
	ex := map[int]bool{}
	for _, p := range perm[:n-m] {
		ex[p] = true
	}
	for d := 1; d <= n; d++ {
		if ex[d] {
			w.excluded = append(w.excluded, group.MemberIndex(d))
		} else {
			w.operating = append(w.operating, group.MemberIndex(d))
		}
	}
	w.quorum = rapid.IntRange(h, m).Draw(t, "quorum")
	w.seatOp = c08DrawSeats(t, n)
	// the seed is a 256-bit number on chain; short ones exercise short party keys
	seedLen := rapid.SampledFrom([]int{32, 32, 32, 31, 20, 8, 1}).Draw(t, "seedLen")
	seedBytes := rapid.SliceOfN(rapid.Byte(), seedLen, seedLen).Draw(t, "seed")
	w.seed = new(big.Int).SetBytes(seedBytes)
	if w.seed.Cmp(new(big.Int).Sub(c08CurveN, big.NewInt(256))) >= 0 {
		w.seed.Rsh(w.seed, 1) // party keys seed+d stay below the curve order
	}
	if w.seed.Sign() == 0 {
		w.seed.SetInt64(1)
	}
	return w
}

func TestVerif_C08_DkgWallets(t *testing.T) {
	st := verifkit.New("C08", "TestVerif_C08_DkgWallets")
	defer st.Flush()
	rapid.Check(t, func(t *rapid.T) {
		w := c08DrawDkgWallet(t)
		reload := rapid.Bool().Draw(t, "reloadFromStorage")
		m := len(w.operating)
		// number of honest-threshold subsets of the final group
		total := 1
		for i := 0; i < w.honest; i++ {
			total = total * (m - i) / (i + 1)
		}
		want := 3
		if verifkit.Thorough() {
			want = 4
		}
		if want > total {
			want = total
		}
		var cases []*c08SignCase
		var kinds []string
		seen := map[string]bool{}
		for i := 0; len(cases) < want && i < 40; i++ {
			c, kind := c08DrawSignCase(t, w, fmt.Sprintf("sign%d", i), false)
			if seen[fmt.Sprint(c.subset)] {
				continue
			}
			seen[fmt.Sprint(c.subset)] = true
			cases = append(cases, c)
			kinds = append(kinds, kind)
		}

		c08CheckFinalGroup(t, w)
		c08Debugf("dkg: %s seed=0x%s", w.describe(), w.seed.Text(16))
		ok, why, err := c08RunDkg(w)
		c08Debugf("dkg done: ok=%v %s", ok, why)
		if err != nil {
			t.Fatalf("harness: %v", err)
		}
		if !ok {
			// completing the key generation is property C07, not this one
			fmt.Printf("VERIF-INCONCLUSIVE: C08 could not produce a wallet, the key generation did not complete within %v (%s); %s\n", c08DkgBudget, why, w.describe())
			t.Fatalf("VERIF-INCONCLUSIVE: no wallet")
		}
		// what the real key generation handed out, against the model
		var wantKs []string
		for _, d := range w.operating {
			wantKs = append(wantKs, new(big.Int).Add(w.seed, big.NewInt(int64(d))).String())
		}
		for _, d := range w.operating {
			res := w.results[d]
			pk := res.PrivateKeyShare.PublicKey()
			if w.publicKey == nil {
				w.publicKey = pk
			} else if pk.X.Cmp(w.publicKey.X) != 0 || pk.Y.Cmp(w.publicKey.Y) != 0 {
				t.Fatalf("key generation members ended with different wallet public keys; %s", w.describe())
			}
			var gotKs []string
			for _, k := range res.PrivateKeyShare.Data().Ks {
				gotKs = append(gotKs, k.String())
			}
			if fmt.Sprint(gotKs) != fmt.Sprint(wantKs) {
				t.Fatalf("key generation member %d: party keys in the share are %v, expected seed+index of the remaining members %v; %s", d, gotKs, wantKs, w.describe())
			}
			if fmt.Sprint(res.Group.OperatingMemberIndexes()) != fmt.Sprint(w.operating) {
				t.Fatalf("key generation member %d: result lists operating members %v, expected %v; %s", d, res.Group.OperatingMemberIndexes(), w.operating, w.describe())
			}
		}
		signers := c08Register(t, w, reload)
		for i, c := range cases {
			out, err := c08Sign(w, signers, c, c08SignBudget())
			if err != nil {
				t.Fatalf("harness: %v", err)
			}
			c08Debugf("signed: %s sigs=%d errs=%v stats=%v", c.describe(), len(out.sigs), out.errs, out.stats)
			c08CheckOutcome(t, w, signers, c, out)
			nt, labels := c08SignLabels(w, c, kinds[i], out)
			if reload {
				labels = append(labels, "signers-reloaded-from-storage")
			}
			st.Case(nt, c.describe()+fmt.Sprintf("; seed=0x%s ", w.seed.Text(16))+w.describe(), labels...)
		}
	})
}
