//go:build go1.23

package tbtc

// C08, production path: the wallet's signers are registered through the real
// dkgExecutor.registerSigner (final signing group remapping), persisted,
// loaded by a real node and asked to sign through the real
// signingExecutor.sign (announcement, member selection, retry loop and the
// call into signing.Execute with the parameters the executor derives from the
// stored wallet). Added after the seeded change C08_a showed that driving
// signing.Execute directly cannot see a wrong argument passed by the executor.

import (
	"context"
	"crypto/ecdsa"
	"fmt"
	"math/big"
	"testing"

	"github.com/bnb-chain/tss-lib/ecdsa/keygen"
	"github.com/bnb-chain/tss-lib/tss"

	"github.com/keep-network/keep-core/internal/verifkit"
	"github.com/keep-network/keep-core/pkg/bitcoin"
	"github.com/keep-network/keep-core/pkg/chain"
	"github.com/keep-network/keep-core/pkg/chain/local_v1"
	"github.com/keep-network/keep-core/pkg/internal/tecdsatest"
	"github.com/keep-network/keep-core/pkg/net"
	"github.com/keep-network/keep-core/pkg/net/local"
	"github.com/keep-network/keep-core/pkg/operator"
	"github.com/keep-network/keep-core/pkg/protocol/group"
	"github.com/keep-network/keep-core/pkg/tecdsa"
	"github.com/keep-network/keep-core/pkg/tecdsa/dkg"
	"pgregory.net/rapid"
)

// key shares the operating members hold after a key generation of the 5-seat
// fixture group in which the other members were excluded (the 3-of-5 fixture is
// a degree-2 sharing; restricting it to the operating parties is exactly what a
// key generation among them produces).
func c08xShares(operating []group.MemberIndex) (map[group.MemberIndex]*tecdsa.PrivateKeyShare, error) {
	fixtures, err := tecdsatest.LoadPrivateKeyShareTestFixtures(5)
	if err != nil {
		return nil, err
	}
	var ids []*tss.PartyID
	for _, m := range operating {
		f := fixtures[m-1]
		ids = append(ids, tss.NewPartyID(f.ShareID.Text(10), "", f.ShareID))
	}
	sorted := tss.SortPartyIDs(ids)
	shares := map[group.MemberIndex]*tecdsa.PrivateKeyShare{}
	for _, m := range operating {
		shares[m] = tecdsa.NewPrivateKeyShare(keygen.BuildLocalSaveDataSubset(fixtures[m-1], sorted))
	}
	return shares, nil
}

// c08xSign registers, persists, loads and signs; returns the signature or the
// executor's error.
func c08xSign(t *rapid.T, excluded map[group.MemberIndex]bool, message *big.Int, attempts uint) (*tecdsa.Signature, *ecdsa.PublicKey, error) {
	return c08xSignWith(t, excluded, message, attempts, nil)
}

// c08xSignWith is c08xSign with the executor's broadcast channel passed through
// wrap (nil: the channel as it is) before signing starts.
func c08xSignWith(t *rapid.T, excluded map[group.MemberIndex]bool, message *big.Int, attempts uint, wrap func(net.BroadcastChannel) net.BroadcastChannel) (*tecdsa.Signature, *ecdsa.PublicKey, error) {
	// quorum 3 so that up to two key generation members may be excluded
	params := &GroupParameters{GroupSize: 5, GroupQuorum: 3, HonestThreshold: 3}
	opPriv, opPub, err := operator.GenerateKeyPair(local_v1.DefaultCurve)
	if err != nil {
		t.Fatalf("harness: %v", err)
	}
	localChain := ConnectWithKey(opPriv)
	provider := local.ConnectWithKey(opPub)
	addr, err := localChain.Signing().PublicKeyToAddress(opPub)
	if err != nil {
		t.Fatalf("harness: %v", err)
	}
	var selected []chain.Address
	for i := 0; i < params.GroupSize; i++ {
		selected = append(selected, addr)
	}
	var operating []group.MemberIndex
	for i := 1; i <= params.GroupSize; i++ {
		if !excluded[group.MemberIndex(i)] {
			operating = append(operating, group.MemberIndex(i))
		}
	}
	shares, err := c08xShares(operating)
	if err != nil {
		t.Fatalf("harness: %v", err)
	}
	registry, err := newWalletRegistry(&mockPersistenceHandle{}, localChain.CalculateWalletID)
	if err != nil {
		t.Fatalf("harness: %v", err)
	}
	de := &dkgExecutor{groupParameters: params, chain: localChain, walletRegistry: registry}
	var signers []*signer
	for _, m := range operating {
		g := group.NewGroup(params.DishonestThreshold(), params.GroupSize)
		for e := range excluded {
			g.MarkMemberAsDisqualified(e)
		}
		s, err := de.registerSigner(&dkg.Result{Group: g, PrivateKeyShare: shares[m]}, m, selected)
		if err != nil {
			t.Fatalf("registerSigner for key generation member %d failed: %v", m, err)
		}
		signers = append(signers, s)
	}
	walletPublicKey := signers[0].wallet.publicKey
	walletID, err := localChain.CalculateWalletID(walletPublicKey)
	if err != nil {
		t.Fatalf("harness: %v", err)
	}
	localChain.setWallet(bitcoin.PublicKeyHash(walletPublicKey), &WalletChainData{EcdsaWalletID: walletID, State: StateLive})

	tt := &testing.T{}
	n, err := newNode(params, localChain, newLocalBitcoinChain(), provider,
		createMockKeyStorePersistence(tt, signers...), &mockPersistenceHandle{},
		c08StoppedScheduler(), &mockCoordinationProposalGenerator{}, Config{})
	if err != nil {
		t.Fatalf("harness: newNode: %v", err)
	}
	executor, ok, err := n.getSigningExecutor(walletPublicKey)
	if err != nil || !ok {
		t.Fatalf("node does not control the registered signers: ok=%v err=%v", ok, err)
	}
	if len(executor.signers) != len(operating) {
		t.Fatalf("node loaded %d signers, %d were registered", len(executor.signers), len(operating))
	}
	executor.signingAttemptsLimit = attempts
	if wrap != nil {
		executor.broadcastChannel = wrap(executor.broadcastChannel)
	}
	ctx, cancel := context.WithCancel(context.Background())
	defer cancel()
	sig, _, _, err := executor.sign(ctx, message, 0)
	return sig, walletPublicKey, err
}

func TestVerif_C08_SigningExecutor(t *testing.T) {
	st := verifkit.New("C08", "TestVerif_C08_SigningExecutor")
	defer st.Flush()
	rapid.Check(t, func(t *rapid.T) {
		// exclusion set: 0..2 of the 5 key generation members
		k := rapid.IntRange(0, 2).Draw(t, "excludedCount")
		if rapid.IntRange(0, 3).Draw(t, "forceExclusion") > 0 && k == 0 {
			k = 1
		}
		perm := rapid.Permutation([]int{1, 2, 3, 4, 5}).Draw(t, "excludedPerm")
		excluded := map[group.MemberIndex]bool{}
		for _, p := range perm[:k] {
			excluded[group.MemberIndex(p)] = true
		}
		message, _ := c08DrawMessage(t, "message")
		desc := fmt.Sprintf("executor path: excluded=%v message=%s", c08xKeys(excluded), message.Text(16))

		sig, pub, err := c08xSign(t, excluded, message, 3)
		if err != nil {
			// control: the same path for the plain fixture wallet (no exclusion)
			_, _, cerr := c08xSign(t, map[group.MemberIndex]bool{}, big.NewInt(100), 6)
			if cerr == nil {
				t.Fatalf("the final signing group of a wallet whose key generation excluded %v could not sign through the signing executor (%v) while the wallet without exclusions signs; %s",
					c08xKeys(excluded), err, desc)
			}
			fmt.Printf("VERIF-INCONCLUSIVE: C08 executor signing and its control both failed (%v / %v)\n", err, cerr)
			t.Fatalf("VERIF-INCONCLUSIVE: machine too slow")
		}
		if !ecdsa.Verify(pub, message.Bytes(), sig.R, sig.S) {
			t.Fatalf("signature produced by the signing executor does not verify under the wallet public key; %s", desc)
		}
		halfN := new(big.Int).Rsh(tecdsa.Curve.Params().N, 1)
		if sig.S.Cmp(halfN) > 0 {
			t.Fatalf("signature produced by the signing executor has a high S value; %s", desc)
		}
		st.Case(len(excluded) > 0, desc, fmt.Sprintf("excluded:%d", len(excluded)))
	})
}

func c08xKeys(m map[group.MemberIndex]bool) []int {
	var l []int
	for i := 1; i <= 5; i++ {
		if m[group.MemberIndex(i)] {
			l = append(l, i)
		}
	}
	return l
}
