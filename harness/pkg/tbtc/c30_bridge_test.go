//go:build go1.23

package tbtc

import (
	"crypto/ecdsa"

	"github.com/keep-network/keep-core/pkg/bitcoin"
)

// Bridge for the external C30 harness (package tbtc_test, which can import
// pkg/tbtcpg): exposes the unexported transaction assemblers.

func C30AssembleDepositSweep(
	chain bitcoin.Chain,
	walletPublicKey *ecdsa.PublicKey,
	walletMainUtxo *bitcoin.UnspentTransactionOutput,
	deposits []*Deposit,
	fee int64,
) (*bitcoin.TransactionBuilder, error) {
	return assembleDepositSweepTransaction(chain, walletPublicKey, walletMainUtxo, deposits, fee)
}

func C30AssembleRedemption(
	chain bitcoin.Chain,
	walletPublicKey *ecdsa.PublicKey,
	walletMainUtxo *bitcoin.UnspentTransactionOutput,
	requests []*RedemptionRequest,
	totalFee int64,
	shape RedemptionTransactionShape,
) (*bitcoin.TransactionBuilder, error) {
	return assembleRedemptionTransaction(chain, walletPublicKey, walletMainUtxo, requests, withRedemptionTotalFee(totalFee), shape)
}
