//go:build go1.23

package tbtc

import (
	"context"
	"fmt"
	"math/big"
	"runtime"
	"strings"
	"sync"
	"sync/atomic"
	"testing"
	"time"

	"github.com/keep-network/keep-core/internal/testutils"
	"github.com/keep-network/keep-core/internal/verifkit"
	"github.com/keep-network/keep-core/pkg/chain"
	"github.com/keep-network/keep-core/pkg/chain/local_v1"
	"github.com/keep-network/keep-core/pkg/net"
	"github.com/keep-network/keep-core/pkg/operator"
	"github.com/keep-network/keep-core/pkg/protocol/group"
	"github.com/keep-network/keep-core/pkg/tecdsa"
	"github.com/keep-network/keep-core/pkg/tecdsa/signing"
	"pgregory.net/rapid"
)

// ---------------------------------------------------------------------------
// C35 - signing completes only when every included member confirmed the same
// signature.
//
// The real signingDoneCheck runs over a fake broadcast channel; the harness
// decides which messages (sender seat, sender key, message, attempt, end
// block, signature) reach the registered receiver and in which order, before
// and while waitUntilAllDone polls. The reference model below is written from
// the property text and shares no code with signing_done.go.
// ---------------------------------------------------------------------------

const (
	c35KeyExcluded = "D7-excluded-member-counts"
	c35KeyRace     = "D7-unlocked-read"
	c35Wait        = 60 * time.Second // machinery bound, never a verdict
)

// ------------------------------------------------------------- fake net ----

type c35Recv struct {
	ctx     context.Context
	handler func(net.Message)
}

type c35Channel struct {
	mu    sync.Mutex
	recvs []c35Recv
	sent  int
	// onSend, when set, is called for every Send (the loop test loops the
	// member's own confirmation back to its receivers like the real channel)
	onSend func(m net.TaggedMarshaler)
}

func (c *c35Channel) Name() string { return "c35" }
func (c *c35Channel) Send(ctx context.Context, m net.TaggedMarshaler, s ...net.RetransmissionStrategy) error {
	c.mu.Lock()
	c.sent++
	onSend := c.onSend
	c.mu.Unlock()
	if onSend != nil {
		onSend(m)
	}
	return nil
}

// live returns the receivers whose context is not done.
func (c *c35Channel) live() []c35Recv {
	c.mu.Lock()
	defer c.mu.Unlock()
	var out []c35Recv
	for _, r := range c.recvs {
		if r.ctx.Err() == nil {
			out = append(out, r)
		}
	}
	return out
}
func (c *c35Channel) Recv(ctx context.Context, handler func(m net.Message)) {
	c.mu.Lock()
	c.recvs = append(c.recvs, c35Recv{ctx, handler})
	c.mu.Unlock()
}
func (c *c35Channel) SetUnmarshaler(func() net.TaggedUnmarshaler) {}
func (c *c35Channel) SetFilter(net.BroadcastChannelFilter) error  { return nil }

// deliver hands the message to every receiver whose context is still live
// (the real channel unregisters a handler when its context is done).
func (c *c35Channel) deliver(m net.Message) {
	c.mu.Lock()
	recvs := append([]c35Recv{}, c.recvs...)
	c.mu.Unlock()
	for _, r := range recvs {
		if r.ctx.Err() == nil {
			r.handler(m)
		}
	}
}

type c35Msg struct {
	pub       []byte
	payload   interface{}
	onPayload func() // called when the receiver starts processing the message
}

func (m *c35Msg) TransportSenderID() net.TransportIdentifier { return nil }
func (m *c35Msg) SenderPublicKey() []byte                    { return m.pub }
func (m *c35Msg) Payload() interface{} {
	if m.onPayload != nil {
		m.onPayload()
	}
	return m.payload
}
func (m *c35Msg) Type() string  { return "tbtc/signing_done_message" }
func (m *c35Msg) Seqno() uint64 { return 0 }

// some other payload type travelling on the same channel
type c35OtherPayload struct{}

// c35Ctx counts how often Done() is evaluated. waitUntilAllDone evaluates it
// once per loop iteration, so the counter tells how many poll iterations have
// started - a logical clock that replaces wall-clock waiting.
type c35Ctx struct {
	context.Context
	evals atomic.Int64
}

func (c *c35Ctx) Done() <-chan struct{} {
	c.evals.Add(1)
	return c.Context.Done()
}

// ------------------------------------------------------------ operators ----

type c35Operator struct {
	pub     []byte
	address chain.Address
}

var (
	c35Once      sync.Once
	c35Operators []c35Operator // pool; the last one is never a group member
	c35Signing   chain.Signing
)

func c35Pool(t interface{ Fatalf(string, ...any) }) []c35Operator {
	c35Once.Do(func() {
		for i := 0; i < 12; i++ {
			priv, pub, err := operator.GenerateKeyPair(local_v1.DefaultCurve)
			if err != nil {
				t.Fatalf("VERIF-INCONCLUSIVE: key generation: %v", err)
			}
			s := local_v1.NewSigner(priv)
			if c35Signing == nil {
				c35Signing = s
			}
			addr, err := s.PublicKeyToAddress(pub)
			if err != nil {
				t.Fatalf("VERIF-INCONCLUSIVE: address: %v", err)
			}
			c35Operators = append(c35Operators, c35Operator{operator.MarshalUncompressed(pub), addr})
		}
	})
	return c35Operators
}

// ---------------------------------------------------------------- model ----

type c35Event struct {
	sender   group.MemberIndex
	keyOf    int // index into the operator pool whose key "signed" the message
	other    bool
	message  int64
	attempt  uint64
	endBlock uint64
	sig      int // 0 nil, 1 sigA, 2 sigA (equal copy), 3 sigB, 4 sigA with another recovery id
	tag      string
}

type c35Case struct {
	n        int
	seatOp   []int // seat -> operator pool index
	included []group.MemberIndex
	message  int64
	attempt  uint64
	timeout  uint64
	events   []c35Event
	// self: the seat of the member that owns the done check (0 = none). Its
	// own messages are not hand-delivered: they are sent through the real
	// signalDone and come back over the channel like on the real network.
	self group.MemberIndex
	// an earlier attempt (number attempt-1) that ran on the SAME done-check
	// object and timed out, as in the retry loop; nil = fresh object
	prev *c35Prev
}

// c35Prev: the earlier attempt. Some of its included members confirmed it
// validly (attempt number attempt-1), not all, so it ended with a time-out.
type c35Prev struct {
	included   []group.MemberIndex
	confirmers []group.MemberIndex
	sig        int
	silentNow  bool // those confirmers send nothing in the attempt under test
}

func c35Sig(kind int) *tecdsa.Signature {
	switch kind {
	case 1, 2:
		return &tecdsa.Signature{R: big.NewInt(200), S: big.NewInt(300), RecoveryID: 1}
	case 3:
		return &tecdsa.Signature{R: big.NewInt(201), S: big.NewInt(300), RecoveryID: 1}
	case 4:
		return &tecdsa.Signature{R: big.NewInt(200), S: big.NewInt(300), RecoveryID: 2}
	}
	return nil
}

func c35SameSig(a, b int) bool {
	if a == 2 {
		a = 1
	}
	if b == 2 {
		b = 1
	}
	return a == b
}

type c35Expect struct {
	success   bool
	sig       int
	endBlock  uint64
	foreign   bool // a valid confirmation of a group member outside the attempt is present
	missing   []group.MemberIndex
	mismatch  bool
	confirmed map[group.MemberIndex]c35Event
}

// c35Model: the confirmations that count are the first valid message of each
// member INCLUDED in the attempt. Valid = done-message payload, sent with the
// key of the operator holding the claimed seat, same message and attempt, end
// block within the attempt timeout, a signature present.
func c35Model(c c35Case) c35Expect {
	inc := map[group.MemberIndex]bool{}
	for _, m := range c.included {
		inc[m] = true
	}
	exp := c35Expect{confirmed: map[group.MemberIndex]c35Event{}}
	seenForeign := map[group.MemberIndex]bool{}
	for _, e := range c.events {
		if e.other {
			continue
		}
		if e.sender < 1 || int(e.sender) > c.n || c.seatOp[e.sender-1] != e.keyOf {
			continue
		}
		if e.message != c.message || e.attempt != c.attempt || e.endBlock > c.timeout || e.sig == 0 {
			continue
		}
		if !inc[e.sender] {
			if !seenForeign[e.sender] {
				seenForeign[e.sender] = true
				exp.foreign = true
			}
			continue
		}
		if _, done := exp.confirmed[e.sender]; done {
			continue
		}
		exp.confirmed[e.sender] = e
	}
	first := 0
	for _, m := range c.included {
		e, ok := exp.confirmed[m]
		if !ok {
			exp.missing = append(exp.missing, m)
			continue
		}
		if first == 0 {
			first = e.sig
		} else if !c35SameSig(first, e.sig) {
			exp.mismatch = true
		}
		if e.endBlock > exp.endBlock {
			exp.endBlock = e.endBlock
		}
	}
	exp.success = len(exp.missing) == 0 && !exp.mismatch
	exp.sig = first
	return exp
}

// ------------------------------------------------------------ generator ----

func c35GenCase(t *rapid.T, allowForeign bool, standIn bool, st *verifkit.Stats) c35Case {
	c := c35Case{}
	c.n = rapid.IntRange(5, 10).Draw(t, "groupSize")
	// seats -> operators: mostly one seat per operator, some hold two
	nOps := rapid.IntRange(max(2, c.n-3), c.n).Draw(t, "operators")
	for i := 0; i < c.n; i++ {
		if i < nOps {
			c.seatOp = append(c.seatOp, i)
		} else {
			c.seatOp = append(c.seatOp, rapid.IntRange(0, nOps-1).Draw(t, "sharedOperator"))
		}
	}
	c.seatOp = rapid.Permutation(c.seatOp).Draw(t, "seatLayout")
	outsider := 11 // pool index of the key that holds no seat

	all := make([]group.MemberIndex, c.n)
	for i := range all {
		all[i] = group.MemberIndex(i + 1)
	}
	k := rapid.IntRange(1, c.n).Draw(t, "includedCount")
	if rapid.IntRange(0, 3).Draw(t, "majorityIncluded") > 0 {
		k = rapid.IntRange(c.n/2+1, c.n-1).Draw(t, "includedMajority")
	}
	perm := rapid.Permutation(all).Draw(t, "includedPerm")
	inc := map[group.MemberIndex]bool{}
	for _, m := range perm[:k] {
		inc[m] = true
	}
	for _, m := range all {
		if inc[m] {
			c.included = append(c.included, m)
		}
	}
	switch rapid.IntRange(0, 5).Draw(t, "ownSeat") {
	case 0: // the check belongs to nobody in particular
	case 1: // any seat, possibly outside the attempt
		c.self = all[rapid.IntRange(0, c.n-1).Draw(t, "ownSeatAny")]
	default: // a member of the attempt
		c.self = c.included[rapid.IntRange(0, len(c.included)-1).Draw(t, "ownSeatIncluded")]
	}
	c.message = int64(rapid.IntRange(1, 1000).Draw(t, "message"))
	c.attempt = uint64(rapid.IntRange(1, 20).Draw(t, "attempt"))
	c.timeout = uint64(rapid.IntRange(50, 5000).Draw(t, "timeoutBlock"))

	valid := func(m group.MemberIndex, sig int, label string) c35Event {
		eb := uint64(rapid.IntRange(0, int(c.timeout)).Draw(t, "endBlock"))
		if rapid.IntRange(0, 5).Draw(t, "endBlockAtTimeout") == 0 {
			eb = c.timeout
		}
		return c35Event{sender: m, keyOf: c.seatOp[m-1], message: c.message, attempt: c.attempt, endBlock: eb, sig: sig, tag: label}
	}
	invalid := func(m group.MemberIndex) c35Event {
		e := valid(m, 1, "")
		defects := []string{"message", "attempt-", "attempt+", "late", "very-late", "nosig", "wrongkey", "outsider", "other-payload"}
		if m == c.self && rapid.IntRange(0, 3).Draw(t, "ownDefect") > 0 {
			// what the member itself can get wrong: its own signing ended after
			// the timeout, it signals for another attempt / message, no signature
			defects = []string{"late", "late", "very-late", "attempt-", "attempt+", "message", "nosig"}
		}
		switch rapid.SampledFrom(defects).Draw(t, "defect") {
		case "message":
			e.message, e.tag = c.message+1, "wrong-message"
		case "attempt-":
			e.attempt, e.tag = c.attempt-1, "earlier-attempt"
		case "attempt+":
			e.attempt, e.tag = c.attempt+1, "later-attempt"
		case "late":
			e.endBlock, e.tag = c.timeout+1, "end>timeout"
		case "very-late":
			e.endBlock, e.tag = c.timeout+uint64(rapid.IntRange(2, 100000).Draw(t, "lateBy")), "end>>timeout"
		case "nosig":
			e.sig, e.tag = 0, "no-signature"
		case "wrongkey":
			// the key of another operator of the group claims this seat
			other := rapid.IntRange(0, c.n-1).Draw(t, "otherSeat")
			if c.seatOp[other] == c.seatOp[m-1] {
				e.keyOf, e.tag = outsider, "outsider-key"
			} else {
				e.keyOf, e.tag = c.seatOp[other], "other-members-key"
			}
		case "outsider":
			e.keyOf, e.tag = outsider, "outsider-key"
		case "other-payload":
			e.other, e.tag = true, "other-payload"
		}
		return e
	}

	plan := rapid.SampledFrom([]string{"complete", "complete", "complete", "mismatch", "incomplete", "incomplete"}).Draw(t, "plan")
	if standIn {
		// an included member stays silent and members outside the attempt
		// confirm in its place
		plan = "incomplete"
	}
	queues := map[int][]c35Event{} // per sender queue keeps its order
	qid := 0
	add := func(evs ...c35Event) {
		queues[qid] = evs
		qid++
	}
	silent := map[group.MemberIndex]bool{}
	if c.attempt >= 2 && rapid.IntRange(0, 2).Draw(t, "reusedObject") > 0 {
		pv := &c35Prev{sig: rapid.SampledFrom([]int{1, 1, 3}).Draw(t, "earlierSig")}
		pv.included = append(pv.included, c.included...)
		if rapid.IntRange(0, 3).Draw(t, "earlierOtherMembers") == 0 {
			pk := rapid.IntRange(1, c.n).Draw(t, "earlierIncludedCount")
			pv.included = append([]group.MemberIndex{}, rapid.Permutation(all).Draw(t, "earlierIncluded")[:pk]...)
		}
		// a strict subset confirmed the earlier attempt (it timed out)
		pc := rapid.IntRange(0, len(pv.included)-1).Draw(t, "earlierConfirmers")
		pv.confirmers = append(pv.confirmers, rapid.Permutation(pv.included).Draw(t, "earlierConfirmerSet")[:pc]...)
		pv.silentNow = pc > 0 && rapid.Bool().Draw(t, "earlierConfirmersSilentNow")
		if pv.silentNow {
			// only the remaining members confirm the attempt under test
			for _, m := range pv.confirmers {
				silent[m] = true
			}
		}
		c.prev = pv
	}
	var missing group.MemberIndex
	if plan == "incomplete" {
		missing = c.included[rapid.IntRange(0, len(c.included)-1).Draw(t, "missingMember")]
		if inc[c.self] && rapid.Bool().Draw(t, "ownConfirmationMissing") {
			missing = c.self
		}
	}
	odd := group.MemberIndex(0)
	if plan == "mismatch" && len(c.included) > 1 {
		odd = c.included[rapid.IntRange(0, len(c.included)-1).Draw(t, "oddMember")]
	}
	for _, m := range c.included {
		sig := rapid.SampledFrom([]int{1, 1, 2}).Draw(t, "sigCopy")
		if m == odd {
			sig = rapid.SampledFrom([]int{3, 4}).Draw(t, "oddSig")
		}
		var q []c35Event
		if silent[m] {
			add()
			continue
		}
		if m == missing {
			// the missing member sends nothing valid; others may try to stand in
			switch rapid.IntRange(0, 2).Draw(t, "missingMode") {
			case 1:
				q = append(q, invalid(m))
			case 2:
				q = append(q, invalid(m), invalid(m))
			}
			add(q...)
			continue
		}
		switch rapid.IntRange(0, 5).Draw(t, "memberMode") {
		case 0: // an invalid try first, then the valid confirmation
			q = append(q, invalid(m), valid(m, sig, "ok"))
		case 1: // valid, then a second message that must not replace the first
			dup := valid(m, rapid.SampledFrom([]int{1, 3, 4}).Draw(t, "dupSig"), "duplicate")
			q = append(q, valid(m, sig, "ok"), dup)
		case 2: // valid, then garbage
			q = append(q, valid(m, sig, "ok"), invalid(m))
		default:
			q = append(q, valid(m, sig, "ok"))
		}
		add(q...)
	}
	for _, m := range all {
		if inc[m] {
			continue
		}
		mode := rapid.IntRange(0, 5).Draw(t, "excludedMode")
		if standIn && allowForeign && mode > 2 {
			mode = 0
		}
		switch mode {
		case 0, 1, 2:
			if !allowForeign {
				st.Excluded(c35KeyExcluded)
				continue
			}
			sig := rapid.SampledFrom([]int{1, 1, 3}).Draw(t, "foreignSig")
			add(valid(m, sig, "excluded-member-valid"))
		case 3:
			add(invalid(m))
		}
	}
	// strangers: seats that do not exist
	if rapid.IntRange(0, 3).Draw(t, "stranger") == 0 {
		s := rapid.SampledFrom([]group.MemberIndex{0, group.MemberIndex(c.n + 1), 255}).Draw(t, "strangerSeat")
		add(c35Event{sender: s, keyOf: outsider, message: c.message, attempt: c.attempt, endBlock: 1, sig: 1, tag: "no-such-seat"})
	}
	// random merge of the queues (per sender order is kept)
	for len(queues) > 0 {
		ids := make([]int, 0, len(queues))
		for id := 0; id < qid; id++ {
			if len(queues[id]) > 0 {
				ids = append(ids, id)
			}
		}
		if len(ids) == 0 {
			break
		}
		id := ids[rapid.IntRange(0, len(ids)-1).Draw(t, "next")]
		c.events = append(c.events, queues[id][0])
		queues[id] = queues[id][1:]
	}
	return c
}

func (c c35Case) String() string {
	var sb strings.Builder
	fmt.Fprintf(&sb, "n=%d ops=%v included=%v own-seat=%d msg=%d att=%d timeout=%d", c.n, c.seatOp, c.included, c.self, c.message, c.attempt, c.timeout)
	if c.prev != nil {
		fmt.Fprintf(&sb, " after-attempt-%d(included=%v confirmed=%v sig%d silent-now=%v)", c.attempt-1, c.prev.included, c.prev.confirmers, c.prev.sig, c.prev.silentNow)
	}
	sb.WriteString(" |")
	for _, e := range c.events {
		fmt.Fprintf(&sb, " %d:%s", e.sender, e.tag)
		if e.tag == "ok" || e.tag == "duplicate" || e.tag == "excluded-member-valid" {
			fmt.Fprintf(&sb, "(sig%d,end%d)", e.sig, e.endBlock)
		}
	}
	return sb.String()
}

// ------------------------------------------------------------ execution ----

type c35Outcome struct {
	violation    string
	inconclusive string
	key          string
}

// c35Run executes one history against the real signingDoneCheck.
// before = number of events delivered (and processed) before waitUntilAllDone
// starts; the rest arrives while it polls, in chunks of `chunk` messages,
// optionally separated by one poll iteration.
func c35Run(c c35Case, before int, chunk int, pauseEvery bool) c35Outcome {
	pool := c35Operators
	var operators []chain.Address
	for _, op := range c.seatOp {
		operators = append(operators, pool[op].address)
	}
	ch := &c35Channel{}
	validator := group.NewMembershipValidator(&testutils.MockLogger{}, operators, c35Signing)
	dc := newSigningDoneCheck(c.n, ch, validator)

	toMsg := func(e c35Event) *c35Msg {
		m := &c35Msg{pub: pool[e.keyOf].pub}
		if e.other {
			m.payload = &c35OtherPayload{}
			return m
		}
		m.payload = &signingDoneMessage{
			senderID:      e.sender,
			message:       big.NewInt(e.message),
			attemptNumber: e.attempt,
			signature:     c35Sig(e.sig),
			endBlock:      e.endBlock,
		}
		return m
	}
	// own messages go through the real signalDone (and loop back over the
	// channel with the member's key), everything else is handed to the receiver
	ch.onSend = func(m net.TaggedMarshaler) {
		if c.self != 0 {
			ch.deliver(&c35Msg{pub: pool[c.seatOp[c.self-1]].pub, payload: m})
		}
	}
	var sendCtx context.Context = context.Background()
	send := func(e c35Event) {
		if c.self != 0 && e.sender == c.self && !e.other && e.keyOf == c.seatOp[c.self-1] {
			_ = dc.signalDone(sendCtx, e.sender, big.NewInt(e.message), e.attempt, &signing.Result{Signature: c35Sig(e.sig)}, e.endBlock)
			return
		}
		ch.deliver(toMsg(e))
	}
	// a sentinel is a message of another payload type; when the receiver
	// asks for its payload every earlier message has been fully processed.
	sentinel := func() chan struct{} {
		done := make(chan struct{})
		var once sync.Once
		ch.deliver(&c35Msg{pub: pool[11].pub, payload: &c35OtherPayload{}, onPayload: func() { once.Do(func() { close(done) }) }})
		return done
	}

	if c.prev != nil {
		// The earlier attempt on the same object: listen, some confirmations,
		// time-out. Its receiver goroutine must have stopped before the next
		// listen (in the retry loop many blocks lie in between). The last
		// message makes the receiver goroutine end right where it asks for the
		// payload, after signalling: everything it did happens-before the
		// second listen, so the race detector stays quiet about the hand-over
		// and meaningful for the attempt under test.
		prevCtx, cancelPrev := context.WithCancel(context.Background())
		dc.listen(prevCtx, big.NewInt(c.message), c.attempt-1, c.timeout, append([]group.MemberIndex{}, c.prev.included...))
		for _, m := range c.prev.confirmers {
			send(c35Event{sender: m, keyOf: c.seatOp[m-1], message: c.message, attempt: c.attempt - 1, endBlock: c.timeout, sig: c.prev.sig})
		}
		stopped := make(chan struct{})
		ch.deliver(&c35Msg{pub: pool[11].pub, payload: &c35OtherPayload{}, onPayload: func() {
			close(stopped)
			runtime.Goexit()
		}})
		select {
		case <-stopped:
		case <-time.After(c35Wait):
			cancelPrev()
			return c35Outcome{inconclusive: "receiver of the earlier attempt did not process its messages"}
		}
		cancelPrev()
		// the loop's wait for the earlier attempt ends with the time-out
		if r, _, err := dc.waitUntilAllDone(prevCtx); err == nil || r != nil {
			return c35Outcome{violation: fmt.Sprintf("earlier attempt %d: a signature was reported although only %v of its members %v confirmed",
				c.attempt-1, c.prev.confirmers, c.prev.included)}
		}
	}
	root, cancelRoot := context.WithCancel(context.Background())
	defer cancelRoot()
	dc.listen(root, big.NewInt(c.message), c.attempt, c.timeout, append([]group.MemberIndex{}, c.included...))

	for _, e := range c.events[:before] {
		send(e)
	}
	select {
	case <-sentinel():
	case <-time.After(c35Wait):
		return c35Outcome{inconclusive: "receiver did not process the messages delivered before the wait"}
	}

	waitCtx := &c35Ctx{Context: root}
	type res struct {
		sig      *tecdsa.Signature
		hasRes   bool
		endBlock uint64
		err      error
	}
	resCh := make(chan res, 1)
	go func() {
		r, eb, err := dc.waitUntilAllDone(waitCtx)
		out := res{endBlock: eb, err: err}
		if r != nil {
			out.hasRes, out.sig = true, r.Signature
		}
		resCh <- out
	}()

	var got *res
	// waits until the poll loop started `n` more iterations or returned
	waitIterations := func(n int64) string {
		target := waitCtx.evals.Load() + n
		deadline := time.Now().Add(c35Wait)
		for waitCtx.evals.Load() < target {
			select {
			case r := <-resCh:
				got = &r
				return ""
			case <-time.After(2 * time.Millisecond):
			}
			if time.Now().After(deadline) {
				return "poll loop made no progress"
			}
		}
		return ""
	}

	rest := c.events[before:]
	for i := 0; i < len(rest) && got == nil; i += chunk {
		for _, e := range rest[i:min(i+chunk, len(rest))] {
			send(e)
		}
		if pauseEvery && i+chunk < len(rest) {
			if why := waitIterations(1); why != "" {
				return c35Outcome{inconclusive: why}
			}
		}
	}
	if got == nil {
		select {
		case <-sentinel():
		case r := <-resCh:
			got = &r
		case <-time.After(c35Wait):
			return c35Outcome{inconclusive: "receiver did not process the delivered messages"}
		}
	}
	exp := c35Model(c)
	// From here every delivered message is processed (or the wait returned).
	// Two more started iterations = one complete poll with the full history.
	if got == nil {
		if why := waitIterations(2); why != "" {
			return c35Outcome{inconclusive: why}
		}
	}
	key := ""
	if exp.foreign && c.prev == nil {
		key = " [finding-key=" + c35KeyExcluded + "]"
	}
	returnedBeforeExpiry := got != nil
	if got == nil {
		// nothing reported so far: let the attempt time out
		cancelRoot()
		select {
		case r := <-resCh:
			got = &r
		case <-time.After(c35Wait):
			return c35Outcome{inconclusive: "waitUntilAllDone did not return after the context expired"}
		}
	}
	reported := got.err == nil
	if reported != got.hasRes {
		return c35Outcome{violation: fmt.Sprintf("inconsistent return: result present=%v, error=%v", got.hasRes, got.err)}
	}
	switch {
	case reported && !exp.success:
		why := fmt.Sprintf("included members %v have not confirmed", exp.missing)
		if exp.mismatch {
			why = "the included members confirmed different signatures"
		}
		return c35Outcome{key: key, violation: fmt.Sprintf("a signature was reported (end block %d) although %s; confirmations that count: %v%s",
			got.endBlock, why, c35Confirmed(exp), key)}
	case !reported && exp.success:
		when := "before the context expired an error was returned"
		if !returnedBeforeExpiry {
			when = "nothing was reported during a complete poll over the full history and the wait ended with the context"
		}
		return c35Outcome{key: key, violation: fmt.Sprintf("every included member %v confirmed the same signature with an end block within the timeout, but no signature was reported: %s (error: %v)%s",
			c.included, when, got.err, key)}
	case reported:
		if !got.sig.Equals(c35Sig(exp.sig)) {
			return c35Outcome{violation: fmt.Sprintf("reported signature %v is not the confirmed one %v", got.sig, c35Sig(exp.sig))}
		}
		if got.endBlock != exp.endBlock {
			return c35Outcome{key: key, violation: fmt.Sprintf("reported end block %d, the latest end block of the included members is %d; confirmations that count: %v%s",
				got.endBlock, exp.endBlock, c35Confirmed(exp), key)}
		}
	default:
		if got.endBlock != 0 {
			return c35Outcome{violation: fmt.Sprintf("an error is returned together with end block %d", got.endBlock)}
		}
	}
	return c35Outcome{}
}

func c35Confirmed(exp c35Expect) string {
	var parts []string
	for m := group.MemberIndex(1); m <= 10; m++ {
		if e, ok := exp.confirmed[m]; ok {
			parts = append(parts, fmt.Sprintf("%d(sig%d,end%d)", m, e.sig, e.endBlock))
		}
	}
	return "[" + strings.Join(parts, " ") + "]"
}

func c35Labels(c c35Case, exp c35Expect) []string {
	out := []string{"expect:timeout"}
	if exp.success {
		out[0] = "expect:signature"
	} else if exp.mismatch && len(exp.missing) == 0 {
		out[0] = "expect:mismatch-error"
	}
	out = append(out, fmt.Sprintf("excluded-member-valid:%v", exp.foreign))
	own := "none"
	if c.self != 0 {
		own = "outside-attempt"
		for _, m := range c.included {
			if m == c.self {
				own = "in-attempt"
			}
		}
		for _, e := range c.events {
			if e.sender == c.self && e.keyOf == c.seatOp[c.self-1] && (e.tag == "end>timeout" || e.tag == "end>>timeout") {
				out = append(out, "own-confirmation-after-timeout:true")
				break
			}
		}
	}
	out = append(out, "own-seat:"+own)
	out = append(out, fmt.Sprintf("object-reused-after-timed-out-attempt:%v", c.prev != nil))
	if c.prev != nil {
		out = append(out, fmt.Sprintf("earlier-confirmers-silent-now:%v", c.prev.silentNow))
	}
	tags := map[string]bool{}
	for _, e := range c.events {
		tags[e.tag] = true
	}
	for tg := range tags {
		if tg != "ok" && tg != "" {
			out = append(out, "msg:"+tg)
		}
	}
	return out
}

const c35Batch = 4

// c35Check runs a batch of histories in parallel (every history waits for
// poll ticks of 100 ms; the batch keeps the wall time low).
func c35Check(t *rapid.T, st *verifkit.Stats, concurrent bool, standIn bool) {
	c35Pool(t)
	allowForeign := !verifkit.Known(c35KeyExcluded)
	type job struct {
		c          c35Case
		before     int
		chunk      int
		pauseEvery bool
	}
	var jobs []job
	for b := 0; b < c35Batch; b++ {
		c := c35GenCase(t, allowForeign, standIn, st)
		j := job{c: c, before: len(c.events), chunk: 1}
		if concurrent {
			j.before = rapid.IntRange(0, len(c.events)).Draw(t, "deliveredBeforeWait")
			j.chunk = rapid.IntRange(1, 6).Draw(t, "chunk")
			j.pauseEvery = rapid.IntRange(0, 3).Draw(t, "pauseBetweenChunks") == 0
		}
		jobs = append(jobs, j)
	}
	outs := make([]c35Outcome, len(jobs))
	var wg sync.WaitGroup
	for i := range jobs {
		wg.Add(1)
		go func(i int) {
			defer wg.Done()
			outs[i] = c35Run(jobs[i].c, jobs[i].before, jobs[i].chunk, jobs[i].pauseEvery)
		}(i)
	}
	wg.Wait()
	for i, o := range outs {
		if o.inconclusive != "" {
			t.Fatalf("VERIF-INCONCLUSIVE: %s; history: %v", o.inconclusive, jobs[i].c)
		}
	}
	for i, o := range outs {
		if o.violation != "" {
			t.Fatalf("%s\nhistory (delivered before the wait: %d of %d): %v", o.violation, jobs[i].before, len(jobs[i].c.events), jobs[i].c)
		}
	}
	for _, j := range jobs {
		exp := c35Model(j.c)
		labels := c35Labels(j.c, exp)
		if concurrent {
			labels = append(labels, fmt.Sprintf("arrives-while-polling:%v", j.before < len(j.c.events)))
		}
		st.Case(exp.foreign, fmt.Sprintf("before=%d chunk=%d pause=%v %v", j.before, j.chunk, j.pauseEvery, j.c), labels...)
	}
}

// TestVerif_C35_DeliveredBeforeWait: the whole history is delivered and
// processed before waitUntilAllDone starts (no concurrent access by
// construction). Reported iff the model says every included member - and the
// included members only - confirmed validly with equal signatures; the end
// block is the maximum over the included members.
func TestVerif_C35_DeliveredBeforeWait(t *testing.T) {
	st := verifkit.New("C35", "TestVerif_C35_DeliveredBeforeWait")
	defer st.Flush()
	rapid.Check(t, func(t *rapid.T) { c35Check(t, st, false, false) })
}

// TestVerif_C35_StandIns: the safety clause alone, in its hardest region: one
// included member never confirms validly while group members outside the
// attempt (and forged messages claiming the silent member's seat) confirm.
// No signature may ever be reported.
func TestVerif_C35_StandIns(t *testing.T) {
	st := verifkit.New("C35", "TestVerif_C35_StandIns")
	defer st.Flush()
	rapid.Check(t, func(t *rapid.T) { c35Check(t, st, false, true) })
}

// TestVerif_C35_ConcurrentArrival: a drawn prefix is delivered before the
// wait, the rest arrives while waitUntilAllDone polls. Same model; the binary
// is built with -race, so an unsynchronised access to the confirmations is a
// failure of this test.
func TestVerif_C35_ConcurrentArrival(t *testing.T) {
	st := verifkit.New("C35", "TestVerif_C35_ConcurrentArrival")
	defer st.Flush()
	if verifkit.Known(c35KeyRace) {
		st.Excluded(c35KeyRace)
		t.Skip("known finding " + c35KeyRace)
	}
	rapid.Check(t, func(t *rapid.T) { c35Check(t, st, true, false) })
}
