//go:build go1.23

package tbtc_test

import (
	"crypto/ecdsa"
	"crypto/sha256"
	"encoding/binary"
	"encoding/hex"
	"fmt"
	"math/big"
	"strings"
	"testing"

	"github.com/btcsuite/btcd/btcec"
	"github.com/btcsuite/btcd/chaincfg/chainhash"
	"github.com/btcsuite/btcd/mempool"
	"github.com/btcsuite/btcd/wire"
	"github.com/btcsuite/btcutil"
	"github.com/keep-network/keep-core/internal/testutils"
	"github.com/keep-network/keep-core/internal/verifkit"
	"github.com/keep-network/keep-core/pkg/bitcoin"
	"github.com/keep-network/keep-core/pkg/chain"
	"github.com/keep-network/keep-core/pkg/tbtc"
	"github.com/keep-network/keep-core/pkg/tbtcpg"
	"pgregory.net/rapid"
)

// --- stubs -------------------------------------------------------------------

type c30Btc struct {
	bitcoin.Chain
	txs     map[bitcoin.Hash]*bitcoin.Transaction
	counter uint32
	rate    int64
}

func c30NewBtc(rate int64) *c30Btc {
	return &c30Btc{txs: map[bitcoin.Hash]*bitcoin.Transaction{}, rate: rate}
}

func (c *c30Btc) GetTransaction(h bitcoin.Hash) (*bitcoin.Transaction, error) {
	if tx, ok := c.txs[h]; ok {
		return tx, nil
	}
	return nil, fmt.Errorf("c30: transaction not found")
}

func (c *c30Btc) EstimateSatPerVByteFee(uint32) (int64, error) { return c.rate, nil }

func (c *c30Btc) GetTransactionConfirmations(h bitcoin.Hash) (uint, error) {
	if _, ok := c.txs[h]; !ok {
		return 0, fmt.Errorf("c30: transaction not found")
	}
	return tbtc.DepositSweepRequiredFundingTxConfirmations + 3, nil
}

// fundMany records one previous transaction with the given outputs.
func (c *c30Btc) fundMany(scripts [][]byte, values []int64) bitcoin.Hash {
	c.counter++
	var prev bitcoin.Hash
	binary.LittleEndian.PutUint32(prev[:], c.counter)
	prev[31] = 0x31
	tx := &bitcoin.Transaction{
		Version: 1,
		Inputs: []*bitcoin.TransactionInput{{
			Outpoint: &bitcoin.TransactionOutpoint{TransactionHash: prev, OutputIndex: c.counter}, Sequence: 0xffffffff,
		}},
	}
	for i := range scripts {
		tx.Outputs = append(tx.Outputs, &bitcoin.TransactionOutput{Value: values[i], PublicKeyScript: scripts[i]})
	}
	h := tx.Hash()
	c.txs[h] = tx
	return h
}

func (c *c30Btc) fund(script []byte, value int64) *bitcoin.UnspentTransactionOutput {
	c.counter++
	var prev bitcoin.Hash
	binary.LittleEndian.PutUint32(prev[:], c.counter)
	prev[31] = 0x30
	tx := &bitcoin.Transaction{
		Version: 1,
		Inputs: []*bitcoin.TransactionInput{{
			Outpoint: &bitcoin.TransactionOutpoint{TransactionHash: prev, OutputIndex: c.counter}, Sequence: 0xffffffff,
		}},
		Outputs: []*bitcoin.TransactionOutput{{Value: value, PublicKeyScript: script}},
	}
	h := tx.Hash()
	c.txs[h] = tx
	return &bitcoin.UnspentTransactionOutput{Outpoint: &bitcoin.TransactionOutpoint{TransactionHash: h, OutputIndex: 0}, Value: value}
}

type c30Op struct {
	hash  bitcoin.Hash
	index uint32
}

type c30PgChain struct {
	tbtcpg.Chain
	events      []*tbtc.DepositRevealedEvent
	deposits    map[c30Op]*tbtc.DepositChainRequest
	redemptions map[string]*tbtc.RedemptionRequest
}

func (c *c30PgChain) PastDepositRevealedEvents(f *tbtc.DepositRevealedEventFilter) ([]*tbtc.DepositRevealedEvent, error) {
	var out []*tbtc.DepositRevealedEvent
	for _, e := range c.events {
		if f != nil {
			if e.BlockNumber < f.StartBlock || (f.EndBlock != nil && e.BlockNumber > *f.EndBlock) {
				continue
			}
			if len(f.WalletPublicKeyHash) > 0 {
				match := false
				for _, w := range f.WalletPublicKeyHash {
					match = match || w == e.WalletPublicKeyHash
				}
				if !match {
					continue
				}
			}
		}
		out = append(out, e)
	}
	return out, nil
}

func (c *c30PgChain) GetDepositRequest(h bitcoin.Hash, index uint32) (*tbtc.DepositChainRequest, bool, error) {
	r, ok := c.deposits[c30Op{h, index}]
	return r, ok, nil
}

func (c *c30PgChain) ValidateDepositSweepProposal([20]byte, *tbtc.DepositSweepProposal, []struct {
	*tbtc.Deposit
	FundingTx *bitcoin.Transaction
}) error {
	return nil
}

func (c *c30PgChain) ValidateRedemptionProposal([20]byte, *tbtc.RedemptionProposal) error { return nil }

func (c *c30PgChain) GetPendingRedemptionRequest(_ [20]byte, script bitcoin.Script) (*tbtc.RedemptionRequest, bool, error) {
	r, ok := c.redemptions[string(script)]
	return r, ok, nil
}

func (c *c30PgChain) GetDepositParameters() (uint64, uint64, uint64, uint32, error) {
	return 0, 0, 1 << 40, 0, nil
}
func (c *c30PgChain) GetDepositSweepMaxSize() (uint16, error) { return 20, nil }

// --- scripts -------------------------------------------------------------------

func c30P2PKH(h []byte) []byte {
	return append(append([]byte{0x76, 0xa9, 0x14}, h[:20]...), 0x88, 0xac)
}
func c30P2WPKH(h []byte) []byte { return append([]byte{0x00, 0x14}, h[:20]...) }
func c30P2SH(h []byte) []byte   { return append(append([]byte{0xa9, 0x14}, h[:20]...), 0x87) }
func c30P2WSH(h []byte) []byte  { return append([]byte{0x00, 0x20}, h[:32]...) }

func c30Bytes(t *rapid.T, n int, label string) []byte {
	return rapid.SliceOfN(rapid.Byte(), n, n).Draw(t, label)
}

// --- keys and signatures ---------------------------------------------------------

func c30Key(t *rapid.T) *btcec.PrivateKey {
	b := c30Bytes(t, 32, "walletKey")
	b[0] &= 0x7f
	b[31] |= 1
	priv, _ := btcec.PrivKeyFromBytes(btcec.S256(), b)
	return priv
}

func c30DerIntLen(x *big.Int) int {
	b := x.Bytes()
	if len(b) == 0 {
		return 1
	}
	if b[0]&0x80 != 0 {
		return len(b) + 1
	}
	return len(b)
}

// c30Sign makes an ECDSA signature with a chosen nonce (deterministic for the
// replay); with forceMax the nonce is stepped until the DER encoding (after
// the low-S normalisation the builder's serializer applies) has the maximal
// 71 bytes. Returns the length of signature || sighash byte.
func c30Sign(d, z, k0 *big.Int, forceMax bool) (*big.Int, *big.Int, int) {
	curve := btcec.S256()
	n := curve.N
	half := new(big.Int).Rsh(n, 1)
	k := new(big.Int).Set(k0)
	for {
		k.Mod(k, n)
		if k.Sign() == 0 {
			k.SetInt64(1)
		}
		rx, _ := curve.ScalarBaseMult(k.Bytes())
		r := new(big.Int).Mod(rx, n)
		kinv := new(big.Int).ModInverse(k, n)
		s := new(big.Int).Mul(r, d)
		s.Add(s, z)
		s.Mul(s, kinv)
		s.Mod(s, n)
		if r.Sign() != 0 && s.Sign() != 0 {
			low := new(big.Int).Set(s)
			if low.Cmp(half) > 0 {
				low.Sub(n, low)
			}
			encoded := 6 + c30DerIntLen(r) + c30DerIntLen(low) + 1
			if !forceMax || encoded == 72 {
				return r, s, encoded
			}
		}
		k.Add(k, big.NewInt(1))
	}
}

type c30SigStats struct {
	max, minus1, shorter int
}

func c30SignAll(t *rapid.T, builder *bitcoin.TransactionBuilder, key *btcec.PrivateKey, mode string) (*bitcoin.Transaction, c30SigStats) {
	var stats c30SigStats
	sigHashes, err := builder.ComputeSignatureHashes()
	if err != nil {
		t.Fatalf("sighashes: %v", err)
	}
	k0 := new(big.Int).SetBytes(c30Bytes(t, 32, "nonce"))
	sigs := make([]*bitcoin.SignatureContainer, len(sigHashes))
	for i, z := range sigHashes {
		forceMax := mode == "max" || (mode == "mixed" && i%2 == 0)
		ki := new(big.Int).Add(k0, big.NewInt(int64(i)*1_000_003))
		r, s, n := c30Sign(key.D, z, ki, forceMax)
		switch {
		case n == 72:
			stats.max++
		case n == 71:
			stats.minus1++
		default:
			stats.shorter++
		}
		sigs[i] = &bitcoin.SignatureContainer{R: r, S: s, PublicKey: (*ecdsa.PublicKey)(&key.PublicKey)}
	}
	tx, err := builder.AddSignatures(sigs)
	if err != nil {
		t.Fatalf("AddSignatures: %v", err)
	}
	return tx, stats
}

// virtual size of the signed transaction, through btcd's wire types built
// field by field from the wallet's transaction.
func c30VirtualSize(tx *bitcoin.Transaction) int64 {
	msg := wire.NewMsgTx(tx.Version)
	for _, in := range tx.Inputs {
		txin := wire.NewTxIn(wire.NewOutPoint((*chainhash.Hash)(&in.Outpoint.TransactionHash), in.Outpoint.OutputIndex), in.SignatureScript, in.Witness)
		txin.Sequence = in.Sequence
		msg.AddTxIn(txin)
	}
	for _, out := range tx.Outputs {
		msg.AddTxOut(wire.NewTxOut(out.Value, out.PublicKeyScript))
	}
	msg.LockTime = tx.Locktime
	return mempool.GetTxVirtualSize(btcutil.NewTx(msg))
}

func c30SigMode(t *rapid.T) string {
	return rapid.SampledFrom([]string{"max", "max", "mixed", "any"}).Draw(t, "signatureMode")
}

func c30DepositParams(t *rapid.T, pkh []byte, extra bool) (*tbtc.Deposit, []byte) {
	d := &tbtc.Deposit{Depositor: chain.Address("0x" + hex.EncodeToString(c30Bytes(t, 20, "depositor")))}
	copy(d.WalletPublicKeyHash[:], pkh)
	copy(d.RefundPublicKeyHash[:], c30Bytes(t, 20, "refund"))
	copy(d.BlindingFactor[:], c30Bytes(t, 8, "blinding"))
	copy(d.RefundLocktime[:], c30Bytes(t, 4, "locktime"))
	if extra {
		var e [32]byte
		copy(e[:], c30Bytes(t, 32, "extra"))
		e[0] |= 1
		d.ExtraData = &e
	}
	script, err := d.Script()
	if err != nil {
		t.Fatalf("deposit script: %v", err)
	}
	return d, script
}

func c30Deposit(t *rapid.T, btc *c30Btc, pkh []byte, witness bool, extra bool) (*tbtc.Deposit, []byte) {
	d, script := c30DepositParams(t, pkh, extra)
	if witness {
		h := sha256.Sum256(script)
		d.Utxo = btc.fund(c30P2WSH(h[:]), 1_000_000)
	} else {
		d.Utxo = btc.fund(c30P2SH(btcutil.Hash160(script)), 1_000_000)
	}
	return d, script
}

// ---------------------------------------------------------------------------

// Generic estimator against a real signed transaction of exactly that shape.
func TestVerif_C30_Shapes(t *testing.T) {
	st := verifkit.New("C30", "TestVerif_C30_Shapes")
	defer st.Flush()
	rapid.Check(t, func(t *rapid.T) {
		btc := c30NewBtc(1)
		key := c30Key(t)
		pkh := btcutil.Hash160(key.PubKey().SerializeCompressed())
		builder := bitcoin.NewTransactionBuilder(btc)
		est := bitcoin.NewTransactionSizeEstimator()
		// The estimator is a mutable builder and VirtualSize a plain read-out:
		// it may be read at any point of the construction (a fee table built
		// incrementally, "with and without change") and every read reflects
		// the shape added so far. Reads are interleaved at drawn points; the
		// sequence must not decrease and the last one is compared with the
		// real transaction.
		reads, lastRead := 0, int64(0)
		readOut := func(where string) {
			if !rapid.Bool().Draw(t, "readEstimate"+where) {
				return
			}
			v, err := est.VirtualSize()
			if err != nil {
				t.Fatalf("estimator error %s: %v", where, err)
			}
			if v < lastRead {
				t.Fatalf("estimate shrank from %d to %d %s although the shape only grew", lastRead, v, where)
			}
			reads, lastRead = reads+1, v
		}
		readOut("Empty")
		var shape strings.Builder

		budget := 21
		khLegacy := rapid.IntRange(0, 2).Draw(t, "keyHashLegacyInputs")
		khWitness := rapid.IntRange(0, 2).Draw(t, "keyHashWitnessInputs")
		budget -= khLegacy + khWitness
		for i := 0; i < khLegacy; i++ {
			if err := builder.AddPublicKeyHashInput(btc.fund(c30P2PKH(pkh), 500_000)); err != nil {
				t.Fatalf("add input: %v", err)
			}
		}
		for i := 0; i < khWitness; i++ {
			if err := builder.AddPublicKeyHashInput(btc.fund(c30P2WPKH(pkh), 500_000)); err != nil {
				t.Fatalf("add input: %v", err)
			}
		}
		est.AddPublicKeyHashInputs(khLegacy, false)
		readOut("AfterLegacyKeyHashInputs")
		est.AddPublicKeyHashInputs(khWitness, true)
		readOut("AfterKeyHashInputs")
		fmt.Fprintf(&shape, "in: p2pkh*%d p2wpkh*%d", khLegacy, khWitness)

		groups := rapid.IntRange(0, 3).Draw(t, "scriptHashGroups")
		if khLegacy+khWitness == 0 && groups == 0 {
			groups = 1
		}
		legacyScriptInputs, witnessScriptInputs, oddLengths := 0, 0, 0
		for g := 0; g < groups && budget > 0; g++ {
			count := rapid.IntRange(1, budget).Draw(t, "groupCount")
			if rapid.Bool().Draw(t, "smallGroup") {
				count = min(count, 3)
			}
			budget -= count
			witness := rapid.Bool().Draw(t, "groupWitness")
			lenClass := rapid.SampledFrom([]string{"92", "92", "126", "126", "other"}).Draw(t, "scriptLength")
			var length int
			switch lenClass {
			case "92":
				length = 92
			case "126":
				length = 126
			default:
				length = rapid.SampledFrom([]int{2, 74, 75, 76, 77, 91, 93, 125, 127, 254, 255, 256, 257, 519, 520}).Draw(t, "otherLength")
				oddLengths++
			}
			for i := 0; i < count; i++ {
				var script []byte
				if length == 92 || length == 126 {
					var d *tbtc.Deposit
					d, script = c30Deposit(t, btc, pkh, witness, length == 126)
					if len(script) != length {
						t.Fatalf("deposit script has %d bytes, expected %d", len(script), length)
					}
					if err := builder.AddScriptHashInput(d.Utxo, script); err != nil {
						t.Fatalf("add input: %v", err)
					}
					continue
				}
				// any parseable script: single-byte opcodes only (the legacy
				// sighash computation parses the redeem script)
				script = rapid.SliceOfN(rapid.SampledFrom([]byte{0x61, 0x51, 0x75, 0x76, 0xac, 0x87}), length, length).Draw(t, "redeemScript")
				var utxo *bitcoin.UnspentTransactionOutput
				if witness {
					h := sha256.Sum256(script)
					utxo = btc.fund(c30P2WSH(h[:]), 700_000)
				} else {
					utxo = btc.fund(c30P2SH(btcutil.Hash160(script)), 700_000)
				}
				if err := builder.AddScriptHashInput(utxo, script); err != nil {
					t.Fatalf("add input: %v", err)
				}
			}
			est.AddScriptHashInputs(count, length, witness)
			readOut("AfterScriptHashGroup")
			if witness {
				witnessScriptInputs += count
				fmt.Fprintf(&shape, " p2wsh[%d]*%d", length, count)
			} else {
				legacyScriptInputs += count
				fmt.Fprintf(&shape, " p2sh[%d]*%d", length, count)
			}
		}

		outBudget := 21
		counts := [4]int{}
		for i := range counts {
			counts[i] = rapid.IntRange(0, min(outBudget, 6)).Draw(t, "outputs")
			outBudget -= counts[i]
		}
		if counts[0]+counts[1]+counts[2]+counts[3] == 0 {
			counts[1] = 1
		}
		if rapid.IntRange(0, 9).Draw(t, "manyOutputs") == 0 {
			counts[rapid.IntRange(0, 3).Draw(t, "manyOutputsKind")] += 21 - (counts[0] + counts[1] + counts[2] + counts[3])
		}
		for kind, c := range counts {
			for i := 0; i < c; i++ {
				var script []byte
				switch kind {
				case 0:
					script = c30P2PKH(c30Bytes(t, 20, "outHash"))
				case 1:
					script = c30P2WPKH(c30Bytes(t, 20, "outHash"))
				case 2:
					script = c30P2SH(c30Bytes(t, 20, "outHash"))
				default:
					script = c30P2WSH(c30Bytes(t, 32, "outHash"))
				}
				builder.AddOutput(&bitcoin.TransactionOutput{Value: rapid.Int64Range(0, 2_100_000_000_000_000).Draw(t, "outValue"), PublicKeyScript: script})
			}
		}
		est.AddPublicKeyHashOutputs(counts[0], false).AddPublicKeyHashOutputs(counts[1], true)
		readOut("AfterKeyHashOutputs")
		est.AddScriptHashOutputs(counts[2], false).AddScriptHashOutputs(counts[3], true)
		fmt.Fprintf(&shape, " out: p2pkh*%d p2wpkh*%d p2sh*%d p2wsh*%d", counts[0], counts[1], counts[2], counts[3])

		mode := c30SigMode(t)
		tx, sig := c30SignAll(t, builder, key, mode)
		estimated, err := est.VirtualSize()
		if err != nil {
			t.Fatalf("estimator error for %s: %v", shape.String(), err)
		}
		if estimated < lastRead {
			t.Fatalf("%s: estimate shrank from %d to %d although the shape only grew", shape.String(), lastRead, estimated)
		}
		if again, _ := est.VirtualSize(); again != estimated {
			t.Fatalf("%s: two reads of the same shape give %d and %d", shape.String(), estimated, again)
		}
		real := c30VirtualSize(tx)
		if estimated < real {
			t.Fatalf("%s: estimated %d vbytes, the signed transaction has %d (signatures: %d of 72 bytes, %d of 71, %d shorter)", shape.String(), estimated, real, sig.max, sig.minus1, sig.shorter)
		}
		nt := legacyScriptInputs > 0 && sig.max > 0
		slack := estimated - real
		slackClass := "0"
		if slack > 0 && slack <= 2 {
			slackClass = "1-2"
		} else if slack > 2 {
			slackClass = ">2"
		}
		st.Case(nt, fmt.Sprintf("%s sigs=%s est=%d real=%d", shape.String(), mode, estimated, real),
			"signatures:"+mode, "slack-vbytes:"+slackClass, fmt.Sprintf("intermediate-reads:%d", min(reads, 3)),
			fmt.Sprintf("legacy-script-inputs:%v", legacyScriptInputs > 0), fmt.Sprintf("witness-script-inputs:%v", witnessScriptInputs > 0),
			fmt.Sprintf("non-tbtc-script-length:%v", oddLengths > 0), fmt.Sprintf("all-signatures-max:%v", sig.minus1+sig.shorter == 0))
	})
}

// tbtcpg deposit sweep fee estimate (1 P2WPKH main UTXO, N P2WSH deposits of at
// most 126 script bytes, 1 P2WPKH output) against the transaction the wallet
// assembles for such a proposal.
func TestVerif_C30_DepositSweepFee(t *testing.T) {
	st := verifkit.New("C30", "TestVerif_C30_DepositSweepFee")
	defer st.Flush()
	rapid.Check(t, func(t *rapid.T) {
		rate := int64(rapid.IntRange(1, 600).Draw(t, "satPerVByte"))
		btc := c30NewBtc(rate)
		key := c30Key(t)
		pub := (*ecdsa.PublicKey)(&key.PublicKey)
		pkh := btcutil.Hash160(key.PubKey().SerializeCompressed())
		n := rapid.IntRange(1, 20).Draw(t, "deposits")
		withMain := rapid.IntRange(0, 3).Draw(t, "hasMainUtxo") > 0
		var main *bitcoin.UnspentTransactionOutput
		if withMain {
			main = btc.fund(c30P2WPKH(pkh), 90_000_000)
		}
		extraMode := rapid.SampledFrom([]string{"all", "all", "none", "mixed"}).Draw(t, "extraData")
		deposits := make([]*tbtc.Deposit, n)
		withExtra := 0
		for i := range deposits {
			extra := extraMode == "all" || (extraMode == "mixed" && rapid.Bool().Draw(t, "extra"))
			if extra {
				withExtra++
			}
			deposits[i], _ = c30Deposit(t, btc, pkh, true, extra)
		}
		fees, err := tbtcpg.EstimateDepositsSweepFee(&c30PgChain{}, btc, n)
		if err != nil {
			t.Fatalf("estimate: %v", err)
		}
		fee := fees[n].TotalFee
		builder, err := tbtc.C30AssembleDepositSweep(btc, pub, main, deposits, fee)
		if err != nil {
			t.Fatalf("assemble: %v", err)
		}
		mode := c30SigMode(t)
		tx, sig := c30SignAll(t, builder, key, mode)
		real := c30VirtualSize(tx)
		if fee < rate*real {
			t.Fatalf("sweep of %d deposits (%d with extra data, main UTXO %v): estimated fee %d at %d sat/vbyte, the signed transaction has %d vbytes and needs %d", n, withExtra, withMain, fee, rate, real, rate*real)
		}
		nt := withMain && withExtra == n && sig.minus1+sig.shorter == 0
		st.Case(nt, fmt.Sprintf("deposits=%d extra=%d main=%v rate=%d sigs=%s fee=%d real=%d", n, withExtra, withMain, rate, mode, fee, real),
			fmt.Sprintf("main-utxo:%v", withMain), "extra-data:"+extraMode, "signatures:"+mode, fmt.Sprintf("exact:%v", fee == rate*real))
	})
}

// tbtcpg redemption fee estimate (1 P2WPKH main UTXO, change, one output per
// redeemer script) against the assembled redemption transaction.
func TestVerif_C30_RedemptionFee(t *testing.T) {
	st := verifkit.New("C30", "TestVerif_C30_RedemptionFee")
	defer st.Flush()
	rapid.Check(t, func(t *rapid.T) {
		rate := int64(rapid.IntRange(1, 600).Draw(t, "satPerVByte"))
		btc := c30NewBtc(rate)
		key := c30Key(t)
		pub := (*ecdsa.PublicKey)(&key.PublicKey)
		pkh := btcutil.Hash160(key.PubKey().SerializeCompressed())
		n := rapid.IntRange(1, 20).Draw(t, "requests")
		requests := make([]*tbtc.RedemptionRequest, n)
		scripts := make([]bitcoin.Script, n)
		kinds := map[string]int{}
		var redeemable int64
		for i := range requests {
			var script []byte
			kind := rapid.SampledFrom([]string{"p2pkh", "p2wpkh", "p2sh", "p2wsh"}).Draw(t, "redeemerScript")
			switch kind {
			case "p2pkh":
				script = c30P2PKH(c30Bytes(t, 20, "hash"))
			case "p2wpkh":
				script = c30P2WPKH(c30Bytes(t, 20, "hash"))
			case "p2sh":
				script = c30P2SH(c30Bytes(t, 20, "hash"))
			default:
				script = c30P2WSH(c30Bytes(t, 32, "hash"))
			}
			kinds[kind]++
			scripts[i] = script
			requests[i] = &tbtc.RedemptionRequest{RedeemerOutputScript: script, RequestedAmount: 10_000_000, TreasuryFee: 5_000, TxMaxFee: 1_000_000}
			redeemable += 10_000_000 - 5_000
		}
		fee, err := tbtcpg.EstimateRedemptionFee(btc, scripts)
		if err != nil {
			t.Fatalf("estimate: %v", err)
		}
		withChange := rapid.IntRange(0, 3).Draw(t, "hasChange") > 0
		mainValue := redeemable
		if withChange {
			mainValue += rapid.Int64Range(1, 1_000_000_000).Draw(t, "change")
		}
		main := btc.fund(c30P2WPKH(pkh), mainValue)
		shape := rapid.SampledFrom([]tbtc.RedemptionTransactionShape{tbtc.RedemptionChangeFirst, tbtc.RedemptionChangeLast}).Draw(t, "shape")
		builder, err := tbtc.C30AssembleRedemption(btc, pub, main, requests, fee, shape)
		if err != nil {
			t.Fatalf("assemble: %v", err)
		}
		mode := c30SigMode(t)
		tx, sig := c30SignAll(t, builder, key, mode)
		real := c30VirtualSize(tx)
		if fee < rate*real {
			t.Fatalf("redemption of %v (change %v): estimated fee %d at %d sat/vbyte, the signed transaction has %d vbytes and needs %d", kinds, withChange, fee, rate, real, rate*real)
		}
		nt := withChange && sig.minus1+sig.shorter == 0
		st.Case(nt, fmt.Sprintf("requests=%v change=%v rate=%d sigs=%s fee=%d real=%d", kinds, withChange, rate, mode, fee, real),
			fmt.Sprintf("change:%v", withChange), fmt.Sprintf("script-kinds:%d", len(kinds)), "signatures:"+mode, fmt.Sprintf("exact:%v", fee == rate*real))
	})
}

// The fee a coordinator really proposes: tbtcpg's ProposeDepositsSweep with
// the fee left to be estimated (fee argument 0), for deposit sets in which
// several deposits are outputs of the same funding transaction, against the
// transaction the wallet validates, assembles and signs for THAT proposal.
func TestVerif_C30_ProposedSweepFee(t *testing.T) {
	st := verifkit.New("C30", "TestVerif_C30_ProposedSweepFee")
	defer st.Flush()
	rapid.Check(t, func(t *rapid.T) {
		rate := int64(rapid.IntRange(1, 600).Draw(t, "satPerVByte"))
		btc := c30NewBtc(rate)
		host := &c30PgChain{deposits: map[c30Op]*tbtc.DepositChainRequest{}}
		key := c30Key(t)
		pub := (*ecdsa.PublicKey)(&key.PublicKey)
		pkh := btcutil.Hash160(key.PubKey().SerializeCompressed())
		var pkh20 [20]byte
		copy(pkh20[:], pkh)

		// funding transactions: 1..4 deposit outputs each (a depositor
		// batching deposits), optionally a change output in between
		total := rapid.IntRange(1, 20).Draw(t, "deposits")
		if rapid.Bool().Draw(t, "fewDeposits") {
			total = rapid.IntRange(1, 6).Draw(t, "depositsFew")
		}
		sharedReveal := rapid.Bool().Draw(t, "sharedRevealBlock")
		var refs []*tbtcpg.DepositReference
		fundingTxs, maxPerTx, withExtra := 0, 0, 0
		for left := total; left > 0; {
			per := rapid.IntRange(1, min(left, 4)).Draw(t, "depositsInFundingTx")
			left -= per
			fundingTxs++
			maxPerTx = max(maxPerTx, per)
			var scripts [][]byte
			var values []int64
			var params []*tbtc.Deposit
			var indexes []uint32
			for j := 0; j < per; j++ {
				if rapid.IntRange(0, 3).Draw(t, "changeOutputBefore") == 0 {
					scripts = append(scripts, c30P2WPKH(c30Bytes(t, 20, "depositorChange")))
					values = append(values, 12_345)
				}
				extra := rapid.IntRange(0, 3).Draw(t, "extraData") > 0
				if extra {
					withExtra++
				}
				d, script := c30DepositParams(t, pkh, extra)
				h := sha256.Sum256(script)
				indexes = append(indexes, uint32(len(scripts)))
				scripts = append(scripts, c30P2WSH(h[:]))
				values = append(values, rapid.Int64Range(100_000, 500_000_000).Draw(t, "depositValue"))
				params = append(params, d)
			}
			fundingHash := btc.fundMany(scripts, values)
			for j, d := range params {
				reveal := uint64(1000)
				if !sharedReveal {
					reveal = uint64(1000 + len(refs)*3)
				}
				host.events = append(host.events, &tbtc.DepositRevealedEvent{
					FundingTxHash: fundingHash, FundingOutputIndex: indexes[j], Depositor: d.Depositor,
					Amount: uint64(values[indexes[j]]), BlindingFactor: d.BlindingFactor, WalletPublicKeyHash: pkh20,
					RefundPublicKeyHash: d.RefundPublicKeyHash, RefundLocktime: d.RefundLocktime, BlockNumber: reveal,
				})
				host.deposits[c30Op{fundingHash, indexes[j]}] = &tbtc.DepositChainRequest{
					Depositor: d.Depositor, Amount: uint64(values[indexes[j]]), ExtraData: d.ExtraData,
				}
				refs = append(refs, &tbtcpg.DepositReference{FundingTxHash: fundingHash, FundingOutputIndex: indexes[j], RevealBlock: reveal})
			}
		}
		refs = rapid.Permutation(refs).Draw(t, "proposalOrder")

		proposal, err := tbtcpg.NewDepositSweepTask(host, btc).ProposeDepositsSweep(&testutils.MockLogger{}, pkh20, refs, 0)
		if err != nil {
			t.Fatalf("ProposeDepositsSweep: %v", err)
		}
		if len(proposal.DepositsKeys) != len(refs) {
			t.Fatalf("proposal sweeps %d deposits, %d were given", len(proposal.DepositsKeys), len(refs))
		}
		for i, k := range proposal.DepositsKeys {
			if k.FundingTxHash != refs[i].FundingTxHash || k.FundingOutputIndex != refs[i].FundingOutputIndex {
				t.Fatalf("proposal deposit %d is not the given one", i)
			}
		}
		fee := proposal.SweepTxFee.Int64()

		// the wallet's side: validate the proposal, assemble, sign
		deposits, err := tbtc.ValidateDepositSweepProposal(&testutils.MockLogger{}, pkh20, proposal, tbtc.DepositSweepRequiredFundingTxConfirmations, host, btc)
		if err != nil {
			t.Fatalf("wallet-side validation: %v", err)
		}
		withMain := rapid.IntRange(0, 3).Draw(t, "hasMainUtxo") > 0
		var main *bitcoin.UnspentTransactionOutput
		if withMain {
			main = btc.fund(c30P2WPKH(pkh), 90_000_000)
		}
		builder, err := tbtc.C30AssembleDepositSweep(btc, pub, main, deposits, fee)
		if err != nil {
			t.Fatalf("assemble: %v", err)
		}
		mode := c30SigMode(t)
		tx, sig := c30SignAll(t, builder, key, mode)
		if len(tx.Inputs) != len(refs)+map[bool]int{true: 1, false: 0}[withMain] {
			t.Fatalf("transaction has %d inputs for %d deposits", len(tx.Inputs), len(refs))
		}
		real := c30VirtualSize(tx)
		if fee < rate*real {
			t.Fatalf("proposal for %d deposits from %d funding transactions (main UTXO %v): proposed fee %d at %d sat/vbyte = %d vbytes, the signed transaction has %d vbytes and needs %d",
				len(refs), fundingTxs, withMain, fee, rate, fee/rate, real, rate*real)
		}
		nt := maxPerTx >= 2 && sig.minus1+sig.shorter == 0
		st.Case(nt, fmt.Sprintf("deposits=%d funding-txs=%d max-per-tx=%d extra=%d main=%v shared-reveal=%v rate=%d sigs=%s fee=%d real=%d", len(refs), fundingTxs, maxPerTx, withExtra, withMain, sharedReveal, rate, mode, fee, real),
			fmt.Sprintf("max-deposits-per-funding-tx:%d", maxPerTx), fmt.Sprintf("main-utxo:%v", withMain), fmt.Sprintf("shared-reveal-block:%v", sharedReveal),
			"signatures:"+mode, fmt.Sprintf("exact:%v", fee == rate*real))
	})
}

// Same for redemptions: tbtcpg's ProposeRedemption with an estimated fee
// against the transaction the wallet assembles for the proposal.
func TestVerif_C30_ProposedRedemptionFee(t *testing.T) {
	st := verifkit.New("C30", "TestVerif_C30_ProposedRedemptionFee")
	defer st.Flush()
	rapid.Check(t, func(t *rapid.T) {
		rate := int64(rapid.IntRange(1, 600).Draw(t, "satPerVByte"))
		btc := c30NewBtc(rate)
		host := &c30PgChain{redemptions: map[string]*tbtc.RedemptionRequest{}}
		key := c30Key(t)
		pub := (*ecdsa.PublicKey)(&key.PublicKey)
		pkh := btcutil.Hash160(key.PubKey().SerializeCompressed())
		var pkh20 [20]byte
		copy(pkh20[:], pkh)
		n := rapid.IntRange(1, 20).Draw(t, "requests")
		scripts := make([]bitcoin.Script, 0, n)
		kinds := map[string]int{}
		var redeemable int64
		sharedHash := c30Bytes(t, 32, "sharedHash")
		for len(scripts) < n {
			kind := rapid.SampledFrom([]string{"p2pkh", "p2wpkh", "p2sh", "p2wsh"}).Draw(t, "redeemerScript")
			// the same 20-byte hash behind different script types is a
			// different redeemer script
			h := c30Bytes(t, 32, "hash")
			if rapid.IntRange(0, 3).Draw(t, "reuseHash") == 0 {
				h = sharedHash
			}
			var script []byte
			switch kind {
			case "p2pkh":
				script = c30P2PKH(h)
			case "p2wpkh":
				script = c30P2WPKH(h)
			case "p2sh":
				script = c30P2SH(h)
			default:
				script = c30P2WSH(h)
			}
			if _, dup := host.redemptions[string(script)]; dup {
				continue
			}
			kinds[kind]++
			scripts = append(scripts, script)
			host.redemptions[string(script)] = &tbtc.RedemptionRequest{RedeemerOutputScript: script, RequestedAmount: 10_000_000, TreasuryFee: 5_000, TxMaxFee: 1_000_000}
			redeemable += 10_000_000 - 5_000
		}
		proposal, err := tbtcpg.NewRedemptionTask(host, btc).ProposeRedemption(&testutils.MockLogger{}, pkh20, scripts, 0)
		if err != nil {
			t.Fatalf("ProposeRedemption: %v", err)
		}
		if len(proposal.RedeemersOutputScripts) != n {
			t.Fatalf("proposal has %d redeemer scripts, %d were given", len(proposal.RedeemersOutputScripts), n)
		}
		fee := proposal.RedemptionTxFee.Int64()
		requests, err := tbtc.ValidateRedemptionProposal(&testutils.MockLogger{}, pkh20, proposal, host)
		if err != nil {
			t.Fatalf("wallet-side validation: %v", err)
		}
		withChange := rapid.IntRange(0, 3).Draw(t, "hasChange") > 0
		mainValue := redeemable
		if withChange {
			mainValue += rapid.Int64Range(1, 1_000_000_000).Draw(t, "change")
		}
		main := btc.fund(c30P2WPKH(pkh), mainValue)
		builder, err := tbtc.C30AssembleRedemption(btc, pub, main, requests, fee, tbtc.RedemptionChangeFirst)
		if err != nil {
			t.Fatalf("assemble: %v", err)
		}
		mode := c30SigMode(t)
		tx, sig := c30SignAll(t, builder, key, mode)
		real := c30VirtualSize(tx)
		if fee < rate*real {
			t.Fatalf("redemption proposal for %v (change %v): proposed fee %d at %d sat/vbyte, the signed transaction has %d vbytes and needs %d", kinds, withChange, fee, rate, real, rate*real)
		}
		st.Case(withChange && sig.minus1+sig.shorter == 0, fmt.Sprintf("requests=%v change=%v rate=%d sigs=%s fee=%d real=%d", kinds, withChange, rate, mode, fee, real),
			fmt.Sprintf("change:%v", withChange), fmt.Sprintf("script-kinds:%d", len(kinds)), "signatures:"+mode, fmt.Sprintf("exact:%v", fee == rate*real))
	})
}
