//go:build go1.23

package tbtc

import (
	"bytes"
	"crypto/ecdsa"
	"crypto/sha256"
	"encoding/hex"
	"fmt"
	"math/big"
	"strings"
	"testing"

	"github.com/btcsuite/btcd/btcec"
	"github.com/btcsuite/btcd/txscript"
	"github.com/btcsuite/btcd/wire"
	"github.com/btcsuite/btcutil"
	"github.com/keep-network/keep-core/internal/verifkit"
	"github.com/keep-network/keep-core/pkg/bitcoin"
	"github.com/keep-network/keep-core/pkg/chain"
	"pgregory.net/rapid"
)

// ---------------------------------------------------------------------------
// Bitcoin chain stub: the builder only looks up previous transactions.

type c27Chain struct {
	bitcoin.Chain
	txs map[bitcoin.Hash]*bitcoin.Transaction
}

func (c *c27Chain) GetTransaction(h bitcoin.Hash) (*bitcoin.Transaction, error) {
	if tx, ok := c.txs[h]; ok {
		return tx, nil
	}
	return nil, fmt.Errorf("no such transaction")
}

// ---------------------------------------------------------------------------
// Locking scripts, written byte by byte (independent of the package helpers).

func c27P2PKH(h [20]byte) []byte {
	return append(append([]byte{0x76, 0xa9, 0x14}, h[:]...), 0x88, 0xac)
}
func c27P2WPKH(h [20]byte) []byte { return append([]byte{0x00, 0x14}, h[:]...) }
func c27P2SH(h [20]byte) []byte   { return append(append([]byte{0xa9, 0x14}, h[:]...), 0x87) }
func c27P2WSH(h [32]byte) []byte  { return append([]byte{0x00, 0x20}, h[:]...) }

func c27Hash160(b []byte) (out [20]byte) {
	copy(out[:], btcutil.Hash160(b))
	return
}

type c27Input struct {
	kind         string // P2PKH, P2WPKH (wallet) / P2SH, P2WSH (deposit)
	utxo         *bitcoin.UnspentTransactionOutput
	pkScript     []byte
	redeemScript []byte
	value        int64
	funding      int // which generated previous transaction holds the output
}

func (in *c27Input) witness() bool { return in.kind == "P2WPKH" || in.kind == "P2WSH" }

type c27Scenario struct {
	priv    *btcec.PrivateKey
	inputs  []*c27Input
	outputs []*bitcoin.TransactionOutput
	chain   *c27Chain
	ops     string // builder operations of the last build: i(nput) o(utput) C(ompute)
}

func c27GenKey(t *rapid.T, label string) *btcec.PrivateKey {
	raw := rapid.SliceOfN(rapid.Byte(), 32, 32).Draw(t, label)
	n := new(big.Int).Sub(btcec.S256().N, big.NewInt(1))
	d := new(big.Int).SetBytes(raw)
	d.Mod(d, n)
	d.Add(d, big.NewInt(1)) // 1..N-1
	priv, _ := btcec.PrivKeyFromBytes(btcec.S256(), d.FillBytes(make([]byte, 32)))
	return priv
}

func c27GenValue(t *rapid.T, label string) int64 {
	return rapid.OneOf(
		rapid.Int64Range(1, 2100000000000000),
		rapid.SampledFrom([]int64{546, 1, 100000000, 2100000000000000, 0xffffffff, 0x100000000}),
		rapid.Int64Range(1, 100000),
	).Draw(t, label)
}

func c27Bytes20(t *rapid.T, label string) (out [20]byte) {
	copy(out[:], rapid.SliceOfN(rapid.Byte(), 20, 20).Draw(t, label))
	return
}

func c27GenOutputScript(t *rapid.T) []byte {
	switch rapid.SampledFrom([]string{"P2WPKH", "P2PKH", "P2SH", "P2WSH"}).Draw(t, "outputType") {
	case "P2WPKH":
		return c27P2WPKH(c27Bytes20(t, "outputHash"))
	case "P2PKH":
		return c27P2PKH(c27Bytes20(t, "outputHash"))
	case "P2SH":
		return c27P2SH(c27Bytes20(t, "outputHash"))
	default:
		var h [32]byte
		copy(h[:], rapid.SliceOfN(rapid.Byte(), 32, 32).Draw(t, "outputHash32"))
		return c27P2WSH(h)
	}
}

func c27GenScenario(t *rapid.T) *c27Scenario {
	sc := &c27Scenario{chain: &c27Chain{txs: map[bitcoin.Hash]*bitcoin.Transaction{}}}
	sc.priv = c27GenKey(t, "walletKey")
	walletPKH := c27Hash160(sc.priv.PubKey().SerializeCompressed())

	// kinds of the inputs: 0..3 wallet inputs (main UTXO, moved funds) and
	// 0..6 deposits, at least one input, in any order
	plan := rapid.SampledFrom([]string{"mixed", "mixed", "mixed", "free", "wallet-only", "deposits-only", "single"}).Draw(t, "plan")
	var kinds []string
	walletKind := rapid.SampledFrom([]string{"P2WPKH", "P2PKH"})
	depositKind := rapid.SampledFrom([]string{"P2WSH", "P2SH"})
	switch plan {
	case "mixed":
		// by construction at least one witness and one non-witness input
		kinds = append(kinds, rapid.SampledFrom([]string{"P2WPKH", "P2WSH"}).Draw(t, "witnessKind"),
			rapid.SampledFrom([]string{"P2SH", "P2PKH"}).Draw(t, "legacyKind"))
		extra := rapid.IntRange(0, 5).Draw(t, "extraInputs")
		for i := 0; i < extra; i++ {
			if rapid.IntRange(0, 3).Draw(t, "extraIsWallet") == 0 {
				kinds = append(kinds, walletKind.Draw(t, "walletKind"))
			} else {
				kinds = append(kinds, depositKind.Draw(t, "depositKind"))
			}
		}
	case "wallet-only":
		n := rapid.IntRange(1, 3).Draw(t, "walletInputs")
		for i := 0; i < n; i++ {
			kinds = append(kinds, walletKind.Draw(t, "walletKind"))
		}
	case "deposits-only":
		n := rapid.IntRange(1, 6).Draw(t, "deposits")
		for i := 0; i < n; i++ {
			kinds = append(kinds, depositKind.Draw(t, "depositKind"))
		}
	case "single":
		kinds = append(kinds, rapid.SampledFrom([]string{"P2WPKH", "P2PKH", "P2WSH", "P2SH"}).Draw(t, "singleKind"))
	default:
		nw := rapid.IntRange(0, 3).Draw(t, "walletInputs")
		nd := rapid.IntRange(0, 6).Draw(t, "deposits")
		if nw+nd == 0 {
			nw = 1
		}
		for i := 0; i < nw; i++ {
			kinds = append(kinds, walletKind.Draw(t, "walletKind"))
		}
		for i := 0; i < nd; i++ {
			kinds = append(kinds, depositKind.Draw(t, "depositKind"))
		}
	}
	if len(kinds) > 1 {
		kinds = rapid.Permutation(kinds).Draw(t, "order")
	}

	for _, kind := range kinds {
		in := &c27Input{kind: kind}
		switch kind {
		case "P2PKH":
			in.pkScript = c27P2PKH(walletPKH)
		case "P2WPKH":
			in.pkScript = c27P2WPKH(walletPKH)
		default:
			depositor := c27Bytes20(t, "depositor")
			d := &Deposit{
				Depositor:           chain.Address("0x" + hex.EncodeToString(depositor[:])),
				WalletPublicKeyHash: walletPKH,
				RefundPublicKeyHash: c27Bytes20(t, "refundPKH"),
			}
			copy(d.BlindingFactor[:], rapid.SliceOfN(rapid.Byte(), 8, 8).Draw(t, "blinding"))
			copy(d.RefundLocktime[:], rapid.SliceOfN(rapid.Byte(), 4, 4).Draw(t, "refundLocktime"))
			if rapid.Bool().Draw(t, "extraData") {
				var extra [32]byte
				copy(extra[:], rapid.SliceOfN(rapid.Byte(), 32, 32).Draw(t, "extra"))
				d.ExtraData = &extra
			}
			script, err := d.Script()
			if err != nil {
				t.Fatalf("deposit script: %v", err)
			}
			in.redeemScript = script
			if kind == "P2SH" {
				in.pkScript = c27P2SH(c27Hash160(script))
			} else {
				in.pkScript = c27P2WSH(sha256.Sum256(script))
			}
		}
		in.value = c27GenValue(t, "utxoValue")
		sc.inputs = append(sc.inputs, in)
	}

	// Funding transactions: several inputs may spend different outputs of the
	// same previous transaction (two deposits funded by one Bitcoin
	// transaction, a deposit funded together with the wallet's change, ...).
	sharing := rapid.SampledFrom([]string{"some", "none", "some", "all"}).Draw(t, "fundingSharing")
	var groups [][]int
	for i := range sc.inputs {
		join := false
		switch sharing {
		case "all":
			join = i > 0
		case "some":
			join = i > 0 && rapid.Bool().Draw(t, "joinFunding")
		}
		if join {
			g := rapid.IntRange(0, len(groups)-1).Draw(t, "fundingTx")
			groups[g] = append(groups[g], i)
		} else {
			groups = append(groups, []int{i})
		}
	}
	for g, members := range groups {
		prev := &bitcoin.Transaction{
			Version:  1,
			Locktime: uint32(g + 1), // makes the previous transactions distinct
			Inputs: []*bitcoin.TransactionInput{{
				Outpoint: &bitcoin.TransactionOutpoint{OutputIndex: uint32(g)},
				Sequence: 0xffffffff,
			}},
		}
		copy(prev.Inputs[0].Outpoint.TransactionHash[:], rapid.SliceOfN(rapid.Byte(), 32, 32).Draw(t, "prevPrev"))
		// the spent outputs sit at drawn positions among decoy outputs of the
		// other script families
		nOutputs := len(members) + rapid.IntRange(0, 3).Draw(t, "decoys")
		slots := make([]int, nOutputs)
		for k := range slots {
			slots[k] = k
		}
		if nOutputs > 1 {
			slots = rapid.Permutation(slots).Draw(t, "outputSlots")
		}
		prev.Outputs = make([]*bitcoin.TransactionOutput, nOutputs)
		for k, m := range members {
			in := sc.inputs[m]
			prev.Outputs[slots[k]] = &bitcoin.TransactionOutput{Value: in.value, PublicKeyScript: in.pkScript}
		}
		for k := range prev.Outputs {
			if prev.Outputs[k] == nil {
				prev.Outputs[k] = &bitcoin.TransactionOutput{Value: c27GenValue(t, "decoyValue"), PublicKeyScript: c27GenOutputScript(t)}
			}
		}
		hash := prev.Hash()
		sc.chain.txs[hash] = prev
		for k, m := range members {
			in := sc.inputs[m]
			in.funding = g
			in.utxo = &bitcoin.UnspentTransactionOutput{
				Outpoint: &bitcoin.TransactionOutpoint{TransactionHash: hash, OutputIndex: uint32(slots[k])},
				Value:    in.value,
			}
		}
	}

	nOut := rapid.IntRange(1, 4).Draw(t, "outputs")
	for i := 0; i < nOut; i++ {
		sc.outputs = append(sc.outputs, &bitcoin.TransactionOutput{
			Value:           c27GenValue(t, "outputValue"),
			PublicKeyScript: c27GenOutputScript(t),
		})
	}
	return sc
}

func (sc *c27Scenario) render() string {
	var parts []string
	for _, in := range sc.inputs {
		s := fmt.Sprintf("%s:%d@f%d.%d", in.kind, in.utxo.Value, in.funding, in.utxo.Outpoint.OutputIndex)
		if len(in.redeemScript) > 0 {
			s += fmt.Sprintf("/rs%d", len(in.redeemScript))
		}
		parts = append(parts, s)
	}
	var outs []string
	for _, o := range sc.outputs {
		outs = append(outs, fmt.Sprintf("%d/s%d", o.Value, len(o.PublicKeyScript)))
	}
	return fmt.Sprintf("key=%x in[%s] out[%s] ops=%s", sc.priv.PubKey().SerializeCompressed()[:5], strings.Join(parts, " "), strings.Join(outs, " "), sc.ops)
}

// build drives one builder through a drawn sequence of operations - inputs
// and outputs are added in their final order but interleaved, and
// ComputeSignatureHashes is called at drawn points, possibly several times
// (preview, fee adjustment, change output added afterwards) - and returns the
// builder with the signature hashes of the LAST ComputeSignatureHashes, which
// is always the last operation.
func (sc *c27Scenario) build(t *rapid.T) (*bitcoin.TransactionBuilder, []*big.Int) {
	builder := bitcoin.NewTransactionBuilder(sc.chain)
	nextIn, nextOut := 0, 0
	var ops []byte
	addInput := func() {
		in := sc.inputs[nextIn]
		var err error
		if in.redeemScript == nil {
			err = builder.AddPublicKeyHashInput(in.utxo)
		} else {
			err = builder.AddScriptHashInput(in.utxo, in.redeemScript)
		}
		if err != nil {
			t.Fatalf("adding %s input %d failed: %v", in.kind, nextIn, err)
		}
		nextIn++
		ops = append(ops, 'i')
	}
	addOutput := func() {
		builder.AddOutput(sc.outputs[nextOut])
		nextOut++
		ops = append(ops, 'o')
	}
	var sigHashes []*big.Int
	compute := func() {
		var err error
		sigHashes, err = builder.ComputeSignatureHashes()
		if err != nil {
			t.Fatalf("ComputeSignatureHashes after %q: %v", ops, err)
		}
		if len(sigHashes) != nextIn {
			t.Fatalf("%d signature hashes for %d inputs (after %q)", len(sigHashes), nextIn, ops)
		}
		ops = append(ops, 'C')
	}
	switch rapid.SampledFrom([]string{"recompute-after-output", "classic", "recompute-after-input", "free", "recompute-after-output"}).Draw(t, "schedule") {
	case "classic":
		// all inputs, all outputs, one computation
	case "recompute-after-output":
		// all inputs, some outputs, compute, the remaining outputs (>= 1)
		for nextIn < len(sc.inputs) {
			addInput()
		}
		before := rapid.IntRange(0, len(sc.outputs)-1).Draw(t, "outputsBeforeCompute")
		for nextOut < before {
			addOutput()
		}
		compute()
	case "recompute-after-input":
		// some inputs (>= 1) and possibly outputs, compute, the remaining inputs
		first := rapid.IntRange(1, len(sc.inputs)).Draw(t, "inputsBeforeCompute")
		for nextIn < first {
			addInput()
		}
		before := rapid.IntRange(0, len(sc.outputs)).Draw(t, "outputsBeforeCompute")
		for nextOut < before {
			addOutput()
		}
		compute()
	default:
		// any interleaving with up to three intermediate computations
		computes := 0
		for nextIn < len(sc.inputs) || nextOut < len(sc.outputs) {
			var choices []string
			if nextIn < len(sc.inputs) {
				choices = append(choices, "input", "input")
			}
			if nextOut < len(sc.outputs) {
				choices = append(choices, "output", "output")
			}
			if computes < 3 && len(ops) > 0 && ops[len(ops)-1] != 'C' {
				choices = append(choices, "compute")
			}
			switch rapid.SampledFrom(choices).Draw(t, "op") {
			case "input":
				addInput()
			case "output":
				addOutput()
			default:
				compute()
				computes++
			}
		}
	}
	for nextIn < len(sc.inputs) {
		addInput()
	}
	for nextOut < len(sc.outputs) {
		addOutput()
	}
	compute()
	sc.ops = string(ops)
	return builder, sigHashes
}

// c27Sign signs one signature hash as the wallet's threshold signer does: the
// hash is the message (a number), the result is a canonical low-S signature.
func c27Sign(t *rapid.T, priv *btcec.PrivateKey, sigHash *big.Int) (*big.Int, *big.Int) {
	if sigHash.BitLen() > 256 {
		t.Fatalf("signature hash of %d bits", sigHash.BitLen())
	}
	sig, err := priv.Sign(sigHash.FillBytes(make([]byte, 32)))
	if err != nil {
		t.Fatalf("signing failed: %v", err)
	}
	return sig.R, sig.S
}

func c27Containers(t *rapid.T, sc *c27Scenario, sigHashes []*big.Int) []*bitcoin.SignatureContainer {
	pub := (*ecdsa.PublicKey)(sc.priv.PubKey())
	out := make([]*bitcoin.SignatureContainer, len(sigHashes))
	for i, h := range sigHashes {
		r, s := c27Sign(t, sc.priv, h)
		out[i] = &bitcoin.SignatureContainer{R: r, S: s, PublicKey: pub}
	}
	return out
}

func c27Labels(sc *c27Scenario, sigHashes []*big.Int) (mixed bool, labels []string) {
	w, l := 0, 0
	seen := map[string]bool{}
	for _, in := range sc.inputs {
		if in.witness() {
			w++
		} else {
			l++
		}
		if !seen[in.kind] {
			seen[in.kind] = true
			labels = append(labels, "has:"+in.kind)
		}
	}
	mixed = w > 0 && l > 0
	// inputs spending different outputs of one funding transaction
	shared, sharedOtherKind, sharedOtherClass := false, false, false
	for i, a := range sc.inputs {
		for _, b := range sc.inputs[i+1:] {
			if a.funding == b.funding {
				shared = true
				if a.kind != b.kind {
					sharedOtherKind = true
				}
				if a.witness() != b.witness() {
					sharedOtherClass = true
				}
			}
		}
	}
	switch {
	case sharedOtherClass:
		labels = append(labels, "funding:shared-witness-and-legacy-outputs")
	case sharedOtherKind:
		labels = append(labels, "funding:shared-different-kinds")
	case shared:
		labels = append(labels, "funding:shared-same-kind")
	default:
		labels = append(labels, "funding:separate")
	}
	// shape of the builder operation sequence
	first := strings.IndexByte(sc.ops, 'C')
	switch {
	case first == len(sc.ops)-1:
		labels = append(labels, "ops:single-compute")
	default:
		rest := sc.ops[first+1:]
		if strings.Contains(rest, "o") {
			if w > 0 {
				labels = append(labels, "ops:output-after-compute/witness-input")
			} else {
				labels = append(labels, "ops:output-after-compute/legacy-only")
			}
		}
		if strings.Contains(rest, "i") {
			labels = append(labels, "ops:input-after-compute")
		}
		if strings.Count(sc.ops, "C") > 2 {
			labels = append(labels, "ops:three-or-more-computes")
		}
	}
	labels = append(labels, fmt.Sprintf("mixed-witness-legacy:%v", mixed), fmt.Sprintf("inputs:%d", len(sc.inputs)))
	for _, h := range sigHashes {
		if h.BitLen() <= 248 {
			labels = append(labels, "sighash:leading-zero-byte")
			break
		}
	}
	return
}

// c27Validate parses the signed transaction as the network would and executes
// every input with btcd's script engine under the standard flags against the
// locking script and amount the harness recorded. It returns the first input
// the interpreter rejects (structural mismatches are fatal at once).
func c27Validate(t *rapid.T, sc *c27Scenario, tx *bitcoin.Transaction) (int, []byte, error) {
	raw := tx.Serialize()
	var msg wire.MsgTx
	if err := msg.Deserialize(bytes.NewReader(raw)); err != nil {
		t.Fatalf("the signed transaction does not parse: %v", err)
	}
	if len(msg.TxIn) != len(sc.inputs) || len(msg.TxOut) != len(sc.outputs) {
		t.Fatalf("signed transaction has %d inputs / %d outputs, built with %d / %d", len(msg.TxIn), len(msg.TxOut), len(sc.inputs), len(sc.outputs))
	}
	for i, o := range sc.outputs {
		if msg.TxOut[i].Value != o.Value || !bytes.Equal(msg.TxOut[i].PkScript, o.PublicKeyScript) {
			t.Fatalf("output %d of the signed transaction differs from the output added to the builder", i)
		}
	}
	hashCache := txscript.NewTxSigHashes(&msg)
	for i, in := range sc.inputs {
		op := msg.TxIn[i].PreviousOutPoint
		if bitcoin.Hash(op.Hash) != in.utxo.Outpoint.TransactionHash || op.Index != in.utxo.Outpoint.OutputIndex {
			t.Fatalf("input %d spends %v, the builder was given %x:%d", i, op, in.utxo.Outpoint.TransactionHash, in.utxo.Outpoint.OutputIndex)
		}
		engine, err := txscript.NewEngine(in.pkScript, &msg, i, txscript.StandardVerifyFlags, nil, hashCache, in.utxo.Value)
		if err != nil {
			return i, raw, fmt.Errorf("script engine refused the input: %v", err)
		}
		if err := engine.Execute(); err != nil {
			return i, raw, err
		}
	}
	return -1, raw, nil
}

// ---------------------------------------------------------------------------
// Clause 1: the signed transaction passes the script interpreter.

func TestVerif_C27_SignedTransactionValidates(t *testing.T) {
	st := verifkit.New("C27", "TestVerif_C27_SignedTransactionValidates")
	defer st.Flush()
	rapid.Check(t, func(t *rapid.T) {
		sc := c27GenScenario(t)
		builder, sigHashes := sc.build(t)
		tx, err := builder.AddSignatures(c27Containers(t, sc, sigHashes))
		if err != nil {
			t.Fatalf("AddSignatures rejected signatures made with the wallet key over the builder's own signature hashes: %v\n %s", err, sc.render())
		}
		if tx == nil {
			t.Fatalf("AddSignatures returned neither a transaction nor an error")
		}

		if i, raw, verr := c27Validate(t, sc, tx); verr != nil {
			t.Fatalf("input %d (%s) is rejected by the script interpreter under the standard flags: %v\n %s\n sighash %x\n tx %x",
				i, sc.inputs[i].kind, verr, sc.render(), sigHashes[i], raw)
		}
		mixed, labels := c27Labels(sc, sigHashes)
		st.Case(mixed, sc.render(), labels...)
	})
}

// c27Corrupt replaces one signature of the set (two for "swapped") by one that
// does not match its input's signature hash. It returns the kind of damage,
// the drawn victim and the lowest input index that carries a bad signature.
func c27Corrupt(t *rapid.T, sc *c27Scenario, sigHashes []*big.Int, containers []*bitcoin.SignatureContainer) (string, int, int) {
	n := len(containers)
	victim := rapid.IntRange(0, n-1).Draw(t, "victim")
	kinds := []string{"other-message", "flip-r", "flip-s", "other-key", "zero", "replayed-from-other-tx"}
	if n >= 2 {
		kinds = append(kinds, "other-input-sighash", "swapped", "other-input-sighash", "swapped")
	}
	kind := rapid.SampledFrom(kinds).Draw(t, "corruption")
	curveN := btcec.S256().N
	switch kind {
	case "other-message":
		// signature over a hash that differs from the input's sighash
		delta := rapid.SampledFrom([]int64{1, -1, 256}).Draw(t, "delta")
		m := new(big.Int).Add(sigHashes[victim], big.NewInt(delta))
		if m.Sign() < 0 || m.BitLen() > 256 {
			m = new(big.Int).Sub(sigHashes[victim], big.NewInt(delta))
		}
		containers[victim].R, containers[victim].S = c27Sign(t, sc.priv, m)
	case "flip-r", "flip-s":
		bit := rapid.IntRange(0, 255).Draw(t, "bit")
		target := containers[victim].R
		if kind == "flip-s" {
			target = containers[victim].S
		}
		flipped := new(big.Int).Set(target)
		flipped.SetBit(flipped, bit, flipped.Bit(bit)^1)
		if kind == "flip-s" {
			// N-S is the same signature in its other (high-S) form, not a mismatch
			if new(big.Int).Add(flipped, containers[victim].S).Cmp(curveN) == 0 {
				flipped.Add(flipped, big.NewInt(2))
			}
			containers[victim].S = flipped
		} else {
			containers[victim].R = flipped
		}
	case "other-key":
		// made with another key, presented under the wallet's public key
		other := c27GenKey(t, "otherKey")
		if other.D.Cmp(sc.priv.D) == 0 {
			other.D.Add(other.D, big.NewInt(1))
		}
		containers[victim].R, containers[victim].S = c27Sign(t, other, sigHashes[victim])
	case "zero":
		if rapid.Bool().Draw(t, "zeroR") {
			containers[victim].R = big.NewInt(0)
		} else {
			containers[victim].S = big.NewInt(0)
		}
	case "replayed-from-other-tx":
		// a valid wallet signature for the same inputs but another output set
		other := &c27Scenario{priv: sc.priv, inputs: sc.inputs, chain: sc.chain}
		for _, o := range sc.outputs {
			other.outputs = append(other.outputs, &bitcoin.TransactionOutput{Value: o.Value + 1, PublicKeyScript: o.PublicKeyScript})
		}
		_, otherHashes := other.build(t)
		if otherHashes[victim].Cmp(sigHashes[victim]) == 0 {
			t.Fatalf("harness: changing an output value did not change the signature hash of input %d", victim)
		}
		containers[victim].R, containers[victim].S = c27Sign(t, sc.priv, otherHashes[victim])
	case "other-input-sighash":
		j := (victim + rapid.IntRange(1, n-1).Draw(t, "other")) % n
		containers[victim].R, containers[victim].S = c27Sign(t, sc.priv, sigHashes[j])
	case "swapped":
		j := (victim + rapid.IntRange(1, n-1).Draw(t, "other")) % n
		containers[victim], containers[j] = containers[j], containers[victim]
	}
	firstBad := victim
	if kind == "swapped" {
		for i := range containers {
			r, s := c27Sign(t, sc.priv, sigHashes[i])
			if containers[i].R.Cmp(r) != 0 || containers[i].S.Cmp(s) != 0 {
				firstBad = i
				break
			}
		}
	}
	return kind, victim, firstBad
}

// ---------------------------------------------------------------------------
// Clause 2: a signature that does not match its input's signature hash is
// rejected and no transaction is produced.

func TestVerif_C27_MismatchedSignatureRejected(t *testing.T) {
	st := verifkit.New("C27", "TestVerif_C27_MismatchedSignatureRejected")
	defer st.Flush()
	rapid.Check(t, func(t *rapid.T) {
		sc := c27GenScenario(t)
		builder, sigHashes := sc.build(t)
		containers := c27Containers(t, sc, sigHashes)
		n := len(containers)
		kind, victim, _ := c27Corrupt(t, sc, sigHashes, containers)

		tx, err := builder.AddSignatures(containers)
		if err == nil || tx != nil {
			t.Fatalf("AddSignatures accepted a %s signature on input %d of %d (error %v, transaction %v)\n %s", kind, victim, n, err, tx != nil, sc.render())
		}
		mixed, labels := c27Labels(sc, sigHashes)
		pos := "victim:middle"
		switch {
		case n == 1:
			pos = "victim:only"
		case victim == 0:
			pos = "victim:first"
		case victim == n-1:
			pos = "victim:last"
		}
		labels = append(labels, "corruption:"+kind, pos, "victim-kind:"+sc.inputs[victim].kind)
		st.Case(mixed, fmt.Sprintf("%s corrupt=%s@%d", sc.render(), kind, victim), labels...)
	})
}

// ---------------------------------------------------------------------------
// Both clauses on one builder: the mismatching signature is rejected "before
// any transaction is produced", i.e. the rejected call has produced nothing -
// applying the matching signatures to the same builder afterwards must still
// yield a transaction every input of which passes the script interpreter.

// c27PartialApplyKey is the finding key of the defect found with this test on
// the unrepaired tree: AddSignatures verifies and applies input by input, so a
// call rejected at input k has already rewritten the inputs 0..k-1.
const c27PartialApplyKey = "C27-addsignatures-partial-apply"

func TestVerif_C27_RejectedCallLeavesBuilderUsable(t *testing.T) {
	st := verifkit.New("C27", "TestVerif_C27_RejectedCallLeavesBuilderUsable")
	defer st.Flush()
	known := verifkit.Known(c27PartialApplyKey)
	rapid.Check(t, func(t *rapid.T) {
		sc := c27GenScenario(t)
		builder, sigHashes := sc.build(t)

		// 1..2 rejected calls, each with its own damaged signature set
		rejected := rapid.SampledFrom([]int{1, 1, 2}).Draw(t, "rejectedCalls")
		var history []string
		lowestBad := len(sc.inputs)
		for r := 0; r < rejected; r++ {
			bad := c27Containers(t, sc, sigHashes)
			kind, victim, firstBad := c27Corrupt(t, sc, sigHashes, bad)
			tx, err := builder.AddSignatures(bad)
			if err == nil || tx != nil {
				t.Fatalf("AddSignatures accepted a %s signature on input %d of %d (error %v, transaction %v)\n %s", kind, victim, len(bad), err, tx != nil, sc.render())
			}
			history = append(history, fmt.Sprintf("%s@%d", kind, firstBad))
			// inputs in front of the first bad signature were looked at (and
			// possibly touched) by the rejected call
			// (every rejected call walks from input 0 again: the farthest one counts)
			if r == 0 || firstBad > lowestBad {
				lowestBad = firstBad
			}
		}
		// kinds of the inputs a rejected call passed before it hit the bad signature
		var passed []string
		passedOtherThanP2WPKH := false
		for _, in := range sc.inputs[:lowestBad] {
			passed = append(passed, in.kind)
			if in.kind != "P2WPKH" {
				passedOtherThanP2WPKH = true
			}
		}
		mixed, labels := c27Labels(sc, sigHashes)
		labels = append(labels, fmt.Sprintf("rejected-calls:%d", rejected), fmt.Sprintf("inputs-passed-before-rejection:%d", min(lowestBad, 3)))
		desc := fmt.Sprintf("%s rejected=%v", sc.render(), history)
		if known && passedOtherThanP2WPKH {
			// open known finding: the retry is only exercised where the
			// rejected call has passed nothing but P2WPKH inputs
			st.Excluded(c27PartialApplyKey)
			st.Case(false, desc, append(labels, "retry:excluded-known-finding")...)
			return
		}

		tx, err := builder.AddSignatures(c27Containers(t, sc, sigHashes))
		if err != nil || tx == nil {
			t.Fatalf("after %d rejected call(s) %v the builder refuses the matching signatures: %v\n %s", rejected, history, err, sc.render())
		}
		if i, raw, verr := c27Validate(t, sc, tx); verr != nil {
			key := ""
			if i < lowestBad && sc.inputs[i].kind != "P2WPKH" {
				key = " [finding-key=" + c27PartialApplyKey + "]"
			}
			t.Fatalf("after %d rejected call(s) %v the matching signatures give a transaction whose input %d (%s) is rejected by the script interpreter: %v%s\n inputs passed by a rejected call before its bad signature: %v\n %s\n tx %x",
				rejected, history, i, sc.inputs[i].kind, verr, key, passed, sc.render(), raw)
		}
		labels = append(labels, "retry:validated")
		st.Case(lowestBad > 0, desc, labels...)
		_ = mixed
	})
}
