//go:build go1.23

package tbtc

import (
	"encoding/hex"
	"fmt"
	"math/big"
	"runtime"
	"strings"
	"sync"
	"sync/atomic"
	"testing"

	"github.com/keep-network/keep-core/internal/verifkit"
	"pgregory.net/rapid"
)

// ---------------------------------------------------------------------------
// C37 - each distinct chain event is handled exactly once (tbtc deduplicator)
//
// The model of an event is its VALUE: a DKG-started event is its seed, a
// result-submitted event is the triple (seed, result hash, block), a
// wallet-closed event is the wallet ID. Two events are the same iff their
// values are equal. The model never builds a string key.
// ---------------------------------------------------------------------------

const (
	c37KeyRace = "D8-check-then-add"
	c37KeyCat  = "D8-key-concatenation"
)

type c37Result struct {
	seed  *big.Int
	hash  DKGChainResultHash
	block uint64
}

func (r c37Result) same(o c37Result) bool {
	return r.seed.Cmp(o.seed) == 0 && r.hash == o.hash && r.block == o.block
}

func (r c37Result) String() string {
	return fmt.Sprintf("(seed=0x%s hash=%s block=%d)", r.seed.Text(16), hex.EncodeToString(r.hash[:]), r.block)
}

const c37HexDigits = "0123456789abcdef"

// one hex character, biased to decimal-looking characters: these are the ones
// a decimal block number can trade with a hex field.
var c37HexChar = rapid.Custom(func(t *rapid.T) byte {
	if rapid.IntRange(0, 2).Draw(t, "cls") == 0 {
		return c37HexDigits[rapid.IntRange(0, 15).Draw(t, "c")]
	}
	return c37HexDigits[rapid.IntRange(0, 9).Draw(t, "c")]
})

// hex string of exactly n characters (optionally without a leading '0').
func c37GenHex(t *rapid.T, n int, label string, firstNonZero bool) string {
	b := rapid.SliceOfN(c37HexChar, n, n).Draw(t, label)
	if firstNonZero && b[0] == '0' {
		b[0] = c37HexDigits[rapid.IntRange(1, 15).Draw(t, label+"first")]
	}
	return string(b)
}

func c37SeedFromHex(s string) *big.Int {
	v, ok := new(big.Int).SetString(s, 16)
	if !ok {
		panic("bad hex " + s)
	}
	return v
}

func c37HashFromHex(s string) DKGChainResultHash {
	var h DKGChainResultHash
	b, err := hex.DecodeString(s)
	if err != nil || len(b) != 32 {
		panic("bad hash hex " + s)
	}
	copy(h[:], b)
	return h
}

// seeds as the chain produces them: non-negative, up to 256 bits; small
// values and values sharing a prefix are frequent.
func c37GenSeed(t *rapid.T, label string) *big.Int {
	switch rapid.IntRange(0, 3).Draw(t, label+"kind") {
	case 0:
		return big.NewInt(int64(rapid.IntRange(0, 300).Draw(t, label+"small")))
	case 1:
		return c37SeedFromHex(c37GenHex(t, 64, label+"full", true))
	default:
		return c37SeedFromHex(c37GenHex(t, rapid.IntRange(1, 63).Draw(t, label+"len"), label+"hex", true))
	}
}

// c37NearSeed returns a value DIFFERENT from s that agrees with it in most
// of its digits: one high bit (64..255) or one low bit (0..63) flipped, a
// multiple of 2^64 / 2^128 added (same low words), only the low 64 bits kept,
// shifted by one hex digit (leading-zero look-alike), or +-1.
func c37NearSeed(t *rapid.T, s *big.Int, label string) *big.Int {
	one := big.NewInt(1)
	r := new(big.Int).Set(s)
	switch rapid.SampledFrom([]string{"high-bit", "high-bit", "low-bit", "add-2^64k", "add-2^128", "low-64-only", "times-16", "plus-1", "minus-1"}).Draw(t, label+"Near") {
	case "high-bit":
		r.SetBit(r, rapid.IntRange(64, 255).Draw(t, label+"HighBit"), r.Bit(255)^1)
		if r.Cmp(s) == 0 {
			r.Xor(r, new(big.Int).Lsh(one, uint(rapid.IntRange(64, 255).Draw(t, label+"HighBit2"))))
		}
	case "low-bit":
		r.Xor(r, new(big.Int).Lsh(one, uint(rapid.IntRange(0, 63).Draw(t, label+"LowBit"))))
	case "add-2^64k":
		k := big.NewInt(int64(rapid.IntRange(1, 1000).Draw(t, label+"K")))
		r.Add(r, k.Lsh(k, 64))
	case "add-2^128":
		r.Add(r, new(big.Int).Lsh(one, 128))
	case "low-64-only":
		r.SetUint64(r.Uint64())
	case "times-16":
		r.Lsh(r, 4)
	case "plus-1":
		r.Add(r, one)
	case "minus-1":
		r.Sub(r, one)
	}
	// stay in the domain (0 <= seed < 2^256) and different from s
	if r.Sign() < 0 || r.BitLen() > 256 || r.Cmp(s) == 0 {
		r.Xor(s, new(big.Int).Lsh(one, uint(rapid.IntRange(64, 255).Draw(t, label+"Fallback"))))
	}
	return r
}

// near twins of the other key components: one bit flipped anywhere
func c37NearBytes(t *rapid.T, b [32]byte, label string) [32]byte {
	pos := rapid.SampledFrom([]int{0, 1, 7, 8, 15, 16, 23, 24, 30, 31}).Draw(t, label+"Byte")
	if rapid.Bool().Draw(t, label+"AnyByte") {
		pos = rapid.IntRange(0, 31).Draw(t, label+"BytePos")
	}
	b[pos] ^= 1 << rapid.IntRange(0, 7).Draw(t, label+"Bit")
	return b
}

func c37NearBlock(t *rapid.T, b uint64, label string) uint64 {
	switch rapid.SampledFrom([]string{"plus-1", "minus-1", "high-bit", "low-bit", "times-10", "low-32-only"}).Draw(t, label+"Near") {
	case "plus-1":
		return b + 1
	case "minus-1":
		if b > 0 {
			return b - 1
		}
		return b + 1
	case "high-bit":
		return b ^ (1 << rapid.IntRange(32, 61).Draw(t, label+"HighBit"))
	case "low-bit":
		return b ^ (1 << rapid.IntRange(0, 31).Draw(t, label+"LowBit"))
	case "times-10":
		if b > 0 && b < 1<<58 {
			return b * 10
		}
		return b + 10
	default:
		if b>>32 != 0 {
			return b & 0xffffffff
		}
		return b | 1<<32
	}
}

func c37GenHash(t *rapid.T, label string) DKGChainResultHash {
	return c37HashFromHex(c37GenHex(t, 64, label, false))
}

func c37GenBlock(t *rapid.T, label string) uint64 {
	switch rapid.IntRange(0, 2).Draw(t, label+"kind") {
	case 0:
		return uint64(rapid.IntRange(0, 1000).Draw(t, label+"small"))
	case 1:
		return rapid.Uint64Range(10_000_000, 30_000_000).Draw(t, label+"mainnet")
	default:
		return rapid.Uint64Range(0, 1<<62).Draw(t, label+"any")
	}
}

func c37GenWallet(t *rapid.T, label string) [32]byte {
	var w [32]byte
	if rapid.Bool().Draw(t, label+"sparse") {
		w[rapid.IntRange(0, 31).Draw(t, label+"pos")] = byte(rapid.IntRange(0, 255).Draw(t, label+"val"))
		return w
	}
	copy(w[:], rapid.SliceOfN(rapid.Byte(), 32, 32).Draw(t, label))
	return w
}

// ------------------------------------------------------------------ (a) ----

// TestVerif_C37_Sequential: histories of notify calls over small pools of
// events (so repeats are frequent), all three event kinds interleaved on one
// deduplicator. Model: a delivery is handled iff the same event value was not
// delivered before. Pools contain near values (same seed different block,
// seed used both as DKG-started seed and as result seed, ...).
func TestVerif_C37_Sequential(t *testing.T) {
	st := verifkit.New("C37", "TestVerif_C37_Sequential")
	defer st.Flush()
	rapid.Check(t, func(t *rapid.T) {
		nSeeds := rapid.IntRange(1, 4).Draw(t, "nSeeds")
		seeds := make([]*big.Int, nSeeds)
		for i := range seeds {
			seeds[i] = c37GenSeed(t, "seed")
		}
		nHashes := rapid.IntRange(1, 3).Draw(t, "nHashes")
		hashes := make([]DKGChainResultHash, nHashes)
		for i := range hashes {
			hashes[i] = c37GenHash(t, "hash")
		}
		nBlocks := rapid.IntRange(1, 3).Draw(t, "nBlocks")
		blocks := make([]uint64, nBlocks)
		for i := range blocks {
			blocks[i] = c37GenBlock(t, "block")
		}
		nWallets := rapid.IntRange(1, 3).Draw(t, "nWallets")
		wallets := make([][32]byte, nWallets)
		for i := range wallets {
			wallets[i] = c37GenWallet(t, "wallet")
		}

		// near twins: pool entries that differ from another entry only in high
		// bits, low bits, by a leading digit, ... - different events all the same
		nearTwins := rapid.Bool().Draw(t, "nearTwins")
		if nearTwins {
			if nSeeds > 1 {
				seeds[nSeeds-1] = c37NearSeed(t, seeds[0], "seedTwin")
			}
			if nHashes > 1 {
				hashes[nHashes-1] = DKGChainResultHash(c37NearBytes(t, [32]byte(hashes[0]), "hashTwin"))
			}
			if nBlocks > 1 {
				blocks[nBlocks-1] = c37NearBlock(t, blocks[0], "blockTwin")
			}
			if nWallets > 1 {
				wallets[nWallets-1] = c37NearBytes(t, wallets[0], "walletTwin")
			}
		}
		// cross-kind twins: a wallet ID whose hex text equals the hex text of a
		// DKG seed (a 64-digit seed). They are different events of different
		// kinds and must never shadow one another.
		twin := rapid.Bool().Draw(t, "crossKindTwin")
		if twin {
			x := c37GenHex(t, 64, "twinHex", true)
			si := rapid.IntRange(0, nSeeds-1).Draw(t, "twinSeedSlot")
			wi := rapid.IntRange(0, nWallets-1).Draw(t, "twinWalletSlot")
			seeds[si] = c37SeedFromHex(x)
			wallets[wi] = [32]byte(c37HashFromHex(x))
		}

		d := newDeduplicator()
		var seenSeeds []*big.Int
		var seenResults []c37Result
		var seenWallets [][32]byte
		steps := rapid.IntRange(4, 40).Draw(t, "steps")
		var hist []string
		repeats, kinds := 0, map[int]bool{}
		for i := 0; i < steps; i++ {
			kind := rapid.IntRange(0, 2).Draw(t, "kind")
			kinds[kind] = true
			switch kind {
			case 0:
				s := seeds[rapid.IntRange(0, nSeeds-1).Draw(t, "si")]
				dup := false
				for _, o := range seenSeeds {
					if o.Cmp(s) == 0 {
						dup = true
					}
				}
				got := d.notifyDKGStarted(new(big.Int).Set(s))
				if got == dup {
					t.Fatalf("step %d: notifyDKGStarted(0x%s) = %v, the seed was delivered before: %v; history: %v", i, s.Text(16), got, dup, hist)
				}
				seenSeeds = append(seenSeeds, s)
				hist = append(hist, fmt.Sprintf("started(0x%s)=%v", s.Text(16), got))
				if dup {
					repeats++
				}
			case 1:
				r := c37Result{
					seed:  seeds[rapid.IntRange(0, nSeeds-1).Draw(t, "rsi")],
					hash:  hashes[rapid.IntRange(0, nHashes-1).Draw(t, "rhi")],
					block: blocks[rapid.IntRange(0, nBlocks-1).Draw(t, "rbi")],
				}
				dup := false
				for _, o := range seenResults {
					if o.same(r) {
						dup = true
					}
				}
				got := d.notifyDKGResultSubmitted(new(big.Int).Set(r.seed), r.hash, r.block)
				if got == dup {
					t.Fatalf("step %d: notifyDKGResultSubmitted%v = %v, the same triple was delivered before: %v; history: %v", i, r, got, dup, hist)
				}
				seenResults = append(seenResults, r)
				hist = append(hist, fmt.Sprintf("result%v=%v", r, got))
				if dup {
					repeats++
				}
			case 2:
				w := wallets[rapid.IntRange(0, nWallets-1).Draw(t, "wi")]
				dup := false
				for _, o := range seenWallets {
					if o == w {
						dup = true
					}
				}
				got := d.notifyWalletClosed(w)
				if got == dup {
					t.Fatalf("step %d: notifyWalletClosed(%x) = %v, the wallet was delivered before: %v; history: %v", i, w, got, dup, hist)
				}
				seenWallets = append(seenWallets, w)
				hist = append(hist, fmt.Sprintf("closed(%x)=%v", w, got))
				if dup {
					repeats++
				}
			}
		}
		nt := repeats > 0 && len(kinds) >= 2
		st.Case(nt, strings.Join(hist, " "), fmt.Sprintf("kinds:%d", len(kinds)), fmt.Sprintf("repeats:%s", c37Bucket(repeats)), fmt.Sprintf("cross-kind-twin:%v", twin), fmt.Sprintf("near-twins:%v", nearTwins))
	})
}

func c37Bucket(n int) string {
	switch {
	case n == 0:
		return "0"
	case n <= 3:
		return "1-3"
	case n <= 10:
		return "4-10"
	default:
		return ">10"
	}
}

// ------------------------------------------------------------------ (c) ----

// c37GenShifted builds two DIFFERENT triples whose hex seed, hex hash and
// decimal block can trade k characters: B = (seed||hash[:k], hash[k:]||dec[:k],
// dec[k:]). All fields stay in their domain (seed <= 256 bit without leading
// zero, hash exactly 32 bytes, block a decimal without leading zero).
func c37GenShifted(t *rapid.T) (a, b c37Result, k int) {
	decLen := rapid.IntRange(2, 18).Draw(t, "decLen")
	k = rapid.IntRange(1, decLen-1).Draw(t, "k")
	digits := rapid.SliceOfN(rapid.IntRange(0, 9), decLen, decLen).Draw(t, "digits")
	for _, i := range []int{0, k} {
		if digits[i] == 0 { // no leading zero in either block number
			digits[i] = rapid.IntRange(1, 9).Draw(t, "lead")
		}
	}
	var dec strings.Builder
	for _, dg := range digits {
		dec.WriteByte(byte('0' + dg))
	}
	d := dec.String()
	seedLen := rapid.IntRange(1, 64-k).Draw(t, "seedLen")
	seedHex := c37GenHex(t, seedLen, "seedhex", true)
	hashHex := c37GenHex(t, 64, "hashhex", false)

	var blockA, blockB uint64
	fmt.Sscanf(d, "%d", &blockA)
	fmt.Sscanf(d[k:], "%d", &blockB)
	a = c37Result{seed: c37SeedFromHex(seedHex), hash: c37HashFromHex(hashHex), block: blockA}
	b = c37Result{seed: c37SeedFromHex(seedHex + hashHex[:k]), hash: c37HashFromHex(hashHex[k:] + d[:k]), block: blockB}
	return a, b, k
}

// TestVerif_C37_DistinctResultEvents: two result-submitted events delivered
// one after the other on a fresh deduplicator. The second is handled iff it
// is a different event (different seed, hash or block). Classes: identical,
// one field differs, all differ, and the shifted family above, both orders.
func TestVerif_C37_DistinctResultEvents(t *testing.T) {
	st := verifkit.New("C37", "TestVerif_C37_DistinctResultEvents")
	defer st.Flush()
	excludeShift := verifkit.Known(c37KeyCat)
	rapid.Check(t, func(t *rapid.T) {
		var a, b c37Result
		class := rapid.SampledFrom([]string{"identical", "seed", "hash", "block", "all", "near-seed", "near-seed", "near-hash", "near-block", "shifted", "shifted", "shifted"}).Draw(t, "class")
		if class == "shifted" && excludeShift {
			st.Excluded(c37KeyCat)
			class = "all"
		}
		k := 0
		switch class {
		case "shifted":
			a, b, k = c37GenShifted(t)
		default:
			a = c37Result{seed: c37GenSeed(t, "seedA"), hash: c37GenHash(t, "hashA"), block: c37GenBlock(t, "blockA")}
			b = a
			if class == "seed" || class == "all" {
				b.seed = c37GenSeed(t, "seedB")
			}
			if class == "hash" || class == "all" {
				b.hash = c37GenHash(t, "hashB")
			}
			if class == "block" || class == "all" {
				b.block = c37GenBlock(t, "blockB")
			}
			switch class {
			case "near-seed":
				b.seed = c37NearSeed(t, a.seed, "seedB")
			case "near-hash":
				b.hash = DKGChainResultHash(c37NearBytes(t, [32]byte(a.hash), "hashB"))
			case "near-block":
				b.block = c37NearBlock(t, a.block, "blockB")
			}
		}
		if rapid.Bool().Draw(t, "swap") {
			a, b = b, a
		}
		different := !a.same(b)

		d := newDeduplicator()
		if !d.notifyDKGResultSubmitted(a.seed, a.hash, a.block) {
			t.Fatalf("first delivery of %v on a fresh deduplicator not handled", a)
		}
		got := d.notifyDKGResultSubmitted(b.seed, b.hash, b.block)
		if got != different {
			key := ""
			if different {
				key = " [finding-key=" + c37KeyCat + "]"
			}
			t.Fatalf("after %v the delivery of %v returned %v; the two events are different: %v (class %s, shift %d)%s",
				a, b, got, different, class, k, key)
		}
		if d.notifyDKGResultSubmitted(a.seed, a.hash, a.block) {
			t.Fatalf("third delivery: %v handled a second time", a)
		}
		if d.notifyDKGResultSubmitted(b.seed, b.hash, b.block) {
			t.Fatalf("fourth delivery: %v handled a second time", b)
		}
		if !different {
			class = "identical"
		}
		st.Case(class == "shifted", fmt.Sprintf("%s k=%d A=%v B=%v", class, k, a, b), "class:"+class, fmt.Sprintf("shift:%d", min(k, 8)))
	})
}

// ------------------------------------------------------------------ (b) ----

// c37Barrier releases k goroutines as simultaneously as possible: every
// goroutine announces itself and then spins on a flag.
type c37Barrier struct {
	ready atomic.Int32
	goFlg atomic.Bool
}

func (b *c37Barrier) wait() {
	b.ready.Add(1)
	for i := 0; !b.goFlg.Load(); i++ {
		if i%2000 == 1999 {
			runtime.Gosched()
		}
	}
}

func (b *c37Barrier) release(k int) {
	for int(b.ready.Load()) < k {
		runtime.Gosched()
	}
	b.goFlg.Store(true)
}

// c37Race delivers the same event from k goroutines at once and returns how
// many deliveries were reported as "handle it".
func c37Race(k int, deliver func() bool) int {
	var bar c37Barrier
	var wg sync.WaitGroup
	var handled atomic.Int32
	wg.Add(k)
	for g := 0; g < k; g++ {
		go func() {
			defer wg.Done()
			bar.wait()
			if deliver() {
				handled.Add(1)
			}
		}()
	}
	bar.release(k)
	wg.Wait()
	return int(handled.Load())
}

// TestVerif_C37_ConcurrentSameEvent: per case one deduplicator, one event
// kind, k = 2..16 parallel handlers and a number of rounds; every round uses
// a fresh event (derived from the drawn base value and the round number) that
// all k handlers deliver at the same time. Exactly one delivery per round may
// be handled. After the round the event is delivered once more sequentially
// and must be a duplicate.
func TestVerif_C37_ConcurrentSameEvent(t *testing.T) {
	st := verifkit.New("C37", "TestVerif_C37_ConcurrentSameEvent")
	defer st.Flush()
	if verifkit.Known(c37KeyRace) {
		st.Excluded(c37KeyRace)
		st.Note("concurrent deliveries excluded: open known finding %s", c37KeyRace)
		t.Skip("known finding " + c37KeyRace)
	}
	rapid.Check(t, func(t *rapid.T) {
		kind := rapid.SampledFrom([]string{"started", "result", "closed"}).Draw(t, "kind")
		k := rapid.IntRange(2, 16).Draw(t, "handlers")
		rounds := rapid.IntRange(10, 40).Draw(t, "rounds")
		base := c37Result{seed: c37GenSeed(t, "seed"), hash: c37GenHash(t, "hash"), block: c37GenBlock(t, "block")}
		wallet := c37GenWallet(t, "wallet")
		d := newDeduplicator()
		for r := 0; r < rounds; r++ {
			seed := new(big.Int).Add(base.seed, big.NewInt(int64(r)))
			block := base.block + uint64(r)
			w := wallet
			w[31] = byte(r)
			var deliver func() bool
			var what string
			switch kind {
			case "started":
				deliver = func() bool { return d.notifyDKGStarted(seed) }
				what = fmt.Sprintf("DKG started seed=0x%s", seed.Text(16))
			case "result":
				deliver = func() bool { return d.notifyDKGResultSubmitted(seed, base.hash, block) }
				what = fmt.Sprintf("result submitted %v", c37Result{seed, base.hash, block})
			default:
				deliver = func() bool { return d.notifyWalletClosed(w) }
				what = fmt.Sprintf("wallet closed %x", w)
			}
			handled := c37Race(k, deliver)
			if handled != 1 {
				t.Fatalf("round %d: %d parallel deliveries of the same event (%s): %d were handled, exactly 1 expected%s",
					r, k, what, handled, c37RaceKey(handled > 1))
			}
			if deliver() {
				t.Fatalf("round %d: sequential re-delivery of %s after the parallel round was handled again", r, what)
			}
		}
		st.Case(true, fmt.Sprintf("%s handlers=%d rounds=%d base=%v wallet=%x", kind, k, rounds, base, wallet[:4]),
			"kind:"+kind, fmt.Sprintf("handlers:%s", c37HandlersBucket(k)))
	})
}

// the known-finding key is attached only to the failure class of the known
// finding (an event handled more than once), never to a lost event.
func c37RaceKey(doubleHandling bool) string {
	if doubleHandling {
		return " [finding-key=" + c37KeyRace + "]"
	}
	return ""
}

func c37HandlersBucket(k int) string {
	switch {
	case k <= 3:
		return "2-3"
	case k <= 8:
		return "4-8"
	default:
		return "9-16"
	}
}

// TestVerif_C37_ConcurrentMixedEvents: two DIFFERENT events of the same kind
// are delivered at the same time, each by several handlers. Exactly one
// delivery of each must be handled (a duplicate of one must not swallow the
// other and vice versa).
func TestVerif_C37_ConcurrentMixedEvents(t *testing.T) {
	st := verifkit.New("C37", "TestVerif_C37_ConcurrentMixedEvents")
	defer st.Flush()
	if verifkit.Known(c37KeyRace) {
		st.Excluded(c37KeyRace)
		t.Skip("known finding " + c37KeyRace)
	}
	rapid.Check(t, func(t *rapid.T) {
		kind := rapid.SampledFrom([]string{"started", "result", "closed"}).Draw(t, "kind")
		ka := rapid.IntRange(1, 8).Draw(t, "handlersA")
		kb := rapid.IntRange(1, 8).Draw(t, "handlersB")
		rounds := rapid.IntRange(5, 20).Draw(t, "rounds")
		base := c37Result{seed: c37GenSeed(t, "seed"), hash: c37GenHash(t, "hash"), block: c37GenBlock(t, "block")}
		wallet := c37GenWallet(t, "wallet")
		d := newDeduplicator()
		for r := 0; r < rounds; r++ {
			seedA := new(big.Int).Add(base.seed, big.NewInt(int64(2*r)))
			seedB := new(big.Int).Add(base.seed, big.NewInt(int64(2*r+1)))
			wA, wB := wallet, wallet
			wA[31], wB[31] = byte(2*r), byte(2*r+1)
			var dA, dB func() bool
			switch kind {
			case "started":
				dA = func() bool { return d.notifyDKGStarted(seedA) }
				dB = func() bool { return d.notifyDKGStarted(seedB) }
			case "result":
				// same seed and hash, neighbouring blocks
				dA = func() bool { return d.notifyDKGResultSubmitted(base.seed, base.hash, base.block+uint64(2*r)) }
				dB = func() bool { return d.notifyDKGResultSubmitted(base.seed, base.hash, base.block+uint64(2*r+1)) }
			default:
				dA = func() bool { return d.notifyWalletClosed(wA) }
				dB = func() bool { return d.notifyWalletClosed(wB) }
			}
			var bar c37Barrier
			var wg sync.WaitGroup
			var hA, hB atomic.Int32
			wg.Add(ka + kb)
			for g := 0; g < ka+kb; g++ {
				isA := g < ka
				go func() {
					defer wg.Done()
					bar.wait()
					if isA {
						if dA() {
							hA.Add(1)
						}
					} else if dB() {
						hB.Add(1)
					}
				}()
			}
			bar.release(ka + kb)
			wg.Wait()
			if hA.Load() != 1 || hB.Load() != 1 {
				t.Fatalf("round %d kind %s: event A delivered by %d handlers was handled %d times, event B delivered by %d handlers was handled %d times; exactly once each expected%s",
					r, kind, ka, hA.Load(), kb, hB.Load(), c37RaceKey(hA.Load() >= 1 && hB.Load() >= 1))
			}
		}
		st.Case(ka > 1 || kb > 1, fmt.Sprintf("%s A=%d B=%d rounds=%d base=%v", kind, ka, kb, rounds, base), "kind:"+kind)
	})
}
