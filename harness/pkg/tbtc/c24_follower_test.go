//go:build go1.23

package tbtc

import (
	"context"
	"crypto/ecdsa"
	"encoding/hex"
	"fmt"
	"math/big"
	"sort"
	"strings"
	"sync"
	"sync/atomic"
	"testing"
	"time"

	golog "github.com/ipfs/go-log/v2"
	"github.com/keep-network/keep-core/internal/testutils"
	"github.com/keep-network/keep-core/internal/verifkit"
	"github.com/keep-network/keep-core/pkg/bitcoin"
	"github.com/keep-network/keep-core/pkg/chain"
	"github.com/keep-network/keep-core/pkg/chain/local_v1"
	"github.com/keep-network/keep-core/pkg/generator"
	"github.com/keep-network/keep-core/pkg/net"
	"github.com/keep-network/keep-core/pkg/operator"
	"github.com/keep-network/keep-core/pkg/protocol/group"
	"github.com/keep-network/keep-core/pkg/tecdsa"
	"pgregory.net/rapid"
)

// ---------------------------------------------------------------------------
// fake transport: the harness decides which messages reach the follower and
// in which order; delivery is synchronous (handler call), like the real
// channel it stops delivering once the receive context is done.

type c24Channel struct {
	mu       sync.Mutex
	handlers []c24Handler
}

type c24Handler struct {
	ctx context.Context
	fn  func(net.Message)
}

func (c *c24Channel) Name() string { return "c24" }
func (c *c24Channel) Send(context.Context, net.TaggedMarshaler, ...net.RetransmissionStrategy) error {
	return nil
}
func (c *c24Channel) Recv(ctx context.Context, handler func(m net.Message)) {
	c.mu.Lock()
	c.handlers = append(c.handlers, c24Handler{ctx, handler})
	c.mu.Unlock()
}
func (c *c24Channel) SetUnmarshaler(func() net.TaggedUnmarshaler) {}
func (c *c24Channel) SetFilter(net.BroadcastChannelFilter) error  { return nil }

func (c *c24Channel) registered() int {
	c.mu.Lock()
	defer c.mu.Unlock()
	return len(c.handlers)
}

func (c *c24Channel) deliver(m net.Message) {
	c.mu.Lock()
	hs := append([]c24Handler{}, c.handlers...)
	c.mu.Unlock()
	for _, h := range hs {
		if h.ctx.Err() == nil {
			h.fn(m)
		}
	}
}

type c24TransportID string

func (id c24TransportID) String() string { return string(id) }

// c24NetMessage is what the network layer hands to the handler. Payload() is
// the first thing the follower calls on a message it takes from its buffer, so
// the counter tells how many messages the follower has started to process.
type c24NetMessage struct {
	senderKey []byte
	payload   interface{}
	seqno     uint64
	consumed  *atomic.Int64
}

func (m *c24NetMessage) TransportSenderID() net.TransportIdentifier {
	return c24TransportID(hex.EncodeToString(m.senderKey[:4]))
}
func (m *c24NetMessage) SenderPublicKey() []byte { return m.senderKey }
func (m *c24NetMessage) Payload() interface{} {
	m.consumed.Add(1)
	return m.payload
}
func (m *c24NetMessage) Type() string  { return "tbtc/coordination_message" }
func (m *c24NetMessage) Seqno() uint64 { return m.seqno }

// ---------------------------------------------------------------------------
// operators

type c24Operator struct {
	name    string
	pubKey  []byte        // what the network layer reports as the sender's key
	address chain.Address // what the wallet registry holds
}

type c24World struct {
	chain *localChain
	pool  []*c24Operator
}

// deterministic operator keys (scalars 11..18), addresses derived the way the
// node derives them (Signing().PublicKeyToAddress of the operator key).
func c24NewWorld(t *testing.T) *c24World {
	_ = golog.SetLogLevel("*", "fatal")
	w := &c24World{chain: Connect()}
	for i := 0; i < 8; i++ {
		d := big.NewInt(int64(11 + i))
		x, y := local_v1.DefaultCurve.ScalarBaseMult(d.Bytes())
		pub := &operator.PublicKey{Curve: operator.Secp256k1, X: x, Y: y}
		addr, err := w.chain.Signing().PublicKeyToAddress(pub)
		if err != nil {
			t.Fatal(err)
		}
		w.pool = append(w.pool, &c24Operator{
			name:    string(rune('A' + i)),
			pubKey:  operator.MarshalUncompressed(pub),
			address: addr,
		})
	}
	return w
}

// ---------------------------------------------------------------------------
// generated scenario

type c24Msg struct {
	sender   *c24Operator
	senderID group.MemberIndex
	block    uint64
	pkh      [20]byte
	action   WalletActionType
	proposal CoordinationProposal
	foreign  bool // payload of another message type
	why      string
}

type c24Scenario struct {
	wallet        wallet
	pkh           [20]byte
	members       []*c24Operator // wallet operators (distinct)
	outsiders     []*c24Operator
	seatOwner     []*c24Operator // by seat (index+1 = member index)
	leader        *c24Operator
	follower      *c24Operator
	block         uint64
	allowed       []WalletActionType
	followerSeats []group.MemberIndex
}

func (s *c24Scenario) seatsOf(o *c24Operator) []group.MemberIndex {
	var out []group.MemberIndex
	for i, owner := range s.seatOwner {
		if owner == o {
			out = append(out, group.MemberIndex(i+1))
		}
	}
	return out
}

var c24AllActions = []WalletActionType{
	ActionNoop, ActionHeartbeat, ActionDepositSweep, ActionRedemption, ActionMovingFunds, ActionMovedFundsSweep,
}

func c24NewProposal(t *rapid.T, a WalletActionType) CoordinationProposal {
	switch a {
	case ActionNoop:
		return &NoopProposal{}
	case ActionHeartbeat:
		p := &HeartbeatProposal{}
		p.Message[15] = rapid.Byte().Draw(t, "hbMsg")
		return p
	case ActionDepositSweep:
		return &DepositSweepProposal{SweepTxFee: big.NewInt(int64(rapid.IntRange(1, 9999).Draw(t, "fee")))}
	case ActionRedemption:
		return &RedemptionProposal{RedemptionTxFee: big.NewInt(int64(rapid.IntRange(1, 9999).Draw(t, "fee")))}
	case ActionMovingFunds:
		return &MovingFundsProposal{MovingFundsTxFee: big.NewInt(int64(rapid.IntRange(1, 9999).Draw(t, "fee")))}
	default:
		return &MovedFundsSweepProposal{SweepTxFee: big.NewInt(int64(rapid.IntRange(1, 9999).Draw(t, "fee")))}
	}
}

func c24Has(list []WalletActionType, a WalletActionType) bool {
	for _, x := range list {
		if x == a {
			return true
		}
	}
	return false
}

// wallet with 2..5 operators holding 1..3 seats each in a drawn layout, a
// leader and a follower among them, 1..3 operators outside the wallet.
func c24GenScenario(t *rapid.T, w *c24World, pickLeader bool) *c24Scenario {
	s := &c24Scenario{}
	order := rapid.Permutation(w.pool).Draw(t, "operators")
	n := rapid.SampledFrom([]int{2, 3, 3, 4, 4, 5}).Draw(t, "walletOperators")
	s.members = order[:n]
	s.outsiders = order[n:]
	var seats []*c24Operator
	for _, o := range s.members {
		c := rapid.IntRange(1, 3).Draw(t, "seats")
		for k := 0; k < c; k++ {
			seats = append(seats, o)
		}
	}
	s.seatOwner = rapid.Permutation(seats).Draw(t, "layout")
	ops := make([]chain.Address, len(s.seatOwner))
	for i, o := range s.seatOwner {
		ops[i] = o.address
	}
	k := rapid.Uint64Range(1, 1<<40).Draw(t, "walletScalar")
	x, y := tecdsa.Curve.ScalarBaseMult(new(big.Int).SetUint64(k).Bytes())
	s.wallet = wallet{publicKey: &ecdsa.PublicKey{Curve: tecdsa.Curve, X: x, Y: y}, signingGroupOperators: ops}
	s.pkh = bitcoin.PublicKeyHash(s.wallet.publicKey)
	s.block = rapid.Uint64Range(1, 1<<32).Draw(t, "windowIndex") * 900
	if pickLeader {
		s.leader = s.members[0]
		s.follower = s.members[1]
		s.followerSeats = s.seatsOf(s.follower)
		s.allowed = append([]WalletActionType{}, rapid.SampledFrom([][]WalletActionType{
			{ActionRedemption, ActionNoop},
			{ActionRedemption, ActionNoop},
			{ActionRedemption, ActionHeartbeat, ActionNoop},
			{ActionRedemption, ActionDepositSweep, ActionMovedFundsSweep, ActionMovingFunds, ActionNoop},
			{ActionRedemption, ActionDepositSweep, ActionMovedFundsSweep, ActionMovingFunds, ActionHeartbeat, ActionNoop},
		}).Draw(t, "allowed")...)
	}
	return s
}

// one message, composed from independently drawn attributes so that every
// combination of (who sends, which index is claimed, window, wallet, action,
// type) can occur; weights keep most attributes "right" so that messages get
// deep into the follower's filters.
func c24GenMessage(t *rapid.T, s *c24Scenario) *c24Msg {
	m := &c24Msg{block: s.block, pkh: s.pkh}
	var others []*c24Operator // wallet operators that are neither leader nor follower
	for _, o := range s.members {
		if o != s.leader && o != s.follower {
			others = append(others, o)
		}
	}
	who := rapid.SampledFrom([]string{"leader", "leader", "leader", "other", "other", "other", "other", "other", "follower", "outsider"}).Draw(t, "sender")
	if who == "other" && len(others) == 0 {
		who = "outsider"
	}
	switch who {
	case "leader":
		m.sender = s.leader
	case "other":
		m.sender = rapid.SampledFrom(others).Draw(t, "otherOp")
	case "follower":
		m.sender = s.follower
	default:
		m.sender = rapid.SampledFrom(s.outsiders).Draw(t, "outsiderOp")
	}
	leaderSeats := s.seatsOf(s.leader)
	claims := []string{"own-lowest", "own-lowest", "own-lowest", "own-lowest", "own-any", "own-any", "own-any", "leader-lowest", "leader-lowest", "leader-other", "follower-seat", "any-seat", "out-of-range"}
	if m.sender == s.leader {
		claims = []string{"own-lowest", "own-lowest", "leader-other", "leader-other", "leader-other", "follower-seat", "any-seat", "out-of-range"}
	}
	claim := rapid.SampledFrom(claims).Draw(t, "claims")
	own := s.seatsOf(m.sender)
	switch {
	case claim == "own-lowest" && len(own) > 0:
		m.senderID = own[0]
	case claim == "own-any" && len(own) > 0:
		m.senderID = rapid.SampledFrom(own).Draw(t, "ownSeat")
	case claim == "leader-other" && len(leaderSeats) > 1:
		m.senderID = rapid.SampledFrom(leaderSeats[1:]).Draw(t, "leaderSeat")
	case claim == "follower-seat":
		m.senderID = rapid.SampledFrom(s.followerSeats).Draw(t, "followerSeat")
	case claim == "any-seat":
		m.senderID = group.MemberIndex(rapid.IntRange(1, len(s.seatOwner)).Draw(t, "seat"))
	case claim == "out-of-range":
		m.senderID = group.MemberIndex(rapid.IntRange(len(s.seatOwner)+1, 255).Draw(t, "farSeat"))
	default:
		m.senderID = leaderSeats[0]
	}
	switch rapid.IntRange(0, 11).Draw(t, "window") {
	case 0:
		m.block = s.block + 900
	case 1:
		m.block = s.block - 900
	case 2:
		m.block = s.block + uint64(rapid.SampledFrom([]int{1, 80, 100}).Draw(t, "blockShift"))
	}
	if rapid.IntRange(0, 11).Draw(t, "walletHash") == 0 {
		m.pkh[rapid.IntRange(0, 19).Draw(t, "pkhByte")] ^= 1 << uint(rapid.IntRange(0, 7).Draw(t, "pkhBit"))
	}
	// action: mostly an allowed one (the leader errs more often, so that
	// histories get past its own messages)
	if c := rapid.IntRange(0, 3).Draw(t, "actionClass"); c > 1 || c == 1 && m.sender != s.leader {
		m.action = rapid.SampledFrom(s.allowed).Draw(t, "allowedAction")
	} else {
		m.action = rapid.SampledFrom(c24AllActions).Draw(t, "anyAction")
	}
	m.proposal = c24NewProposal(t, m.action)
	m.foreign = rapid.IntRange(0, 15).Draw(t, "type") == 0
	return m
}

type c24Fault struct {
	culprit chain.Address
	kind    CoordinationFaultType
}

// c24Model is the follower of the property statement. It returns the index of
// the accepted message (-1 if none) and the faults recorded up to there.
func c24Model(s *c24Scenario, history []*c24Msg) (int, []c24Fault) {
	// the leader's lowest member index
	leaderID := group.MemberIndex(0)
	for i, o := range s.seatOwner {
		if o == s.leader {
			leaderID = group.MemberIndex(i + 1)
			break
		}
	}
	var faults []c24Fault
	for i, m := range history {
		switch {
		case m.foreign:
			m.why = "foreign-type"
		case func() bool {
			for _, id := range s.followerSeats {
				if id == m.senderID {
					return true
				}
			}
			return false
		}():
			m.why = "own-seat"
		case int(m.senderID) < 1 || int(m.senderID) > len(s.seatOwner) || s.seatOwner[m.senderID-1] != m.sender:
			m.why = "invalid-membership"
		case m.block != s.block:
			m.why = "other-window"
		case m.pkh != s.pkh:
			m.why = "other-wallet"
		case m.senderID != leaderID:
			m.why = "impersonation"
			faults = append(faults, c24Fault{m.sender.address, FaultLeaderImpersonation})
		case !c24Has(s.allowed, m.action):
			m.why = "mistake"
			faults = append(faults, c24Fault{s.leader.address, FaultLeaderMistake})
		default:
			m.why = "ACCEPT"
			return i, faults
		}
	}
	return -1, append(faults, c24Fault{s.leader.address, FaultLeaderIdleness})
}

func c24FaultKey(culprit chain.Address, kind CoordinationFaultType, s *c24Scenario) string {
	name := "?" + string(culprit)
	for _, o := range append(append([]*c24Operator{}, s.members...), s.outsiders...) {
		if o.address == culprit {
			name = o.name
		}
	}
	return kind.String() + ":" + name
}

func c24SameFaults(s *c24Scenario, got []*coordinationFault, want []c24Fault) (string, string, bool) {
	var g, w []string
	for _, f := range got {
		g = append(g, c24FaultKey(f.culprit, f.faultType, s))
	}
	for _, f := range want {
		w = append(w, c24FaultKey(f.culprit, f.kind, s))
	}
	sort.Strings(g)
	sort.Strings(w)
	gs, ws := strings.Join(g, " "), strings.Join(w, " ")
	return gs, ws, gs == ws
}

func (s *c24Scenario) render(history []*c24Msg) string {
	var sb strings.Builder
	for i, o := range s.seatOwner {
		if i > 0 {
			sb.WriteByte(' ')
		}
		sb.WriteString(o.name)
	}
	fmt.Fprintf(&sb, " L=%s F=%s allowed=%v |", s.leader.name, s.follower.name, s.allowed)
	for _, m := range history {
		fmt.Fprintf(&sb, " %s#%d", m.sender.name, m.senderID)
		if m.block != s.block {
			sb.WriteString("/win")
		}
		if m.pkh != s.pkh {
			sb.WriteString("/wal")
		}
		if m.foreign {
			sb.WriteString("/typ")
		}
		fmt.Fprintf(&sb, ":%s", m.action)
	}
	return sb.String()
}

func c24Inconclusive(t *rapid.T, why string) {
	fmt.Println("VERIF-INCONCLUSIVE: " + why)
	t.Fatalf("VERIF-INCONCLUSIVE: %s", why)
}

func (m *c24Msg) netMessage(seq int, consumed *atomic.Int64) *c24NetMessage {
	var payload interface{} = &coordinationMessage{
		senderID:            m.senderID,
		coordinationBlock:   m.block,
		walletPublicKeyHash: m.pkh,
		proposal:            m.proposal,
	}
	if m.foreign {
		payload = &signingDoneMessage{senderID: m.senderID, message: big.NewInt(1), attemptNumber: 1, endBlock: m.block}
	}
	return &c24NetMessage{senderKey: m.sender.pubKey, payload: payload, seqno: uint64(seq), consumed: consumed}
}

type c24Outcome struct {
	proposal CoordinationProposal
	faults   []*coordinationFault
	err      error
}

// c24Feed delivers the history followed by a sentinel (a message of another
// type, outside the judged history). The follower takes messages from its
// buffer one at a time, so once it asks for the sentinel's payload it has
// finished every message of the history without returning: only then - and
// never on a clock - the harness ends the active phase.
func c24Feed(t *rapid.T, ch *c24Channel, s *c24Scenario, history []*c24Msg, done <-chan c24Outcome, endPhase func()) (c24Outcome, bool) {
	if !verifkit.Eventually(30*time.Second, func() bool { return ch.registered() >= 1 }) {
		endPhase()
		c24Inconclusive(t, "follower did not install its receive handler within 30s")
	}
	var consumed atomic.Int64
	for i, m := range history {
		ch.deliver(m.netMessage(i, &consumed))
	}
	sentinel := &c24Msg{sender: s.outsiders[0], senderID: 1, block: s.block, pkh: s.pkh, foreign: true}
	ch.deliver(sentinel.netMessage(len(history), &consumed))
	var out c24Outcome
	returned := false
	verifkit.Eventually(30*time.Second, func() bool {
		select {
		case out = <-done:
			returned = true
			return true
		default:
		}
		return int(consumed.Load()) > len(history)
	})
	if returned {
		return out, false
	}
	if int(consumed.Load()) <= len(history) {
		endPhase()
		c24Inconclusive(t, fmt.Sprintf("follower took %d of %d messages within 30s", consumed.Load(), len(history)+1))
	}
	endPhase()
	select {
	case out = <-done:
		return out, true
	case <-time.After(30 * time.Second):
		c24Inconclusive(t, "follower did not return within 30s after the end of the active phase")
	}
	return out, true
}

func c24Judge(t *rapid.T, s *c24Scenario, history []*c24Msg, out c24Outcome) (int, []c24Fault) {
	accepted, faults := c24Model(s, history)
	got, want, same := c24SameFaults(s, out.faults, faults)
	if accepted >= 0 {
		if out.err != nil {
			t.Fatalf("message %d is the leader's valid proposal but the follower failed: %v\n%s", accepted, out.err, s.render(history))
		}
		if out.proposal != history[accepted].proposal {
			t.Fatalf("follower returned proposal %T %v, expected the one of message %d (%s)\n%s", out.proposal, out.proposal, accepted, history[accepted].action, s.render(history))
		}
	} else {
		if out.err == nil || out.proposal != nil {
			t.Fatalf("no message qualifies but the follower returned proposal %v (err %v)\n%s", out.proposal, out.err, s.render(history))
		}
	}
	if !same {
		t.Fatalf("faults [%s], expected [%s]\n%s", got, want, s.render(history))
	}
	return accepted, faults
}

func c24Labels(history []*c24Msg, accepted int, faults []c24Fault) (bool, []string) {
	labels := []string{fmt.Sprintf("accepted:%v", accepted >= 0)}
	imp := 0
	kinds := map[string]bool{}
	for _, f := range faults {
		if f.kind == FaultLeaderImpersonation {
			imp++
		}
	}
	upTo := len(history)
	if accepted >= 0 {
		upTo = accepted + 1
	}
	for _, m := range history[:upTo] {
		kinds["msg:"+m.why] = true
	}
	for k := range kinds {
		labels = append(labels, k)
	}
	sort.Strings(labels)
	labels = append(labels, fmt.Sprintf("impersonations:%d", min(imp, 3)))
	return accepted >= 0 && imp >= 1, labels
}

// ---------------------------------------------------------------------------
// the follower routine over generated message histories

func TestVerif_C24_FollowerRoutine(t *testing.T) {
	st := verifkit.New("C24", "TestVerif_C24_FollowerRoutine")
	defer st.Flush()
	world := c24NewWorld(t)
	rapid.Check(t, func(t *rapid.T) {
		s := c24GenScenario(t, world, true)
		n := rapid.SampledFrom([]int{0, 1, 2, 3, 4, 5, 6, 7, 8, 9, 10, 12, 14, 20}).Draw(t, "messages")
		history := make([]*c24Msg, n)
		for i := range history {
			history[i] = c24GenMessage(t, s)
		}
		// usually the leader does send its proposal somewhere in the history
		if rapid.IntRange(0, 2).Draw(t, "leaderSpeaks") > 0 {
			m := &c24Msg{sender: s.leader, senderID: s.seatsOf(s.leader)[0], block: s.block, pkh: s.pkh}
			m.action = rapid.SampledFrom(s.allowed).Draw(t, "leaderAction")
			m.proposal = c24NewProposal(t, m.action)
			at := rapid.IntRange(len(history)/2, len(history)).Draw(t, "leaderAt")
			history = append(history[:at], append([]*c24Msg{m}, history[at:]...)...)
		}

		channel := &c24Channel{}
		ce := &coordinationExecutor{
			chain:             world.chain,
			coordinatedWallet: s.wallet,
			membersIndexes:    s.followerSeats,
			operatorAddress:   s.follower.address,
			broadcastChannel:  channel,
			membershipValidator: group.NewMembershipValidator(
				&testutils.MockLogger{}, s.wallet.signingGroupOperators, world.chain.Signing(),
			),
		}
		ctx, cancel := context.WithCancel(context.Background())
		defer cancel()
		done := make(chan c24Outcome, 1)
		go func() {
			p, f, err := ce.executeFollowerRoutine(ctx, s.leader.address, s.block, append([]WalletActionType{}, s.allowed...))
			done <- c24Outcome{p, f, err}
		}()
		out, phaseEnded := c24Feed(t, channel, s, history, done, cancel)
		accepted, faults := c24Judge(t, s, history, out)
		nt, labels := c24Labels(history, accepted, faults)
		st.Case(nt, s.render(history), append(labels, fmt.Sprintf("phase-ended:%v", phaseEnded))...)
	})
}

// ---------------------------------------------------------------------------
// the same through coordinate(): the active phase is bounded by the window's
// block 80, the allowed actions are the window's checklist plus no-op.

func TestVerif_C24_CoordinateAsFollower(t *testing.T) {
	st := verifkit.New("C24", "TestVerif_C24_CoordinateAsFollower")
	defer st.Flush()
	world := c24NewWorld(t)
	rapid.Check(t, func(t *rapid.T) {
		s := c24GenScenario(t, world, false)
		if rapid.Bool().Draw(t, "fourthWindow") {
			s.block = s.block / 900 * 4 * 900
		}
		var hash [32]byte
		copy(hash[:], rapid.SliceOfN(rapid.Byte(), 32, 32).Draw(t, "safeBlockHash"))
		world.chain.setBlockHashByNumber(s.block-32, hex.EncodeToString(hash[:]))

		// who leads and what may be proposed follows from the seed (C22); the
		// follower is any other operator of the wallet.
		probe := &coordinationExecutor{chain: world.chain, coordinatedWallet: s.wallet}
		seed, err := probe.getSeed(s.block)
		if err != nil {
			t.Fatalf("getSeed: %v", err)
		}
		leaderAddr := probe.getLeader(seed)
		var rest []*c24Operator
		for _, o := range s.members {
			if o.address == leaderAddr {
				s.leader = o
			} else {
				rest = append(rest, o)
			}
		}
		if s.leader == nil {
			t.Fatalf("leader %s is not a wallet operator", leaderAddr)
		}
		s.follower = rapid.SampledFrom(rest).Draw(t, "follower")
		s.followerSeats = s.seatsOf(s.follower)
		s.allowed = append(append([]WalletActionType{}, probe.getActionsChecklist(s.block/900, seed)...), ActionNoop)

		n := rapid.SampledFrom([]int{0, 1, 2, 3, 4, 5, 6, 7, 8, 9, 10, 12}).Draw(t, "messages")
		history := make([]*c24Msg, n)
		for i := range history {
			history[i] = c24GenMessage(t, s)
		}
		if rapid.IntRange(0, 2).Draw(t, "leaderSpeaks") > 0 {
			m := &c24Msg{sender: s.leader, senderID: s.seatsOf(s.leader)[0], block: s.block, pkh: s.pkh}
			m.action = rapid.SampledFrom(c24AllActions).Draw(t, "leaderAction")
			m.proposal = c24NewProposal(t, m.action)
			at := rapid.IntRange(0, len(history)).Draw(t, "leaderAt")
			history = append(history[:at], append([]*c24Msg{m}, history[at:]...)...)
		}

		// block waiter: remembers the height asked for, fires when released
		release := make(chan struct{})
		var releaseOnce sync.Once
		endPhase := func() { releaseOnce.Do(func() { close(release) }) }
		defer endPhase()
		var waitedFor atomic.Uint64
		waitFn := func(ctx context.Context, height uint64) error {
			waitedFor.Store(height)
			select {
			case <-release:
			case <-ctx.Done():
			}
			return nil
		}

		channel := &c24Channel{}
		ce := newCoordinationExecutor(
			world.chain, s.wallet, s.followerSeats, s.follower.address, nil, channel,
			group.NewMembershipValidator(&testutils.MockLogger{}, s.wallet.signingGroupOperators, world.chain.Signing()),
			generator.NewProtocolLatch(), waitFn,
		)
		type coordOut struct {
			res *coordinationResult
			err error
		}
		done := make(chan c24Outcome, 1)
		full := make(chan coordOut, 1)
		go func() {
			res, err := ce.coordinate(newCoordinationWindow(s.block))
			full <- coordOut{res, err}
			o := c24Outcome{err: err}
			if res != nil {
				o.proposal, o.faults = res.proposal, res.faults
			}
			done <- o
		}()
		out, _ := c24Feed(t, channel, s, history, done, endPhase)
		co := <-full

		accepted, modelFaults := c24Model(s, history)
		if accepted >= 0 {
			if co.err != nil || co.res == nil {
				t.Fatalf("message %d is the leader's valid proposal but coordination failed: %v\n%s", accepted, co.err, s.render(history))
			}
			if co.res.leader != s.leader.address {
				t.Fatalf("result names leader %s, expected %s", co.res.leader, s.leader.address)
			}
			c24Judge(t, s, history, out)
		} else {
			// coordinate() reports a silent leader as an error (the faults of
			// the follower routine are not part of that result)
			if co.err == nil {
				t.Fatalf("no message qualifies but coordination returned %v\n%s", co.res, s.render(history))
			}
		}
		// the block waiter is started in its own goroutine
		if !verifkit.Eventually(30*time.Second, func() bool { return waitedFor.Load() != 0 }) {
			c24Inconclusive(t, "the block waiter of the active phase was not called within 30s")
		}
		if got := waitedFor.Load(); got != s.block+80 {
			t.Fatalf("active phase of window %d bounded by block %d, expected %d", s.block, got, s.block+80)
		}
		nt, labels := c24Labels(history, accepted, modelFaults)
		labels = append(labels, fmt.Sprintf("allowed:%d", len(s.allowed)))
		st.Case(nt, s.render(history), labels...)
	})
}
